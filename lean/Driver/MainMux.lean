/-
  driver_mux (property C12): the Lean side of harness/cmd/harness-mux. One line out per line in:

    # ...                                             -> skip
    mux scenario <transport> <seed> <stopmid> <clients> [shared=<r>] [buf=<n>]
        -> expect mode=<exact|pref|subseq> conns=<C> msgs=<total> holders=<h> nconn=<h|any> nconnstop=0
                  stopms<=2000 afterstop=0 grem=0 g1<=g0 rebind=1 race=0 [shared=<r>] model=<delivered>/<verdict of the spec on the model's run>
        the canonical summary of what MUST hold in that scenario, plus the model (Model/Mux.lean) run under the
        fair round-robin schedule and judged by the same predicate
    mux facts
        -> ok accesses=<n> from-roots=<n> guarded=<n> owner-reads=<n> unguarded=<file:line:unit:field:kind,...> roots=<n> deadline-calls=<n>
        summary of Generated/LocksCollector.lean (what the lock-discipline theorems speak about)
    chk mux scenario <...> | obs order=<c:s,c:s,...|-> bad=<n> nconn=<n> nconnstop=<n> stopms=<n> afterstop=<n>
                                 g0=<n> g1=<n> grem=<n> rebind=<0|1> ownsock=<0|1> race=<0|1> [further tokens ignored]
        -> holds | fails <why>        Ipfix.C12.holdsOn on the IMPLEMENTATION's observation

    <transport> tcp | udp | tls
    <stopmid>   - | <k>          Stop() is called once k messages have been delivered
    <clients>   comma-separated <n><b>: n complete messages (sequence numbers 0..n-1, 0 = template), then
                b = c (close) | a (half a message, then close) | i (stay connected, silent) | h (half a message, stay connected)
                or <n>w<ms> (1 <= ms <= 30000): a slow session - n complete messages with an idle pause of <ms> milliseconds
                after the first max(1, n/2) of them, then close. The model has no clock: what is demanded is what is
                demanded of an ordinary closing client `<n>c` (the collector arms no deadline, Props/C12
                tie_collector_arms_no_deadline).
                client i (0-based) is connection / observation domain i+1
    shared=<r>  r >= 1: all clients export in observation domain 1 / template 256 and re-send the template as every
                r-th message; client i is still connection i+1 (the harness attributes deliveries by the client number
                the messages carry). The expectation is the same as without it.
    buf=<n>     n in {0, 512, 1024, 65535} (udp: 65535 only): CollectorInput.MaxBufferSize of the collector under test. It
                sizes the UDP receive buffer and nothing else; accepted and IGNORED here - over TCP/TLS what must be
                delivered does not depend on it. The two options may come in either order, each at most once.

  Core-only imports.
-/
import IpfixModel.Spec.C12
open Ipfix.Mux Ipfix.C12

namespace DriverMux

def fields (line : String) : List String := (line.splitOn " ").filter (· ≠ "")

def splitBar (a : List String) : List String × List String :=
  (a.takeWhile (· ≠ "|"), (a.dropWhile (· ≠ "|")).drop 1)

def parseClient (t : String) : Option Client :=
  if t.length < 2 then none else
  if t.contains 'w' then
    -- <n>w<ms>: a slow session is an ordinary closing client
    match t.splitOn "w" with
    | [n, ms] => do
      let n ← n.toNat?
      let ms ← ms.toNat?
      if 1 ≤ ms ∧ ms ≤ 30000 then some ⟨n, .close⟩ else none
    | _ => none
  else
  let b := (t.drop (t.length - 1)).toString
  match (t.take (t.length - 1)).toNat? with
  | none => none
  | some n =>
    if b == "c" then some ⟨n, .close⟩
    else if b == "a" then some ⟨n, .abrupt⟩
    else if b == "i" then some ⟨n, .idle⟩
    else if b == "h" then some ⟨n, .half⟩
    else if b == "s" then some ⟨n, .stall⟩
    else none

def parseShared (t : String) : Option Nat :=
  if t.startsWith "shared=" then
    match (t.drop 7).toNat? with
    | some r => if 1 ≤ r ∧ r ≤ 65535 then some r else none
    | none => none
  else none

/-- `buf=<n>`: accepted (the values the harness accepts; over udp the default only), carries no meaning here -/
def isBufOption (transport t : String) : Bool :=
  t.startsWith "buf=" &&
    (match (t.drop 4).toNat? with
     | some n => (n == 0 || n == 512 || n == 1024 || n == 65535) && (transport != "udp" || n == 65535)
     | none => false)

def parseScenario (a : List String) : Option Scenario :=
  match a with
  | [t, seed, sm, cl, o1, o2] =>
    -- two options: one is buf=, the other shared=
    if isBufOption t o2 && !o1.startsWith "buf=" then parseScenario [t, seed, sm, cl, o1]
    else if isBufOption t o1 && !o2.startsWith "buf=" then parseScenario [t, seed, sm, cl, o2]
    else none
  | [t, seed, sm, cl, sh] =>
    if sh.startsWith "buf=" then (if isBufOption t sh then parseScenario [t, seed, sm, cl] else none) else do
    let r ← parseShared sh
    let sc ← parseScenario [t, seed, sm, cl]
    if sc.clients.any (fun c => c.n > 65535) then none else
    pure { sc with shared := r }
  | [t, seed, sm, cl] => do
    let t ← if t == "tcp" then some Transport.tcp else if t == "udp" then some .udp else if t == "tls" then some .tls else none
    let seed ← seed.toNat?
    let sm ← if sm == "-" then some none else sm.toNat?.map some
    let cls ← (cl.splitOn ",").mapM parseClient
    if cls.isEmpty then none else
    pure { transport := t, seed := seed, stopMid := sm, clients := cls }
  | _ => none

def kv (toks : List String) (k : String) : Option String :=
  (toks.find? (fun t => t.startsWith (k ++ "="))).map (fun t => (t.drop (k.length + 1)).toString)

def kvNat (toks : List String) (k : String) : Option Nat := (kv toks k).bind String.toNat?

def kvBool (toks : List String) (k : String) : Option Bool :=
  match kv toks k with
  | some "0" => some false
  | some "1" => some true
  | _ => none

def parsePair (t : String) : Option (ConnId × Msg) :=
  match t.splitOn ":" with
  | [c, m] => do pure ((← c.toNat?), (← m.toNat?))
  | _ => none

def parseOrder (t : String) : Option (List (ConnId × Msg)) :=
  if t == "-" || t == "" then some [] else (t.splitOn ",").mapM parsePair

def parseObs (toks : List String) : Option Obs :=
  match toks with
  | "obs" :: r => do
    let order ← (kv r "order").bind parseOrder
    pure { order := order, badPayload := (← kvNat r "bad"), nconn := (← kvNat r "nconn"), nconnStop := (← kvNat r "nconnstop"),
           stopMs := (← kvNat r "stopms"), afterStop := (← kvNat r "afterstop"), g0 := (← kvNat r "g0"), g1 := (← kvNat r "g1"),
           grem := (← kvNat r "grem"), rebind := (← kvBool r "rebind"), ownSock := (← kvBool r "ownsock"), race := (← kvBool r "race") }
  | _ => none

def showMode : Mode → String
  | .exact => "exact"
  | .pref => "pref"
  | .subseq => "subseq"

def total (sc : Scenario) : Nat := (sc.clients.map (·.n)).foldl (· + ·) 0

/-- the model under the fair schedule (everything is read and handed over, everybody closes, stop), judged by the spec -/
def modelRun (sc : Scenario) : String :=
  if total sc > 3000 then "skipped" else
  let conns := sc.sent
  let rounds := (sc.clients.map (·.n)).foldl max 0
  let s := run (sc.transport == .udp) (init conns) (roundRobin (keys conns) rounds)
  let v := match fifoWhyOn sc.mode conns s.delivered with
    | none => if s.live.isEmpty && s.stopped && quiescent s then "holds" else "not-quiescent"
    | some why => "fails-" ++ why
  s!"{s.delivered.length}/{v}"

def opScenario (a : List String) : String :=
  match parseScenario a with
  | none => "bad-op"
  | some sc =>
    let nconn := if sc.transport != .udp && sc.stopMid.isNone then toString sc.holders else "any"
    s!"expect mode={showMode sc.mode} conns={sc.clients.length} msgs={total sc} holders={sc.holders} nconn={nconn} nconnstop=0 " ++
    s!"stopms<={stopBoundMs} afterstop=0 grem=0 g1<=g0 rebind=1 race=0 " ++
    (if sc.shared != 0 then s!"shared={sc.shared} " else "") ++ s!"model={modelRun sc}"

def opFacts : String :=
  let A := Generated.LocksCollector.accesses
  let fr := A.filter Locks.fromRoot
  let g := fr.filter Locks.guarded
  let o := fr.filter (fun a => !Locks.guarded a && Locks.ownerRead a)
  let u := Locks.unguarded.map Locks.showSite
  s!"ok accesses={A.length} from-roots={fr.length} guarded={g.length} owner-reads={o.length} " ++
  s!"unguarded={if u.isEmpty then "-" else ",".intercalate u} roots={Generated.LocksCollector.roots.length} " ++
  s!"deadline-calls={Generated.LocksCollector.deadlineCalls.length}"

def chkScenario (a : List String) : String :=
  let (op, obs) := splitBar a
  match parseScenario op with
  | none => "bad-op"
  | some sc =>
    match parseObs obs with
    | none => "fails malformed-observation"
    | some o =>
      match holdsOn sc o with
      | .holds => "holds"
      | .fails why => "fails " ++ why

def dispatch (line : String) : String :=
  match fields line with
  | [] => "skip"
  | e :: args =>
    if e.startsWith "#" then "skip"
    else if e == "mux" then
      match args with
      | "scenario" :: rest => opScenario rest
      | ["facts"] => opFacts
      | _ => "bad-op"
    else if e == "chk" then
      match args with
      | "mux" :: "scenario" :: rest => chkScenario rest
      | _ => "na"
    else "bad-op"

end DriverMux

partial def loop (h : IO.FS.Stream) (out : IO.FS.Stream) : IO Unit := do
  let line ← h.getLine
  if line.isEmpty then return ()
  out.putStrLn (DriverMux.dispatch (line.trimRight))
  loop h out

def main : IO Unit := do
  let stdin ← IO.getStdin
  let stdout ← IO.getStdout
  loop stdin stdout
