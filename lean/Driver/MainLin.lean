/-
  Line-protocol driver for the linearizability check of the aggregation process (property C13).
  Core-only imports. Counterpart of harness/cmd/harness-lin.

  multi-line form (one op per line)                                      observation
    lin new <A> <I>                                                        ok      fresh model state (timeouts in virtual ms), empty history
    lin seq <op tokens...>                                                 the model's observation of ONE operation applied to the
                                                                           current state (sequential mode: prefixes, stress serialisations)
    lin ev <opid> inv <thread> <stamp> <op tokens...>                      ok      record an invocation
    lin ev <opid> res <stamp> <observation tokens...>                      ok      record the response
    lin final flows <dump> queue <k/active/inactive,...|->                 ok      the state observed after the concurrent phase
    lin check                                                              linearizable <witness order> | not-linearizable <why>
    # ...                                                                  skip    (start of a new case: everything is reset)

  one-line form (what check.py's replay and the generator use): the harness's input line and its answer
    chk lin small <A> <I> <W> <seed> <procs> seq <op> ; <op> ... @@ par <thread ops> @ ... | hist <ev> ; <ev> ; ... ; final flows .. queue ..
        -> holds | fails <why>
    chk lin <small|stress> ... | crash rc=<n> kind=<data-race|runtime-fatal|hang|exit> <report>   -> fails <kind>
    lin stress <A> <I> <W> <seed> <procs> <segments>                       the model run on ONE serialisation: stress ok nexports=<n> final ...
    chk lin stress ... | <harness answer>                                  -> holds | fails stress-assertion|stress-exports|stress-final-state

  <op tokens>   rec <key> <flowType> <corr> <start> <end> <reason> <tcpHex> <stats>   -> ok | err
                scan <failkeys|-> <reset 0|1>                                          -> cb <k>=<dump>;...|- <ok|fail>
                nflows                                                                 -> <n>
                expiry                                                                 -> <ms>
                dump                                                                   -> <k>=<dump>;...|-
                adv <ms>      (sequential mode only: the virtual clock)                -> ok
                final         (sequential mode only)                                   -> final flows <dump> queue <...>
  The initial state of a history is the model state reached by the `lin seq` lines before it.
-/
import Driver.Proto
import Driver.EngAgg
import IpfixModel.Model.Atomic
import IpfixModel.Spec.C13
open Driver Ipfix Ipfix.Agg Ipfix.Atomic Ipfix.C13

namespace DriverLin

def parseAggRec (d : String) : Option AggRec :=
  let f := d.splitOn "/"
  if f.length != 17 then none
  else do
    let ft ← (f.getD 0 "").toNat?
    let c ← parseCorr (f.getD 1 "")
    let st ← (f.getD 2 "").toNat?
    let en ← (f.getD 3 "").toNat?
    let reason ← (f.getD 4 "").toNat?
    let tcp ← fromHex (f.getD 5 "")
    let stats ← parseNats (f.getD 6 "")
    let sr ← parseNats (f.getD 7 "")
    let ds ← parseNats (f.getD 8 "")
    let es ← (f.getD 9 "").toNat?
    let ed ← (f.getD 10 "").toNat?
    let t ← parseNats (f.getD 11 "")
    let ts ← parseNats (f.getD 12 "")
    let td ← parseNats (f.getD 13 "")
    let retries ← (f.getD 15 "").toNat?
    pure { flowType := ft, corr := c, start := st, end_ := en, endReason := reason, tcpState := tcp, stats := stats,
           srcStats := sr, dstStats := ds, endSrc := es, endDst := ed, thr := t, thrSrc := ts, thrDst := td,
           ready := f.getD 14 "" == "1", retries := retries, corrFilled := f.getD 16 "" == "1" }

def parseKeyed (tok : String) : Option (Nat × AggRec) :=
  match tok.splitOn "=" with
  | [k, d] => do pure (← k.toNat?, ← parseAggRec d)
  | _ => none

def parseKeyedList (tok : String) : Option (List (Nat × AggRec)) :=
  if tok == "-" then some [] else (tok.splitOn ";").mapM parseKeyed

def showKeyedList (l : List (Nat × AggRec)) : String :=
  joinOr ";" (l.map fun (k, a) => s!"{k}={aggDump a}")

def parseQueue (tok : String) : Option (List (Nat × Nat × Nat)) :=
  if tok == "-" then some []
  else (tok.splitOn ",").mapM fun t =>
    match t.splitOn "/" with
    | [k, a, i] => do pure (← k.toNat?, ← a.toNat?, ← i.toNat?)
    | _ => none

def showFinal (f : Final) : String :=
  s!"final flows {showKeyedList f.flows} queue {joinOr "," (f.queue.map fun (k, a, i) => s!"{k}/{a}/{i}")}"

def parseFinal (a : List String) : Option Final :=
  match a with
  | ["final", "flows", d, "queue", q] => do pure { flows := ← parseKeyedList d, queue := ← parseQueue q }
  | _ => none

def parseLOp (a : List String) : Option LOp :=
  match a with
  | "rec" :: rest => (parseRec rest).map .ingest
  | ["scan", fails, reset] =>
    let fl : Option (List Nat) := if fails == "-" then some [] else (fails.splitOn ",").mapM (·.toNat?)
    fl.map fun f => .scan f (reset == "1")
  | ["nflows"] => some .numFlows
  | ["expiry"] => some .getExpiry
  | ["dump"] => some .dump
  | _ => none

def parseObs (op : LOp) (o : List String) : Obs :=
  match op, o with
  | .ingest _, ["ok"] => .ack
  | .ingest _, ["err"] => .refused
  | .scan _ _, ["cb", cbs, res] =>
    match parseKeyedList cbs with
    | some l => if res == "ok" then .scanned l false else if res == "fail" then .scanned l true else .other
    | none => .other
  | .numFlows, [n] => match n.toNat? with | some n => .num n | none => .other
  | .getExpiry, [n] => match n.toNat? with | some n => .expiry n | none => .other
  | .dump, [d] => match parseKeyedList d with | some l => .dump l | none => .other
  | _, _ => .other

def showObs : Obs → String
  | .ack => "ok"
  | .refused => "err"
  | .scanned cbs failed => s!"cb {showKeyedList cbs} {if failed then "fail" else "ok"}"
  | .num n => toString n
  | .expiry n => toString n
  | .dump l => showKeyedList l
  | .other => "other"

structure Pending where
  id : Nat
  thread : Nat
  inv : Nat
  op : LOp

structure St where
  model : Agg.State := {}
  pending : List Pending := []
  hist : List (HEvent LOp Obs) := []
  final : Option Final := none
  bad : Option String := none

/-- one operation in sequential mode -/
def seqOp (st : St) (a : List String) : St × String :=
  match a with
  | ["adv", d] =>
    match d.toNat? with
    | some d => ({ st with model := { st.model with now := st.model.now + d } }, "ok")
    | none => (st, "bad-op")
  | ["final"] => (st, showFinal (finalOf st.model))
  | _ =>
    match parseLOp a with
    | some op =>
      let r := spec st.model op
      ({ st with model := r.1 }, showObs r.2)
    | none => (st, "bad-op")

def recordEv (st : St) (a : List String) : St × String :=
  match a with
  | id :: "inv" :: th :: stamp :: opToks =>
    match id.toNat?, th.toNat?, stamp.toNat?, parseLOp opToks with
    | some id, some th, some stamp, some op =>
      ({ st with pending := { id := id, thread := th, inv := stamp, op := op } :: st.pending }, "ok")
    | _, _, _, _ => ({ st with bad := some "unparsable-invocation" }, "bad-op")
  | id :: "res" :: stamp :: obsToks =>
    match id.toNat?, stamp.toNat? with
    | some id, some stamp =>
      match st.pending.find? (·.id == id) with
      | some p =>
        ({ st with pending := st.pending.filter (·.id != id),
                   hist := st.hist ++ [{ id := id, thread := p.thread, op := p.op, out := parseObs p.op obsToks, inv := p.inv, res := stamp }] }, "ok")
      | none => ({ st with bad := some "response-without-invocation" }, "bad-op")
    | _, _ => ({ st with bad := some "unparsable-response" }, "bad-op")
  | _ => ({ st with bad := some "unparsable-event" }, "bad-op")

/-- (linearizable?, detail) -/
def verdict (st : St) : Bool × String :=
  match st.bad with
  | some why => (false, why)
  | none =>
    if !st.pending.isEmpty then (false, "operation-without-response")
    else if st.hist.length > 10 then (false, "history-too-long")
    else
      match st.hist.find? (fun h => h.out == Obs.other) with
      | some h => (false, s!"unparsable-observation op={h.id}")
      | none =>
        match st.hist.find? (fun h => match h.out with | .scanned cbs _ => !noDoubleExport cbs | _ => false) with
        | some h => (false, s!"double-export-within-scan op={h.id}")
        | none =>
          if holdsHistory st.model st.hist st.final then
            (true, " ".intercalate (((witness st.model st.hist st.final).getD []).map toString))
          else if holdsHistory st.model st.hist none then (false, s!"final-state ops={st.hist.length}")
          else (false, s!"responses ops={st.hist.length}")

/-- split a token list at a separator token -/
def splitAt (sep : String) (l : List String) : List (List String) :=
  let r := l.foldl (fun (acc : List (List String) × List String) t =>
    if t == sep then (acc.1 ++ [acc.2], []) else (acc.1, acc.2 ++ [t])) ([], [])
  r.1 ++ [r.2]

/-- `chk lin small <A> <I> <W> <seed> <procs> <segments> | hist <events>` -/
def chkSmall (inp obs : List String) : String :=
  match inp with
  | a :: i :: _w :: _seed :: _procs :: segs =>
    match a.toNat?, i.toNat? with
    | some a, some i =>
      let st0 : St := { model := { activeT := a, inactiveT := i } }
      -- sequential segments build the initial state; the concurrent segment is taken from the recorded events
      let st1 := (splitAt "@@" segs).foldl (fun st seg =>
        match seg with
        | "seq" :: ops => (splitAt ";" ops).foldl (fun st op => if op.isEmpty then st else (seqOp st op).1) st
        | _ => st) st0
      match obs with
      | "hist" :: evs =>
        let st2 := (splitAt ";" evs).foldl (fun st ev =>
          match ev with
          | [] => st
          | "final" :: _ =>
            match parseFinal ev with
            | some f => { st with final := some f }
            | none => { st with bad := some "unparsable-final" }
          | _ => (recordEv st ev).1) st1
        let (ok, why) := verdict st2
        if ok then "holds" else s!"fails not-linearizable {why}"
      | _ => "fails no-history " ++ " ".intercalate (obs.take 3)
    | _, _ => "bad-op"
  | _ => "bad-op"

/-- `lin stress <A> <I> <W> <seed> <procs> <segments>`: the model run on ONE serialisation of the
    workload - per concurrent phase: one scan (the flag of the phase's scan ops), then every
    goroutine's records in thread order, the shared records in ticket order, the pool's records.
    By `serialisation_independent` every serialisation that keeps the per-key order gives the same
    flows; the queue set and the number of exports are order-independent because the clock is frozen
    within a phase (see gen/c13.py). Prints what the harness prints on a healthy run. -/
def stressModel (inp : List String) : String :=
  match inp with
  | a :: i :: _w :: _seed :: _procs :: segs =>
    match a.toNat?, i.toNat? with
    | some a, some i =>
      let st0 : St := { model := { activeT := a, inactiveT := i } }
      let count (o : Obs) : Nat := match o with | .scanned cbs _ => cbs.length | _ => 0
      let applyOp (acc : St × Nat) (op : List String) : St × Nat :=
        match op with
        | [] => acc
        | ["adv", _] => ((seqOp acc.1 op).1, acc.2)
        | _ =>
          match parseLOp op with
          | some l =>
            let r := spec acc.1.model l
            ({ acc.1 with model := r.1 }, acc.2 + count r.2)
          | none => acc
      let r := (splitAt "@@" segs).foldl (fun (acc : St × Nat) seg =>
        match seg with
        | "seq" :: ops => (splitAt ";" ops).foldl applyOp acc
        | "par" :: ths =>
          let threads := (splitAt "@" ths).map fun t => (t.headD "", splitAt ";" (t.drop 1))
          let gops := (threads.filter (·.1 == "g")).flatMap (·.2)
          let scan1 := (gops.find? (fun o => o.headD "" == "scan")).toList
          let recs := gops.filter (fun o => o.headD "" == "rec")
          let shared := (threads.filter (·.1 == "shared")).flatMap (·.2)
          let pool := ((threads.filter (·.1 == "pool")).flatMap (·.2)).flatMap (splitAt "+")
          (scan1 ++ recs ++ shared ++ pool).foldl applyOp acc
        | _ => acc) (st0, 0)
      s!"stress ok nexports={r.2} {showFinal (finalOf r.1.model)}"
    | _, _ => "bad-op"
  | _ => "bad-op"

def dispatch (st : St) (line : String) : St × String :=
  match fields line with
  | [] => (st, "skip")
  | e :: args =>
    if e.startsWith "#" then ({}, "skip")
    else if e == "lin" then
      match args with
      | ["new", a, i] =>
        match a.toNat?, i.toNat? with
        | some a, some i => ({ model := { activeT := a, inactiveT := i } }, "ok")
        | _, _ => (st, "bad-op")
      | "seq" :: rest => seqOp st rest
      | "ev" :: rest => recordEv st rest
      | "final" :: _ =>
        match parseFinal args with
        | some f => ({ st with final := some f }, "ok")
        | none => ({ st with bad := some "unparsable-final" }, "bad-op")
      | ["check"] =>
        let (ok, why) := verdict st
        (st, if ok then s!"linearizable {why}" else s!"not-linearizable {why}")
      | "small" :: _ => (st, "model-has-no-schedule")
      | "stress" :: r => (st, stressModel r)
      | _ => (st, "bad-op")
    else if e == "chk" then
      match args with
      | "lin" :: rest =>
        let (inp, obs) := splitBar rest
        match inp, obs with
        | _, "crash" :: _rc :: kind :: _ => (st, s!"fails {(kind.splitOn "=").getD 1 "crash"}")
        | _, ["hang"] => (st, "fails hang")
        | _, _ =>
        match inp with
        | "small" :: r => (st, chkSmall r obs)
        | "stress" :: r =>
          let m := stressModel r
          (st, if " ".intercalate obs == m then "holds"
               else if obs.take 2 != ["stress", "ok"] then s!"fails stress-assertion {(obs.getD 1 "").take 80}"
               else if obs.getD 2 "" != (fields m).getD 2 "" then s!"fails stress-exports impl={obs.getD 2 ""} model={(fields m).getD 2 ""}"
               else "fails stress-final-state")
        | "check" :: _ =>
          let (ok, why) := verdict st
          (st, if ok then "holds" else s!"fails not-linearizable {why}")
        | _ => (st, "na")
      | _ => (st, "na")
    else (st, "bad-op")

partial def loop (h : IO.FS.Stream) (out : IO.FS.Stream) (st : St) : IO Unit := do
  let line ← h.getLine
  if line.isEmpty then return ()
  let (st', r) := dispatch st line.trimAsciiEnd.copy
  out.putStrLn r
  loop h out st'

end DriverLin

def main : IO Unit := do
  let stdin ← IO.getStdin
  let stdout ← IO.getStdout
  DriverLin.loop stdin stdout {}
