import Driver.State
import IpfixModel.Spec.C04
import IpfixModel.Spec.C17
namespace Driver
open Ipfix

def parseMode : String → Option Mode
  | "strict" => some .strict | "keep" => some .keep | "drop" => some .drop
  | "default" => some .strict   -- CollectorInput.DecodingMode left unset: "Defaults to DecodingModeStrict" (its documentation)
  | _ => none

def iesToken (ies : List IE) : String := joinOr "," (ies.map ieToken)

def recsToken (recs : List (List Value)) : String := recordsTok recs

def msgToken (m : Msg) : String :=
  let hdr := s!"ok {m.hdr.length} {m.hdr.exportTime} {m.hdr.seq} {m.hdr.dom}"
  match m.body with
  | .template id ies => s!"{hdr} tpl {id} {iesToken ies}"
  | .data _ recs => s!"{hdr} data {recsToken recs}"

def outcomeToken (o : Outcome Msg) : String :=
  match o with
  | .ok m => msgToken m
  | .err => "err"
  | .panic => "panic"
  | .diverge => "hang"

def keyLt (a b : TKey) : Bool := a.1 < b.1 || (a.1 == b.1 && a.2 < b.2)

/-- engine "dec": see harness/cmd/harness/eng_dec.go -/
def engDec (s : DState) (a : List String) : DState × String :=
  match a with
  | ["new", m] | ["new", m, "udp"] | ["new", m, "tcp"] =>
    -- the transport the collector is configured for changes template LIFETIME (C10), not decoding
    match parseMode m with
    | some mode => ({ s with coll := {}, mode := mode }, "ok")
    | none => (s, "bad-op")
  | ["pkt", hex] =>
    match fromHex hex with
    | some b =>
      let (c', o) := decodePacket fastLookup s.mode s.coll b
      ({ s with coll := c' }, outcomeToken o)
    | none => (s, "bad-op")
  | ["keys"] =>
    let ks := (s.coll.templates.map (·.1)).toArray.qsort keyLt |>.toList
    (s, "keys " ++ joinOr "," (ks.map fun k => s!"{k.1}:{k.2}"))
  | ["tpl", d, i] =>
    match d.toNat?, i.toNat? with
    | some d, some i =>
      match s.coll.lookup (d, i) with
      | some t => (s, "tpl " ++ iesToken t)
      | none => (s, "none")
    | _, _ => (s, "bad-op")
  | _ => (s, "bad-op")

/-- `chk dec <op> | <impl obs>`: the specification's expectation (Spec.C04.decodePacketSpec, which
    for C03/C17 is the decoder model itself) against what the implementation reported.
    Verdicts: `holds`, `fails crash` (panic/hang), `fails wrong <expected>` (delivered something
    the template in force does not define / decoded with a stale or wrong template),
    `fails rejected <expected>` (refused what the property says must be delivered). -/
def chkDec (useSpec : Bool) (s : DState) (a : List String) : DState × String :=
  let (op, obs) := splitBar a
  let impl := " ".intercalate obs
  match op with
  | ["new", m] | ["new", m, "udp"] | ["new", m, "tcp"] =>
    match parseMode m with
    | some mode => ({ s with spec := {}, specMode := mode }, "holds")
    | none => (s, "bad-op")
  | ["pkt", hex] =>
    match fromHex hex with
    | some b =>
      let (c', o) := if useSpec then C04.decodePacketSpec fastLookup s.specMode s.spec b
                     else decodePacket fastLookup s.specMode s.spec b
      let s' := { s with spec := c' }
      let expected := outcomeToken o
      if impl == "panic" || impl == "hang" || impl == "missing" then (s', "fails crash")
      else if impl == expected then (s', "holds")
      else if impl == "err" then (s', s!"fails rejected {(expected.take 120).toString}")
      else (s', s!"fails wrong {(expected.take 120).toString}")
    | none => (s, "bad-op")
  | ["keys"] =>
    let ks := (s.spec.templates.map (·.1)).toArray.qsort keyLt |>.toList
    let expected := "keys " ++ joinOr "," (ks.map fun k => s!"{k.1}:{k.2}")
    (s, if impl == expected then "holds" else s!"fails keys {expected}")
  | ["tpl", d, i] =>
    -- the CONTENT of the template in force: element identity (enterprise, id, type, length, name) of every field
    match d.toNat?, i.toNat? with
    | some d, some i =>
      let expected := match s.spec.lookup (d, i) with
        | some t => "tpl " ++ iesToken t
        | none => "none"
      (s, if impl == expected then "holds" else s!"fails keys template-content {(expected.take 160).toString}")
    | _, _ => (s, "bad-op")
  | _ => (s, "na")

/-- engine "reg": dump of the regenerated registry, for the exhaustive cross-check -/
def engReg (a : List String) : String :=
  match a with
  | ["dump", ent, lo, hi] =>
    match ent.toNat?, lo.toNat?, hi.toNat? with
    | some ent, some lo, some hi =>
      let ids := (List.range (hi - lo)).map (· + lo)
      let out := ids.filterMap fun id => (fastLookup ent id).map fun ie => s!"{id}={ieToken ie}"
      if out.isEmpty then "-" else " ".intercalate out
    | _, _, _ => "bad-op"
  | _ => "bad-op"

def parseObs (t : List String) : C17.Obs :=
  match t with
  | ["err"] => .err
  | ["ok", _, _, _, _, "tpl", id, ies] =>
    match id.toNat?, parseIEs ies with
    | some id, some ies => .tpl id ies
    | _, _ => .other
  | ["ok", _, _, _, _, "data", recs] =>
    match parseRecords recs with
    | some r => .data r
    | none => .other
  | _ => .other

def splitBars (a : List String) : List (List String) :=
  let rec go (acc : List String) (rest : List String) (out : List (List String)) : List (List String) :=
    match rest with
    | [] => (acc.reverse :: out).reverse
    | "|" :: r => go [] r (acc.reverse :: out)
    | x :: r => go (x :: acc) r out
  go [] a []

/-- `chk c17 <template pkt hex> <data pkt hex> | 8 observations` : Spec.C17.holdsCase -/
def chkC17 (a : List String) : String :=
  match splitBars a with
  | [[_tplhex, datahex], o1, o2, o3, o4, o5, o6, o7, o8] =>
    match fromHex datahex with
    | some d =>
      let obs := C17.CaseObs.mk (parseObs o1) (parseObs o2) (parseObs o3) (parseObs o4) (parseObs o5) (parseObs o6) (parseObs o7) (parseObs o8)
      let (ok, why) := C17.holdsCase (d.drop 20) obs
      if ok then "holds" else s!"fails {why}"
    | none => "bad-op"
  | _ => "bad-op"

end Driver
