import Driver.State
import IpfixModel.Spec.C04
namespace Driver
open Ipfix

def parseMode : String → Option Mode
  | "strict" => some .strict | "keep" => some .keep | "drop" => some .drop | _ => none

def iesToken (ies : List IE) : String := joinOr "," (ies.map ieToken)

def recsToken (recs : List (List Value)) : String :=
  joinOr ";" (recs.map fun r => joinOr "," (r.map valueToken))

def msgToken (m : Msg) : String :=
  let hdr := s!"ok {m.hdr.length} {m.hdr.exportTime} {m.hdr.seq} {m.hdr.dom}"
  match m.body with
  | .template id ies => s!"{hdr} tpl {id} {iesToken ies}"
  | .data _ recs => s!"{hdr} data {recsToken recs}"

def outcomeToken (o : Outcome Msg) : String :=
  match o with
  | .ok m => msgToken m
  | .err => "err"
  | .panic => "panic"
  | .diverge => "hang"

def keyLt (a b : TKey) : Bool := a.1 < b.1 || (a.1 == b.1 && a.2 < b.2)

/-- engine "dec": see harness/cmd/harness/eng_dec.go -/
def engDec (s : DState) (a : List String) : DState × String :=
  match a with
  | ["new", m] =>
    match parseMode m with
    | some mode => ({ s with coll := {}, mode := mode }, "ok")
    | none => (s, "bad-op")
  | ["pkt", hex] =>
    match fromHex hex with
    | some b =>
      let (c', o) := decodePacket fastLookup s.mode s.coll b
      ({ s with coll := c' }, outcomeToken o)
    | none => (s, "bad-op")
  | ["keys"] =>
    let ks := (s.coll.templates.map (·.1)).toArray.qsort keyLt |>.toList
    (s, "keys " ++ joinOr "," (ks.map fun k => s!"{k.1}:{k.2}"))
  | ["tpl", d, i] =>
    match d.toNat?, i.toNat? with
    | some d, some i =>
      match s.coll.lookup (d, i) with
      | some t => (s, "tpl " ++ iesToken t)
      | none => (s, "none")
    | _, _ => (s, "bad-op")
  | _ => (s, "bad-op")

/-- `chk dec <op> | <impl obs>`: the specification's expectation (Spec.C04.decodePacketSpec, which
    for C03/C17 is the decoder model itself) against what the implementation reported.
    Verdicts: `holds`, `fails crash` (panic/hang), `fails wrong <expected>` (delivered something
    the template in force does not define / decoded with a stale or wrong template),
    `fails rejected <expected>` (refused what the property says must be delivered). -/
def chkDec (useSpec : Bool) (s : DState) (a : List String) : DState × String :=
  let (op, obs) := splitBar a
  let impl := " ".intercalate obs
  match op with
  | ["new", m] =>
    match parseMode m with
    | some mode => ({ s with spec := {}, specMode := mode }, "holds")
    | none => (s, "bad-op")
  | ["pkt", hex] =>
    match fromHex hex with
    | some b =>
      let (c', o) := if useSpec then C04.decodePacketSpec fastLookup s.specMode s.spec b
                     else decodePacket fastLookup s.specMode s.spec b
      let s' := { s with spec := c' }
      let expected := outcomeToken o
      if impl == "panic" || impl == "hang" || impl == "missing" then (s', "fails crash")
      else if impl == expected then (s', "holds")
      else if impl == "err" then (s', s!"fails rejected {(expected.take 120).toString}")
      else (s', s!"fails wrong {(expected.take 120).toString}")
    | none => (s, "bad-op")
  | ["keys"] =>
    let ks := (s.spec.templates.map (·.1)).toArray.qsort keyLt |>.toList
    let expected := "keys " ++ joinOr "," (ks.map fun k => s!"{k.1}:{k.2}")
    (s, if impl == expected then "holds" else s!"fails keys {expected}")
  | _ => (s, "na")

end Driver
