/-
  Line-protocol driver for the TCP reader (property C11). Core-only imports.

  ops (one per line)                      observation
    fr new <strict|keep|drop>             ok            fresh collecting process, no connections
    fr open <conn>                        ok            a new connection (fresh reader, empty buffer)
    fr seg <conn> <hex>                   the messages delivered because of this segment, rendered as
                                          by engine `dec` (Driver/EngDec.msgToken), joined by ` | `; `-` = none
    fr state <conn>                       open | closed
    fr eof <conn>                         closed        the peer closes its end
    # ...                                 skip
    chk fr <op ...> | <implementation's observation>    holds | fails <why> <expected> | na

  The `fr` lines run the model (Ipfix.Framer.feedConn with the collector's decodePacket); the
  `chk` lines run the specification (Ipfix.C11.SSys.seg: frames of the WHOLE stream of the
  connection, decoded in order) and compare with what the implementation reported
  (Ipfix.C11.verdict / holdsState).
-/
import Driver.Proto
import Driver.State
import Driver.EngDec
import IpfixModel.Model.Framer
import IpfixModel.Spec.C11
open Driver Ipfix Ipfix.Framer

namespace DriverFramer

structure St where
  mode : Mode := .strict
  sys : Sys CState := { st := {} }
  specMode : Mode := .strict
  spec : C11.SSys CState := { st := {} }

def renderMsgs (ms : List Msg) : String := joinOr " | " (ms.map msgToken)

/-- split observation tokens at the `|` separators back into one string per message -/
def splitMsgs (toks : List String) : List String :=
  if toks == ["-"] || toks.isEmpty then []
  else
    let rec go (cur : List String) (acc : List String) : List String → List String
      | [] => (acc ++ [" ".intercalate cur])
      | t :: r => if t == "|" then go [] (acc ++ [" ".intercalate cur]) r else go (cur ++ [t]) acc r
    go [] [] toks

def engFr (s : St) (a : List String) : St × String :=
  match a with
  | ["new", m] =>
    match parseMode m with
    | some mode => ({ s with mode := mode, sys := { st := {} } }, "ok")
    | none => (s, "bad-op")
  | ["open", c] =>
    match c.toNat? with
    | some c => ({ s with sys := s.sys.open c }, "ok")
    | none => (s, "bad-op")
  | ["seg", c, hex] =>
    match c.toNat?, fromHex hex with
    | some c, some b =>
      match s.sys.conns c with
      | none => (s, "bad-op")
      | some _ =>
        let (sys', ms) := feedConn (ipfixDecoder fastLookup s.mode) s.sys c b
        ({ s with sys := sys' }, renderMsgs ms)
    | _, _ => (s, "bad-op")
  | ["tick"] => (s, "ok 0")   -- time passes, every timer armed on the collector's clock fires: a TCP collector arms none
  | ["state", c] =>
    match c.toNat? with
    | some c =>
      match s.sys.conns c with
      | some cn => (s, if cn.closed then "closed" else "open")
      | none => (s, "bad-op")
    | none => (s, "bad-op")
  | ["eof", c] =>
    match c.toNat? with
    | some c =>
      match s.sys.conns c with
      | some _ => ({ s with sys := eofConn s.sys c }, "closed")
      | none => (s, "bad-op")
    | none => (s, "bad-op")
  | _ => (s, "bad-op")

def crashed (impl : List String) : Bool :=
  impl == ["panic"] || impl == ["hang"] || impl == ["missing"] || impl == ["bad-op"]

def chkFr (s : St) (a : List String) : St × String :=
  let (op, obs) := splitBar a
  match op with
  | ["new", m] =>
    match parseMode m with
    | some mode => ({ s with specMode := mode, spec := { st := {} } }, if obs == ["ok"] then "holds" else "fails crash")
    | none => (s, "bad-op")
  | ["open", c] =>
    match c.toNat? with
    | some c => ({ s with spec := s.spec.open c }, if obs == ["ok"] then "holds" else "fails crash")
    | none => (s, "bad-op")
  | ["seg", c, hex] =>
    match c.toNat?, fromHex hex with
    | some c, some b =>
      match s.spec.conns c with
      | none => (s, "bad-op")
      | some _ =>
        let (spec', ms) := C11.SSys.seg (ipfixDecoder fastLookup s.specMode) s.spec c b
        let s' := { s with spec := spec' }
        let expected := ms.map msgToken
        let exp := ((renderMsgs ms).take 160).toString
        if crashed obs then (s', "fails crash")
        else match C11.verdict expected (splitMsgs obs) with
          | .holds => (s', "holds")
          | .lost => (s', s!"fails lost {exp}")
          | .extra => (s', s!"fails extra {exp}")
          | .wrong => (s', s!"fails wrong {exp}")
    | _, _ => (s, "bad-op")
  | ["state", c] =>
    match c.toNat? with
    | some c =>
      match s.spec.conns c with
      | some cn =>
        if obs == ["open"] || obs == ["closed"] then
          (s, if C11.holdsState cn (obs == ["closed"]) then "holds"
              else if cn.closed then "fails not-closed" else "fails closed-early")
        else (s, "fails crash")
      | none => (s, "bad-op")
    | none => (s, "bad-op")
  | ["eof", c] =>
    match c.toNat? with
    | some c =>
      match s.spec.conns c with
      | some _ => ({ s with spec := s.spec.eof c }, if obs == ["closed"] then "holds" else "fails not-closed")
      | none => (s, "bad-op")
    | none => (s, "bad-op")
  | ["tick"] =>
    -- templates received over TCP have no lifetime (RFC 7011 8.1: they last as long as the session), whatever
    -- TemplateTTL the collector was configured with: nothing may have been scheduled on its clock
    (s, if obs == ["ok", "0"] then "holds" else if crashed obs then "fails crash" else "fails timer-armed-on-tcp-collector")
  | _ => (s, "na")

def dispatch (s : St) (line : String) : St × String :=
  match fields line with
  | [] => (s, "skip")
  | e :: args =>
    if e.startsWith "#" then (s, "skip")
    else if e == "fr" then engFr s args
    else if e == "chk" then
      match args with
      | "fr" :: rest => chkFr s rest
      | _ => (s, "na")
    else (s, "bad-op")

partial def loop (h : IO.FS.Stream) (out : IO.FS.Stream) (s : St) : IO Unit := do
  let line ← h.getLine
  if line.isEmpty then return ()
  let (s', o) := dispatch s (line.trimRight)
  out.putStrLn o
  loop h out s'

end DriverFramer

def main : IO Unit := do
  let stdin ← IO.getStdin
  let stdout ← IO.getStdout
  DriverFramer.loop stdin stdout {}
