import Driver.Proto
import IpfixModel.Model.Collector
import IpfixModel.Spec.C15
import IpfixModel.Model.RecordBuf
namespace Driver
open Ipfix

def recordsToken (recs : List (List Value)) : String := recordsTok recs

/-- the harness' `parseIE` (codec.go) reads the fields of an IE token into the Go field types -/
def ieTokenInRange (tok : String) : Bool :=
  match tok.splitOn ":" with
  | [ent, id, ty, len, _] =>
    match ent.toNat?, id.toNat?, ty.toNat?, len.toNat? with
    | some ent, some id, some ty, some len => ent < 4294967296 && id < 65536 && ty < 256 && len < 65536
    | _, _, _, _ => false
  | _ => false

/-- the harness' `mkElem` (codec.go): which value tokens the typed constructor of the element's
    type takes (the kind of the token must fit, numbers must fit the Go type); for the types
    without a typed constructor any token is carried -/
def mkElemAccepts (ie : IE) (v : Value) : Bool :=
  match ie.ty, v with
  | .unsigned8, .num n | .signed8, .num n => n < 256
  | .unsigned16, .num n | .signed16, .num n => n < 65536
  | .unsigned32, .num n | .signed32, .num n | .float32, .num n | .dateTimeSeconds, .num n => n < 4294967296
  | .unsigned64, .num n | .signed64, .num n | .float64, .num n | .dateTimeMilliseconds, .num n =>
      n < 18446744073709551616
  | .boolean, .bool _ => true
  | .macAddress, .bytes _ | .string, .bytes _ | .ipv4Address, .bytes _ | .ipv6Address, .bytes _
  | .octetArray, .bytes _ => true
  | .dateTimeMicroseconds, v | .dateTimeNanoseconds, v | .basicList, v | .subTemplateList, v
  | .subTemplateMultiList, v | .invalid, v =>
      match v with
      | .num n => n < 18446744073709551616
      | _ => true
  | _, _ => false

/-- elems token of `ie recbuf`: ie=value,ie=value ("-" = empty), as `parseElems` of the harness
    (eng_bld.go) - `none` where the harness refuses the token -/
def parseElemsIE (tok : String) : Option (List Elem) :=
  if tok == "-" then some []
  else (tok.splitOn ",").mapM fun p =>
    match p.splitOn "=" with
    | [i, v] => do
      let ie ← parseIE i
      let v ← parseValue v
      if ieTokenInRange i && mkElemAccepts ie v then pure (ie, v) else none
    | _ => none

/-- engine "ie" (C15): see harness/cmd/harness/eng_ie.go for the protocol -/
def engIE (a : List String) : String :=
  match a with
  | ["recbuf", elems] =>
    match parseElemsIE elems with
    | some es => s!"buf {recordLength es} {hexOrDash (recordBuf es)}"
    | none => "bad-op"
  | ["recbufx", elems, k] =>
    -- built from the first k elements, the buffer taken, the rest appended by AddInfoElement: the same record
    match parseElemsIE elems, k.toNat? with
    | some es, some k => if k ≤ es.length then s!"buf {recordLength es} {hexOrDash (recordBuf es)}" else "bad-op"
    | _, _ => "bad-op"
  | ["mut", ietok, _v1, v2] =>
    -- an element made with v1 whose value is then replaced (typed setter) or reset: it encodes as a fresh
    -- element with the final value does; ResetValue gives the zero value of the type (0, false, no bytes)
    match parseIE ietok with
    | some ie =>
      let final : Option Value :=
        if v2 == "reset" then
          some (match ie.ty with
            | .boolean => .bool false
            | .octetArray | .macAddress | .string | .ipv4Address | .ipv6Address => .bytes []
            | _ => .num 0)
        else parseValue v2
      match final with
      | some v =>
        match encodeElem ie v with
        | some bs => s!"ok {hexOrDash bs} {elemLength ie v}"
        | none => s!"err {elemLength ie v}"
      | none => "bad-op"
    | none => "bad-op"
  | ["enc", ietok, vtok] =>
    match parseIE ietok, parseValue vtok with
    | some ie, some v =>
      match encodeElem ie v with
      | some bs => s!"ok {hexOrDash bs} {elemLength ie v}"
      | none => s!"err {elemLength ie v}"
    | _, _ => "bad-op"
  | ["rt", ietok, vtok, tail] =>
    match parseIE ietok, parseValue vtok, fromHex tail with
    | some ie, some v, some tl =>
      match encodeElem ie v with
      | none => "encerr"
      | some bs =>
        match decodeRecords .keep [ie] (bs ++ tl) with
        | .ok recs => s!"ok {hexOrDash bs} {elemLength ie v} {recordsToken recs}"
        | .err => "decerr"
        | .panic => "panic"
        | .diverge => "hang"
    | _, _, _ => "bad-op"
  | ["dec", ietok, hex] =>
    match parseIE ietok, fromHex hex with
    | some ie, some b =>
      match decodeRecords .keep [ie] b with
      | .ok recs => s!"ok {recordsToken recs}"
      | .err => "err"
      | .panic => "panic"
      | .diverge => "hang"
    | _, _ => "bad-op"
  | _ => "bad-op"

/-- `chk ie rt <ie> <value> <tail> | <implementation's observation>`: Spec.C15.holdsRT -/
def chkIE (a : List String) : String :=
  let (op, obs) := splitBar a
  match op with
  | ["rt", ietok, vtok, tail] =>
    match parseIE ietok, parseValue vtok, fromHex tail with
    | some ie, some v, some tl =>
      let o : C15.RTObs :=
        match obs with
        | ["ok", hex, len, recs] =>
          match fromHex hex, len.toNat?, parseRecords recs with
          | some bs, some l, some rs => .ok bs l rs
          | _, _, _ => .other
        | ["encerr"] => .encerr
        | ["decerr"] => .decerr
        | _ => .other
      if C15.holdsRT ie v tl o then "holds" else "fails"
    | _, _, _ => "bad-op"
  | ["mut", ietok, v1, v2] =>
    -- judged against the final value: reported length = bytes written = the encoding of that value
    match obs with
    | ["ok", hex, len] =>
      (match (if hex == "-" then some [] else fromHex hex), len.toNat?, (engIE ["mut", ietok, v1, v2]).splitOn " " with
       | some bs, some l, ["ok", mhex, mlen] =>
         if bs.length != l then "fails length-disagrees"
         else if mhex != hex || mlen != len then "fails stale-value"
         else "holds"
       | some _, some _, _ => "na"   -- the final value is ill-typed for the element (a reset MAC / address): outside C15, see C09 / D5
       | _, _, _ => "fails unparsable-observation")
    | "err" :: _ => if ((engIE ["mut", ietok, v1, v2]).splitOn " ").head? == some "err" then "holds" else "fails refused-final-value"
    | ["bad-op"] => "na"
    | _ => s!"fails {obs.headD "no-answer"}"
  | "recbuf" :: elems :: _ | "recbufx" :: elems :: _ =>
    match parseElemsIE elems with
    | some es =>
      let o : C15.BufObs :=
        match obs with
        | ["buf", len, hex] =>
          match len.toNat?, (if hex == "-" then some [] else fromHex hex) with
          | some l, some bs => .buf l bs
          | _, _ => .other
        | _ => .other
      if C15.holdsRecBuf es o then "holds" else s!"fails {obs.headD "no-answer"}"
    | none => "bad-op"
  | _ => "na"

end Driver
