import Driver.Proto
import IpfixModel.Model.Collector
import IpfixModel.Spec.C15
namespace Driver
open Ipfix

def recordsToken (recs : List (List Value)) : String := recordsTok recs

/-- engine "ie" (C15): see harness/cmd/harness/eng_ie.go for the protocol -/
def engIE (a : List String) : String :=
  match a with
  | ["enc", ietok, vtok] =>
    match parseIE ietok, parseValue vtok with
    | some ie, some v =>
      match encodeElem ie v with
      | some bs => s!"ok {hexOrDash bs} {elemLength ie v}"
      | none => s!"err {elemLength ie v}"
    | _, _ => "bad-op"
  | ["rt", ietok, vtok, tail] =>
    match parseIE ietok, parseValue vtok, fromHex tail with
    | some ie, some v, some tl =>
      match encodeElem ie v with
      | none => "encerr"
      | some bs =>
        match decodeRecords .keep [ie] (bs ++ tl) with
        | .ok recs => s!"ok {hexOrDash bs} {elemLength ie v} {recordsToken recs}"
        | .err => "decerr"
        | .panic => "panic"
        | .diverge => "hang"
    | _, _, _ => "bad-op"
  | ["dec", ietok, hex] =>
    match parseIE ietok, fromHex hex with
    | some ie, some b =>
      match decodeRecords .keep [ie] b with
      | .ok recs => s!"ok {recordsToken recs}"
      | .err => "err"
      | .panic => "panic"
      | .diverge => "hang"
    | _, _ => "bad-op"
  | _ => "bad-op"

/-- `chk ie rt <ie> <value> <tail> | <implementation's observation>`: Spec.C15.holdsRT -/
def chkIE (a : List String) : String :=
  let (op, obs) := splitBar a
  match op with
  | ["rt", ietok, vtok, tail] =>
    match parseIE ietok, parseValue vtok, fromHex tail with
    | some ie, some v, some tl =>
      let o : C15.RTObs :=
        match obs with
        | ["ok", hex, len, recs] =>
          match fromHex hex, len.toNat?, parseRecords recs with
          | some bs, some l, some rs => .ok bs l rs
          | _, _, _ => .other
        | ["encerr"] => .encerr
        | ["decerr"] => .decerr
        | _ => .other
      if C15.holdsRT ie v tl o then "holds" else "fails"
    | _, _, _ => "bad-op"
  | _ => "na"

end Driver
