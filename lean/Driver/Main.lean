import Driver.EngIE
open Driver

def dispatch (line : String) : String :=
  match fields line with
  | [] => "skip"
  | e :: args =>
    if e.startsWith "#" then "skip"
    else if e == "ie" then engIE args
    else if e == "chk" then
      match args with
      | "ie" :: rest => chkIE rest
      | _ => "na"
    else "bad-op"

partial def loop (h : IO.FS.Stream) (out : IO.FS.Stream) : IO Unit := do
  let line ← h.getLine
  if line.isEmpty then return ()
  out.putStrLn (dispatch (line.trimRight))
  loop h out

def main : IO Unit := do
  let stdin ← IO.getStdin
  let stdout ← IO.getStdout
  loop stdin stdout
