import Driver.EngIE
import Driver.EngDec
import Driver.EngExp
import Driver.EngAgg
open Driver

def dispatch (s : DState) (line : String) : DState × String :=
  match fields line with
  | [] => (s, "skip")
  | e :: args =>
    if e.startsWith "#" then (s, "skip")
    else if e == "ie" then (s, engIE args)
    else if e == "dec" then engDec s args
    else if e == "reg" then (s, engReg args)
    else if e == "bld" then
      let (b, o) := engBld s.bld args
      ({ s with bld := b }, o)
    else if e == "e2e" then engE2E s args
    else if e == "agg" then
      let (x, o) := engAgg s.agg args
      ({ s with agg := x }, o)
    else if e == "exp" then
      let (x, o) := engExp (s.exp, s.expTpls) args
      ({ s with exp := x.1, expTpls := x.2 }, o)
    else if e == "chk" then
      match args with
      | "ie" :: rest => (s, chkIE rest)
      | "dec" :: rest => chkDec true s rest
      | "decm" :: rest => chkDec false s rest
      | "c17" :: rest => (s, chkC17 rest)
      | "bld" :: rest => (s, chkBld rest)
      | "agga" :: rest =>
        let (t, o) := chkAggA s.aggArith rest
        ({ s with aggArith := t }, o)
      | "aggc" :: rest =>
        let (t, o) := chkAggC s.aggCorr rest
        ({ s with aggCorr := t }, o)
      | "agg" :: rest =>
        let (t, o) := chkAgg s.aggSpec rest
        ({ s with aggSpec := t }, o)
      | "e2e" :: rest =>
        let (d, o) := chkE2E s.e2eSpecDom rest
        ({ s with e2eSpecDom := d }, o)
      | "exp" :: rest =>
        let (t, o) := chkExp s.specExp rest
        ({ s with specExp := t }, o)
      | _ => (s, "na")
    else (s, "bad-op")

partial def loop (h : IO.FS.Stream) (out : IO.FS.Stream) (s : DState) : IO Unit := do
  let line ← h.getLine
  if line.isEmpty then return ()
  let (s', o) := dispatch s (line.trimRight)
  out.putStrLn o
  loop h out s'

def main : IO Unit := do
  let stdin ← IO.getStdin
  let stdout ← IO.getStdout
  loop stdin stdout {}
