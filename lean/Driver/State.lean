import Driver.Proto
import IpfixModel.Model.Collector
import IpfixModel.Model.Registry
import IpfixModel.Model.Exporter
import IpfixModel.Spec.Exp
import IpfixModel.Model.Agg
import IpfixModel.Spec.C06
import IpfixModel.Spec.C07
import IpfixModel.Spec.C05
import Std.Data.HashMap
namespace Driver
open Ipfix

/-- fast registry lookup for the driver; agrees with `Ipfix.lookupIE` (same table, first match) -/
def registryMap : Std.HashMap (Nat × Nat) IE :=
  registry.foldr (fun ie m => m.insert (ie.ent, ie.id) ie) {}

def fastLookup (ent id : Nat) : Option IE := registryMap[(ent, id)]?

/-- what the C01 judgement (`chk e2e`) remembers of a session: the observation domain and the transport
    given to `e2e open` (`stream` = tcp/tls: nothing may be lost), the templates sent, and the sequence
    number carried by the last delivered message (`none` when a send failed or nothing was delivered) -/
structure E2ESpec where
  dom : Nat := 0
  tpls : List (Nat × List IE) := []
  stream : Bool := true
  seq : Option Nat := none

/-- the exporter model as the `exp` engine drives it: the exporting process, the mode it was created in
    (`exp new <dom> json`), and the outcome the in-memory connection was told to give to its next Write
    (`exp failnext <kind>`; `none` = nothing pending, every Write succeeds) -/
structure ExpDrv where
  st : ExpState := {}
  json : Bool := false
  failNext : Option WriteOutcome := none

structure DState where
  coll : CState := {}
  mode : Mode := .strict
  /-- the specification's template state, advanced by `chk dec` lines (Spec.C04) -/
  spec : CState := {}
  specMode : Mode := .strict
  bld : Option SetB := none
  exp : ExpDrv := {}
  specExp : ExpSpec.Tracker := {}
  /-- templatesMap[id].elements of the exporter model (Life.recordTemplates), for `exp refresh` -/
  expTpls : List (Nat × List IE) := []
  e2eExp : ExpState := {}
  e2eColl : CState := {}
  e2eMode : Mode := .strict
  e2eSpecDom : E2ESpec := {}
  agg : Agg.State := {}
  aggSpec : C06.Tracker := {}
  aggCorr : C07.Tracker := {}
  aggArith : C05.Tracker := {}

end Driver
