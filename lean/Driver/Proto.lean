/- line-protocol helpers shared by all engines of the Lean driver -/
import IpfixModel.Model.IE
namespace Driver
open Ipfix

def splitOn (s : String) (c : Char) : List String := (s.splitOn (String.singleton c))

def fields (line : String) : List String :=
  (line.splitOn " ").filter (· ≠ "")

def strOfBytes (b : Bytes) : String := String.ofList (b.map fun x => Char.ofNat x.toNat)
def bytesOfStr (s : String) : Bytes := s.toUTF8.toList

/-- IE token: ent:id:ty:len:hexname -/
def parseIE (tok : String) : Option IE :=
  match tok.splitOn ":" with
  | [ent, id, ty, len, name] => do
    let ent ← ent.toNat?
    let id ← id.toNat?
    let ty ← ty.toNat?
    let len ← len.toNat?
    let nm ← fromHex name
    pure { name := strOfBytes nm, id := id, ty := DataType.ofCode ty, ent := ent, len := len }
  | _ => none

def ieToken (ie : IE) : String :=
  s!"{ie.ent}:{ie.id}:{ie.ty.code}:{ie.len}:{hexOrDash (bytesOfStr ie.name)}"

def parseIEs (tok : String) : Option (List IE) :=
  if tok == "-" then some [] else (tok.splitOn ",").mapM parseIE

def parseValue (tok : String) : Option Value :=
  match tok.toList with
  | 'n' :: r => (String.ofList r).toNat?.map Value.num
  | ['t'] => some (.bool true)
  | ['f'] => some (.bool false)
  | 'x' :: r => (fromHex (String.ofList r)).map Value.bytes
  | _ => none

def valueToken : Value → String
  | .num n => s!"n{n}"
  | .bool true => "t"
  | .bool false => "f"
  | .bytes b => "x" ++ hexOrDash b

def joinOr (sep : String) (l : List String) : String :=
  if l.isEmpty then "-" else sep.intercalate l

def parseRecords (tok : String) : Option (List (List Value)) :=
  if tok == "-" then some []
  else (tok.splitOn ";").mapM fun r =>
    if r == "." then some [] else (r.splitOn ",").mapM parseValue

/-- split the argument list of a `chk` line at the `|` separator: (op args, observation tokens) -/
def splitBar (a : List String) : List String × List String :=
  (a.takeWhile (· ≠ "|"), (a.dropWhile (· ≠ "|")).drop 1)

/-- records: `-` no record; records separated by `;`; a record without values is `.` -/
def recordsTok (recs : List (List Value)) : String :=
  joinOr ";" (recs.map fun r => if r.isEmpty then "." else ",".intercalate (r.map valueToken))

end Driver
