import Driver.State
import IpfixModel.Model.Exporter
import IpfixModel.Spec.C16
namespace Driver
open Ipfix

def parseSetType : String → Option SetType
  | "t" => some .template | "d" => some .data | "u" => some .undefined | "o" => some .other | _ => none

def setTypeTok : SetType → String
  | .template => "t" | .data => "d" | .undefined => "u" | .other => "o"

/-- elems token: ie=value,ie=value ("-" = empty) -/
def parseElems (tok : String) : Option (List Elem) :=
  if tok == "-" then some []
  else (tok.splitOn ",").mapM fun p =>
    match p.splitOn "=" with
    | [i, v] => do
      let ie ← parseIE i
      let v ← parseValue v
      pure (ie, v)
    | _ => none

def setObs (s : SetB) : String :=
  let recs := joinOr ";" (s.recs.map fun r => s!"{r.tid}:{r.fieldCount}:{r.length}:{hexOrDash r.bytes}")
  let msg := match createMsg s 7 9 0 with
    | some b => hexOrDash b
    | none => "err"
  s!"{setTypeTok s.ty} {s.length} {hexOrDash s.header} {s.recs.length} {recs} {msg}"

/-- engine "bld" -/
def engBld (s : Option SetB) (a : List String) : Option SetB × String :=
  match a with
  | ["new"] => (some SetB.new, "ok")
  | _ =>
    match s with
    | none => (s, "bad-op")
    | some b =>
      match a with
      | ["prep", t, id] =>
        match parseSetType t, id.toNat? with
        | some t, some id =>
          match b.prepare t id with
          | some b' => (some b', "ok")
          | none => (s, "err")
        | _, _ => (s, "bad-op")
      | ["add", path, _extra, tid, elems] =>
        match tid.toNat?, parseElems elems with
        | some tid, some es =>
          let r := if path == "2" then b.addRecordV2 es tid else b.addRecord es tid
          match r with
          | some b' => (some b', "ok")
          | none => (s, "err")
        | _, _ => (s, "bad-op")
      | ["upd"] => (some b.updateLen, "ok")
      | ["reset"] => (some b.reset, "ok")
      | ["obs"] => (s, setObs b)
      | _ => (s, "bad-op")

def parseRecsDesc (tok : String) : Option (List (Nat × List Elem)) :=
  if tok == "-" then some []
  else (tok.splitOn ";").mapM fun r =>
    match r.splitOn "@" with
    | [tid, es] => do
      let tid ← tid.toNat?
      let es ← parseElems es
      pure (tid, es)
    | _ => none

/-- engine "exp" -/
def engExp (st : ExpState) (a : List String) : ExpState × String :=
  match a with
  | ["new", dom] =>
    match dom.toNat? with
    | some d => ({ dom := d }, "ok")
    | none => (st, "bad-op")
  | ["seq", n] =>
    match n.toNat? with
    | some n => ({ st with seq := n }, "ok")
    | none => (st, "bad-op")
  | ["getseq"] => (st, s!"seq {st.seq}")
  | ["tids"] =>
    let ids := (st.templates.map (·.1)).toArray.qsort (· < ·) |>.toList
    (st, "tids " ++ joinOr "," (ids.map toString))
  | ["send", path, t, setid, recs] =>
    match parseSetType t, setid.toNat?, parseRecsDesc recs with
    | some ty, some sid, some rs =>
      let d : SetDesc := { ty := ty, setId := sid, recs := rs }
      match d.build (path == "2") with
      | none =>
        -- template record with a non-empty value through AddRecord: the builder refuses;
        -- a data record with an unencodable value: the send must fail with nothing written
        if ty = .data then (st, "err -") else (st, "builderr")
      | some s =>
        let (st', r) := st.sendBuilt 0 s
        match r with
        | .ok n w => (st', s!"ok {n} {hexOrDash w} timeok")
        | .err => (st', "err -")
    | _, _, _ => (st, "bad-op")
  | _ => (st, "bad-op")

/-- `chk bld obs | <ty> <length> <hdr> <n> <recs> <msg>` : Spec.C16.holdsObs on the implementation's observation -/
def chkBld (a : List String) : String :=
  let (op, obs) := splitBar a
  match op, obs with
  | ["obs"], [_ty, len, hdr, n, recs, msg] =>
    let rs : Option (List C16.RecObs) :=
      if recs == "-" then some []
      else (recs.splitOn ";").mapM fun r =>
        match r.splitOn ":" with
        | [tid, fc, l, hex] => do
          let tid ← tid.toNat?
          let fc ← fc.toNat?
          let l ← l.toNat?
          let b ← fromHex hex
          pure { tid := tid, fieldCount := fc, length := l, bytes := b }
        | _ => none
    match len.toNat?, fromHex hdr, n.toNat?, rs with
    | some len, some hdr, some n, some rs =>
      let m : Option (Option Bytes) := if msg == "err" then some none else (fromHex msg).map some
      match m with
      | some m =>
        if rs.length != n then "fails record-count"
        else if C16.holdsObs { length := len, header := hdr, recs := rs, msg := m } then "holds" else "fails length-bookkeeping"
      | none => "bad-op"
    | _, _, _, _ => "bad-op"
  | _, _ => "na"

def parseWrites (tok : String) : Option (List Bytes) :=
  if tok == "-" then some [] else (tok.splitOn "+").mapM fromHex

/-- `chk exp <op> | <impl obs>`: Spec.Exp.sendVerdict on the implementation's observation -/
def chkExp (t : ExpSpec.Tracker) (a : List String) : ExpSpec.Tracker × String :=
  let (op, obs) := splitBar a
  match op with
  | ["new", dom] =>
    match dom.toNat? with
    | some d => ({ dom := d }, "holds")
    | none => (t, "bad-op")
  | ["seq", n] =>
    match n.toNat? with
    | some n => ({ t with seq := n }, "holds")
    | none => (t, "bad-op")
  | ["getseq"] => (t, "na")
  | ["tids"] => (t, "na")
  | ["send", _path, ty, setid, recs] =>
    match parseSetType ty, setid.toNat?, parseRecsDesc recs with
    | some ty, some sid, some rs =>
      let o : ExpSpec.Obs :=
        match obs with
        | ["ok", n, w, tk] =>
          match n.toNat?, parseWrites w with
          | some n, some ws => .ok n ws (tk == "timeok")
          | _, _ => .other
        | ["err", w] =>
          match parseWrites w with
          | some ws => .err ws
          | none => .other
        | ["builderr"] => .builderr
        | _ => .other
      ExpSpec.sendVerdict t { ty := ty, setId := sid, recs := rs } o
    | _, _, _ => (t, "bad-op")
  | _ => (t, "na")

end Driver
