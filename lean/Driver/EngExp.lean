import Driver.State
import IpfixModel.Model.Exporter
import IpfixModel.Model.Lifecycle
import IpfixModel.Spec.C16
import Driver.EngDec
namespace Driver
open Ipfix

def parseSetType : String → Option SetType
  | "t" => some .template | "d" => some .data | "u" => some .undefined | "o" => some .other | _ => none

def setTypeTok : SetType → String
  | .template => "t" | .data => "d" | .undefined => "u" | .other => "o"

/-- elems token: ie=value,ie=value ("-" = empty) -/
def parseElems (tok : String) : Option (List Elem) :=
  if tok == "-" then some []
  else (tok.splitOn ",").mapM fun p =>
    match p.splitOn "=" with
    | [i, v] => do
      let ie ← parseIE i
      let v ← parseValue v
      pure (ie, v)
    | _ => none

def setObs (s : SetB) : String :=
  let recs := joinOr ";" (s.recs.map fun r => s!"{r.tid}:{r.fieldCount}:{r.length}:{hexOrDash r.bytes}")
  let msg := match createMsg s 7 9 0 with
    | some b => hexOrDash b
    | none => "err"
  s!"{setTypeTok s.ty} {s.length} {hexOrDash s.header} {s.recs.length} {recs} {msg}"

/-- engine "bld" -/
def engBld (s : Option SetB) (a : List String) : Option SetB × String :=
  match a with
  | ["new"] => (some SetB.new, "ok")
  | _ =>
    match s with
    | none => (s, "bad-op")
    | some b =>
      match a with
      | ["prep", t, id] =>
        match parseSetType t, id.toNat? with
        | some t, some id =>
          match b.prepare t id with
          | some b' => (some b', "ok")
          | none => (s, "err")
        | _, _ => (s, "bad-op")
      | ["add", path, _extra, tid, elems] =>
        match tid.toNat?, parseElems elems with
        | some tid, some es =>
          let r := if path == "2" then b.addRecordV2 es tid else b.addRecord es tid
          match r with
          | some b' => (some b', "ok")
          | none => (s, "err")
        | _, _ => (s, "bad-op")
      | ["make", t, tid, elems] =>
        -- entities.MakeTemplateSet / MakeDataSet: a NEW set of the given type with one record (copying add path);
        -- the engine's set is replaced by it, or kept when the convenience function reports an error
        match parseSetType t, tid.toNat?, parseElems elems with
        | some ty, some tid, some es =>
          if ty == .template || ty == .data then
            match (SetB.new.prepare ty tid).bind (·.addRecord es tid) with
            | some b' => (some b', "ok")
            | none => (s, "err")
          else (s, "bad-op")
        | _, _, _ => (s, "bad-op")
      | ["upd"] => (some b.updateLen, "ok")
      | ["reset"] => (some b.reset, "ok")
      | ["obs"] => (s, setObs b)
      | _ => (s, "bad-op")

def parseRecsDesc (tok : String) : Option (List (Nat × List Elem)) :=
  if tok == "-" then some []
  else (tok.splitOn ";").mapM fun r =>
    match r.splitOn "@" with
    | [tid, es] => do
      let tid ← tid.toNat?
      let es ← parseElems es
      pure (tid, es)
    | _ => none

/-- engine "exp": the ops that touch the sequential exporter model only -/
def engExp1 (st : ExpState) (a : List String) : ExpState × String :=
  match a with
  | ["new", dom] =>
    match dom.toNat? with
    | some d => ({ dom := d }, "ok")
    | none => (st, "bad-op")
  | ["seq", n] =>
    match n.toNat? with
    | some n => ({ st with seq := n }, "ok")
    | none => (st, "bad-op")
  | ["getseq"] => (st, s!"seq {st.seq}")
  | ["tids"] =>
    let ids := (st.templates.map (·.1)).toArray.qsort (· < ·) |>.toList
    (st, "tids " ++ joinOr "," (ids.map toString))
  | _ => (st, "bad-op")

/-- insertion sort of the recorded templates by id (the harness reports a refresh sorted by id) -/
def sortTpls (l : List (Nat × List IE)) : List (Nat × List IE) := l.foldl (fun acc x => Life.insertBy id x acc) []

/-- `exp failnext <kind>`: err / refused = the Write fails (whatever the error is), short<k> = the Write
    returns (k, nil) having written k bytes -/
def parseOutcome (tok : String) : Option WriteOutcome :=
  if tok == "err" || tok == "refused" || tok == "errfull" then some .fail   -- errfull: (len, error) - still a failed write
  else if tok.startsWith "short" then ((tok.drop 5).toNat?).map .short
  else none

/-- the in-memory connection writes at most the whole slice: `short k` with k ≥ the message length is a
    complete write -/
def effOutcome (st : ExpState) (s : SetB) (w : WriteOutcome) : WriteOutcome :=
  match w, (st.sendBuilt 0 s).2 with
  | .short k, .ok n _ => .short (min k n)
  | w, _ => w

/-- one SendSet of the IPFIX path under a pending outcome: state, result, bytes that reached the
    connection, whether the outcome was used up (a Write was made) -/
def sendPending (st : ExpState) (s : SetB) (w : WriteOutcome) : ExpState × SendResult × Bytes × Bool :=
  let w' := effOutcome st s w
  let r := st.sendBuiltW 0 s w'
  (r.1, r.2, st.wroteW 0 s w', st.reachesWrite 0 s)

/-- engine "exp"; the second state component is templatesMap[id].elements (Model/Lifecycle.lean) -/
def engExp (stp : ExpDrv × List (Nat × List IE)) (a : List String) : (ExpDrv × List (Nat × List IE)) × String :=
  let drv := stp.1
  let st := drv.st
  let lift (r : ExpState × String) : (ExpDrv × List (Nat × List IE)) × String := (({ drv with st := r.1 }, stp.2), r.2)
  match a with
  | ["new", dom] =>
    match dom.toNat? with
    | some d => (({ st := { dom := d } }, []), "ok")
    | none => (stp, "bad-op")
  | ["new", dom, "json"] =>
    match dom.toNat? with
    | some d => (({ st := { dom := d }, json := true }, []), "ok")
    | none => (stp, "bad-op")
  | ["failnext", kind] =>
    match parseOutcome kind with
    | some w => (({ drv with failNext := some w }, stp.2), "ok")
    | none => (stp, "bad-op")
  | ["refresh"] =>
    -- sendRefreshedTemplates: one MakeTemplateSet + SendSet per recorded template; here in id order
    match Life.buildAll (sortTpls stp.2) with
    | none => (stp, "err -")
    | some sets =>
      if drv.json then (stp, "ok 0 - timeok")     -- a template set writes nothing in JSON mode (and is recorded already)
      else
      match drv.failNext with
      | none =>
        let step := fun (acc : ExpState × List Bytes × Bool) (s : SetB) =>
          if acc.2.2 then acc
          else match acc.1.sendBuilt 0 s with
            | (st', .ok _ w) => (st', acc.2.1 ++ [w], false)
            | (st', .err) => (st', acc.2.1, true)
        let r := sets.foldl step (st, [], false)
        let w := if r.2.1.isEmpty then "-" else "+".intercalate (r.2.1.map hexOrDash)
        if r.2.2 then (({ drv with st := r.1 }, stp.2), s!"err {w}") else (({ drv with st := r.1 }, stp.2), s!"ok {r.2.1.length} {w} timeok")
      | some w0 =>
        -- the pending outcome goes to the first Write of the pass; a failing SendSet ends the pass
        let step := fun (acc : ExpState × List Bytes × Bool × Option WriteOutcome) (s : SetB) =>
          if acc.2.2.1 then acc
          else
            let (st', r, wrote, used) := sendPending acc.1 s (acc.2.2.2.getD .ok)
            let ws := if wrote.isEmpty then acc.2.1 else acc.2.1 ++ [wrote]
            (st', ws, !(match r with | .ok _ _ => true | .err => false), if used then none else acc.2.2.2)
        let r := sets.foldl step (st, [], false, some w0)
        let w := if r.2.1.isEmpty then "-" else "+".intercalate (r.2.1.map hexOrDash)
        let inj := if r.2.2.2.isNone then " injected" else ""
        let drv' : ExpDrv := { drv with st := r.1, failNext := r.2.2.2 }
        if r.2.2.1 then ((drv', stp.2), s!"err {w}{inj}") else ((drv', stp.2), s!"ok {r.2.1.length} {w} timeok{inj}")
  | ["send", path, t, setid, recs] =>
    match parseSetType t, setid.toNat?, parseRecsDesc recs with
    | some ty, some sid, some rs =>
      let d : SetDesc := { ty := ty, setId := sid, recs := rs }
      match d.build (path == "2" || path == "2r") with
      | none => if ty = .data then (stp, "err -") else (stp, "builderr")
      | some s =>
        if drv.json then
          -- JSON mode: `okj <writes>` / `err -` (no write) / `errj <writes>`; the text is not modelled
          let used := drv.failNext.isSome && st.writesJ s > 0
          let (st', r) := st.sendBuiltJW s (drv.failNext.getD .ok)
          let inj := if used then " injected" else ""
          let drv' : ExpDrv := { drv with st := st', failNext := if used then none else drv.failNext }
          match r with
          | .ok n => ((drv', if s.ty = .template then Life.recordTemplates stp.2 s else stp.2), s!"okj {n}{inj}")
          | .err 0 => ((drv', stp.2), s!"err -{inj}")
          | .err n => ((drv', stp.2), s!"errj {n}{inj}")
        else
        match drv.failNext with
        | none =>
          let (st', r) := st.sendBuilt 0 s
          match r with
          | .ok n w => (({ drv with st := st' }, if s.ty = .template then Life.recordTemplates stp.2 s else stp.2), s!"ok {n} {hexOrDash w} timeok")
          | .err => (({ drv with st := st' }, stp.2), "err -")
        | some w0 =>
          let (st', r, wrote, used) := sendPending st s w0
          let inj := if used then " injected" else ""
          let drv' : ExpDrv := { drv with st := st', failNext := if used then none else drv.failNext }
          match r with
          | .ok n w => ((drv', if s.ty = .template then Life.recordTemplates stp.2 s else stp.2), s!"ok {n} {hexOrDash w} timeok{inj}")
          | .err => ((drv', stp.2), s!"err {hexOrDash wrote}{inj}")
    | _, _, _ => (stp, "bad-op")
  | _ => lift (engExp1 st a)

/-- `chk bld obs | <ty> <length> <hdr> <n> <recs> <msg>` : Spec.C16.holdsObs on the implementation's observation -/
def chkBld (a : List String) : String :=
  let (op, obs) := splitBar a
  match op, obs with
  | ["obs"], [_ty, len, hdr, n, recs, msg] =>
    let rs : Option (List C16.RecObs) :=
      if recs == "-" then some []
      else (recs.splitOn ";").mapM fun r =>
        match r.splitOn ":" with
        | [tid, fc, l, hex] => do
          let tid ← tid.toNat?
          let fc ← fc.toNat?
          let l ← l.toNat?
          let b ← fromHex hex
          pure { tid := tid, fieldCount := fc, length := l, bytes := b }
        | _ => none
    match len.toNat?, fromHex hdr, n.toNat?, rs with
    | some len, some hdr, some n, some rs =>
      if msg.startsWith "export-time-" then "fails export-time-is-not-the-second-of-sending" else
      let m : Option (Option Bytes) := if msg == "err" then some none else (fromHex msg).map some
      match m with
      | some m =>
        if rs.length != n then "fails record-count"
        else if C16.holdsObs { length := len, header := hdr, recs := rs, msg := m } then "holds" else "fails length-bookkeeping"
      | none => "bad-op"
    | _, _, _, _ => "bad-op"
  | ["obs"], [_, _, _, _, _, _, "retained-records-changed"] =>
    -- the list of records a caller took out of the set before a reset changed under the reset or the reuse of the
    -- set: a reset set does not behave like a new one (a new set shares nothing with the old message)
    "fails retained-records-changed"
  | _, _ => "na"

/-- engine "e2e": exporter model composed with the collector model (transports are the identity on
    messages: C11 for TCP framing, one datagram per message over UDP, TLS/DTLS as the same channels) -/
def engE2E (s : DState) (a : List String) : DState × String :=
  match a with
  | ["open", _transport, _fam, mode, dom] =>
    match parseMode mode, dom.toNat? with
    | some m, some d => ({ s with e2eExp := { dom := d }, e2eColl := {}, e2eMode := m }, "ok")
    | _, _ => (s, "bad-op")
  | ["close"] => (s, "ok")
  | ["send", path, t, setid, recs] =>
    match parseSetType t, setid.toNat?, parseRecsDesc recs with
    | some ty, some sid, some rs =>
      let d : SetDesc := { ty := ty, setId := sid, recs := rs }
      match d.build (path == "2" || path == "2r") with
      | none => if ty = .data then (s, "err") else (s, "builderr")
      | some b =>
        let (st', r) := s.e2eExp.sendBuilt 0 b
        match r with
        | .err => ({ s with e2eExp := st' }, "err")
        | .ok n w =>
          let (c', o) := decodePacket fastLookup s.e2eMode s.e2eColl w
          let s' := { s with e2eExp := st', e2eColl := c' }
          match o with
          | .ok m => (s', s!"sent {n} {(msgToken m).drop 3} timeok addrok")
          | _ => (s', s!"sent {n} none")
    | _, _, _ => (s, "bad-op")
  | "burst" :: path :: tid :: recs =>
    -- k data sets sent back-to-back: the model's transports neither lose nor reorder, so all k messages
    -- are delivered, in the order of the sends
    match tid.toNat?, recs.mapM parseRecsDesc with
    | some sid, some rss =>
      if rss.isEmpty then (s, "bad-op") else
      let step := fun (acc : DState × List String × List String) (rs : List (Nat × List Elem)) =>
        let s := acc.1
        let d : SetDesc := { ty := .data, setId := sid, recs := rs }
        match d.build (path == "2" || path == "2r") with
        | none => (s, acc.2.1 ++ ["err"], acc.2.2)
        | some b =>
          let (st', r) := s.e2eExp.sendBuilt 0 b
          match r with
          | .err => ({ s with e2eExp := st' }, acc.2.1 ++ ["err"], acc.2.2)
          | .ok n w =>
            let (c', o) := decodePacket fastLookup s.e2eMode s.e2eColl w
            let s' := { s with e2eExp := st', e2eColl := c' }
            match o with
            | .ok m => (s', acc.2.1 ++ [toString n], acc.2.2 ++ [s!"{(msgToken m).drop 3} timeok addrok"])
            | _ => (s', acc.2.1 ++ [toString n], acc.2.2)
      let r := rss.foldl step (s, [], [])
      let ms := if r.2.2.isEmpty then "none" else " | ".intercalate r.2.2
      (r.1, s!"burst {",".intercalate r.2.1} {ms}")
    | _, _ => (s, "bad-op")
  | _ => (s, "bad-op")

/-- spec-side judgement of a refused SendSet: C01 quantifies over sets that fit one message, of
    well-typed values, for a template the exporter has sent; a refusal outside that is `na` -/
def refusalVerdict (tpls : List (Nat × List IE)) (ty : SetType) (sid : Nat) (rs : List (Nat × List Elem)) : String :=
  match ty with
  | .template =>
    let size := 16 + 4 + (rs.map fun r => (templateRecordBytes r.1 (r.2.map (·.1))).length).sum
    if size > 65535 then "na" else "fails send-error"
  | .data =>
    match tpls.find? (·.1 == sid) with
    | none => "na"
    | some (_, ies) =>
      if rs.any (fun r => r.2.map (·.1) != ies) then "na"
      else if rs.any (fun r => (encodeRecord r.2).isNone) then "na"
      else if 16 + 4 + (rs.map fun r => recordLength r.2).sum > 65535 then "na"
      else "fails send-error"
  | _ => "na"

abbrev E2ESpecState := E2ESpec

/-- one delivered data message - the tokens after the sequence number: domain, kind, records, export
    time, exporter address - against the records handed to SendSet: same observation domain, same
    number of records, every value identical (addresses in canonical length) -/
def judgeData (dom : Nat) (rs : List (Nat × List Elem)) (toks : List String) : String :=
  match toks with
  | [d, kind, vals, tk, ak] =>
    if d.toNat? != some dom then "fails domain"
    else if kind != "data" then "fails kind"
    else
      let expected := rs.map fun r => r.2.map fun e => C15.canon e.1 e.2
      match parseRecords vals with
      | some got =>
        if got.length != expected.length then "fails record-count"
        else if got != expected then "fails values"
        else if tk != "timeok" then "fails export-time"
        else if ak != "addrok" then "fails export-address"
        else "holds"
      | none => "fails shape"
  | d :: _ => if d.toNat? != some dom then "fails domain" else "fails shape"
  | _ => "fails shape"

/-- the deliveries of a burst, in arrival order, against the sets of the burst in sending order
    (`sets`: index, the sequence number the message of that set must carry, its records): every
    delivered message is the message of a set sent later than the set of the previous delivery -
    found by its sequence number - and equals it. `next` = index of the first set not yet passed. -/
def judgeBurst (dom : Nat) (sets : List (Nat × Nat × List (Nat × List Elem))) : Nat → List (List String) → String
  | _, [] => "holds"
  | next, m :: rest =>
    match m with
    | _len :: _time :: sq :: toks =>
      match sq.toNat? with
      | none => "fails shape"
      | some q =>
        match sets.find? (fun x => x.1 ≥ next && x.2.1 == q) with
        | some (i, _, rs) =>
          let v := judgeData dom rs toks
          if v == "holds" then judgeBurst dom sets (i + 1) rest else v
        | none =>
          match sets.find? (fun x => x.2.1 == q) with
          | some (i, _, _) => if i + 1 == next then "fails duplicate" else "fails out-of-order"
          | none => "fails unknown-message"
    | _ => "fails shape"

/-- `chk e2e <op> | <impl obs>`: C01 stated directly on what was handed to SendSet and what the
    collector delivered: same observation domain, same template fields (id, enterprise, type, length,
    name) in order, same number of records, every value identical (addresses in canonical length).
    A burst (k sets sent before the application reads anything): over tcp/tls all k messages, in order;
    over udp/dtls a datagram may be lost, but what is delivered is a subsequence of what was sent -/
def chkE2E (st : E2ESpecState) (a : List String) : E2ESpecState × String :=
  let dom := st.dom
  let (op, obs) := splitBar a
  match op with
  | ["open", tr, _, _, d] => ({ dom := (d.toNat?).getD 0, tpls := [], stream := tr == "tcp" || tr == "tls", seq := none }, "holds")
  | ["close"] => (st, if obs == ["ok"] then "holds" else "fails delivered-message-changed-later")
  | ["send", _path, t, setid, recs] =>
    match parseSetType t, parseRecsDesc recs with
    | some ty, some rs =>
      match obs with
      | ["builderr"] => (st, "na")
      | "sent" :: _n :: _len :: _time :: sq :: d :: kind :: rest =>
        let st := { st with seq := sq.toNat? }
        if d.toNat? != some dom then (st, "fails domain")
        else if kind == "tpl" then
          match rest, rs with
          | [id, ies, tk, ak], [(tid, es)] =>
            if ty != .template then (st, "fails kind")
            else if id.toNat? != some tid then (st, "fails template-id")
            else if parseIEs ies != some (es.map (·.1)) then (st, "fails template-fields")
            else if tk != "timeok" then (st, "fails export-time")
            else if ak != "addrok" then (st, "fails export-address")
            else ({ st with tpls := if st.tpls.any (·.1 == tid) then st.tpls else st.tpls ++ [(tid, es.map (·.1))] }, "holds")
          | _, _ => (st, "fails shape")
        else if kind == "data" then
          if ty != .data then (st, "fails kind")
          else (st, judgeData dom rs (d :: kind :: rest))
        else (st, "fails shape")
      | ["sent", _, "none"] => ({ st with seq := none }, "fails not-delivered")
      | ["err"] => ({ st with seq := none }, refusalVerdict st.tpls ty ((setid.toNat?).getD 0) rs)
      | _ => ({ st with seq := none }, "fails shape")
    | _, _ => (st, "bad-op")
  | "burst" :: _path :: tid :: recs =>
    match tid.toNat?, recs.mapM parseRecsDesc with
    | some sid, some rss =>
      match obs with
      | ["builderr"] => (st, "na")
      | "burst" :: ns :: deliv =>
        let ns := ns.splitOn ","
        if ns.length != rss.length || deliv.isEmpty then ({ st with seq := none }, "fails shape")
        else
          let refused := (ns.zip rss).filter (·.1 == "err")
          if !refused.isEmpty then
            -- a refused set of the burst is judged as a refused `send`; nothing more is said about the rest
            let bad := refused.any fun p => refusalVerdict st.tpls .data sid p.2 != "na"
            ({ st with seq := none }, if bad then "fails send-error" else "na")
          else
            match st.seq with
            | none => (st, "na")
            | some s0 =>
              -- message i carries the counter after the records of sets 1..i
              let cum := rss.foldl (fun (acc : Nat × List Nat) rs =>
                let c := (acc.1 + rs.length) % 4294967296
                (c, acc.2 ++ [c])) (s0, [])
              let sets := (List.range rss.length).zip (cum.2.zip rss)
              let msgs := if deliv == ["none"] then [] else splitBars deliv
              let st' := { st with seq := some cum.1 }
              let v := judgeBurst dom sets 0 msgs
              if v != "holds" then (st', v)
              else if st.stream && msgs.length != rss.length then (st', "fails not-delivered")
              else (st', "holds")
      | _ => ({ st with seq := none }, "fails shape")
    | _, _ => (st, "bad-op")
  | _ => (st, "na")

def parseWrites (tok : String) : Option (List Bytes) :=
  if tok == "-" then some [] else (tok.splitOn "+").mapM fromHex

/-- `chk exp <op> | <impl obs>`: Spec.Exp.sendVerdict on the implementation's observation; a send whose
    observation ends in `injected` (the connection gave the `failnext` outcome to a Write of that call) by
    Spec.Exp.sendVerdictW, a send of a JSON session (`exp new <dom> json`) by Spec.Exp.sendVerdictJ -/
def chkExp (t : ExpSpec.Tracker) (a : List String) : ExpSpec.Tracker × String :=
  let (op, obs) := splitBar a
  match op with
  | ["new", dom] =>
    match dom.toNat? with
    | some d => ({ dom := d }, "holds")
    | none => (t, "bad-op")
  | ["new", dom, "json"] =>
    match dom.toNat? with
    | some d => ({ dom := d, json := true }, "holds")
    | none => (t, "bad-op")
  | ["failnext", kind] =>
    match parseOutcome kind with
    | some w => ({ t with pending := some w }, if obs == ["ok"] then "holds" else "fails obs")
    | none => (t, "bad-op")
  | ["seq", n] =>
    match n.toNat? with
    | some n => ({ t with seq := n }, "holds")
    | none => (t, "bad-op")
  | ["getseq"] => (t, "na")
  | ["tids"] => (t, "na")
  | ["refresh"] =>
    let injected := obs.getLast? == some "injected"
    if t.json || injected then
      -- JSON mode: a refresh writes nothing; a pass whose Write was made to fail is not judged
      (if injected then { t with pending := none } else t, "na")
    else
    match obs with
    | ["ok", _n, w, tk] =>
      match parseWrites w with
      | some ws => (t, ExpSpec.refreshVerdict t ws (tk == "timeok"))
      | none => (t, "fails obs")
    | "err" :: _ => (t, "fails c02:refresh-error")
    | _ => (t, "fails obs")
  | ["send", _path, ty, setid, recs] =>
    match parseSetType ty, setid.toNat?, parseRecsDesc recs with
    | some ty, some sid, some rs =>
      let injected := obs.getLast? == some "injected"
      let obs := if injected then obs.dropLast else obs
      if t.json then
        let o : ExpSpec.ObsJ :=
          match obs with
          | ["okj", n] => match n.toNat? with | some n => .ok n | none => .other
          | ["errj", n] => match n.toNat? with | some n => .err n | none => .other
          | ["err", "-"] => .err 0
          | ["builderr"] => .builderr
          | _ => .other
        ExpSpec.sendVerdictJ t { ty := ty, setId := sid, recs := rs } o injected
      else
      let o : ExpSpec.Obs :=
        match obs with
        | ["ok", n, w, tk] =>
          match n.toNat?, parseWrites w with
          | some n, some ws => .ok n ws (tk == "timeok")
          | _, _ => .other
        | ["err", w] =>
          match parseWrites w with
          | some ws => .err ws
          | none => .other
        | ["builderr"] => .builderr
        | _ => .other
      ExpSpec.sendVerdictW t { ty := ty, setId := sid, recs := rs } o injected
    | _, _, _ => (t, "bad-op")
  | _ => (t, "na")

end Driver
