/-
  Line-protocol driver for the store engine (property C20). Core-only imports.

  ops (one per line)                                                     observation
    store add tpl  <ver> <dom> <seq> <len> <time> <id> <groups>          ok <entries held> <hex of the new entry>
    store add data <ver> <dom> <seq> <len> <time> <id> <ies> <records>   ok <entries held> <hex of the new entry>
    store records <METHOD> <count> <format>                              <status> <hex of the body>
    store reset <METHOD>                                                 <status> <hex of the body>
    # ...                                                                skip   (also: start of a new case = fresh store / tracker)
    chk store <op...> | <implementation's observation>                   holds | fails <why> | na

  <groups>  `~` = no records; else `;`-separated template records, each `-` (no fields) or a
            `,`-separated list of IE tokens `ent:id:ty:len:hexname`
  <ies>     `-` or `,`-separated IE tokens; <records> `-` = none, else `;`-separated records, each
            `.` (no values) or `,`-separated value tokens (n<dec> | t | f | x<hex>), one per IE
  <count>, <format>   `-` = parameter absent, `h<hex>` = the raw parameter value (`h` = empty)

  The model lines (`store ...`) run Ipfix.Store.step; the `chk` lines run Ipfix.C20.verdict with
  a tracker that follows the chk lines themselves (arrivals since the last reset as shown by the
  implementation).
-/
import Driver.Proto
import IpfixModel.Model.Store
import IpfixModel.Spec.C20
open Driver Ipfix Ipfix.Store

namespace DriverStore

def hexOfString (s : String) : String :=
  let b := s.toUTF8
  if b.size == 0 then "-"
  else b.foldl (fun acc x => (acc.push (hexDigit (x.toNat / 16))).push (hexDigit (x.toNat % 16))) ""

def stringOfHex (tok : String) : Option String :=
  match fromHex tok with
  | some b => String.fromUTF8? b.toByteArray
  | none => none

/-- `-` = absent, `h<hex>` = present -/
def parseParam (tok : String) : Option (Option String) :=
  if tok == "-" then some none
  else match tok.toList with
    | 'h' :: r => if r.isEmpty then some (some "") else (stringOfHex (String.ofList r)).map some
    | _ => none

/-- IE token `ent:id:ty:len:hexname` (as `Driver.parseIE`, but the name bytes are UTF-8 here) -/
def parseIEu (tok : String) : Option IE :=
  match tok.splitOn ":" with
  | [ent, id, ty, len, name] => do
    let nm ← fromHex name
    pure { name := utf8OrLatin1 nm, id := ← id.toNat?, ty := DataType.ofCode (← ty.toNat?), ent := ← ent.toNat?, len := ← len.toNat? }
  | _ => none

def parseIEsU (tok : String) : Option (List IE) :=
  if tok == "-" then some [] else (tok.splitOn ",").mapM parseIEu

def parseGroups (tok : String) : Option (List (List IE)) :=
  if tok == "~" then some [] else (tok.splitOn ";").mapM parseIEsU

/-- `-` = no records; records separated by `;`; a record without values is `.` -/
def parseRecs (tok : String) : Option (List (List Value)) :=
  if tok == "-" then some []
  else (tok.splitOn ";").mapM fun r => if r == "." then some [] else (r.splitOn ",").mapM parseValue

def zipRecord (ies : List IE) (vs : List Value) : Option (List (IE × Value)) :=
  if ies.length = vs.length then some (ies.zip vs) else none

def parseOp (a : List String) : Option Op :=
  match a with
  | ["add", "tpl", ver, dom, seq, len, time, _id, groups] => do
    let gs ← parseGroups groups
    pure (.add { version := ← ver.toNat?, length := ← len.toNat?, exportTime := ← time.toNat?, seq := ← seq.toNat?,
                 domain := ← dom.toNat?, isTemplate := true,
                 records := gs.map fun g => g.map fun ie => (ie, Value.num 0) })
  | ["add", "data", ver, dom, seq, len, time, _id, ies, recs] => do
    let ies ← parseIEsU ies
    let rs ← parseRecs recs
    let recs ← rs.mapM (zipRecord ies)
    pure (.add { version := ← ver.toNat?, length := ← len.toNat?, exportTime := ← time.toNat?, seq := ← seq.toNat?,
                 domain := ← dom.toNat?, isTemplate := false, records := recs })
  | ["records", method, count, format] => do
    pure (.records method (← parseParam count) (← parseParam format))
  | ["reset", method] => some (.reset method)
  | _ => none

def showObs : Obs → String
  | .added n e => s!"ok {n} {hexOfString e}"
  | .resp st b => s!"{st} {hexOfString b}"
  | .other => "other"

def parseObs (op : Op) (o : List String) : Obs :=
  match op, o with
  | .add _, ["ok", n, hex] =>
    match n.toNat?, stringOfHex hex with
    | some n, some e => .added n e
    | _, _ => .other
  | .add _, _ => .other
  | _, [st, hex] =>
    match st.toNat?, stringOfHex hex with
    | some st, some b => .resp st b
    | _, _ => .other
  | _, _ => .other

/-- observation lines are ASCII: element names in a verdict may be anything (incl. U+2028) -/
def asciiOnly (s : String) : String :=
  s.map fun c => if c == ' ' || (33 ≤ c.toNat && c.toNat ≤ 126) then c else '?'

structure State where
  store : Store
  tracker : C20.Tracker

def State.fresh : State := ⟨Store.empty, C20.Tracker.init⟩

def dispatch (st : State) (line : String) : State × String :=
  match fields line with
  | [] => (st, "skip")
  | e :: args =>
    if e.startsWith "#" then (State.fresh, "skip")
    else if e == "store" && args.head? == some "recordsc" then
      -- `store recordsc <METHOD> <count> <format> <k>`: a records query DURING which k further copies
      -- of the newest message arrive. The handler holds the store lock until it has written its
      -- response, so the response is that of a plain query and the arrivals follow it.
      match args with
      | ["recordsc", m, c, f, k] =>
        match parseOp ["records", m, c, f], k.toNat? with
        | some op, some k =>
          let (s', o) := st.store.step op
          let s'' := match s'.items.getLast? with
            | some e => (List.range k).foldl (fun acc _ => acc.add e) s'
            | none => s'
          ({ st with store := s'' }, showObs o)
        | _, _ => (st, "bad-op")
      | _ => (st, "bad-op")
    else if e == "store" then
      match parseOp args with
      | some op =>
        let (s', o) := st.store.step op
        ({ st with store := s' }, showObs o)
      | none => (st, "bad-op")
    else if e == "chk" then
      match args with
      | "store" :: rest =>
        let (opToks, obsToks) := splitBar rest
        if opToks.head? == some "recordsc" then
          match opToks with
          | ["recordsc", m, c, f, k] =>
            match parseOp ["records", m, c, f], k.toNat? with
            | some op, some k =>
              let o := parseObs op obsToks
              let v := match C20.verdict st.tracker op o with
                | none => "holds"
                | some why => "fails concurrent-arrival " ++ asciiOnly why
              let t' : C20.Tracker := match st.tracker.rev with
                | e :: _ => ⟨List.replicate k e ++ st.tracker.rev⟩
                | [] => st.tracker
              ({ st with tracker := t' }, v)
            | _, _ => (st, "bad-op")
          | _ => (st, "bad-op")
        else
        match parseOp opToks with
        | some op =>
          let o := parseObs op obsToks
          let v := match C20.verdict st.tracker op o with
            | none => "holds"
            | some why => "fails " ++ asciiOnly why
          ({ st with tracker := C20.next st.tracker op o }, v)
        | none => (st, "bad-op")
      | _ => (st, "na")
    else (st, "bad-op")

partial def loop (h : IO.FS.Stream) (out : IO.FS.Stream) (st : State) : IO Unit := do
  let line ← h.getLine
  if line.isEmpty then return ()
  let (st', r) := dispatch st line.trimAsciiEnd.copy
  out.putStrLn r
  loop h out st'

end DriverStore

def main : IO Unit := do
  let stdin ← IO.getStdin
  let stdout ← IO.getStdout
  DriverStore.loop stdin stdout DriverStore.State.fresh
