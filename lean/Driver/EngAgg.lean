import Driver.Proto
import IpfixModel.Model.Agg
import IpfixModel.Spec.C06
import IpfixModel.Spec.C07
import IpfixModel.Spec.C05
namespace Driver
open Ipfix Ipfix.Agg

/-- correlate-field tokens in the fixed order of the configuration: six strings... see Model/Agg -/
def corrKinds : List Nat := [0, 0, 0, 0, 0, 0, 2, 1, 1, 1, 1, 3]   -- 0 string, 1 number, 2 IPv4 address, 3 IPv6 address

/-- what the harness's element constructors accept of the number at each position: destinationServicePort is an
    unsigned16, the two rule actions are unsigned8, the rule priority a signed32 given by its 32-bit pattern -/
def corrBounds : List Nat := [0, 0, 0, 0, 0, 0, 0, 65536, 256, 256, 4294967296, 0]

/-- a decimal number as Go's strconv.ParseUint(s, 10, bits) reads it: digits only (no sign, no `_`), below `bound` -/
def decBelow (bound : Nat) (s : String) : Option Nat :=
  if s.isEmpty || !s.all Char.isDigit then none
  else match s.toNat? with
    | some n => if n < bound then some n else none
    | none => none

/-- the value token `~` at any position = the record does not carry that correlate field -/
def parseCorr (tok : String) : Option (List CorrV) :=
  let ts := tok.splitOn ","
  if ts.length != corrKinds.length then none
  else ((ts.zip corrKinds).zip corrBounds).mapM fun ((t, k), bound) =>
    if t == "~" then some .absent
    else match t.toList, k with
    | 'n' :: r, 1 => (decBelow bound (String.ofList r)).map .num
    | 'x' :: r, 0 => (fromHex (String.ofList r)).map .str
    | 'x' :: r, 2 => (fromHex (String.ofList r)).map .ip4
    | 'x' :: r, 3 => (fromHex (String.ofList r)).map .ip6
    | _, _ => none

def corrToken (c : List CorrV) : String :=
  ",".intercalate (c.map fun v => match v with
    | .str b => "x" ++ hexOrDash b
    | .num n => s!"n{n}"
    | .ip4 b => "x" ++ hexOrDash b
    | .ip6 b => "x" ++ hexOrDash b
    | .absent => "~")

def natsToken (l : List Nat) : String := ",".intercalate (l.map toString)

def parseNats (tok : String) : Option (List Nat) := (tok.splitOn ",").mapM (·.toNat?)

def b01 (b : Bool) : String := if b then "1" else "0"

def aggDump (a : AggRec) : String :=
  s!"{a.flowType}/{corrToken a.corr}/{a.start}/{a.end_}/{a.endReason}/{hexOrDash a.tcpState}/{natsToken a.stats}/{natsToken a.srcStats}/{natsToken a.dstStats}/{a.endSrc}/{a.endDst}/{natsToken a.thr}/{natsToken a.thrSrc}/{natsToken a.thrDst}/{b01 a.ready}/{a.retries}/{b01 a.corrFilled}"

/-- the engine's dump: an 18th field, the stored httpVals (`~` = the stored record has no such element) -/
def aggDumpE (a : AggRec) : String :=
  aggDump a ++ "/" ++ (match a.httpVals with | some b => "x" ++ hexOrDash b | none => "~")

/-- the permutation seed of a trailing `p<n>` token as Go's strconv.ParseInt(_, 10, 64) reads it; `agg rec` takes a
    negative seed too (and then does not permute), `agg msg` refuses it -/
def permOk (allowNeg : Bool) (p : String) : Bool :=
  if !p.startsWith "p" then false
  else
    let d := (p.drop 1).toString
    (decBelow 9223372036854775808 d).isSome ||
      (allowNeg && d.startsWith "-" && (decBelow 9223372036854775809 (d.drop 1).toString).isSome) ||
      (d.startsWith "+" && (decBelow 9223372036854775808 (d.drop 1).toString).isSome)

/-- drop an optional trailing `p<n>` = the order in which the record(s) list their elements (a permutation
    seed): the aggregation looks fields up by NAME, so the model's record - a structure - does not carry it -/
def stripPerm (allowNeg : Bool) (a : List String) : List String :=
  match a.reverse with
  | p :: rest => if permOk allowNeg p then rest.reverse else a
  | [] => a

/-- the flow-key token as Go's strconv.Atoi reads it (an optional sign) -/
def parseKeyTok (k : String) : Option Nat :=
  if k.startsWith "+" then decBelow 9223372036854775808 (k.drop 1).toString else decBelow 9223372036854775808 k

/-- the eight arguments of one record; the ranges are those the harness enforces (flowType and flowEndReason are
    unsigned8, the two times unsigned32, the eight statistics unsigned64) -/
def parseRec8 (a : List String) : Option InRec :=
  match a with
  | [k, ft, corr, st, en, reason, tcp, stats] => do
    let k ← parseKeyTok k
    let ft ← decBelow 256 ft
    let c ← parseCorr corr
    let st ← decBelow u32 st
    let en ← decBelow u32 en
    let reason ← decBelow 256 reason
    let tcp ← fromHex tcp
    let stats ← (stats.splitOn ",").mapM (decBelow u64)
    if stats.length != nStats then none
    else pure { key := k, flowType := ft, corr := c, start := st, end_ := en, endReason := reason, tcpState := tcp, stats := stats }
  | _ => none

/-- ... and, in the sessions created with `http`, a ninth: `h=<hex>`, what the record's httpVals element holds -/
def parseRecCore (a : List String) : Option InRec :=
  match a with
  | [k, ft, corr, st, en, reason, tcp, stats, h] =>
    if h.startsWith "h=" then do
      let r ← parseRec8 [k, ft, corr, st, en, reason, tcp, stats]
      let v ← fromHex (h.drop 2).toString
      pure { r with httpVals := some v }
    else none
  | _ => parseRec8 a

/-- a record with any key (the linearizability harness has its own key table) -/
def parseRec (a : List String) : Option InRec := parseRecCore (stripPerm true a)

/-- the engine's key table has the five-tuples 1..6 (harness: aggKeys) and the synthesized IPv4 five-tuples
    7..4000 (harness: aggKey); for the model a flow key is an opaque number -/
def aggKeyOk (k : Nat) : Bool := 1 ≤ k && k ≤ 4000

/-- a trailing `omit=<names>` token of `agg rec`: the record's template lacks these elements. Such a record is
    outside the model (the aggregation may refuse it half-way through its updates) -/
def hasOmit (a : List String) : Bool :=
  a.length ≥ 9 && (match a.getLast? with | some t => t.startsWith "omit=" | none => false)

/-- `agg rec` -/
def parseRecA (a : List String) : Option InRec := (parseRec a).filter (fun r => aggKeyOk r.key)

/-- split a token list at the standalone token `sep` -/
def splitTokens (sep : String) (a : List String) : List (List String) :=
  let (cur, done) := a.foldl (fun (acc : List String × List (List String)) t =>
    if t == sep then ([], acc.1.reverse :: acc.2) else (t :: acc.1, acc.2)) ([], [])
  (cur.reverse :: done).reverse

/-- five-tuples 4 and 5 of the engine's key table are IPv6 ones (harness: aggKeys) -/
def keyIsV6 (k : Nat) : Bool := k == 4 || k == 5

/-- which correlate fields a record lacks -/
def absentMask (r : InRec) : List Bool := r.corr.map CorrV.isAbsent

/-- a record that travels exporter encoding -> collector decoding: the exporter writes an IPv4 element as the four
    bytes `To4()` of its value, so the decoded value is the 4-byte form whichever form was handed over (a value
    that is no IPv4 address cannot be encoded: the harness answers bad-op) -/
def wireForm (r : InRec) : Option InRec := do
  let c ← r.corr.mapM fun v => match v with
    | .ip4 b => (to4 b).map .ip4
    | v => some v
  pure { r with corr := c }

/-- `agg msg <rec_1> + ... + <rec_k> [p<n>]`: the records of ONE data set as the collector decodes it (one
    template: one element order, one address family, one set of fields - so the records lack the same correlate
    fields). For the aggregation a message is its records in order. -/
def parseMsg (a : List String) : Option (List InRec) :=
  match ((splitTokens "+" (stripPerm false a)).mapM parseRecCore).bind (·.mapM wireForm) with
  | some (r :: rs) =>
    if (r :: rs).all (fun x => aggKeyOk x.key) && rs.all (fun x => keyIsV6 x.key == keyIsV6 r.key && absentMask x == absentMask r)
    then some (r :: rs) else none
  | _ => none

/-- the options of `agg new`: [cfg<n>] [http] -/
def newOptsOk (opts : List String) : Bool :=
  let cfgOk (c : String) : Bool := c.startsWith "cfg" && (decBelow 9223372036854775808 (c.drop 3).toString).isSome
  match opts with
  | [] => true
  | ["http"] => true
  | [c] => cfgOk c
  | [c, "http"] => cfgOk c
  | _ => false

/-- `agg key <sport> <dport> <proto> <src4> <dst4> <src6> <dst6> [p<n>]`: `~` = the record has no such element -/
def parseKeyRec (a : List String) : Option FlowKey.KeyRec :=
  let a := match a with
    | [s, d, p, a4, b4, a6, b6, perm] => if permOk false perm then [s, d, p, a4, b4, a6, b6] else a
    | _ => a
  let num (bound : Nat) (t : String) : Option (Option Nat) := if t == "~" then some none else (decBelow bound t).map some
  let addr (t : String) : Option (Option Bytes) :=
    if t == "~" then some none
    else match t.toList with
      | 'x' :: r => (fromHex (String.ofList r)).map some
      | _ => none
  match a with
  | [s, d, p, a4, b4, a6, b6] => do
    let s ← num 65536 s
    let d ← num 65536 d
    let p ← num 256 p
    let a4 ← addr a4
    let b4 ← addr b4
    let a6 ← addr a6
    let b6 ← addr b6
    pure { sport := s, dport := d, proto := p, src4 := a4, dst4 := b4, src6 := a6, dst6 := b6 }
  | _ => none

def ipTextToken : FlowKey.IPText → String
  | .unset => "unset"
  | .nil => "nil"
  | .bad b => "bad:" ++ hexOrDash b
  | .v4 b => "4:" ++ hexOrDash b
  | .v6 b => "6:" ++ hexOrDash b

/-- engine "agg": see harness/cmd/harness/eng_agg.go -/
def engAgg (s : Agg.State) (a : List String) : Agg.State × String :=
  match a with
  | "new" :: act :: inact :: opts =>
    -- cfg<n> = the same configuration with its lists in another order, http = httpVals is configured (every record
    -- of the session then carries an h= token): neither changes what the model does
    match act.toNat?, inact.toNat? with
    | some x, some y => if newOptsOk opts then ({ activeT := x, inactiveT := y }, "ok") else (s, "bad-op")
    | _, _ => (s, "bad-op")
  | "key" :: rest =>
    match parseKeyRec rest with
    | none => (s, "bad-op")
    | some r =>
      -- the walk of getFlowKeyFromRecord (Model/FlowKey.lean)
      match FlowKey.keyLoop r with
      | none => (s, "err")
      | some (k, v4) => (s, s!"ok {ipTextToken k.src} {ipTextToken k.dst} {k.proto} {k.sport} {k.dport} {b01 v4}")
  | "rec" :: rest =>
    if hasOmit rest then (s, "na")      -- outside the model
    else match parseRecA rest with
    | some r => (ingest s r, "ok")
    | none => (s, "bad-op")
  | "msg" :: rest =>
    -- AggregateMsgByFlowKey takes the records of the message one by one
    match parseMsg rest with
    | some rs => (rs.foldl ingest s, "ok")
    | none => (s, "bad-op")
  | ["adv", d] =>
    match d.toNat? with
    | some d => ({ s with now := s.now + d }, "ok")
    | none => (s, "bad-op")
  | ["scan", fails, reset] =>
    let fl : List Nat := if fails == "-" then [] else (fails.splitOn ",").filterMap (·.toNat?)
    let (s', o) := scan s (fun k => fl.contains k) (reset == "1")
    let cbs := joinOr ";" (o.callbacks.map fun (k, a) => s!"{k}={aggDumpE a}")
    (s', s!"cb {cbs} {if o.failed then "fail" else "ok"}")
  | ["dump"] =>
    let fs := s.flows.toArray.qsort (fun a b => a.1 < b.1) |>.toList
    (s, joinOr ";" (fs.map fun (k, a) => s!"{k}={aggDumpE a}"))
  | ["snap"] =>
    let ks := (s.flows.map (·.1)).toArray.qsort (· < ·) |>.toList
    let items := s.pq.toList.map fun it =>
      match s.find it.key with
      | some a => s!"{it.key}/{it.active}/{it.inactive}/ok/{b01 a.ready}/{a.retries}"
      | none => s!"{it.key}/{it.active}/{it.inactive}/bad/0/0"
    (s, s!"held {joinOr "," (ks.map toString)} queue {joinOr "," items} nflows {s.flows.length}")
  | ["expiry"] => (s, toString (nextExpiry s))
  | _ => (s, "bad-op")

def parseSItem (tok : String) : Option C06.SItem :=
  match tok.splitOn "/" with
  | [k, a, i, okf, rd, rt] => do
    let k ← k.toNat?
    let a ← a.toNat?
    let i ← i.toNat?
    let rt ← rt.toNat?
    pure { key := k, active := a, inactive := i, ok := okf == "ok", ready := rd == "1", retries := rt }
  | _ => none

def parseSnap (obs : List String) : Option C06.Snap :=
  match obs with
  | ["held", h, "queue", q, "nflows", n] => do
    let held ← if h == "-" then some [] else (h.splitOn ",").mapM (·.toNat?)
    let n ← n.toNat?
    let items ← if q == "-" then some [] else (q.splitOn ",").mapM parseSItem
    pure { held := held, queue := items, nflows := n }
  | _ => none

/-- keys of the callbacks in a `cb ...` observation -/
def parseCbKeys (tok : String) : Option (List Nat) :=
  if tok == "-" then some [] else (tok.splitOn ";").mapM fun c => ((c.splitOn "=").head?).bind (·.toNat?)

/-- the snapshot Spec.C06.checkRec asks for after a record for key `k` at `now` (a new flow is queued with
    (now + a, now + i); an existing one keeps its active deadline and gets inactive := now + i). A message of
    several records is judged record by record: all but the last are applied to the previous snapshot, the last
    one is left to `checkRec`, which then demands exactly these deadlines of the other keys. -/
def snapAfterRec (s : C06.Snap) (k now a i : Nat) : C06.Snap :=
  match C06.findItem s.queue k with
  | some _ => { s with queue := s.queue.map fun it => if it.key == k then { it with inactive := now + i } else it }
  | none => { held := s.held ++ [k], nflows := s.nflows + 1,
              queue := s.queue ++ [{ key := k, active := now + a, inactive := now + i, ok := true, ready := false, retries := 0 }] }

/-- `chk agg <op> | <impl obs>`: the scheduling specification (Spec.C06) on the implementation's trace -/
def chkAgg (t : C06.Tracker) (a : List String) : C06.Tracker × String :=
  let (op, obs) := splitBar a
  match op with
  | "new" :: x :: y :: _ => ({ a := (x.toNat?).getD 0, i := (y.toNat?).getD 0 }, "holds")
  | ["adv", d] => ({ t with now := t.now + (d.toNat?).getD 0 }, "holds")
  | "rec" :: k :: rest =>
    let om := hasOmit (k :: rest)
    match obs, k.toNat? with
    | ["ok"], some k => ({ t with pending := .record k, lax := t.lax || om }, "holds")
    -- a record whose template lacks elements may be refused; a refused record leaves the schedule alone: the
    -- tracker is what it was, and the next snapshot is judged as if nothing had been sent (Spec.C06.checkIdle)
    | ["err"], some _ => if om || t.lax then (t, "holds") else (t, "fails record-refused")
    | _, _ => (t, "fails record-refused")
  | "msg" :: rest =>
    match obs, (parseMsg rest).map (fun rs => rs.map (·.key)) with
    | ["ok"], some ks =>
      match ks.reverse with
      | k :: before => ({ t with last := before.reverse.foldl (fun s k' => snapAfterRec s k' t.now t.a t.i) t.last, pending := .record k }, "holds")
      | [] => (t, "fails obs")
    | _, _ => (t, "fails record-refused")
  | ["scan", _, _] =>
    match obs with
    | ["cb", cbs, res] =>
      match parseCbKeys cbs with
      | some ks => ({ t with pending := .scan ks (res == "fail") }, "holds")
      | none => (t, "fails obs")
    | _ => (t, "fails obs")
  | ["snap"] =>
    match parseSnap obs with
    | none => (t, "fails obs")
    | some s =>
      let t' := { t with last := s, pending := .none }
      match C06.checkSched s with
      | some why => (t', s!"fails sched {why}")
      | none =>
        match t.pending with
        | .none =>
          match C06.checkIdle t.last s with
          | some why => (t', s!"fails idle {why}")
          | none => (t', "holds")
        | .record k =>
          match C06.checkRec t.last s k t.now t.a t.i with
          | some why => (t', s!"fails rec {why}")
          | none => (t', "holds")
        | .scan cbs failed =>
          match C06.checkScan t.last s t.now t.a t.i cbs failed with
          | some why => (t', s!"fails scan {why}")
          | none => (t', "holds")
  | ["expiry"] =>
    match obs with
    | [n] => if n.toNat? == some (C06.expectedExpiry t.last t.now t.a t.i) then (t, "holds") else (t, s!"fails expiry expected {C06.expectedExpiry t.last t.now t.a t.i}")
    | _ => (t, "fails obs")
  | _ => (t, "na")

def parseShown (tok : String) : Option C07.Shown :=
  match tok.splitOn "=" with
  | [k, d] =>
    match k.toNat?, d.splitOn "/" with
    | some k, f =>
      if f.length != 18 then none
      else do
        let c ← parseCorr (f.getD 1 "")
        pure { key := k, corr := c, ready := f.getD 14 "" == "1", filled := f.getD 16 "" == "1" }
    | none, _ => none
  | _ => none

/-- elements of a record that only aggregateRecords (the statistics update) reads -/
def statsOnlyElems : List String :=
  ["packetTotalCount", "packetDeltaCount", "octetTotalCount", "octetDeltaCount", "reversePacketTotalCount",
   "reversePacketDeltaCount", "reverseOctetTotalCount", "reverseOctetDeltaCount", "tcpState", "flowEndReason",
   "flowEndSeconds", "flowStartSeconds"]

/-- `chk aggc <op> | <impl obs>`: the correlation specification (Spec.C07) on the implementation's trace -/
def chkAggC (t : C07.Tracker) (a : List String) : C07.Tracker × String :=
  let (op, obs) := splitBar a
  match op with
  | "new" :: act :: _ :: _ => ({ activeT := act.toNat?.getD 0 }, "holds")
  | ["adv", d] => ({ t with now := t.now + d.toNat?.getD 0 }, "holds")
  | _ =>
  if t.off then (t, "na")
  else match op with
  | "rec" :: rest =>
    if hasOmit rest then
      -- a record whose template lacks elements that only the STATISTICS update reads (the counters, tcpState, the end
      -- reason, the times): for a flow that is already held, correlation comes first in addOrUpdateRecordInMap, so both
      -- sides have been seen and the correlate fields are merged whether or not the statistics update then refuses the
      -- record; a refused record for a key that is not held creates nothing. Anything else leaves the domain.
      let names := ((rest.getLast?.getD "").drop 5).toString.splitOn ","
      if names.all (fun n => statsOnlyElems.contains n) then
        match parseRecA rest.dropLast, obs with
        | some r, ["ok"] => (t.onRecord r, "holds")
        | some r, ["err"] => ((if (t.find r.key).isSome then t.onRecord r else t), "holds")
        | _, _ => ({ t with off := true }, "na")
      else ({ t with off := true }, "na")
    else match parseRecA rest, obs with
    | some r, ["ok"] => (t.onRecord r, "holds")
    | _, _ => (t, "fails record-refused")
  | "msg" :: rest =>
    match parseMsg rest, obs with
    | some rs, ["ok"] => (rs.foldl (fun t r => t.onRecord r) t, "holds")
    | _, _ => (t, "fails record-refused")
  | ["scan", fails, _] =>
    -- (the retry bound: Tracker.onScan; a scan in which no callback can fail examines every due item)
    let t1 := t.onScan (fails == "-")
    match obs with
    | ["cb", cbs, _res] =>
      if cbs == "-" then (t1, "holds")
      else
        let shown := (cbs.splitOn ";").map parseShown
        if shown.any (·.isNone) then (t1, "fails obs")
        else
          let ss := shown.filterMap id
          match ss.find? (fun s => !s.ready) with
          | some s => (t1, s!"fails exported-unready {s.key}")
          | none =>
            match ss.filterMap (C07.checkShown t) with
            | w :: _ => (t1, s!"fails export {w}")
            | [] => (t1, "holds")
    | _ => (t, "fails obs")
  | ["dump"] =>
    match obs with
    | ["-"] => ({ t with flows := [] }, "holds")
    | [d] =>
      let shown := (d.splitOn ";").map parseShown
      if shown.any (·.isNone) then (t, "fails obs")
      else
        let ss := shown.filterMap id
        -- flows that are gone (expired / dropped) are forgotten: a later record starts a new flow
        let t' : C07.Tracker := { t with flows := t.flows.filter fun f => ss.any (·.key == f.key) }
        match ss.filterMap (C07.checkShown t') with
        | w :: _ => (t', s!"fails dump {w}")
        | [] => (t', "holds")
    | _ => (t, "fails obs")
  | _ => (t, "na")

def parseShown05 (tok : String) : Option (Nat × C05.Shown) :=
  match tok.splitOn "=" with
  | [k, d] =>
    let f := d.splitOn "/"
    if f.length != 18 then none
    else do
      let k ← k.toNat?
      let en ← (f.getD 3 "").toNat?
      let st ← parseNats (f.getD 6 "")
      let sr ← parseNats (f.getD 7 "")
      let ds ← parseNats (f.getD 8 "")
      let es ← (f.getD 9 "").toNat?
      let ed ← (f.getD 10 "").toNat?
      let t ← parseNats (f.getD 11 "")
      let ts ← parseNats (f.getD 12 "")
      let td ← parseNats (f.getD 13 "")
      pure (k, { end_ := en, stats := st, src := sr, dst := ds, endSrc := es, endDst := ed, thr := t, thrSrc := ts, thrDst := td })
  | _ => none

/-- check every shown record whose history respects the contract; `(failure?, #judged, #outside)` -/
def judge05 (t : C05.Tracker) (shown : List (Nat × C05.Shown)) : Option String :=
  (shown.filterMap fun (k, s) =>
    let h := t.hist k
    if C05.contract h then (C05.checkShown h s).map fun w => s!"{w} {k}" else none).head?

/-- `chk agga <op> | <impl obs>`: the arithmetic specification (Spec.C05) on the implementation's trace -/
def chkAggA (t : C05.Tracker) (a : List String) : C05.Tracker × String :=
  let (op, obs) := splitBar a
  match op with
  | "new" :: _ :: _ :: _ => ({}, "holds")
  | "key" :: rest =>
    match parseKeyRec rest with
    | none => (t, "na")
    | some r =>
      let ans : Option (Option C05.KeyAnswer) := match obs with
        | ["err"] => some none
        | ["ok", src, dst, pr, sp, dp, f] =>
          match pr.toNat?, sp.toNat?, dp.toNat? with
          | some pr, some sp, some dp =>
            if f == "0" || f == "1" then some (some { text := s!"{src} {dst} {pr} {sp} {dp}", proto := pr, sport := sp, dport := dp, bothV4 := f == "1" })
            else none
          | _, _, _ => none
        | _ => none
      match ans with
      | none => (t, "fails obs")
      | some a =>
        let t' := match a with
          | some x => { t with keys := t.keys ++ [(r, x.text)] }
          | none => t
        match C05.judgeKey t.keys r a with
        | some w => (t', s!"fails key {w}")
        | none => (t', "holds")
  | _ =>
  if t.off then (t, "na")
  else match op with
  | "rec" :: rest =>
    if hasOmit rest then ({ t with off := true }, "na")
    else match parseRecA rest, obs with
    | some r, ["ok"] => (t.add r.key (.record r), "holds")
    | _, _ => (t, "fails record-refused")
  | "msg" :: rest =>
    match parseMsg rest, obs with
    | some rs, ["ok"] => (rs.foldl (fun t r => t.add r.key (.record r)) t, "holds")
    | _, _ => (t, "fails record-refused")
  | ["scan", _, reset] =>
    match obs with
    | ["cb", cbs, res] =>
      if cbs == "-" then (t, "holds")
      else
        let shown := (cbs.splitOn ";").map parseShown05
        if shown.any (·.isNone) then (t, "fails obs")
        else
          let ss := shown.filterMap id
          let verdict := judge05 t ss
          -- the callback resets the statistics of every flow it exported successfully
          let okKeys := if res == "fail" then (ss.map (·.1)).dropLast else ss.map (·.1)
          let t' := if reset == "1" then okKeys.foldl (fun t k => t.add k .reset) t else t
          match verdict with
          | some w => (t', s!"fails export {w}")
          | none => (t', "holds")
    | _ => (t, "fails obs")
  | ["dump"] =>
    match obs with
    | ["-"] => ({}, "holds")
    | [d] =>
      let shown := (d.splitOn ";").map parseShown05
      if shown.any (·.isNone) then (t, "fails obs")
      else
        let ss := shown.filterMap id
        let t' : C05.Tracker := { t with flows := t.flows.filter fun f => ss.any (·.1 == f.1) }
        if ss.length != t'.flows.length then (t', "fails one-flow-per-key")
        else match judge05 t' ss with
          | some w => (t', s!"fails dump {w}")
          | none => (t', "holds")
    | _ => (t, "fails obs")
  | _ => (t, "na")

end Driver
