/-
  driver_life (property C14): the Lean side of harness/cmd/harness-life. One line out per line in.

    # ...                                       -> skip
    life udp <id> dom=<n> refresh=<s> slack=<ms> grace=<ms> closeat=<ms> closers=<k> reps=<r>
             [unrefreshable=<tid> early=<ms>] sends=<send>!<send>... tail=<count>~<every ms>~<desc>
        unrefreshable=<tid>: the generator's claim that template <tid> cannot be rebuilt by the refresher; the
        specification derives that itself (Spec.C14.unbuildable: the model's makeTemplateSet on the elements of
        every template of the scenario) and fails the session if claim and derivation differ. early=<ms>: how
        much earlier than k * refresh after InitExportingProcess returned the k-th tick may fire.
    life tcp <id> dom=<n> check=<ms> slack=<ms> grace=<ms> mode=<full|half|idle|cclose> peerat=<ms|->
             closeat=<ms> closers=<k> reps=<r> sends=<send>!... loop=<start>~<every>~<until>~<desc>|- tail=...
        <send> = <at ms>~<desc>      <desc> = <path 0|1|2>~<t|d>~<set id>~<tid@ie=value,...;...>   (as in `exp send`)
                                                -> expect <proto> app-ok=<n> refresh=<n> refused=<n> wire=<n> closed=<b> stop-closes=<n> spec=<b> unbuildable=<tid,...|->
        the MODEL's canonical run of the scenario (Model/Lifecycle.lean): the scheduled sends in order, a whole
        refresh at every multiple of the refresh interval before the close (UDP), the peer close followed by a
        connection check that reads EOF (TCP), the Close calls, the sends after Close.
        spec = Spec.C14.framesOK / streamOK on the model's wire.

    chk life <scenario ...> | <observation>     -> holds | fails <why> | bad-op
        Spec.C14.udpVerdict / tcpVerdict on the implementation's observation:
        udp sends=<s>,... dgrams=<t>:<hex>,... close=<start>,<done>,<calls>,<returned> bg=<n> panic=<0|1> race=<0|1>
        tcp sends=<s>,... chunks=<t>:<hex>,... peer=<t|-> readend=<t|-> close=... bg=<n> panic=<0|1> race=<0|1>
        <s> = <e<i>|l|t>:<t call>:<t return>:<ok|err|hung>:<bytes>    (e<i> = i-th scheduled send, l = loop send, t = tail send;
              hung = the call had not returned when the harness' 2 s watchdog gave it up)
        scenario times in ms, observed times in MICROSECONDS, both since InitExportingProcess returned.

  Core-only imports.
-/
import Driver.Proto
import IpfixModel.Model.Lifecycle
import IpfixModel.Spec.C14
open Ipfix Ipfix.Life

namespace DriverLife
open Driver

def kv (toks : List String) (key : String) : Option String :=
  (toks.find? (fun t => t.startsWith (key ++ "="))).map (fun t => String.ofList (t.toList.drop (key.length + 1)))

def kvNat (toks : List String) (key : String) : Option Nat := (kv toks key).bind String.toNat?

def parseSetType : String → Option SetType
  | "t" => some .template | "d" => some .data | "u" => some .undefined | "o" => some .other | _ => none

def parseElems (tok : String) : Option (List Elem) :=
  if tok == "-" then some []
  else (tok.splitOn ",").mapM fun p =>
    match p.splitOn "=" with
    | [i, v] => do
      let ie ← parseIE i
      let v ← parseValue v
      pure (ie, v)
    | _ => none

def parseRecsDesc (tok : String) : Option (List (Nat × List Elem)) :=
  if tok == "-" then some []
  else (tok.splitOn ";").mapM fun r =>
    match r.splitOn "@" with
    | [tid, es] => do
      let tid ← tid.toNat?
      let es ← parseElems es
      pure (tid, es)
    | _ => none

structure Desc where
  v2 : Bool
  d : SetDesc

/-- <path>~<t|d>~<setid>~<recs> -/
def parseDesc (parts : List String) : Option Desc :=
  match parts with
  | [path, ty, sid, recs] => do
    let ty ← parseSetType ty
    let sid ← sid.toNat?
    let rs ← parseRecsDesc recs
    pure { v2 := path == "2", d := { ty := ty, setId := sid, recs := rs } }
  | _ => none

structure Scenario where
  udp : Bool
  dom : Nat
  periodMs : Nat          -- refresh interval (UDP) / check interval (TCP), ms
  slackMs : Nat
  graceMs : Nat
  mode : C14.TcpMode
  peerAt : Option Nat
  closeAt : Nat
  closers : Nat
  reps : Nat
  sends : List (Nat × Desc)
  loop : Option (Nat × Nat × Nat × Desc)
  tail : Option (Nat × Nat × Desc)
  unref : Option Nat := none
  earlyMs : Nat := 0

def parseMode : String → Option C14.TcpMode
  | "full" => some .full | "half" => some .half | "idle" => some .idle | "cclose" => some .cclose
  | "slow" => some .cclose   -- the collector never closes; it only starts reading late (nothing the specification sees)
  | _ => none

def parseSendList (tok : String) : Option (List (Nat × Desc)) :=
  if tok == "-" then some []
  else (tok.splitOn "!").mapM fun s =>
    match s.splitOn "~" with
    | tAt :: rest => do
      let t ← tAt.toNat?
      let d ← parseDesc rest
      pure (t, d)
    | _ => none

def parseLoop (tok : Option String) : Option (Option (Nat × Nat × Nat × Desc)) :=
  match tok with
  | none => some none
  | some l =>
    if l == "-" then some none
    else match l.splitOn "~" with
      | s :: e :: u :: rest => do
        let s ← s.toNat?
        let e ← e.toNat?
        let u ← u.toNat?
        let d ← parseDesc rest
        pure (some (s, e, u, d))
      | _ => none

def parseTail (tok : Option String) : Option (Option (Nat × Nat × Desc)) :=
  match tok with
  | none => some none
  | some l =>
    if l == "-" then some none
    else match l.splitOn "~" with
      | c :: e :: rest => do
        let c ← c.toNat?
        let e ← e.toNat?
        let d ← parseDesc rest
        pure (some (c, e, d))
      | _ => none

def parseScenario (a : List String) : Option Scenario :=
  match a with
  | proto :: _id :: toks => do
    let udp ← if proto == "udp" then some true else if proto == "tcp" then some false else none
    let dom ← kvNat toks "dom"
    let period ← if udp then (kvNat toks "refresh").map (· * 1000) else kvNat toks "check"
    let slack ← kvNat toks "slack"
    let grace ← kvNat toks "grace"
    let mode ← if udp then some C14.TcpMode.cclose else (kv toks "mode").bind parseMode
    let peerAt : Option Nat := (kv toks "peerat").bind String.toNat?
    let closeAt ← kvNat toks "closeat"
    let closers ← kvNat toks "closers"
    let reps ← kvNat toks "reps"
    let sends ← (kv toks "sends").bind parseSendList
    let loop ← parseLoop (kv toks "loop")
    let tail ← parseTail (kv toks "tail")
    let unref : Option Nat ← match kv toks "unrefreshable" with
      | none => some none
      | some v => v.toNat?.map some
    let early ← match kv toks "early" with
      | none => some 0
      | some v => v.toNat?
    pure { udp := udp, dom := dom, periodMs := period, slackMs := slack, graceMs := grace, mode := mode, peerAt := peerAt,
           closeAt := closeAt, closers := closers, reps := reps, sends := sends, loop := loop, tail := tail,
           unref := unref, earlyMs := early }
  | _ => none

/-! ## the model's canonical run -/

def buildSet (d : Desc) : Option SetB := d.d.build d.v2

/-- an unbuildable set (the builder refuses) never reaches SendSet; the harness reports it as a failed send -/
def sendEv (d : Desc) : List Event :=
  match buildSet d with
  | some s => [.appSend 0 s]
  | none => []

/-- a whole refresh: the tick and as many sends as there can be templates -/
def refreshEvs (n : Nat) : List Event := .refreshTick id :: List.replicate n (.refreshStep 0)

def canonical (sc : Scenario) : List Event :=
  let nt := sc.sends.length
  if sc.udp then
    -- scheduled sends in order of time, a refresh at every multiple of the period before the close
    let rec go (fuel : Nat) (now : Nat) (sends : List (Nat × Desc)) (acc : List Event) : List Event :=
      match fuel with
      | 0 => acc
      | fuel + 1 =>
        let nextTick := (now / sc.periodMs + 1) * sc.periodMs
        match sends with
        | (t, d) :: rest =>
          if t < nextTick ∨ sc.closeAt ≤ nextTick then go fuel t rest (acc ++ sendEv d)
          else go fuel nextTick sends (acc ++ refreshEvs nt)
        | [] =>
          if nextTick < sc.closeAt then go fuel nextTick [] (acc ++ refreshEvs nt) else acc
    let body := go (sc.sends.length + sc.closeAt / (max sc.periodMs 1) + 2) 0 sc.sends []
    let tail := match sc.tail with
      | some (c, _, d) => (List.replicate c (sendEv d)).flatten
      | none => []
    body ++ List.replicate (sc.closers * sc.reps) .close ++ tail
  else
    let before := sc.sends.filter (fun s => match sc.peerAt with | some p => s.1 < p | none => true)
    let after := sc.sends.filter (fun s => match sc.peerAt with | some p => p ≤ s.1 | none => false)
    let loopEv := match sc.loop with
      | some (_, _, _, d) => sendEv d
      | none => []
    let peer : List Event := match sc.peerAt with
      | some _ => [.peerClose] ++ loopEv ++ [.connCheck true] ++ loopEv
      | none => loopEv
    let tail := match sc.tail with
      | some (c, _, d) => (List.replicate c (sendEv d)).flatten
      | none => []
    (before.map (fun s => sendEv s.2)).flatten ++ peer ++ (after.map (fun s => sendEv s.2)).flatten ++
      List.replicate (sc.closers * sc.reps) .close ++ tail

def isRefreshMsg (st : LState) (w : Bytes) : Bool :=
  st.tpls.any fun p => match makeTemplateSet p.1 p.2 with
    | some s => (createMsg s.updateLen st.exp.dom 0 0).map (·.drop 12) == some (w.drop 12) && w.length > 20
    | none => false

/-- every set descriptor of the scenario, called or not -/
def scheduledDescs (sc : Scenario) : List SetDesc :=
  sc.sends.map (·.2.d) ++ (match sc.loop with | some (_, _, _, d) => [d.d] | none => []) ++
    (match sc.tail with | some (_, _, d) => [d.d] | none => [])

def opScenario (a : List String) : String :=
  match parseScenario a with
  | none => "bad-op"
  | some sc =>
    let st0 := LState.init (if sc.udp then .udp else .tcp) sc.dom
    let r := run st0 (canonical sc)
    let oks := (r.2.filter fun o => match o with | some (.ok _ _) => true | _ => false).length
    let errs := (r.2.filter fun o => match o with | some .err => true | _ => false).length
    let wire := r.1.wire.length
    let spec := C14.framesOK sc.dom r.1.wire && C14.streamOK sc.dom r.1.wire.flatten
    let unb := C14.unbuildable (scheduledDescs sc)
    let unbTok := if unb.isEmpty then "-" else ",".intercalate (unb.map toString)
    s!"expect {if sc.udp then "udp" else "tcp"} app-ok={oks} refresh={wire - oks} refused={errs} wire={wire} closed={r.1.closed} stop-closes={r.1.stopCloses} spec={spec} unbuildable={unbTok}"

/-! ## the specification on the implementation's observation -/

def parseTimed (tok : String) : Option (List C14.Timed) :=
  if tok == "-" then some []
  else (tok.splitOn ",").mapM fun x =>
    match x.splitOn ":" with
    | [t, h] => do
      let t ← t.toNat?
      let b ← fromHex h
      pure { t := t, bytes := b }
    | _ => none

/-- sends token -> (descriptor, observation) per call -/
def parseSends (sc : Scenario) (tok : String) : Option (List (SetDesc × C14.SendObs)) :=
  if tok == "-" then some []
  else (tok.splitOn ",").mapM fun x =>
    match x.splitOn ":" with
    | [kind, tc, tr, res, n] => do
      let tc ← tc.toNat?
      let tr ← tr.toNat?
      let n ← n.toNat?
      let ok ← if res == "ok" then some true else if res == "err" || res == "hung" then some false else none
      let d ← if kind == "l" then sc.loop.map (·.2.2.2.d)
        else if kind == "t" then sc.tail.map (·.2.2.d)
        else if kind.startsWith "e" then ((String.ofList (kind.toList.drop 1)).toNat?.bind fun i => sc.sends[i]?).map (·.2.d)
        else none
      pure (d, { tCall := tc, tRet := tr, ok := ok, n := n, hung := res == "hung" })
    | _ => none

def parseClose (tok : String) : Option C14.CloseObs :=
  match (tok.splitOn ",").mapM String.toNat? with
  | some [s, d, c, r] => some { start := s, done := d, calls := c, returned := r }
  | _ => none

def parseRuntime (toks : List String) : Option C14.Runtime := do
  let bg ← kvNat toks "bg"
  let p ← kvNat toks "panic"
  let r ← kvNat toks "race"
  pure { bgLeft := bg, panic := p != 0, race := r != 0 }

/-- what the specification needs of the scenario besides the per-call descriptors -/
def withScenario (sc : Scenario) (o : C14.UdpObs) : C14.UdpObs :=
  { o with scheduled := scheduledDescs sc, unref := sc.unref, early := sc.earlyMs * 1000 }

def chkLife (a : List String) : String :=
  let (op, obs) := splitBar a
  match parseScenario op with
  | none => "bad-op"
  | some sc =>
    match obs with
    | "harness-error" :: _ => "fails harness-error"
    | ["crash"] => "fails process-crashed"
    | "crash" :: _ => "fails process-crashed"
    | proto :: toks =>
      if (proto == "udp") != sc.udp || (proto != "udp" && proto != "tcp") then "fails observation-shape"
      else
        match (kv toks "sends").bind (parseSends sc), (kv toks "close").bind parseClose, parseRuntime toks with
        | some sends, some close, some rt =>
          if sc.udp then
            match (kv toks "dgrams").bind parseTimed with
            | some dg =>
              C14.udpVerdict (withScenario sc
                             { dom := sc.dom, period := sc.periodMs * 1000, slack := sc.slackMs * 1000, grace := sc.graceMs * 1000,
                               plan := sends.map (·.1), sends := sends.map (·.2), dgrams := dg, close := close, rt := rt })
            | none => "fails observation-shape"
          else
            match (kv toks "chunks").bind parseTimed, kv toks "peer", kv toks "readend" with
            | some ch, some peer, some re =>
              C14.tcpVerdict { dom := sc.dom, check := sc.periodMs * 1000, slack := sc.slackMs * 1000, grace := sc.graceMs * 1000, mode := sc.mode,
                               plan := sends.map (·.1), sends := sends.map (·.2), chunks := ch,
                               peerClose := peer.toNat?, readEnd := re.toNat?, close := close, rt := rt }
            | _, _, _ => "fails observation-shape"
        | _, _, _ => "fails observation-shape"
    | [] => "fails observation-shape"

def dispatch (line : String) : String :=
  match fields line with
  | [] => "skip"
  | e :: args =>
    if e.startsWith "#" then "skip"
    else if e == "life" then opScenario args
    else if e == "chk" then
      match args with
      | "life" :: rest => chkLife rest
      | _ => "na"
    else "bad-op"

end DriverLife

partial def loop (h : IO.FS.Stream) (out : IO.FS.Stream) : IO Unit := do
  let line ← h.getLine
  if line.isEmpty then return ()
  out.putStrLn (DriverLife.dispatch (line.trimAsciiEnd.toString))
  out.flush
  loop h out

def main : IO Unit := do
  let stdin ← IO.getStdin
  let stdout ← IO.getStdout
  loop stdin stdout
