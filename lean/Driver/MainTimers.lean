/-
  Line-protocol driver for the timer engine (property C10). Core-only imports.

  ops (one per line)                 observation = `<res> now=<n> tpls=<..> armed=<..> pend=<..>`
    tm new <ttl>                     ok ...          fresh collector, template TTL = ttl clock units (seconds)
    tm tpl <dom> <id>                new | refresh   valid template set for (dom, id)
    tm bad <dom> <id>                err             template set for (dom, id) that fails after the id was read
    tm data <dom> <id>               acc | rej       data set for (dom, id)
    tm adv <delta>                   ok              the clock moves forward
    tm fire <timerIndex>             fired | disabled        timerIndex = creation order of the timer (AfterFunc calls)
    tm cbnow <cbIndex>               read:<now> | disabled   cbIndex = order in which the callbacks were started (fire events)
    tm cbfin <cbIndex>               done:del | done:keep | disabled
    tm snap                          snap
    # ...                            skip   (start of a new case: state and tracker are dropped)
    chk tm <op...> | <implementation's observation>     holds | fails <why> | na

  snapshot lists (`-` when empty, `,`-separated, sorted):
    tpls   <dom>:<id>                               stored template keys
    armed  <timerIndex>:<dom>:<id>@<deadline>       armed timers (sorted by timer index)
    pend   <cbIndex>:<timerIndex>:<dom>:<id>:<now read | ->   callbacks started and not finished

  The `tm` lines run Ipfix.Timers.step (and evaluate Ipfix.C10.invB on every state reached: a state
  violating the invariant is reported as `model-invariant-broken` - by Props/C10.invB_reachable this
  never happens). The `chk` lines evaluate Ipfix.C10.verdict (= StepOK, Props/C10.verdict_none_iff)
  on the implementation's observations; the tracker (history, previous observation) follows the
  chk lines themselves.
-/
import IpfixModel.Model.Timers
import IpfixModel.Spec.C10
open Ipfix.Timers

namespace DriverTimers

def fields (line : String) : List String := (line.splitOn " ").filter (· ≠ "")

def splitBar (a : List String) : List String × List String :=
  (a.takeWhile (· ≠ "|"), (a.dropWhile (· ≠ "|")).drop 1)

def joinOr (l : List String) : String := if l.isEmpty then "-" else ",".intercalate l

def keyLe (a b : Key) : Bool := a.1 < b.1 || (a.1 == b.1 && a.2 ≤ b.2)

def showRes : Res → String
  | .created => "new"
  | .refreshed => "refresh"
  | .invalidated => "err"
  | .accepted => "acc"
  | .rejected => "rej"
  | .advanced => "ok"
  | .fired => "fired"
  | .read r => s!"read:{r}"
  | .finished true => "done:del"
  | .finished false => "done:keep"
  | .disabled => "disabled"

def showSnap (o : Obs) : String :=
  let ks := (o.keys.mergeSort keyLe).map fun k => s!"{k.1}:{k.2}"
  let ar := (o.armed.mergeSort fun a b => a.oid ≤ b.oid).map fun a => s!"{a.oid}:{a.key.1}:{a.key.2}@{a.deadline}"
  let pe := (o.pending.mergeSort fun a b => a.cid ≤ b.cid).map fun c =>
    let r := match c.nowRead with
      | none => "-"
      | some r => toString r
    s!"{c.cid}:{c.oid}:{c.key.1}:{c.key.2}:{r}"
  s!"now={o.now} tpls={joinOr ks} armed={joinOr ar} pend={joinOr pe}"

def showObs (head : String) (o : Obs) : String := head ++ " " ++ showSnap o

/-- the event of an op (none for new / snap) -/
def parseEvent (a : List String) : Option Event :=
  match a with
  | ["tpl", d, i] => do pure (.tpl (← d.toNat?, ← i.toNat?))
  | ["bad", d, i] => do pure (.badTpl (← d.toNat?, ← i.toNat?))
  | ["data", d, i] => do pure (.data (← d.toNat?, ← i.toNat?))
  | ["adv", d] => do pure (.advance (← d.toNat?))
  | ["fire", o] => do pure (.fire (← o.toNat?))
  | ["cbnow", c] => do pure (.cbReadNow (← c.toNat?))
  | ["cbfin", c] => do pure (.cbFinish (← c.toNat?))
  | _ => none

/-! parsing the implementation's observation -/

def parseRes (tok : String) : Option Res :=
  match tok with
  | "new" => some .created
  | "refresh" => some .refreshed
  | "none" => some .refreshed      -- a template packet that touched no timer at all (only a broken implementation)
  | "err" => some .invalidated
  | "acc" => some .accepted
  | "rej" => some .rejected
  | "ok" => some .advanced
  | "snap" => some .advanced
  | "fired" => some .fired
  | "done:del" => some (.finished true)
  | "done:keep" => some (.finished false)
  | "disabled" => some .disabled
  | _ =>
    match tok.splitOn ":" with
    | ["read", r] => r.toNat?.map .read
    | _ => none

def parseList {α : Type} (f : String → Option α) (tok : String) : Option (List α) :=
  if tok == "-" then some [] else (tok.splitOn ",").mapM f

def parseKeyTok (t : String) : Option Key :=
  match t.splitOn ":" with
  | [d, i] => do pure (← d.toNat?, ← i.toNat?)
  | _ => none

def parseArmedTok (t : String) : Option Armed :=
  match t.splitOn "@" with
  | [l, dl] =>
    match l.splitOn ":" with
    | [o, d, i] => do pure { oid := ← o.toNat?, key := (← d.toNat?, ← i.toNat?), deadline := ← dl.toNat? }
    | _ => none
  | _ => none

def parseCbTok (t : String) : Option Cb :=
  match t.splitOn ":" with
  | [c, o, d, i, r] => do
    let nr ← if r == "-" then some none else r.toNat?.map some
    pure { cid := ← c.toNat?, oid := ← o.toNat?, key := (← d.toNat?, ← i.toNat?), nowRead := nr }
  | _ => none

def dropPrefix (pre tok : String) : Option String :=
  if tok.startsWith pre then some (tok.drop pre.length).toString else none

def parseObs (toks : List String) : Option Obs :=
  match toks with
  | [res, now, tpls, armed, pend] => do
    let res ← parseRes res
    let now ← (← dropPrefix "now=" now).toNat?
    let keys ← parseList parseKeyTok (← dropPrefix "tpls=" tpls)
    let armed ← parseList parseArmedTok (← dropPrefix "armed=" armed)
    let pending ← parseList parseCbTok (← dropPrefix "pend=" pend)
    pure { res := res, now := now, keys := keys, armed := armed, pending := pending }
  | _ => none

structure State where
  model : TState
  -- tracker of the chk pass
  ttl : Nat
  hist : List Event
  before : Obs

def State.fresh : State := ⟨init 1, 1, [], Ipfix.C10.initObs⟩

def sameState (a b : Obs) : Bool :=
  a.now == b.now && showSnap a == showSnap b

def dispatch (st : State) (line : String) : State × String :=
  match fields line with
  | [] => (st, "skip")
  | e :: args =>
    if e.startsWith "#" then (State.fresh, "skip")
    else if e == "tm" then
      match args with
      | ["new", ttl] =>
        match ttl.toNat? with
        | some t => ({ st with model := init (effectiveTTL t) }, showObs "ok" (observe (init (effectiveTTL t)) .advanced))
        | none => (st, "bad-op")
      | ["snap"] => (st, showObs "snap" (observe st.model .advanced))
      | _ =>
        match parseEvent args with
        | some ev =>
          let (s', o) := step st.model ev
          let head := if Ipfix.C10.invB s' then showRes o.res else "model-invariant-broken"
          ({ st with model := s' }, showObs head o)
        | none => (st, "bad-op")
    else if e == "chk" then
      match args with
      | "tm" :: rest =>
        let (opToks, obsToks) := splitBar rest
        match parseObs obsToks with
        | none => (st, "fails unparsable-observation")
        | some after =>
          match opToks with
          | ["new", ttl] =>
            match ttl.toNat? with
            | some t =>
              let st' := { st with ttl := Ipfix.Timers.effectiveTTL t, hist := [], before := Ipfix.C10.initObs }
              (st', if sameState after Ipfix.C10.initObs then "holds" else "fails fresh-collector-not-empty")
            | none => (st, "bad-op")
          | ["snap"] => (st, if sameState after st.before then "holds" else "fails snapshot-differs-from-last-observation")
          | _ =>
            match parseEvent opToks with
            | none => (st, "bad-op")
            | some ev =>
              if after.res == .disabled then
                -- the implementation says the event could not happen: nothing may have changed
                (st, if sameState after st.before then "holds" else "fails disabled-event-changed-state")
              else
                let v := match Ipfix.C10.verdict st.ttl st.hist st.before ev after with
                  | none => "holds"
                  | some why => "fails " ++ why.name
                ({ st with hist := ev :: st.hist, before := after }, v)
      | _ => (st, "na")
    else (st, "bad-op")

partial def loop (h : IO.FS.Stream) (out : IO.FS.Stream) (st : State) : IO Unit := do
  let line ← h.getLine
  if line.isEmpty then return ()
  let (st', r) := dispatch st line.trimAsciiEnd.copy
  out.putStrLn r
  loop h out st'

end DriverTimers

def main : IO Unit := do
  let stdin ← IO.getStdin
  let stdout ← IO.getStdout
  DriverTimers.loop stdin stdout DriverTimers.State.fresh
