/-
  driver_kafka (property C19): the Lean side of harness/cmd/harness-kafka. Same line protocol:

    schema <1|2>                               -> ok <GoField:number:kind,...>  (regenerated table, by number)
    kafka <1|2> <succ> <topichex> <msg>*       -> ok <n> <payload>* | panic     (Kafka.publish + consumer model)
    chk kafka <1|2> <succ> <topichex> <msg>* | <implementation's observation>
                                               -> holds | fails <why> @<index> | na   (Spec.C19.holdsOn)
-/
import Driver.Proto
import IpfixModel.Spec.C19
open Driver Ipfix Ipfix.Kafka

namespace DriverKafka

def schemaOf (tok : String) : Option Schema :=
  if tok == "1" then some flowType1 else if tok == "2" then some flowType2 else none

def parseRecs (tok : String) : Option (List (List Value)) :=
  if tok == "-" then some []
  else (tok.splitOn ";").mapM fun r =>
    if r == "=" then some [] else (r.splitOn ",").mapM parseValue

def parseMsg (tok : String) : Option Msg :=
  match tok.splitOn "/" with
  | [st, et, sq, od, addr, ies, recs] => do
    let isData ← if st == "D" then some true else if st == "T" then some false else none
    let et ← et.toNat?
    let sq ← sq.toNat?
    let od ← od.toNat?
    let addr ← fromHex addr
    let ies ← parseIEs ies
    let recs ← parseRecs recs
    if et < 2 ^ 32 ∧ sq < 2 ^ 32 ∧ od < 2 ^ 32 ∧ recs.all (fun r => r.length == ies.length) then
      pure { hdr := { exportTime := et, seqNum := sq, obsDomain := od, exportAddr := addr },
             isData := isData, records := recs.map fun r => ies.zip r }
    else none
  | _ => none

def kindCode : Kind → Nat
  | .u32 => 0
  | .u64 => 1
  | .str => 2

def canonToken (c : Canon) : String :=
  joinOr "," (c.map fun nv =>
    match nv.2 with
    | .num n => s!"{nv.1}=n{n}"
    | .str b => s!"{nv.1}=x{hexOrDash b}")

def parseCanon (tok : String) : Option Canon :=
  if tok == "-" then some []
  else (tok.splitOn ",").mapM fun t =>
    match t.splitOn "=" with
    | [k, v] => do
      let k ← k.toNat?
      match v.toList with
      | 'n' :: r => (String.ofList r).toNat?.map fun n => (k, PVal.num n)
      | 'x' :: r => (fromHex (String.ofList r)).map fun b => (k, PVal.str b)
      | _ => none
    | _ => none

def obsToken (o : C19.Obs) (verdict : String) : String :=
  s!"{hexOrDash o.topic}:{hexOrDash o.payload}:{verdict}:{canonToken (o.fields.getD [])}"

def modelToken (S : Schema) (topic p : Bytes) : String :=
  let o := C19.obsOf S topic p
  let v := match consumerDecode S p with
    | .ok _ => "A"
    | .err => "R"
    | _ => "P"
  obsToken o v

def parseObs (tok : String) : Option C19.Obs :=
  match tok.splitOn ":" with
  | [t, p, v, f] => do
    let t ← fromHex t
    let p ← fromHex p
    pure { topic := t, payload := p, accepted := v == "A", fields := if v == "A" then parseCanon f else none }
  | _ => none

def parseStream (a : List String) : Option (Schema × Bytes × List Msg) :=
  match a with
  | s :: succ :: topic :: msgs => do
    let S ← schemaOf s
    let topic ← fromHex topic
    let msgs ← msgs.mapM parseMsg
    if succ == "0" ∨ succ == "1" then pure (S, topic, msgs) else none
  | _ => none

def opKafka (a : List String) : String :=
  match parseStream a with
  | none => "bad-op"
  | some (S, topic, msgs) =>
    if !(msgs.all (Msg.wellTyped S)) then "panic"
    else
      let ps := publish S msgs
      " ".intercalate (s!"ok {ps.length}" :: ps.map (modelToken S topic))

def opSchema (a : List String) : String :=
  match a with
  | [s] =>
    match schemaOf s with
    | some S => "ok " ++ joinOr "," ((wireOrder S.fields).map fun fd => s!"{fd.name}:{fd.num}:{kindCode fd.kind}")
    | none => "bad-op"
  | _ => "bad-op"

def chkKafka (a : List String) : String :=
  let (op, obs) := splitBar a
  match parseStream op with
  | none => "bad-op"
  | some (S, topic, msgs) =>
    match obs with
    | "ok" :: n :: toks =>
      match n.toNat?, toks.mapM parseObs with
      | some n, some os =>
        if n ≠ os.length then "fails malformed-observation @0"
        else match C19.holdsOn S topic msgs os with
          | .holds => "holds"
          | .na => "na"
          | .fails why i => s!"fails {why} @{i}"
      | _, _ => "fails malformed-observation @0"
    | ["panic"] => if msgs.all (Msg.wellTyped (C19.refSchema S)) then "fails panic @0" else "na"
    | _ => "fails no-observation @0"

def dispatch (line : String) : String :=
  match fields line with
  | [] => "skip"
  | e :: args =>
    if e.startsWith "#" then "skip"
    else if e == "kafka" then opKafka args
    else if e == "schema" then opSchema args
    else if e == "chk" then
      match args with
      | "kafka" :: rest => chkKafka rest
      | _ => "na"
    else "bad-op"

end DriverKafka

partial def loop (h : IO.FS.Stream) (out : IO.FS.Stream) : IO Unit := do
  let line ← h.getLine
  if line.isEmpty then return ()
  out.putStrLn (DriverKafka.dispatch (line.trimAsciiEnd.toString))
  loop h out

def main : IO Unit := do
  let stdin ← IO.getStdin
  let stdout ← IO.getStdout
  loop stdin stdout
