/-
  driver_tls (property C18): the Lean side of harness/cmd/harness-tls. Same line protocol, one line out
  per line in:

    # ...                                                                   -> skip
    tls cell <transport> <servercert> <servername> <clientcert> <clientca> <peer>
                                                                            -> init-err
                                                                             | init-ok delivered [v=NN]
                                                                             | init-ok not-delivered [v=NN]
                                                                             | na            (cell outside the matrix)
        the MODEL's outcome (Ipfix.TLS.session, configurations from Generated.TLS)
    tls resume <transport> <peer> <first> <second>                          -> <outcome of exporter A> ; <outcome of exporter B> | na
        two exporters of one process, one after the other, towards the same collector whose certificate is issued
        by ca1 (Ipfix.TLS.resume: each outcome is the model's outcome of that exporter's own configuration);
        <first>/<second> = <ca1|ca2>-<servername>; tls: <peer> = real | srv12 | srv13, dtls: <peer> = srv12 (raw pion server)
    tls facts                                                               -> ok <summary of the configurations the model reads off the facts>
    chk tls cell <...> | <implementation's observation>                     -> holds | fails <why> | na
        Spec.C18.holdsOn evaluated on the implementation's observation
    chk tls resume <...> | <observation of A> ; <observation of B>          -> holds | fails <why> | na
        Spec.C18.holdsOnResume evaluated on the implementation's observations

    <transport>  tls | dtls
    <servercert> trusted | otherca | selfsigned | expired | notyet | wrongsan | nosan
    <servername> unset | dns | ip | baddns | badip
    <clientcert> none | trusted | otherca | expired
    <clientca>   set | unset
    <peer>       real | srv11 | srv12 | srv13 | cli11 | cli12 | cli13 | plainsrv | plaincli | rawplaincli
    v=NN         protocol version seen by a raw peer whose handshake completed (11, 12, 13)

  Core-only imports.
-/
import IpfixModel.Spec.C18
open Ipfix.TLS Ipfix.C18

namespace DriverTLS

def fields (line : String) : List String := (line.splitOn " ").filter (· ≠ "")

def splitBar (a : List String) : List String × List String :=
  (a.takeWhile (· ≠ "|"), (a.dropWhile (· ≠ "|")).drop 1)

def lookup {α : Type} (tbl : List (String × α)) (tok : String) : Option α :=
  (tbl.find? (fun p => p.1 == tok)).map (·.2)

def parseCell (a : List String) : Option Cell :=
  match a with
  | [t, sc, sn, cc, ca, p] => do
    let t ← lookup [("tls", Transport.tls), ("dtls", .dtls)] t
    let sc ← lookup [("trusted", ServerCertKind.trusted), ("otherca", .otherCA), ("selfsigned", .selfSigned),
                     ("expired", .expired), ("notyet", .notYet), ("wrongsan", .wrongSAN), ("nosan", .noSAN)] sc
    let sn ← lookup [("unset", ServerNameKind.unset), ("dns", .dns), ("ip", .ip), ("baddns", .badDns), ("badip", .badIp)] sn
    let cc ← lookup [("none", ClientCertKind.none), ("trusted", .trusted), ("otherca", .otherCA), ("expired", .expired)] cc
    let ca ← lookup [("set", true), ("unset", false)] ca
    let p ← lookup [("real", Peer.real), ("srv11", .srv11), ("srv12", .srv12), ("srv13", .srv13), ("cli11", .cli11),
                    ("cli12", .cli12), ("cli13", .cli13), ("plainsrv", .plainSrv), ("plaincli", .plainCli),
                    ("rawplaincli", .rawPlainCli)] p
    pure { transport := t, serverCert := sc, serverName := sn, clientCert := cc, clientCA := ca, peer := p }
  | _ => none

def tblTransport : List (String × Transport) := [("tls", .tls), ("dtls", .dtls)]
def tblServerName : List (String × ServerNameKind) :=
  [("unset", .unset), ("dns", .dns), ("ip", .ip), ("baddns", .badDns), ("badip", .badIp)]
def tblPeer : List (String × Peer) :=
  [("real", .real), ("srv11", .srv11), ("srv12", .srv12), ("srv13", .srv13), ("cli11", .cli11), ("cli12", .cli12),
   ("cli13", .cli13), ("plainsrv", .plainSrv), ("plaincli", .plainCli), ("rawplaincli", .rawPlainCli)]

/-- `<ca1|ca2>-<servername>` -/
def parseTrust (tok : String) : Option ExporterTrust :=
  match tok.splitOn "-" with
  | [ca, sn] => do
    let ca ← lookup [("ca1", TrustKind.ca1), ("ca2", .ca2)] ca
    let sn ← lookup tblServerName sn
    pure { ca := ca, serverName := sn }
  | _ => none

def parseResume (a : List String) : Option Resume :=
  match a with
  | [t, p, f, s] => do
    let t ← lookup tblTransport t
    let p ← lookup tblPeer p
    let f ← parseTrust f
    let s ← parseTrust s
    pure { transport := t, peer := p, first := f, second := s }
  | _ => none

def renderObs (o : Obs) : String :=
  if !o.initOk then "init-err"
  else
    (if o.delivered then "init-ok delivered" else "init-ok not-delivered") ++
    (match o.version with
     | some v => s!" v={v}"
     | none => "")

def parseObs (toks : List String) : Option Obs :=
  let ver (t : String) : Option Version :=
    if t.startsWith "v=" then (t.drop 2).toNat? else none
  match toks with
  | ["init-err"] => some { initOk := false, delivered := false, version := none }
  | ["init-ok", d] =>
    if d == "delivered" then some { initOk := true, delivered := true, version := none }
    else if d == "not-delivered" then some { initOk := true, delivered := false, version := none }
    else none
  | ["init-ok", d, v] =>
    match ver v with
    | none => none
    | some v =>
      if d == "delivered" then some { initOk := true, delivered := true, version := some v }
      else if d == "not-delivered" then some { initOk := true, delivered := false, version := some v }
      else none
  | _ => none

def opCell (a : List String) : String :=
  match parseCell a with
  | none => "bad-op"
  | some c => if !c.valid then "na" else renderObs (obsOf (session c))

def opResume (a : List String) : String :=
  match parseResume a with
  | none => "bad-op"
  | some r =>
    if !r.valid then "na"
    else
      let o := resume r
      renderObs (obsOf o.1) ++ " ; " ++ renderObs (obsOf o.2)

/-- the caller's name-check hook: for which ServerNames it is installed and what it verifies -/
def showHook (h : NameHook) : String :=
  if h == noHook then "none"
  else
    "+".intercalate ((if h.onUnset then ["unset"] else []) ++ (if h.onIP then ["ip"] else []) ++ (if h.onDNS then ["dns"] else [])) ++
    (if h.hostFallback then ":ServerName-else-dialled-host" else ":ServerName")

def showClient (c : ClientCfg) : String :=
  s!"roots={c.rootsSet},skip={c.skipVerify},sn={c.serverNamePassed},min={c.minVersion},max={c.maxVersion},cert={c.sendsCert},ems={c.extendedMasterSecret},namehook={showHook c.nameHook}"

def showAuth : ClientAuth → String
  | .noClientCert => "none"
  | .request => "request"
  | .requireAny => "require-any"
  | .verifyIfGiven => "verify-if-given"
  | .requireAndVerify => "require-and-verify"

def showServer (s : ServerCfg) : String :=
  s!"cert={s.hasCert},auth={showAuth s.clientAuth},cas={s.clientCAsSet},min={s.minVersion},max={s.maxVersion}"

def opFacts : String :=
  let L := libCfgs
  "ok tls-client-nocert:" ++ showClient L.tlsClientNoCert ++ " tls-client-cert:" ++ showClient L.tlsClientCert ++
  " dtls-client:" ++ showClient L.dtlsClient ++ " tls-server-noca:" ++ showServer L.tlsServerNoCA ++
  " tls-server-ca:" ++ showServer L.tlsServerCA ++ " dtls-server:" ++ showServer L.dtlsServer ++
  " dial-tcp:" ++ ",".intercalate (exporterDial true "tcp") ++ " dial-udp:" ++ ",".intercalate (exporterDial true "udp") ++
  " listen-tcp:" ++ ",".intercalate (collectorListen true "tcp") ++ " listen-udp:" ++ ",".intercalate (collectorListen true "udp") ++
  " plain-dial:" ++ ",".intercalate (exporterDial false "tcp") ++ " plain-listen-tcp:" ++ ",".intercalate (collectorListen false "tcp") ++
  " plain-listen-udp:" ++ ",".intercalate (collectorListen false "udp")

def chkCell (a : List String) : String :=
  let (op, obs) := splitBar a
  match parseCell op with
  | none => "bad-op"
  | some c =>
    match parseObs obs with
    | none => if !c.valid then "na" else "fails malformed-observation"
    | some o =>
      match holdsOn c o with
      | .holds => "holds"
      | .na => "na"
      | .fails why => "fails " ++ why

def chkResume (a : List String) : String :=
  let (op, obs) := splitBar a
  match parseResume op with
  | none => "bad-op"
  | some r =>
    match parseObs (obs.takeWhile (· ≠ ";")), parseObs ((obs.dropWhile (· ≠ ";")).drop 1) with
    | some oa, some ob =>
      match holdsOnResume r oa ob with
      | .holds => "holds"
      | .na => "na"
      | .fails why => "fails " ++ why
    | _, _ => if !r.valid then "na" else "fails malformed-observation"

def dispatch (line : String) : String :=
  match fields line with
  | [] => "skip"
  | e :: args =>
    if e.startsWith "#" then "skip"
    else if e == "tls" then
      match args with
      | "cell" :: rest => opCell rest
      | "resume" :: rest => opResume rest
      | ["facts"] => opFacts
      | _ => "bad-op"
    else if e == "chk" then
      match args with
      | "tls" :: "cell" :: rest => chkCell rest
      | "tls" :: "resume" :: rest => chkResume rest
      | _ => "na"
    else "bad-op"

end DriverTLS

partial def loop (h : IO.FS.Stream) (out : IO.FS.Stream) : IO Unit := do
  let line ← h.getLine
  if line.isEmpty then return ()
  out.putStrLn (DriverTLS.dispatch (line.trimRight))
  loop h out

def main : IO Unit := do
  let stdin ← IO.getStdin
  let stdout ← IO.getStdout
  loop stdin stdout
