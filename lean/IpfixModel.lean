import IpfixModel.Model.Bytes
import IpfixModel.Model.IE
