/-
  C01 - End-to-end fidelity: what an exporter is given is what a collector delivers.
  Composition of the exporter-side encoders (C02, C15) with the collector model (C03).
  Transports are modelled as the identity on messages (TCP framing: C11; UDP: one datagram per
  message; TLS/DTLS: the same channels once established - trusted, observed by the e2e engine).
-/
import IpfixModel.Lemmas.E2E
import IpfixModel.Lemmas.Unknown
import IpfixModel.Lemmas.Store4
import IpfixModel.Props.C03
import IpfixModel.Props.C08
import IpfixModel.Props.C16
namespace Ipfix.C01
open Outcome

/-- the template message CreateIPFIXMsg lays out for one template record -/
def templateWire (dom seq time tid : Nat) (ies : List IE) : Bytes :=
  msgHeader (16 + (4 + (templateRecordBytes tid ies).length)) time seq dom ++
    (be 2 Generated.cTemplateSetID ++ (be 2 (4 + (templateRecordBytes tid ies).length) ++ templateRecordBytes tid ies))

/-- the data message for records whose buffers are `bodies` -/
def dataWire (dom seq time tid : Nat) (bodies : List Bytes) : Bytes :=
  msgHeader (16 + (4 + bodies.flatten.length)) time seq dom ++
    (be 2 tid ++ (be 2 (4 + bodies.flatten.length) ++ bodies.flatten))

/-- the regenerated registry returns every element under its own (enterprise, id): with
    `C03.lookupIE_faithful` and `tie_lookup_self` an element of the registry is `Registered` as
    soon as its type is supported and it fits a field specifier -/
theorem tie_lookup_self : ∀ ie ∈ registry, lookupIE ie.ent ie.id = some ie := by decide +kernel

/-- C01, templates: the collector delivers the template with the same observation domain, template
    id and the same fields - id, enterprise number, data type, length and name, in order - and
    stores it for (domain, id). -/
theorem e2e_template (lookup : Nat → Nat → Option IE) (mode : Mode) (c : CState) (dom seq time tid : Nat)
    (ies : List IE) (hreg : ∀ ie ∈ ies, Registered lookup ie)
    (hd : dom < 4294967296) (hs : seq < 4294967296) (ht : time < 4294967296) (htid : tid < 65536)
    (hfit : 16 + (4 + (templateRecordBytes tid ies).length) ≤ 65535) :
    decodePacket lookup mode c (templateWire dom seq time tid ies) =
      (c.insert (dom, tid) ies,
       .ok { hdr := { version := 10, length := 16 + (4 + (templateRecordBytes tid ies).length), exportTime := time, seq := seq,
                      dom := dom, setID := 2, setLen := 4 + (templateRecordBytes tid ies).length },
             body := .template tid ies }) := by
  unfold decodePacket templateWire
  rw [parseHeader_wire _ _ _ _ _ _ _ (by omega) ht hs hd (by decide) (by omega)]
  have h2 : Generated.cTemplateSetID = 2 := rfl
  simp only [h2, ne_eq, not_true_eq_false, if_false, if_true]
  have hn : ies.length < 65536 := by
    have : (templateRecordBytes tid ies).length = 4 + ((ies.map fieldSpec).flatten).length := by
      simp [templateRecordBytes]; omega
    have h4 : ∀ l : List IE, l.length * 4 ≤ ((l.map fieldSpec).flatten).length := by
      intro l; induction l with
      | nil => simp
      | cons a t ih =>
        simp only [List.map_cons, List.flatten_cons, List.length_append, List.length_cons]
        have : 4 ≤ (fieldSpec a).length := by unfold fieldSpec; split <;> simp
        omega
    have := h4 ies
    omega
  have hts : decodeTemplateSet lookup mode c dom (templateRecordBytes tid ies) =
      (c.insert (dom, tid) ies, .ok (.template tid ies)) := by
    unfold templateRecordBytes
    rw [be_two, be_two]
    simp only [List.cons_append, List.nil_append, decodeTemplateSet, C02.u8_mod, C02.hi_lo tid htid, C02.hi_lo ies.length hn]
    have := decodeSpecifiers_fieldSpecs lookup mode ies hreg []
    simp only [List.append_nil] at this
    rw [this]
  rw [hts]
  rfl

/-- with every template element named (as every registry element is: C17 `tie_no_empty_names`)
    the decoding mode does not matter for data -/
theorem decodeRecord_named (mode : Mode) (tpl : Template) (b : Bytes) (hn : ∀ ie ∈ tpl, ie.name ≠ "") :
    decodeRecord mode tpl b = decodeRecord .keep tpl b := by
  induction tpl generalizing b with
  | nil => rfl
  | cons ie t ih =>
    have h1 : ie.name ≠ "" := hn ie (by simp)
    unfold decodeRecord
    cases decodeField ie b with
    | ok vr =>
      obtain ⟨v, r⟩ := vr
      simp only [bind_ok]
      rw [ih r (fun x hx => hn x (by simp [hx]))]
      simp [h1]
    | err => rfl
    | panic => rfl
    | diverge => rfl

theorem decodeRecordsFuel_named (mode : Mode) (tpl : Template) (hn : ∀ ie ∈ tpl, ie.name ≠ "") (fuel : Nat) (b : Bytes) :
    decodeRecordsFuel mode tpl fuel b = decodeRecordsFuel .keep tpl fuel b := by
  induction fuel generalizing b with
  | zero => rfl
  | succ f ih =>
    unfold decodeRecordsFuel
    rw [decodeRecord_named mode tpl b hn]
    split
    · rfl
    · cases decodeRecord .keep tpl b with
      | ok vr => obtain ⟨v, r⟩ := vr; simp only [bind_ok]; rw [ih r]
      | err => rfl
      | panic => rfl
      | diverge => rfl

/-- C01, data: with the template in force, the collector delivers the same observation domain, the
    same number of records and every field value bit-identical (IP addresses in their canonical
    4- / 16-byte form), for any record count and any well-typed values - in every decoding mode. -/
theorem e2e_data (lookup : Nat → Nat → Option IE) (mode : Mode) (c : CState) (dom seq time tid : Nat)
    (ies : List IE) (recs : List (List Elem)) (bodies : List Bytes)
    (hc : c.lookup (dom, tid) = some ies) (hmin : 0 < minRecordLen ies) (hwf : ∀ ie ∈ ies, ie.WF)
    (hnamed : ∀ ie ∈ ies, ie.name ≠ "")
    (hshape : ∀ r ∈ recs, r.map (·.1) = ies) (henc : recs.map encodeRecord = bodies.map some)
    (hd : dom < 4294967296) (hs : seq < 4294967296) (ht : time < 4294967296) (htid : tid < 65536) (hdata : tid ≠ 2)
    (hfit : 16 + (4 + bodies.flatten.length) ≤ 65535) :
    decodePacket lookup mode c (dataWire dom seq time tid bodies) =
      (c, .ok { hdr := { version := 10, length := 16 + (4 + bodies.flatten.length), exportTime := time, seq := seq,
                         dom := dom, setID := tid, setLen := 4 + bodies.flatten.length },
                body := .data tid (recs.map fun r => r.map fun e => C15.canon e.1 e.2) }) := by
  unfold decodePacket dataWire
  rw [parseHeader_wire _ _ _ _ _ _ _ (by omega) ht hs hd htid (by omega)]
  have h2 : Generated.cTemplateSetID = 2 := rfl
  simp only [h2, ne_eq, not_true_eq_false, if_false, hdata]
  unfold decodeDataSet
  rw [hc]
  simp only
  have hk := C02.wire_data ies hmin hwf recs bodies hshape henc
  unfold decodeRecords at hk ⊢
  rw [if_neg (by omega)] at hk ⊢
  rw [decodeRecordsFuel_named mode ies hnamed, hk]
  rfl

/-- the exporter side: what SendSet writes (C08 `send_ok`: CreateIPFIXMsg of the set after
    UpdateLenInHeader) for a set prepared with id `sid` IS the wire layout `dataWire` of its record
    buffers - for a template set (`sid = 2`, one record) that is `templateWire` - so `e2e_template`
    and `e2e_data` apply to the bytes the exporter model emits -/
theorem exporter_emits_wire (s : SetB) (hi : C16.Inv s) (sid dom seq time : Nat) (w : Bytes)
    (hsid : s.header.take 2 = be 2 sid) (hw : createMsg s.updateLen dom seq time = some w) :
    w = dataWire dom seq time sid (s.recs.map (·.bytes)) := by
  unfold createMsg at hw
  split at hw
  · cases hw
  · simp at hw
    subst hw
    have h16 : Generated.cMsgHeaderLength = 16 := rfl
    have hlen : s.length = 4 + ((s.recs.map (·.bytes)).flatten).length := by
      rw [hi.1]; simp [List.length_flatten, List.map_map, Function.comp_def]; rfl
    simp only [dataWire, SetB.serialize, SetB.updateLen, hsid, h16, hlen, List.append_assoc]

/-! ## The whole chain in one statement -/

/-- what `SetDesc.build` (PrepareSet(Data, setId) then AddRecordV2 per record) produces -/
theorem build_data_facts (recs : List (Nat × List Elem)) (s0 s : SetB) (hty : s0.ty = .data) (hi : C16.Inv s0)
    (h : recs.foldl (fun acc r => acc.bind fun s => s.addRecordV2 r.2 r.1) (some s0) = some s) :
    s.ty = .data ∧ C16.Inv s ∧ s.header = s0.header ∧
    (s.recs.map (·.bytes)).map some = (s0.recs.map (·.bytes)).map some ++ recs.map (fun r => encodeRecord r.2) := by
  induction recs generalizing s0 with
  | nil => simp at h; subst h; exact ⟨hty, hi, rfl, by simp⟩
  | cons r t ih =>
    simp only [List.foldl_cons, Option.bind_some] at h
    cases ha : s0.addRecordV2 r.2 r.1 with
    | none =>
      rw [ha] at h
      have : ∀ l : List (Nat × List Elem), l.foldl (fun (acc : Option SetB) r => acc.bind fun s => s.addRecordV2 r.2 r.1) none = none := by
        intro l; induction l with
        | nil => rfl
        | cons _ _ ihl => simpa using ihl
      rw [this] at h; cases h
    | some s1 =>
      rw [ha] at h
      have h1 : s1.ty = .data ∧ C16.Inv s1 ∧ s1.header = s0.header ∧
          (s1.recs.map (·.bytes)).map some = (s0.recs.map (·.bytes)).map some ++ [encodeRecord r.2] := by
        have hstep := C16.inv_step s0 (.addV2 r.2 r.1) hi
        simp only [C16.step, ha, Option.getD_some] at hstep
        simp only [SetB.addRecordV2, hty] at ha
        cases he : encodeRecord r.2 with
        | none => simp [he] at ha
        | some bs =>
          simp [he] at ha
          subst ha
          exact ⟨rfl, hstep, rfl, by simp⟩
      obtain ⟨a1, a2, a3, a4⟩ := h1
      obtain ⟨b1, b2, b3, b4⟩ := ih s1 a1 a2 h
      exact ⟨b1, b2, b3.trans a3, by rw [b4, a4]; simp⟩

/-- C01 in one statement, for the models: a data set described by `d` (set id = template id, every
    record of the template's shape with well-typed values), built and handed to the exporter model,
    whose SendSet succeeds with wire bytes `w`; the collector model, holding the template for the
    exporter's observation domain, decodes `w` to a message with that domain, the exporter's new
    sequence number, the same number of records and every value identical (addresses canonical). -/
theorem e2e_send_data (lookup : Nat → Nat → Option IE) (mode : Mode) (st st' : ExpState) (c : CState)
    (d : SetDesc) (s : SetB) (time n : Nat) (w : Bytes) (ies : List IE)
    (hty : d.ty = .data) (hb : d.build true = some s) (hsend : st.sendBuilt time s = (st', .ok n w))
    (hc : c.lookup (st.dom, d.setId) = some ies) (hmin : 0 < minRecordLen ies) (hwf : ∀ ie ∈ ies, ie.WF)
    (hnamed : ∀ ie ∈ ies, ie.name ≠ "") (hshape : ∀ r ∈ d.recs, r.2.map (·.1) = ies)
    (hd : st.dom < 4294967296) (ht : time < 4294967296) (hsid : d.setId < 65536) (hdata : d.setId ≠ 2) :
    ∃ hdr, decodePacket lookup mode c w =
      (c, .ok { hdr := hdr, body := .data d.setId (d.recs.map fun r => r.2.map fun e => C15.canon e.1 e.2) }) ∧
      hdr.dom = st.dom ∧ hdr.seq = st'.seq ∧ hdr.length = w.length ∧ hdr.exportTime = time := by
  -- the built set
  unfold SetDesc.build at hb
  rw [hty] at hb
  simp only [SetB.prepare] at hb
  have hi0 : C16.Inv { SetB.new with ty := SetType.data, header := be 2 d.setId ++ SetB.new.header.drop 2 } := by
    simp [C16.Inv, SetB.new]
  obtain ⟨sty, sinv, shdr, sbytes⟩ := build_data_facts d.recs _ s rfl hi0 (by simpa using hb)
  simp only [SetB.new, List.map_nil, List.nil_append] at sbytes shdr
  -- what the exporter wrote
  obtain ⟨hn, hdom, hseq, hmsg⟩ := C08.send_ok st st' time s n w hsend
  have htake : s.header.take 2 = be 2 d.setId := by rw [shdr]; exact List.take_left' (by simp)
  have hw := exporter_emits_wire s sinv d.setId st.dom st'.seq time w htake hmsg
  have hseqlt : st'.seq < 4294967296 ∨ True := Or.inr trivial
  -- size bound
  have hsz := C16.createMsg_length s.updateLen (C16.inv_step s .updateLen sinv) _ _ _ w hmsg
  have hlen : w.length = 16 + (4 + ((s.recs.map (·.bytes)).flatten).length) := by
    rw [hw]; simp [dataWire, msgHeader]; omega
  have hs' : st'.seq < 4294967296 := by
    rw [hseq, sty]; simp; exact Nat.mod_lt _ (by decide)
  have henc : (d.recs.map (·.2)).map encodeRecord = (s.recs.map (·.bytes)).map some := by
    rw [sbytes]; simp [List.map_map, Function.comp_def]
  have hshape' : ∀ r ∈ d.recs.map (·.2), r.map (·.1) = ies := by
    intro r hr; simp at hr; obtain ⟨a, ha⟩ := hr; exact hshape (a, r) ha
  have := e2e_data lookup mode c st.dom st'.seq time d.setId ies (d.recs.map (·.2)) (s.recs.map (·.bytes))
    hc hmin hwf hnamed hshape' henc hd hs' ht hsid hdata (by omega)
  rw [← hw] at this
  refine ⟨_, by simpa [List.map_map, Function.comp_def] using this, rfl, rfl, ?_, rfl⟩
  rw [hlen]; simp [List.length_flatten, List.map_map, Function.comp_def]

/-! ## Non-vacuity: a concrete template and record, end to end through the two theorems' hypotheses -/
def ies0 : List IE := [⟨"protocolIdentifier", 4, .unsigned8, 0, 1⟩, ⟨"sourcePodName", 101, .string, 56506, 65535⟩]
example : (∀ ie ∈ ies0, Registered lookupIE ie) := by
  intro ie h
  simp [ies0] at h
  rcases h with rfl | rfl <;> refine ⟨by decide +kernel, by decide, by simp [C02.SpecOK]⟩
example : (decodePacket lookupIE .strict (decodePacket lookupIE .strict {} (templateWire 7 0 0 256 ies0)).1
    (dataWire 7 1 0 256 [[6, 2, 104, 105]])).2 =
    .ok { hdr := { version := 10, length := 24, exportTime := 0, seq := 1, dom := 7, setID := 256, setLen := 8 },
          body := .data 256 [[.num 6, .bytes [104, 105]]] } := by decide +kernel

/-- the hypotheses of `e2e_send_data` are met by a concrete session state: an exporter that has
    registered template 256 = `ies0`, and a one-record data set for it -/
def st0 : ExpState := { seq := 4294967295, dom := 7, templates := [(256, { fieldCount := 2, minLen := 2 })] }
def d0 : SetDesc := { ty := .data, setId := 256, recs := [(256, [(ies0[0]!, .num 6), (ies0[1]!, .bytes [104, 105])])] }
example : (match d0.build true with
    | some s => (match st0.sendBuilt 0 s with | (st', .ok _ _) => st'.seq == 0 | _ => false)
    | none => false) = true ∧
    (∀ r ∈ d0.recs, r.2.map (·.1) = ies0) ∧ 0 < minRecordLen ies0 :=
  ⟨by decide +kernel, by decide +kernel, by decide +kernel⟩

/-! ## Whole sessions -/

/-- one SendSet of the application -/
inductive AppSend where
  | template (tid : Nat) (ies : List IE)            -- a template set with one template record
  | data (tid : Nat) (recs : List (List Elem))      -- a data set for template `tid`
  deriving Repr, DecidableEq

/-- the value a template record carries for an element: its zero value -/
def tplValue (ie : IE) : Value :=
  match zeroValue ie with
  | .ok v => v
  | _ => .num 0

/-- the set as the application builds it: a template set holds one template record (every element
    with its zero value), a data set one data record per entry, all with the set's template id.
    The session theorems build it with the slice-adopting path, `SetDesc.build true` (AddRecordV2);
    `desc_build_paths` shows the copying path (AddRecord) builds the same set. -/
def AppSend.desc : AppSend → SetDesc
  | .template tid ies => { ty := .template, setId := Generated.cTemplateSetID, recs := [(tid, ies.map fun ie => (ie, tplValue ie))] }
  | .data tid recs => { ty := .data, setId := tid, recs := recs.map fun r => (tid, r) }

/-- the templates in force after one more send: a template set (re)defines its id -/
def AppSend.define (known : Nat → Option (List IE)) : AppSend → Nat → Option (List IE)
  | .template t ies => fun x => if x = t then some ies else known x
  | .data _ _ => known

/-- the templates in force after the sends `pre`, starting from `known` -/
def templatesAfter (known : Nat → Option (List IE)) (pre : List AppSend) : Nat → Option (List IE) :=
  pre.foldl AppSend.define known

/-- the fields in force for `tid` after the sends `pre` (the LAST template sent with that id), if any -/
def lastTemplate (tid : Nat) (pre : List AppSend) : Option (List IE) :=
  templatesAfter (fun _ => none) pre tid

theorem lastTemplate_nil (tid : Nat) : lastTemplate tid [] = none := rfl

theorem lastTemplate_template_same (tid : Nat) (pre : List AppSend) (ies : List IE) :
    lastTemplate tid (pre ++ [.template tid ies]) = some ies := by
  simp [lastTemplate, templatesAfter, List.foldl_append, AppSend.define]

theorem lastTemplate_template_other (tid t : Nat) (pre : List AppSend) (ies : List IE) (h : tid ≠ t) :
    lastTemplate tid (pre ++ [.template t ies]) = lastTemplate tid pre := by
  simp [lastTemplate, templatesAfter, List.foldl_append, AppSend.define, h]

theorem lastTemplate_data (tid t : Nat) (pre : List AppSend) (recs : List (List Elem)) :
    lastTemplate tid (pre ++ [.data t recs]) = lastTemplate tid pre := by
  simp [lastTemplate, templatesAfter, List.foldl_append, AppSend.define]

/-- one step of the session: build (AddRecordV2 path), send (exporter model), decode (collector
    model); `none` if the set cannot be built or the send is refused -/
def sessionStep (lookup : Nat → Nat → Option IE) (mode : Mode) (time : Nat) (st : ExpState) (c : CState)
    (a : AppSend) : Option (ExpState × CState × Outcome Msg) :=
  match a.desc.build true with
  | none => none
  | some s =>
    match st.sendBuilt time s with
    | (_, .err) => none
    | (st', .ok _ w) => some (st', (decodePacket lookup mode c w).1, (decodePacket lookup mode c w).2)

/-- the whole session; `none` as soon as one send fails -/
def runSession (lookup : Nat → Nat → Option IE) (mode : Mode) (time : Nat) :
    ExpState → CState → List AppSend → Option (ExpState × CState × List (Outcome Msg))
  | st, c, [] => some (st, c, [])
  | st, c, a :: rest =>
    match sessionStep lookup mode time st c a with
    | none => none
    | some (st1, c1, o) =>
      match runSession lookup mode time st1 c1 rest with
      | none => none
      | some (st', c', os) => some (st', c', o :: os)

/-- what the collector must deliver for one send -/
def expectedBody : AppSend → Decoded
  | .template tid ies => .template tid ies
  | .data tid recs => .data tid (recs.map fun r => r.map fun e => C15.canon e.1 e.2)

/-- the exporter's message counter after the sends `pre`: data records count, templates do not -/
def seqAfter (seq : Nat) : List AppSend → Nat
  | [] => seq
  | .template _ _ :: rest => seqAfter seq rest
  | .data _ recs :: rest => seqAfter ((seq + recs.length) % 4294967296) rest

/-- the template analogue of `e2e_send_data`: a template set built from `.template tid ies` and sent
    successfully is decoded to the same template, which replaces the collector's entry for
    (domain, id); the counter does not move -/
theorem e2e_send_template (lookup : Nat → Nat → Option IE) (mode : Mode) (st st' : ExpState) (c : CState)
    (tid : Nat) (ies : List IE) (s : SetB) (time n : Nat) (w : Bytes)
    (hb : (AppSend.template tid ies).desc.build true = some s) (hsend : st.sendBuilt time s = (st', .ok n w))
    (hreg : ∀ ie ∈ ies, Registered lookup ie)
    (hd : st.dom < 4294967296) (hs : st.seq < 4294967296) (ht : time < 4294967296) (htid : tid < 65536) :
    ∃ hdr, decodePacket lookup mode c w =
      (c.insert (st.dom, tid) ies, .ok { hdr := hdr, body := .template tid ies }) ∧
      hdr.dom = st.dom ∧ hdr.seq = st.seq ∧ st'.seq = st.seq ∧ st'.dom = st.dom ∧ hdr.length = w.length ∧
      hdr.exportTime = time := by
  have hmap : (ies.map fun ie => (ie, tplValue ie)).map (·.1) = ies := by
    simp [List.map_map, Function.comp_def]
  have hs0 : s = { header := be 2 Generated.cTemplateSetID ++ SetB.new.header.drop 2, ty := .template,
                   recs := [{ isTemplate := true, tid := tid, fieldCount := ies.length,
                              elems := ies.map fun ie => (ie, tplValue ie), bytes := templateRecordBytes tid ies }],
                   length := 4 + (templateRecordBytes tid ies).length } := by
    simp [AppSend.desc, SetDesc.build, SetB.prepare, SetB.addRecordV2, hmap, SetB.new, Rec.length] at hb
    rw [← hb]; simp [SetB.new]
  have sinv : C16.Inv s := by rw [hs0]; simp [C16.Inv, SetB.new, Rec.length]
  obtain ⟨hn, hdom, hseq, hmsg⟩ := C08.send_ok st st' time s n w hsend
  have hty : s.ty = .template := by rw [hs0]
  rw [hty] at hseq
  simp at hseq
  have htake : s.header.take 2 = be 2 2 := by rw [hs0]; rfl
  have hw := exporter_emits_wire s sinv 2 st.dom st'.seq time w htake hmsg
  have hw' : w = templateWire st.dom st.seq time tid ies := by
    rw [hw, hseq, hs0]
    simp [dataWire, templateWire]
    rfl
  have hsz := C16.createMsg_length s.updateLen (C16.inv_step s .updateLen sinv) _ _ _ w hmsg
  have hlen : s.updateLen.length = 4 + (templateRecordBytes tid ies).length := by rw [hs0]; rfl
  have := e2e_template lookup mode c st.dom st.seq time tid ies hreg hd hs ht htid (by omega)
  rw [← hw'] at this
  exact ⟨_, this, rfl, rfl, hseq, hdom, by simp; omega, rfl⟩

/-- the data set an application builds from `.data tid recs` has one record per entry -/
theorem build_data_count (d : SetDesc) (s : SetB) (hty : d.ty = .data) (hb : d.build true = some s) :
    s.ty = .data ∧ s.recs.length = d.recs.length := by
  unfold SetDesc.build at hb
  rw [hty] at hb
  simp only [SetB.prepare] at hb
  have hi0 : C16.Inv { SetB.new with ty := SetType.data, header := be 2 d.setId ++ SetB.new.header.drop 2 } := by
    simp [C16.Inv, SetB.new]
  obtain ⟨sty, _, _, sbytes⟩ := build_data_facts d.recs _ s rfl hi0 (by simpa using hb)
  refine ⟨sty, ?_⟩
  have := congrArg List.length sbytes
  simpa [SetB.new] using this

/-- what the session theorem asks of a template that is sent: the collector finds every element in its
    registry exactly as described, elements well-formed and named, a record has at least one byte,
    the id is a template id -/
def TemplateOK (lookup : Nat → Nat → Option IE) (tid : Nat) (ies : List IE) : Prop :=
  (∀ ie ∈ ies, Registered lookup ie ∧ ie.WF ∧ ie.name ≠ "") ∧ 0 < minRecordLen ies ∧ 256 ≤ tid ∧ tid < 65536

theorem seqAfter_cons (seq : Nat) (a : AppSend) (l : List AppSend) :
    seqAfter seq (a :: l) = seqAfter (seqAfter seq [a]) l := by
  cases a <;> rfl

theorem seqAfter_lt (seq : Nat) (l : List AppSend) (h : seq < 4294967296) : seqAfter seq l < 4294967296 := by
  induction l generalizing seq with
  | nil => exact h
  | cons a t ih =>
    cases a with
    | template _ _ => exact ih seq h
    | data _ recs => exact ih _ (Nat.mod_lt _ (by decide))

/-- one step of a session: with the collector holding, for the exporter's domain, the templates `known`
    (all of them `TemplateOK`), a send that goes through is delivered as handed over, and afterwards the
    collector holds the templates `a.define known` -/
theorem session_step (lookup : Nat → Nat → Option IE) (mode : Mode) (time : Nat)
    (known : Nat → Option (List IE)) (st st1 : ExpState) (c c1 : CState) (a : AppSend) (o : Outcome Msg)
    (hstep : sessionStep lookup mode time st c a = some (st1, c1, o))
    (hgood : ∀ tid ies, a = .template tid ies → TemplateOK lookup tid ies)
    (hshape : ∀ tid recs, a = .data tid recs → ∃ ies, known tid = some ies ∧ ∀ r ∈ recs, r.map (·.1) = ies)
    (hinv : ∀ tid ies, known tid = some ies → c.lookup (st.dom, tid) = some ies ∧ TemplateOK lookup tid ies)
    (hd : st.dom < 4294967296) (hs : st.seq < 4294967296) (ht : time < 4294967296) :
    st1.dom = st.dom ∧ st1.seq = seqAfter st.seq [a] ∧
    (∀ tid ies, a.define known tid = some ies → c1.lookup (st.dom, tid) = some ies ∧ TemplateOK lookup tid ies) ∧
    ∃ m, o = .ok m ∧ m.body = expectedBody a ∧ m.hdr.dom = st.dom ∧ m.hdr.exportTime = time ∧ m.hdr.seq = st1.seq := by
  unfold sessionStep at hstep
  cases hb : a.desc.build true with
  | none => simp [hb] at hstep
  | some s =>
    cases hsend : st.sendBuilt time s with
    | mk st' r =>
      cases r with
      | err => simp [hb, hsend] at hstep
      | ok n w =>
        simp only [hb, hsend, Option.some.injEq, Prod.mk.injEq] at hstep
        obtain ⟨h1, h2, h3⟩ := hstep
        subst h1
        cases a with
        | template tid ies =>
          obtain ⟨hel, hmin, hlo, hhi⟩ := hgood tid ies rfl
          obtain ⟨hdr, hdec, e1, e2, e3, e4, _, e6⟩ := e2e_send_template lookup mode st st' c tid ies s time n w hb hsend
            (fun ie h => (hel ie h).1) hd hs ht hhi
          rw [hdec] at h2 h3
          simp only at h2 h3
          subst h2 h3
          refine ⟨e4, by simpa [seqAfter] using e3, ?_, _, rfl, rfl, e1, e6, by rw [e2, e3]⟩
          intro t x hx
          simp only [AppSend.define] at hx
          by_cases htt : t = tid
          · subst htt
            simp at hx
            subst hx
            exact ⟨CState.lookup_insert_same _ _ _, hel, hmin, hlo, hhi⟩
          · simp [htt] at hx
            obtain ⟨k1, k2⟩ := hinv t x hx
            refine ⟨?_, k2⟩
            rw [CState.lookup_insert_other _ _ _ _ (by intro h; exact htt (by injection h))]
            exact k1
        | data tid recs =>
          obtain ⟨ies, hk, hsh⟩ := hshape tid recs rfl
          obtain ⟨hc, hel, hmin, hlo, hhi⟩ := hinv tid ies hk
          obtain ⟨sty, scount⟩ := build_data_count _ s rfl hb
          obtain ⟨_, hdom, hseq, _⟩ := C08.send_ok st st' time s n w hsend
          obtain ⟨hdr, hdec, e1, e2, _, e4⟩ := e2e_send_data lookup mode st st' c (AppSend.data tid recs).desc s time n w ies
            rfl hb hsend hc hmin (fun ie h => (hel ie h).2.1) (fun ie h => (hel ie h).2.2)
            (by intro r hr; simp [AppSend.desc] at hr; obtain ⟨x, hx, rfl⟩ := hr; exact hsh x hx)
            hd ht hhi (by show tid ≠ 2; omega)
          rw [hdec] at h2 h3
          simp only at h2 h3
          subst h2 h3
          refine ⟨hdom, ?_, ?_, _, rfl, ?_, e1, e4, e2⟩
          · rw [hseq, sty, scount]; simp [seqAfter, AppSend.desc]
          · intro t x hx; exact hinv t x hx
          · simp [expectedBody, AppSend.desc, List.map_map, Function.comp_def]

/-- the session theorem, started in the middle of a session: the collector already holds the templates
    `known` for the exporter's domain -/
theorem session_gen (lookup : Nat → Nat → Option IE) (mode : Mode) (time : Nat) (sends : List AppSend) :
    ∀ (known : Nat → Option (List IE)) (st st' : ExpState) (c c' : CState) (outs : List (Outcome Msg)),
    runSession lookup mode time st c sends = some (st', c', outs) →
    (∀ tid ies, AppSend.template tid ies ∈ sends → TemplateOK lookup tid ies) →
    (∀ pre tid recs post, sends = pre ++ AppSend.data tid recs :: post →
        ∃ ies, templatesAfter known pre tid = some ies ∧ ∀ r ∈ recs, r.map (·.1) = ies) →
    (∀ tid ies, known tid = some ies → c.lookup (st.dom, tid) = some ies ∧ TemplateOK lookup tid ies) →
    st.dom < 4294967296 → st.seq < 4294967296 → time < 4294967296 →
    outs.length = sends.length ∧ st'.dom = st.dom ∧ st'.seq = seqAfter st.seq sends ∧
    (∀ tid ies, templatesAfter known sends tid = some ies → c'.lookup (st.dom, tid) = some ies) ∧
    ∀ i (hi : i < sends.length), ∃ m, outs[i]? = some (.ok m) ∧ m.body = expectedBody sends[i] ∧
      m.hdr.dom = st.dom ∧ m.hdr.exportTime = time ∧ m.hdr.seq = seqAfter st.seq (sends.take (i + 1)) := by
  induction sends with
  | nil =>
    intro known st st' c c' outs hrun _ _ hinv _ _ _
    simp only [runSession, Option.some.injEq, Prod.mk.injEq] at hrun
    obtain ⟨h1, h2, h3⟩ := hrun
    subst h1 h2 h3
    refine ⟨rfl, rfl, rfl, fun tid ies h => (hinv tid ies h).1, ?_⟩
    intro i hi; simp at hi
  | cons a rest ih =>
    intro known st st' c c' outs hrun htpl hdata hinv hd hs ht
    unfold runSession at hrun
    cases hstep : sessionStep lookup mode time st c a with
    | none => simp [hstep] at hrun
    | some x =>
      obtain ⟨st1, c1, o⟩ := x
      cases hrest : runSession lookup mode time st1 c1 rest with
      | none => simp [hstep, hrest] at hrun
      | some y =>
        obtain ⟨st2, c2, os⟩ := y
        simp only [hstep, hrest, Option.some.injEq, Prod.mk.injEq] at hrun
        obtain ⟨h1, h2, h3⟩ := hrun
        subst h1 h2 h3
        obtain ⟨sdom, sseq, sinv, m, hm, mbody, mdom, mtime, mseq⟩ :=
          session_step lookup mode time known st st1 c c1 a o hstep
            (fun tid ies h => htpl tid ies (by rw [h]; simp))
            (fun tid recs h => by
              have := hdata [] tid recs rest (by rw [h]; rfl)
              simpa [templatesAfter] using this)
            hinv hd hs ht
        have hs1 : st1.seq < 4294967296 := by rw [sseq]; exact seqAfter_lt _ _ hs
        obtain ⟨ilen, idom, iseq, ic, iall⟩ := ih (a.define known) st1 st2 c1 c2 os hrest
          (fun tid ies h => htpl tid ies (by simp [h]))
          (fun pre tid recs post h => by
            have := hdata (a :: pre) tid recs post (by rw [h]; rfl)
            simpa [templatesAfter] using this)
          (by rw [sdom]; exact sinv) (by rw [sdom]; exact hd) hs1 ht
        rw [sdom] at idom ic iall
        refine ⟨by simp [ilen], idom, ?_, ?_, ?_⟩
        · rw [iseq, sseq, ← seqAfter_cons]
        · intro tid ies h
          exact ic tid ies (by simpa [templatesAfter] using h)
        · intro i hi
          cases i with
          | zero =>
            refine ⟨m, by simp [hm], by simpa using mbody, mdom, mtime, ?_⟩
            rw [mseq, sseq]; rfl
          | succ j =>
            obtain ⟨m', g1, g2, g3, g4, g5⟩ := iall j (by simpa using hi)
            refine ⟨m', by simpa using g1, by simpa using g2, g3, g4, ?_⟩
            rw [g5, sseq, List.take_succ_cons, ← seqAfter_cons]

/-- C01 for whole sessions: for ANY sequence of template and data sets that an application hands to the
    exporter model and that are all sent successfully (`runSession` is `some`), the collector model - fed
    the exporter's wire messages in order, starting from ANY collector state `c` - delivers for the i-th
    message exactly what was handed over: a template message with the same id and fields, or a data message
    with the same number of records and every value identical (addresses canonical), decoded with the
    template most recently sent for that id in THIS session; every message carries the exporter's domain,
    the export time and the exporter's counter after that send. Afterwards the collector holds, for the
    exporter's domain, the last template of every id sent. -/
theorem e2e_session (lookup : Nat → Nat → Option IE) (mode : Mode) (time : Nat) (st st' : ExpState) (c c' : CState)
    (sends : List AppSend) (outs : List (Outcome Msg))
    (hrun : runSession lookup mode time st c sends = some (st', c', outs))
    -- every template sent: elements the collector finds in its registry exactly as described, well-formed, named, id bounds
    (htpl : ∀ tid ies, AppSend.template tid ies ∈ sends →
        (∀ ie ∈ ies, Registered lookup ie ∧ ie.WF ∧ ie.name ≠ "") ∧ 0 < minRecordLen ies ∧ 256 ≤ tid ∧ tid < 65536)
    -- every data set sent: its records have the shape of the template most recently sent for its id in THIS session
    (hdata : ∀ pre tid recs post, sends = pre ++ AppSend.data tid recs :: post →
        ∃ ies, lastTemplate tid pre = some ies ∧ ∀ r ∈ recs, r.map (·.1) = ies)
    (hdom : st.dom < 4294967296) (hseq : st.seq < 4294967296) (htime : time < 4294967296) :
    outs.length = sends.length ∧
    (∀ i (hi : i < sends.length), ∃ m, outs[i]? = some (.ok m) ∧ m.body = expectedBody sends[i] ∧
      m.hdr.dom = st.dom ∧ m.hdr.exportTime = time ∧ m.hdr.seq = seqAfter st.seq (sends.take (i + 1))) ∧
    st'.dom = st.dom ∧ st'.seq = seqAfter st.seq sends ∧
    (∀ tid ies, lastTemplate tid sends = some ies → c'.lookup (st.dom, tid) = some ies) := by
  obtain ⟨h1, h2, h3, h4, h5⟩ := session_gen lookup mode time sends (fun _ => none) st st' c c' outs hrun htpl hdata
    (by intro tid ies h; cases h) hdom hseq htime
  exact ⟨h1, h5, h2, h3, h4⟩

/-! ### The two add paths build the same sets -/

theorem tplValue_empty (ie : IE) : elemEmpty (ie, tplValue ie) = true := by
  obtain ⟨n, i, ty, e, l⟩ := ie
  cases ty <;> rfl

theorem fold_paths_data (recs : List (Nat × List Elem)) (s0 : Option SetB) (h : ∀ s, s0 = some s → s.ty = .data) :
    recs.foldl (fun acc r => acc.bind fun s => s.addRecord r.2 r.1) s0 =
    recs.foldl (fun acc r => acc.bind fun s => s.addRecordV2 r.2 r.1) s0 := by
  induction recs generalizing s0 with
  | nil => rfl
  | cons r t ih =>
    simp only [List.foldl_cons]
    cases s0 with
    | none => exact ih none (by intro s hs; cases hs)
    | some s =>
      have hty := h s rfl
      simp only [Option.bind_some, C16.add_paths_equiv_data s r.2 r.1 hty]
      apply ih
      intro s1 hs1
      simp only [SetB.addRecordV2, hty] at hs1
      cases he : encodeRecord r.2 with
      | none => simp [he] at hs1
      | some bs => simp [he] at hs1; rw [← hs1]

/-- the sets of a session may as well be built with the copying path (AddRecord /
    AddRecordWithExtraElements): it builds the same set, or fails on the same set, as AddRecordV2 -/
theorem desc_build_paths (a : AppSend) : a.desc.build false = a.desc.build true := by
  cases a with
  | template tid ies =>
    have := C16.add_paths_equiv_template
      { SetB.new with ty := .template, header := be 2 Generated.cTemplateSetID ++ SetB.new.header.drop 2 }
      (ies.map fun ie => (ie, tplValue ie)) tid rfl
      (by intro e he; simp at he; obtain ⟨ie, _, rfl⟩ := he; exact tplValue_empty ie)
    simpa [AppSend.desc, SetDesc.build, SetB.prepare] using this
  | data tid recs =>
    simp only [AppSend.desc, SetDesc.build, SetB.prepare, Bool.false_eq_true, if_false, if_true]
    exact fold_paths_data _ _ (by intro s hs; cases hs; rfl)

/-! ### Non-vacuity: a session with a re-definition, started from a collector that holds a stale template -/

/-- template 256 = `ies0`, one record; 256 re-defined with the fields swapped, two records -/
def session0 : List AppSend :=
  [.template 256 ies0,
   .data 256 [[(ies0[0]!, .num 6), (ies0[1]!, .bytes [104, 105])]],
   .template 256 ies0.reverse,
   .data 256 [[(ies0[1]!, .bytes [104, 105]), (ies0[0]!, .num 6)], [(ies0[1]!, .bytes []), (ies0[0]!, .num 17)]]]

/-- a collector that still holds another template for (7, 256) -/
def cstale : CState := { templates := [((7, 256), [ies0[0]!])] }

example : (match runSession lookupIE .strict 0 { dom := 7 } cstale session0 with
    | some (st', c', outs) =>
      st'.seq == 3 && c'.lookup (7, 256) == some ies0.reverse &&
      outs.map (fun o => match o with | .ok m => some (m.hdr.dom, m.hdr.seq, m.body) | _ => none) ==
        [some (7, 0, .template 256 ies0),
         some (7, 1, .data 256 [[.num 6, .bytes [104, 105]]]),
         some (7, 1, .template 256 ies0.reverse),
         some (7, 3, .data 256 [[.bytes [104, 105], .num 6], [.bytes [], .num 17]])]
    | none => false) = true := by decide +kernel

/-- ... and it meets the hypotheses of `e2e_session` -/
example : (∀ tid ies, AppSend.template tid ies ∈ session0 →
      (∀ ie ∈ ies, Registered lookupIE ie ∧ ie.WF ∧ ie.name ≠ "") ∧ 0 < minRecordLen ies ∧ 256 ≤ tid ∧ tid < 65536) ∧
    (∀ pre tid recs post, session0 = pre ++ AppSend.data tid recs :: post →
      ∃ ies, lastTemplate tid pre = some ies ∧ ∀ r ∈ recs, r.map (·.1) = ies) := by
  have hreg : ∀ ie ∈ ies0, Registered lookupIE ie ∧ ie.WF ∧ ie.name ≠ "" := by
    intro ie h
    simp [ies0] at h
    rcases h with rfl | rfl <;>
      exact ⟨⟨by decide +kernel, by decide, by simp [C02.SpecOK]⟩, by decide, by decide⟩
  constructor
  · intro tid ies h
    simp [session0] at h
    rcases h with ⟨rfl, rfl⟩ | ⟨rfl, rfl⟩
    · exact ⟨hreg, by decide, by omega, by omega⟩
    · exact ⟨fun ie h => hreg ie (by simp [ies0] at h ⊢; exact h.symm), by decide, by omega, by omega⟩
  · intro pre tid recs post h
    rcases pre with _ | ⟨a, _ | ⟨b, _ | ⟨c, _ | ⟨d, _ | ⟨e, pre⟩⟩⟩⟩⟩ <;> simp [session0] at h
    · obtain ⟨rfl, ⟨rfl, rfl⟩, _⟩ := h
      exact ⟨ies0, by decide, by decide⟩
    · obtain ⟨rfl, rfl, rfl, ⟨rfl, rfl⟩, _⟩ := h
      exact ⟨ies0.reverse, by decide, by decide⟩

/-- outside the theorem (its `hrun` fails): the exporter keeps the FIRST definition of an id for its
    sanity check (`ExpState.register`), so after a re-definition with another field count it refuses the
    data sets of the new shape - such a session is not "sent successfully" -/
example : (runSession lookupIE .strict 0 { dom := 7 } {}
    [.template 256 ies0, .template 256 [ies0[0]!], .data 256 [[(ies0[0]!, .num 17)]]]).isNone = true := by decide +kernel

end Ipfix.C01
