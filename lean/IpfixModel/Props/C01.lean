/-
  C01 - End-to-end fidelity: what an exporter is given is what a collector delivers.
  Composition of the exporter-side encoders (C02, C15) with the collector model (C03).
  Transports are modelled as the identity on messages (TCP framing: C11; UDP: one datagram per
  message; TLS/DTLS: the same channels once established - trusted, observed by the e2e engine).
-/
import IpfixModel.Lemmas.E2E
import IpfixModel.Lemmas.Unknown
import IpfixModel.Props.C03
import IpfixModel.Props.C08
import IpfixModel.Props.C16
namespace Ipfix.C01
open Outcome

/-- the template message CreateIPFIXMsg lays out for one template record -/
def templateWire (dom seq time tid : Nat) (ies : List IE) : Bytes :=
  msgHeader (16 + (4 + (templateRecordBytes tid ies).length)) time seq dom ++
    (be 2 Generated.cTemplateSetID ++ (be 2 (4 + (templateRecordBytes tid ies).length) ++ templateRecordBytes tid ies))

/-- the data message for records whose buffers are `bodies` -/
def dataWire (dom seq time tid : Nat) (bodies : List Bytes) : Bytes :=
  msgHeader (16 + (4 + bodies.flatten.length)) time seq dom ++
    (be 2 tid ++ (be 2 (4 + bodies.flatten.length) ++ bodies.flatten))

/-- the regenerated registry returns every element under its own (enterprise, id): with
    `C03.lookupIE_faithful` and `tie_lookup_self` an element of the registry is `Registered` as
    soon as its type is supported and it fits a field specifier -/
theorem tie_lookup_self : ∀ ie ∈ registry, lookupIE ie.ent ie.id = some ie := by decide +kernel

/-- C01, templates: the collector delivers the template with the same observation domain, template
    id and the same fields - id, enterprise number, data type, length and name, in order - and
    stores it for (domain, id). -/
theorem e2e_template (lookup : Nat → Nat → Option IE) (mode : Mode) (c : CState) (dom seq time tid : Nat)
    (ies : List IE) (hreg : ∀ ie ∈ ies, Registered lookup ie)
    (hd : dom < 4294967296) (hs : seq < 4294967296) (ht : time < 4294967296) (htid : tid < 65536)
    (hfit : 16 + (4 + (templateRecordBytes tid ies).length) ≤ 65535) :
    decodePacket lookup mode c (templateWire dom seq time tid ies) =
      (c.insert (dom, tid) ies,
       .ok { hdr := { version := 10, length := 16 + (4 + (templateRecordBytes tid ies).length), exportTime := time, seq := seq,
                      dom := dom, setID := 2, setLen := 4 + (templateRecordBytes tid ies).length },
             body := .template tid ies }) := by
  unfold decodePacket templateWire
  rw [parseHeader_wire _ _ _ _ _ _ _ (by omega) ht hs hd (by decide) (by omega)]
  have h2 : Generated.cTemplateSetID = 2 := rfl
  simp only [h2, ne_eq, not_true_eq_false, if_false, if_true]
  have hn : ies.length < 65536 := by
    have : (templateRecordBytes tid ies).length = 4 + ((ies.map fieldSpec).flatten).length := by
      simp [templateRecordBytes]; omega
    have h4 : ∀ l : List IE, l.length * 4 ≤ ((l.map fieldSpec).flatten).length := by
      intro l; induction l with
      | nil => simp
      | cons a t ih =>
        simp only [List.map_cons, List.flatten_cons, List.length_append, List.length_cons]
        have : 4 ≤ (fieldSpec a).length := by unfold fieldSpec; split <;> simp
        omega
    have := h4 ies
    omega
  have hts : decodeTemplateSet lookup mode c dom (templateRecordBytes tid ies) =
      (c.insert (dom, tid) ies, .ok (.template tid ies)) := by
    unfold templateRecordBytes
    rw [be_two, be_two]
    simp only [List.cons_append, List.nil_append, decodeTemplateSet, C02.u8_mod, C02.hi_lo tid htid, C02.hi_lo ies.length hn]
    have := decodeSpecifiers_fieldSpecs lookup mode ies hreg []
    simp only [List.append_nil] at this
    rw [this]
  rw [hts]
  rfl

/-- with every template element named (as every registry element is: C17 `tie_no_empty_names`)
    the decoding mode does not matter for data -/
theorem decodeRecord_named (mode : Mode) (tpl : Template) (b : Bytes) (hn : ∀ ie ∈ tpl, ie.name ≠ "") :
    decodeRecord mode tpl b = decodeRecord .keep tpl b := by
  induction tpl generalizing b with
  | nil => rfl
  | cons ie t ih =>
    have h1 : ie.name ≠ "" := hn ie (by simp)
    unfold decodeRecord
    cases decodeField ie b with
    | ok vr =>
      obtain ⟨v, r⟩ := vr
      simp only [bind_ok]
      rw [ih r (fun x hx => hn x (by simp [hx]))]
      simp [h1]
    | err => rfl
    | panic => rfl
    | diverge => rfl

theorem decodeRecordsFuel_named (mode : Mode) (tpl : Template) (hn : ∀ ie ∈ tpl, ie.name ≠ "") (fuel : Nat) (b : Bytes) :
    decodeRecordsFuel mode tpl fuel b = decodeRecordsFuel .keep tpl fuel b := by
  induction fuel generalizing b with
  | zero => rfl
  | succ f ih =>
    unfold decodeRecordsFuel
    rw [decodeRecord_named mode tpl b hn]
    split
    · rfl
    · cases decodeRecord .keep tpl b with
      | ok vr => obtain ⟨v, r⟩ := vr; simp only [bind_ok]; rw [ih r]
      | err => rfl
      | panic => rfl
      | diverge => rfl

/-- C01, data: with the template in force, the collector delivers the same observation domain, the
    same number of records and every field value bit-identical (IP addresses in their canonical
    4- / 16-byte form), for any record count and any well-typed values - in every decoding mode. -/
theorem e2e_data (lookup : Nat → Nat → Option IE) (mode : Mode) (c : CState) (dom seq time tid : Nat)
    (ies : List IE) (recs : List (List Elem)) (bodies : List Bytes)
    (hc : c.lookup (dom, tid) = some ies) (hmin : 0 < minRecordLen ies) (hwf : ∀ ie ∈ ies, ie.WF)
    (hnamed : ∀ ie ∈ ies, ie.name ≠ "")
    (hshape : ∀ r ∈ recs, r.map (·.1) = ies) (henc : recs.map encodeRecord = bodies.map some)
    (hd : dom < 4294967296) (hs : seq < 4294967296) (ht : time < 4294967296) (htid : tid < 65536) (hdata : tid ≠ 2)
    (hfit : 16 + (4 + bodies.flatten.length) ≤ 65535) :
    decodePacket lookup mode c (dataWire dom seq time tid bodies) =
      (c, .ok { hdr := { version := 10, length := 16 + (4 + bodies.flatten.length), exportTime := time, seq := seq,
                         dom := dom, setID := tid, setLen := 4 + bodies.flatten.length },
                body := .data tid (recs.map fun r => r.map fun e => C15.canon e.1 e.2) }) := by
  unfold decodePacket dataWire
  rw [parseHeader_wire _ _ _ _ _ _ _ (by omega) ht hs hd htid (by omega)]
  have h2 : Generated.cTemplateSetID = 2 := rfl
  simp only [h2, ne_eq, not_true_eq_false, if_false, hdata]
  unfold decodeDataSet
  rw [hc]
  simp only
  have hk := C02.wire_data ies hmin hwf recs bodies hshape henc
  unfold decodeRecords at hk ⊢
  rw [if_neg (by omega)] at hk ⊢
  rw [decodeRecordsFuel_named mode ies hnamed, hk]
  rfl

/-- the exporter side: what SendSet writes (C08 `send_ok`: CreateIPFIXMsg of the set after
    UpdateLenInHeader) for a set prepared with id `sid` IS the wire layout `dataWire` of its record
    buffers - for a template set (`sid = 2`, one record) that is `templateWire` - so `e2e_template`
    and `e2e_data` apply to the bytes the exporter model emits -/
theorem exporter_emits_wire (s : SetB) (hi : C16.Inv s) (sid dom seq time : Nat) (w : Bytes)
    (hsid : s.header.take 2 = be 2 sid) (hw : createMsg s.updateLen dom seq time = some w) :
    w = dataWire dom seq time sid (s.recs.map (·.bytes)) := by
  unfold createMsg at hw
  split at hw
  · cases hw
  · simp at hw
    subst hw
    have h16 : Generated.cMsgHeaderLength = 16 := rfl
    have hlen : s.length = 4 + ((s.recs.map (·.bytes)).flatten).length := by
      rw [hi.1]; simp [List.length_flatten, List.map_map, Function.comp_def]; rfl
    simp only [dataWire, SetB.serialize, SetB.updateLen, hsid, h16, hlen, List.append_assoc]

/-! ## The whole chain in one statement -/

/-- what `SetDesc.build` (PrepareSet(Data, setId) then AddRecordV2 per record) produces -/
theorem build_data_facts (recs : List (Nat × List Elem)) (s0 s : SetB) (hty : s0.ty = .data) (hi : C16.Inv s0)
    (h : recs.foldl (fun acc r => acc.bind fun s => s.addRecordV2 r.2 r.1) (some s0) = some s) :
    s.ty = .data ∧ C16.Inv s ∧ s.header = s0.header ∧
    (s.recs.map (·.bytes)).map some = (s0.recs.map (·.bytes)).map some ++ recs.map (fun r => encodeRecord r.2) := by
  induction recs generalizing s0 with
  | nil => simp at h; subst h; exact ⟨hty, hi, rfl, by simp⟩
  | cons r t ih =>
    simp only [List.foldl_cons, Option.bind_some] at h
    cases ha : s0.addRecordV2 r.2 r.1 with
    | none =>
      rw [ha] at h
      have : ∀ l : List (Nat × List Elem), l.foldl (fun (acc : Option SetB) r => acc.bind fun s => s.addRecordV2 r.2 r.1) none = none := by
        intro l; induction l with
        | nil => rfl
        | cons _ _ ihl => simpa using ihl
      rw [this] at h; cases h
    | some s1 =>
      rw [ha] at h
      have h1 : s1.ty = .data ∧ C16.Inv s1 ∧ s1.header = s0.header ∧
          (s1.recs.map (·.bytes)).map some = (s0.recs.map (·.bytes)).map some ++ [encodeRecord r.2] := by
        have hstep := C16.inv_step s0 (.addV2 r.2 r.1) hi
        simp only [C16.step, ha, Option.getD_some] at hstep
        simp only [SetB.addRecordV2, hty] at ha
        cases he : encodeRecord r.2 with
        | none => simp [he] at ha
        | some bs =>
          simp [he] at ha
          subst ha
          exact ⟨rfl, hstep, rfl, by simp⟩
      obtain ⟨a1, a2, a3, a4⟩ := h1
      obtain ⟨b1, b2, b3, b4⟩ := ih s1 a1 a2 h
      exact ⟨b1, b2, b3.trans a3, by rw [b4, a4]; simp⟩

/-- C01 in one statement, for the models: a data set described by `d` (set id = template id, every
    record of the template's shape with well-typed values), built and handed to the exporter model,
    whose SendSet succeeds with wire bytes `w`; the collector model, holding the template for the
    exporter's observation domain, decodes `w` to a message with that domain, the exporter's new
    sequence number, the same number of records and every value identical (addresses canonical). -/
theorem e2e_send_data (lookup : Nat → Nat → Option IE) (mode : Mode) (st st' : ExpState) (c : CState)
    (d : SetDesc) (s : SetB) (time n : Nat) (w : Bytes) (ies : List IE)
    (hty : d.ty = .data) (hb : d.build true = some s) (hsend : st.sendBuilt time s = (st', .ok n w))
    (hc : c.lookup (st.dom, d.setId) = some ies) (hmin : 0 < minRecordLen ies) (hwf : ∀ ie ∈ ies, ie.WF)
    (hnamed : ∀ ie ∈ ies, ie.name ≠ "") (hshape : ∀ r ∈ d.recs, r.2.map (·.1) = ies)
    (hd : st.dom < 4294967296) (ht : time < 4294967296) (hsid : d.setId < 65536) (hdata : d.setId ≠ 2) :
    ∃ hdr, decodePacket lookup mode c w =
      (c, .ok { hdr := hdr, body := .data d.setId (d.recs.map fun r => r.2.map fun e => C15.canon e.1 e.2) }) ∧
      hdr.dom = st.dom ∧ hdr.seq = st'.seq ∧ hdr.length = w.length ∧ hdr.exportTime = time := by
  -- the built set
  unfold SetDesc.build at hb
  rw [hty] at hb
  simp only [SetB.prepare] at hb
  have hi0 : C16.Inv { SetB.new with ty := SetType.data, header := be 2 d.setId ++ SetB.new.header.drop 2 } := by
    simp [C16.Inv, SetB.new]
  obtain ⟨sty, sinv, shdr, sbytes⟩ := build_data_facts d.recs _ s rfl hi0 (by simpa using hb)
  simp only [SetB.new, List.map_nil, List.nil_append] at sbytes shdr
  -- what the exporter wrote
  obtain ⟨hn, hdom, hseq, hmsg⟩ := C08.send_ok st st' time s n w hsend
  have htake : s.header.take 2 = be 2 d.setId := by rw [shdr]; exact List.take_left' (by simp)
  have hw := exporter_emits_wire s sinv d.setId st.dom st'.seq time w htake hmsg
  have hseqlt : st'.seq < 4294967296 ∨ True := Or.inr trivial
  -- size bound
  have hsz := C16.createMsg_length s.updateLen (C16.inv_step s .updateLen sinv) _ _ _ w hmsg
  have hlen : w.length = 16 + (4 + ((s.recs.map (·.bytes)).flatten).length) := by
    rw [hw]; simp [dataWire, msgHeader]; omega
  have hs' : st'.seq < 4294967296 := by
    rw [hseq, sty]; simp; exact Nat.mod_lt _ (by decide)
  have henc : (d.recs.map (·.2)).map encodeRecord = (s.recs.map (·.bytes)).map some := by
    rw [sbytes]; simp [List.map_map, Function.comp_def]
  have hshape' : ∀ r ∈ d.recs.map (·.2), r.map (·.1) = ies := by
    intro r hr; simp at hr; obtain ⟨a, ha⟩ := hr; exact hshape (a, r) ha
  have := e2e_data lookup mode c st.dom st'.seq time d.setId ies (d.recs.map (·.2)) (s.recs.map (·.bytes))
    hc hmin hwf hnamed hshape' henc hd hs' ht hsid hdata (by omega)
  rw [← hw] at this
  refine ⟨_, by simpa [List.map_map, Function.comp_def] using this, rfl, rfl, ?_, rfl⟩
  rw [hlen]; simp [List.length_flatten, List.map_map, Function.comp_def]

/-! ## Non-vacuity: a concrete template and record, end to end through the two theorems' hypotheses -/
def ies0 : List IE := [⟨"protocolIdentifier", 4, .unsigned8, 0, 1⟩, ⟨"sourcePodName", 101, .string, 56506, 65535⟩]
example : (∀ ie ∈ ies0, Registered lookupIE ie) := by
  intro ie h
  simp [ies0] at h
  rcases h with rfl | rfl <;> refine ⟨by decide +kernel, by decide, by simp [C02.SpecOK]⟩
example : (decodePacket lookupIE .strict (decodePacket lookupIE .strict {} (templateWire 7 0 0 256 ies0)).1
    (dataWire 7 1 0 256 [[6, 2, 104, 105]])).2 =
    .ok { hdr := { version := 10, length := 24, exportTime := 0, seq := 1, dom := 7, setID := 256, setLen := 8 },
          body := .data 256 [[.num 6, .bytes [104, 105]]] } := by decide +kernel

/-- the hypotheses of `e2e_send_data` are met by a concrete session state: an exporter that has
    registered template 256 = `ies0`, and a one-record data set for it -/
def st0 : ExpState := { seq := 4294967295, dom := 7, templates := [(256, { fieldCount := 2, minLen := 2 })] }
def d0 : SetDesc := { ty := .data, setId := 256, recs := [(256, [(ies0[0]!, .num 6), (ies0[1]!, .bytes [104, 105])])] }
example : (match d0.build true with
    | some s => (match st0.sendBuilt 0 s with | (st', .ok _ _) => st'.seq == 0 | _ => false)
    | none => false) = true ∧
    (∀ r ∈ d0.recs, r.2.map (·.1) = ies0) ∧ 0 < minRecordLen ies0 :=
  ⟨by decide +kernel, by decide +kernel, by decide +kernel⟩

end Ipfix.C01
