/-
  C03 - Collector decoding is total and exact on arbitrary bytes.
  Property theorems only; helper lemmas in Lemmas/Collector.lean.
-/
import IpfixModel.Lemmas.Collector
import IpfixModel.Lemmas.CollectorExact
import IpfixModel.Lemmas.Unknown
import IpfixModel.Model.Registry
import IpfixModel.Spec.C03
namespace Ipfix.C03
open Outcome

/-- every element the registry can return is well-formed (fixed-width types carry their natural
    width, strings are variable-length): re-checked whenever the registry changes -/
def RegistryWF (lookup : Nat → Nat → Option IE) : Prop :=
  ∀ ent id ie, lookup ent id = some ie → ie.WF

/-- the invariant on the collector's template store -/
def TemplatesWF (s : CState) : Prop := ∀ p ∈ s.templates, ∀ ie ∈ p.2, ie.WF

/-! ## Tie: the regenerated registry satisfies the hypothesis of the safety theorems -/

theorem tie_registry_wf : ∀ ie ∈ registry, ie.WF := by decide +kernel

theorem registry_wf : RegistryWF lookupIE := by
  intro ent id ie h
  unfold lookupIE at h
  exact tie_registry_wf ie (List.mem_of_find?_eq_some h)

/-! ## Totality: no crash, no non-termination, for every template state and every byte string -/

/-- the record loop never crashes and always terminates -/
theorem decodeRecords_safe (mode : Mode) (tpl : Template) (body : Bytes) (hwf : ∀ ie ∈ tpl, ie.WF) :
    Safe (decodeRecords mode tpl body) := by
  unfold decodeRecords
  split
  · exact safe_err
  · exact decodeRecordsFuel_safe mode tpl hwf (by omega) _ body (by omega)


/-- template-set decoding never crashes and keeps the store well-formed -/
theorem decodeTemplateSet_safe (lookup : Nat → Nat → Option IE) (hreg : RegistryWF lookup) (mode : Mode)
    (s : CState) (hs : TemplatesWF s) (dom : Nat) (body : Bytes) :
    Safe (decodeTemplateSet lookup mode s dom body).2 ∧ TemplatesWF (decodeTemplateSet lookup mode s dom body).1 := by
  unfold decodeTemplateSet
  split
  · rename_i t0 t1 c0 c1 r
    simp only
    have hsafe := decodeSpecifiers_safe lookup mode (c0.toNat * 256 + c1.toNat) r
    cases hd : decodeSpecifiers lookup mode (c0.toNat * 256 + c1.toNat) r with
    | ok ies =>
      refine ⟨safe_ok _, ?_⟩
      intro p hp
      rcases CState.mem_insert hp with rfl | ⟨hp, _⟩
      · exact decodeSpecifiers_wf hreg hd
      · exact hs p hp
    | err =>
      refine ⟨safe_err, ?_⟩
      intro p hp
      exact hs p (CState.mem_erase hp).1
    | panic => rw [hd] at hsafe; exact absurd rfl hsafe.1
    | diverge => rw [hd] at hsafe; exact absurd rfl hsafe.2
  · exact ⟨safe_err, hs⟩

/-- data-set decoding never crashes, whatever well-formed template is in force -/
theorem decodeDataSet_safe (mode : Mode) (s : CState) (hs : TemplatesWF s) (dom tid : Nat) (body : Bytes) :
    Safe (decodeDataSet mode s dom tid body) := by
  unfold decodeDataSet
  split
  · exact safe_err
  · rename_i tpl hl
    have hwf : ∀ ie ∈ tpl, ie.WF := hs _ (CState.lookup_mem hl)
    exact safe_bind (decodeRecords_safe mode tpl body hwf) (fun _ _ => safe_ok _)

/-- C03, totality: for every byte string, every decoding mode and every (well-formed) template
    state, decoding a packet terminates without crashing, and the template state stays well-formed -/
theorem decodePacket_safe (lookup : Nat → Nat → Option IE) (hreg : RegistryWF lookup) (mode : Mode)
    (s : CState) (hs : TemplatesWF s) (pkt : Bytes) :
    Safe (decodePacket lookup mode s pkt).2 ∧ TemplatesWF (decodePacket lookup mode s pkt).1 := by
  unfold decodePacket
  split
  · exact ⟨safe_err, hs⟩
  · rename_i h body _
    split
    · exact ⟨safe_err, hs⟩
    · split
      · have := decodeTemplateSet_safe lookup hreg mode s hs h.dom body
        exact ⟨safe_bind this.1 (fun _ _ => safe_ok _), this.2⟩
      · exact ⟨safe_bind (decodeDataSet_safe mode s hs h.dom h.setID body) (fun _ _ => safe_ok _), hs⟩

/-- the collector after a history of packets -/
def runPackets (lookup : Nat → Nat → Option IE) (mode : Mode) (s : CState) : List Bytes → CState
  | [] => s
  | p :: ps => runPackets lookup mode (decodePacket lookup mode s p).1 ps

/-- every template state reachable from the empty one by ANY history of packets is well-formed ... -/
theorem reachable_wf (lookup : Nat → Nat → Option IE) (hreg : RegistryWF lookup) (mode : Mode)
    (s : CState) (hs : TemplatesWF s) (hist : List Bytes) : TemplatesWF (runPackets lookup mode s hist) := by
  induction hist generalizing s with
  | nil => exact hs
  | cons p ps ih => exact ih _ (decodePacket_safe lookup hreg mode s hs p).2

/-- ... hence decoding is total after any history (the "whatever templates it holds" quantifier),
    with the shipped registry -/
theorem decode_total (mode : Mode) (hist : List Bytes) (pkt : Bytes) :
    Safe (decodePacket lookupIE mode (runPackets lookupIE mode {} hist) pkt).2 :=
  (decodePacket_safe lookupIE registry_wf mode _
    (reachable_wf lookupIE registry_wf mode {} (by intro p hp; simp at hp) hist) pkt).1

/-! ## Bounded output: every delivered record consumed at least one byte of the set body -/

theorem decode_bounded {mode : Mode} {tpl : Template} {body : Bytes} {recs : List (List Value)}
    (h : decodeRecords mode tpl body = .ok recs) :
    0 < minRecordLen tpl ∧ recs.length * minRecordLen tpl ≤ body.length ∧ recs.length ≤ body.length := by
  unfold decodeRecords at h
  split at h
  · cases h
  · rename_i hmin
    have hb := decodeRecordsFuel_bound h
    refine ⟨by omega, hb, ?_⟩
    have : recs.length * 1 ≤ recs.length * minRecordLen tpl := Nat.mul_le_mul_left _ (by omega)
    omega


/-! ## Exactness against the independent reading of RFC 7011 -/

/-- C03, exactness: when a data set decodes, its body is the concatenation of complete records -
    every field at its full encoded width, in template order - followed only by padding shorter
    than the shortest possible record, and the delivered values are the per-type decodings of
    exactly those field payloads. So no field is built from fewer bytes than its width and no
    record is conjured from leftover bytes. -/
theorem decode_exact {mode : Mode} {tpl : Template} {body : Bytes} {recs : List (List Value)}
    (h : decodeRecords mode tpl body = .ok recs) :
    ∃ raw pad, Slices tpl body raw pad ∧ pad.length < minRecordLen tpl ∧
      raw.map (decodePayloads mode tpl) = recs.map Outcome.ok := by
  unfold decodeRecords at h
  split at h
  · cases h
  · obtain ⟨raw, pad, hsl, hmap⟩ := decodeRecordsFuel_sound h
    refine ⟨raw, pad, hsl, ?_, hmap⟩
    clear hmap h
    induction hsl with
    | done hlt => exact hlt
    | cons _ _ ih => exact ih

/-- C03, exactness (completeness half): conversely, a body that IS the concatenation of complete
    records followed by padding shorter than the shortest record is not rejected and yields exactly
    those records - so the decoder accepts precisely the bodies the independent reading of RFC 7011
    describes (given decodable payloads), and the slicing is unique. -/
theorem decode_complete {tpl : Template} (hmin : 0 < minRecordLen tpl) {body : Bytes}
    {raw : List (List Bytes)} {pad : Bytes} (hs : Slices tpl body raw pad) {vals : List (List Value)}
    (hd : raw.map (decodePayloads .keep tpl) = vals.map Outcome.ok) :
    decodeRecords .keep tpl body = .ok vals := by
  unfold decodeRecords
  rw [if_neg (by omega)]
  exact decodeRecordsFuel_complete hmin hs hd _ (by omega)

/-- two slicings of the same body into complete records with decodable payloads deliver the same
    values: the reading is unambiguous -/
theorem slicing_unambiguous {tpl : Template} (hmin : 0 < minRecordLen tpl) {body : Bytes}
    {raw raw' : List (List Bytes)} {pad pad' : Bytes} (hs : Slices tpl body raw pad) (hs' : Slices tpl body raw' pad')
    {vals vals' : List (List Value)} (hd : raw.map (decodePayloads .keep tpl) = vals.map Outcome.ok)
    (hd' : raw'.map (decodePayloads .keep tpl) = vals'.map Outcome.ok) : vals = vals' := by
  have h1 := decode_complete hmin hs hd
  have h2 := decode_complete hmin hs' hd'
  rw [h1] at h2
  exact Outcome.ok.inj h2

/-- the registry returns the element that was asked for -/
def LookupFaithful (lookup : Nat → Nat → Option IE) : Prop :=
  ∀ ent id ie, lookup ent id = some ie → ie.id = id ∧ ie.ent = ent

theorem lookupIE_faithful : LookupFaithful lookupIE := by
  intro ent id ie h
  have := List.find?_some h
  simp at this
  exact ⟨this.2, this.1⟩

/-- C03, template exactness: the delivered fields carry the wire's element ids and enterprise
    numbers, in order (field count included). -/
theorem decode_template_exact {lookup : Nat → Nat → Option IE} (hl : LookupFaithful lookup) {mode : Mode}
    {n : Nat} {b : Bytes} {ies : List IE} (h : decodeSpecifiers lookup mode n b = .ok ies) :
    ∃ specs, wireSpecs n b = some specs ∧
      ies.map (fun ie => (ie.id, ie.ent)) = specs.map (fun t => (t.1, t.2.2)) := by
  induction n generalizing b ies with
  | zero => simp [decodeSpecifiers] at h; subst h; exact ⟨[], rfl, rfl⟩
  | succ n ih =>
    unfold decodeSpecifiers at h
    rw [bind_eq_ok] at h
    obtain ⟨⟨ie, r⟩, h1, h⟩ := h
    rw [bind_eq_ok] at h
    obtain ⟨ies', h2, h⟩ := h
    simp at h; subst h
    obtain ⟨specs, hw, hm⟩ := ih h2
    unfold decodeSpecifier at h1
    split at h1
    · rename_i i0 i1 l0 l1 r0
      have hi0 := i0.toNat_lt
      simp only at h1
      split at h1
      · rename_i hbit
        have hge : i0.toNat ≥ 128 := by omega
        have hid : i0.toNat % 128 = i0.toNat - 128 := by omega
        split at h1
        · rename_i e0 e1 e2 e3 r'
          have hent : unbe [e0, e1, e2, e3] = ((e0.toNat * 256 + e1.toNat) * 256 + e2.toNat) * 256 + e3.toNat := by
            simp [unbe]
          split at h1
          · rename_i ie' hlk
            rw [bind_eq_ok] at h1
            obtain ⟨_, _, h1⟩ := h1
            simp at h1; obtain ⟨rfl, rfl⟩ := h1
            obtain ⟨hid', hent'⟩ := hl _ _ _ hlk
            refine ⟨_, by simp [wireSpecs, hge, hw]; rfl, ?_⟩
            simp [hm, hid', hent', hid, hent]
          · split at h1
            · cases h1
            · split at h1
              · cases h1
              · simp at h1; obtain ⟨rfl, rfl⟩ := h1
                refine ⟨_, by simp [wireSpecs, hge, hw]; rfl, ?_⟩
                simp [hm, hid, hent]
        · cases h1
      · rename_i hbit
        have hlt : ¬ i0.toNat ≥ 128 := by omega
        split at h1
        · rename_i ie' hlk
          rw [bind_eq_ok] at h1
          obtain ⟨_, _, h1⟩ := h1
          simp at h1; obtain ⟨rfl, rfl⟩ := h1
          obtain ⟨hid', hent'⟩ := hl _ _ _ hlk
          refine ⟨_, by simp [wireSpecs, hlt, hw]; rfl, ?_⟩
          simp [hm, hid', hent']
        · split at h1
          · cases h1
          · split at h1
            · cases h1
            · simp at h1; obtain ⟨rfl, rfl⟩ := h1
              refine ⟨_, by simp [wireSpecs, hlt, hw]; rfl, ?_⟩
              simp [hm]
    · cases h1

/-! ## Non-vacuity -/

def tplExample : Template :=
  [⟨"sourceIPv4Address", 8, .ipv4Address, 0, 4⟩, ⟨"protocolIdentifier", 4, .unsigned8, 0, 1⟩,
   ⟨"sourcePodName", 101, .string, 56506, 65535⟩]

example : (∀ ie ∈ tplExample, ie.WF) ∧
    decodeRecords .strict tplExample [10, 0, 0, 1, 6, 2, 104, 105] =
      .ok [[.bytes [10, 0, 0, 1], .num 6, .bytes [104, 105]]] := by decide
/-- the input that used to crash the collector (D1): a 3-byte body for a record of at least 6 bytes
    is now padding, and a truncated record is an error -/
example : decodeRecords .strict tplExample [10, 0, 0] = .ok [] ∧
    decodeRecords .strict tplExample [10, 0, 0, 1, 6, 200, 104, 105] = .err := by decide
/-- a template without fields defines no data (used to loop forever, D4) -/
example : decodeRecords .strict [] [1, 2, 3] = .err := by decide

end Ipfix.C03
