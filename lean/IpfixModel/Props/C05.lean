/-
  C05 - Flow aggregation arithmetic: sums, latest values and throughput are conserved.
  Property theorems (statements here; proofs by induction over the flow's history in
  Lemmas/Arith.lean). The model's aggregated record (`modelAfter h`, i.e. `create` on the first
  record then `update` / `resetStats` for every later event) is related to the DECLARATIVE reading
  of the property over the history `h` (Spec/C05.lean: `nodeExpected`, `expected` - sums, last
  values, maxima and the throughput formula as folds over `h`, no incremental state), for every
  history that respects the exporter contract (`contract h`).
-/
import IpfixModel.Lemmas.Arith
import IpfixModel.Lemmas.Sched
import IpfixModel.Lemmas.FlowKey
namespace Ipfix.C05
open Agg

/-- each reporting node's fields: every total counter's latest value, the sum of every delta
    counter over all records that node sent since the counters were last reset (mod 2^64), the
    node's latest end time, and throughput = 8 x growth of the octet total / growth of the end
    time since that node's previous record (first record: since the flow's start, from 0) -/
theorem node_fields_conserved (h : List Ev) (a : AggRec) (hc : contract h = true) (hm : modelAfter h = some a) :
    a.srcStats = (nodeExpected fillsSrc h).stats ∧ a.endSrc = (nodeExpected fillsSrc h).end_ ∧ a.thrSrc = (nodeExpected fillsSrc h).thr ∧
    a.dstStats = (nodeExpected fillsDst h).stats ∧ a.endDst = (nodeExpected fillsDst h).end_ ∧ a.thrDst = (nodeExpected fillsDst h).thr :=
  node_fields h a hc hm

/-- the aggregated record always carries the latest end time -/
theorem end_time_latest (h : List Ev) (a : AggRec) (hc : contract h = true) (hm : modelAfter h = some a) :
    a.end_ = (expected h).end_ := end_latest h a hc hm

/-- the common fields follow the node that reported the latest end time (delta counters and
    throughput are that node's; totals are the largest value among the records that were latest
    when they arrived) -/
theorem common_follows_latest (h : List Ev) (a : AggRec) (hc : contract h = true) (hm : modelAfter h = some a) :
    a.stats = (expected h).common ∧ a.thr = (expected h).thr := common_fields h a hc hm

/-- what "sum of the deltas since the last reset" and "latest total" mean, spelled out for one
    counter of one node (unfolding of `nodeExpected`) -/
theorem node_counter_formula (fills : InRec → Bool) (h : List Ev) (last : InRec)
    (hl : (recordsOf fills h).getLast? = some last) (i : Nat) (hi : i < nStats) :
    (nodeExpected fills h).stats.getD i 0 =
      (if isDelta i then ((recordsOf fills (sinceReset h)).map (·.stats.getD i 0)).sum % u64 else last.stats.getD i 0) := by
  unfold nodeExpected
  simp only [hl]
  simp [List.getD_eq_getElem?_getD, List.getElem?_map, List.getElem?_range hi]

/-- a reset clears delta counters and throughput fields only -/
theorem reset_clears_deltas_and_throughput_only (a : AggRec) :
    (∀ i, isDelta i = false → (resetStats a).stats.getD i 0 = a.stats.getD i 0 ∧ (resetStats a).srcStats.getD i 0 = a.srcStats.getD i 0 ∧ (resetStats a).dstStats.getD i 0 = a.dstStats.getD i 0) ∧
    (∀ i, isDelta i = true → (resetStats a).stats.getD i 0 = 0 ∧ (resetStats a).srcStats.getD i 0 = 0 ∧ (resetStats a).dstStats.getD i 0 = 0) ∧
    (resetStats a).thr = [0, 0] ∧ (resetStats a).thrSrc = [0, 0] ∧ (resetStats a).thrDst = [0, 0] ∧
    (resetStats a).end_ = a.end_ ∧ (resetStats a).endSrc = a.endSrc ∧ (resetStats a).endDst = a.endDst ∧
    (resetStats a).corr = a.corr ∧ (resetStats a).ready = a.ready ∧ (resetStats a).start = a.start ∧
    (resetStats a).endReason = a.endReason ∧ (resetStats a).tcpState = a.tcpState ∧ (resetStats a).flowType = a.flowType :=
  reset_clears_only a

/-- records with different 5-tuples never affect each other -/
theorem other_keys_unaffected (s : State) (r : InRec) (k : Nat) (hk : r.key ≠ k) : (ingest s r).find k = s.find k :=
  keys_independent s r k hk

/-- exactly one flow record exists per distinct 5-tuple, after any sequence of operations -/
theorem one_flow_per_key (a i : Nat) (ops : List Op) :
    ((ops.foldl step { activeT := a, inactiveT := i }).flows.map (·.1)).Nodup := (sched_reachable a i ops).2.1

/-- the representability guard made visible: the throughput is computed in uint64, so when
    8 x growth does not fit 64 bits it wraps (outside the contract's guard) -/
theorem throughput_wraps : thrOf (2 ^ 62) 0 2 1 = 0 ∧ thrOf (2 ^ 61 - 1) 0 2 1 = 8 * (2 ^ 61 - 1) := by decide

/-! ## The flow key: "records with different 5-tuples", "one flow record per distinct 5-tuple"

  `one_flow_per_key` and `other_keys_unaffected` speak of keys; these theorems say what a key IS - the walk
  of getFlowKeyFromRecord (`FlowKey.keyLoop`, Model/FlowKey.lean) over a record. -/
section FlowKeyProps
open FlowKey

/-- the walk over the seven element names computes the closed form -/
theorem key_walk_closed_form (r : KeyRec) : keyLoop r = flowKey r := keyLoop_eq_flowKey r

/-- a record has a key exactly when it carries both ports, the protocol and, for each side, an IPv4 or an
    IPv6 address; otherwise the record is refused -/
theorem key_defined_iff (r : KeyRec) :
    (keyLoop r).isSome = (r.sport.isSome && r.dport.isSome && r.proto.isSome &&
      (r.src4.isSome || r.src6.isSome) && (r.dst4.isSome || r.dst6.isSome)) := by
  rw [keyLoop_eq_flowKey]; exact flowKey_some_iff r

/-- two records get the same key exactly when they denote the same 5-tuple: same ports, same protocol, the
    same source and the same destination address - whatever byte form the addresses are handed over in.
    So distinct 5-tuples never share a flow record and one 5-tuple never has two. -/
theorem key_distinguishes_exactly_the_five_tuple (r1 r2 : KeyRec) (k1 k2 : Key) (f1 f2 : Bool)
    (h1 : keyLoop r1 = some (k1, f1)) (h2 : keyLoop r2 = some (k2, f2)) :
    k1 = k2 ↔ sameTuple r1 r2 = true := by
  rw [keyLoop_eq_flowKey] at h1 h2; exact flowKey_eq_iff r1 r2 k1 k2 f1 f2 h1 h2

/-- "the same address": two address values print alike exactly when their 16-byte forms agree (a value that
    has none - no bytes, a length that is neither 4 nor 16 - only equals itself) -/
theorem same_text_iff_same_address (a b : Bytes) : ipText a = ipText b ↔ canon a = canon b := ipText_eq_iff a b

/-- an IPv4 address in its 4-byte form and in its 16-byte form is one address -/
theorem key_address_form_independent (a b c d : UInt8) :
    ipText [a, b, c, d] = ipText (v4InV6Prefix ++ [a, b, c, d]) := by
  rw [ipText_eq_iff]; simp [canon, to16, v4InV6Prefix]

/-- an IPv6 address of a side whose IPv4 address the record carries is never consulted -/
theorem key_ignores_ipv6_when_ipv4_present (r : KeyRec) (s4 d4 : Bytes) (x y : Option Bytes) :
    keyLoop { r with src4 := some s4, dst4 := some d4, src6 := x, dst6 := y } =
    keyLoop { r with src4 := some s4, dst4 := some d4 } := by
  simp only [keyLoop_eq_flowKey, flowKey, sideAddr]

/-- the second result: both IPv4 addresses were there -/
theorem key_ipv4_flag (r : KeyRec) (k : Key) (f : Bool) (h : keyLoop r = some (k, f)) :
    f = (r.src4.isSome && r.dst4.isSome) := by
  rw [keyLoop_eq_flowKey] at h
  obtain ⟨_, _, _, _, _, _, _, _, _, _, _, hf⟩ := flowKey_some h
  exact hf

/-- records that differ in ONE component of the 5-tuple have different keys (each component is in the key) -/
theorem key_has_every_component (r : KeyRec) (k k' : Key) (f f' : Bool) (h : keyLoop r = some (k, f)) :
    (∀ p, r.proto ≠ some p → keyLoop { r with proto := some p } = some (k', f') → k ≠ k') ∧
    (∀ p, r.sport ≠ some p → keyLoop { r with sport := some p } = some (k', f') → k ≠ k') ∧
    (∀ p, r.dport ≠ some p → keyLoop { r with dport := some p } = some (k', f') → k ≠ k') := by
  refine ⟨?_, ?_, ?_⟩ <;>
  · intro p hp h' heq
    have := (key_distinguishes_exactly_the_five_tuple _ _ _ _ _ _ h h').mp heq
    simp [sameTuple] at this
    simp_all

/-- the two halves together. The flow table is a Go map keyed by the FlowKey struct, i.e. by its five components:
    any injective numbering `enc` of keys stands for it. A record whose five-tuple differs from that of a held flow
    leaves that flow exactly as it was; a record of the same five-tuple - in whatever byte form its addresses come - is
    aggregated into that very flow's entry. -/
theorem different_five_tuples_never_interact (enc : Key → Nat) (hinj : ∀ a b, enc a = enc b → a = b)
    (s : State) (r : InRec) (kr kr' : KeyRec) (k k' : Key) (f f' : Bool)
    (h1 : keyLoop kr = some (k, f)) (h2 : keyLoop kr' = some (k', f')) (hr : r.key = enc k) :
    (sameTuple kr kr' = false → (ingest s r).find (enc k') = s.find (enc k')) ∧
    (sameTuple kr kr' = true → enc k' = r.key) := by
  have hiff := key_distinguishes_exactly_the_five_tuple kr kr' k k' f f' h1 h2
  constructor
  · intro hne
    apply other_keys_unaffected
    intro he
    have : k = k' := hinj _ _ (by rw [← hr]; exact he)
    rw [hiff.mp this] at hne
    cases hne
  · intro hsame
    rw [hr, hiff.mpr hsame]

/-- non-vacuity: two TCP flows between the same hosts and ports, one seen as UDP; an IPv4 flow reported with
    16-byte addresses; a record without a destination address -/
example :
    keyLoop ⟨some 1234, some 80, some 6, some [10,0,0,1], some [10,0,0,2], none, none⟩ =
      some ({ src := .v4 [10,0,0,1], dst := .v4 [10,0,0,2], proto := 6, sport := 1234, dport := 80 }, true) ∧
    keyLoop ⟨some 1234, some 80, some 17, some [10,0,0,1], some [10,0,0,2], none, none⟩ ≠
      keyLoop ⟨some 1234, some 80, some 6, some [10,0,0,1], some [10,0,0,2], none, none⟩ ∧
    keyLoop ⟨some 1234, some 80, some 6, some (v4InV6Prefix ++ [10,0,0,1]), some (v4InV6Prefix ++ [10,0,0,2]), none, none⟩ =
      keyLoop ⟨some 1234, some 80, some 6, some [10,0,0,1], some [10,0,0,2], none, none⟩ ∧
    keyLoop ⟨some 1234, some 80, some 6, some [10,0,0,1], none, none, none⟩ = none ∧
    keyLoop ⟨some 1234, some 80, some 6, none, none, some (List.replicate 15 0 ++ [1]), some (List.replicate 15 0 ++ [2])⟩ =
      some ({ src := .v6 (List.replicate 15 0 ++ [1]), dst := .v6 (List.replicate 15 0 ++ [2]), proto := 6, sport := 1234, dport := 80 }, false) := by
  decide

end FlowKeyProps

/-! ## httpVals

  In the sessions that configure httpVals among the non-stats elements every record carries a value
  of it - any string is legal. The arithmetic never looks at it. -/

/-- the statistics update does not read the record's httpVals -/
theorem aggNums_ignores_httpVals (r : InRec) (n : Nums) (fs fd : Bool) (v : Option Bytes) :
    aggNums { r with httpVals := v } n fs fd = aggNums r n fs fd := by
  simp [aggNums]

/-- whatever the incoming and the stored record hold as httpVals - nothing, a JSON object, text that is no
    JSON - every field the property talks about (end times, counters, throughput; `AggRec.nums`) comes out
    the same -/
theorem httpVals_never_touches_arithmetic (r : InRec) (a : AggRec) (v w : Option Bytes) :
    (update { r with httpVals := v } { a with httpVals := w }).nums = (update r a).nums := by
  unfold update
  simp only []
  split <;> (try split) <;> (try split) <;> simp [aggregate, AggRec.nums, aggNums_ignores_httpVals]

/-- a value that does not parse, incoming or stored, is not an error of the aggregation: the incoming value
    replaces the stored one -/
theorem unparsable_httpVals_replaces (i e : Bytes) (h : parseHttp i = none ∨ parseHttp e = none) : fillHttp i e = i := by
  unfold fillHttp
  rcases h with h | h
  · simp [h]
  · rw [h]; split <;> simp_all

/-- fillHttpVals on concrete values (bytes of the JSON text): incoming {"1":"a","10":"b","2":"c"}, stored {"1":"zz","3":"q"} give
    {"1":"zz","10":"b","2":"c","3":"q"} (the stored text of id 1 wins; "10" sorts before "2"); two empty strings give {};
    a cut-off incoming value {"1":"a replaces the stored one as it is -/
example : fillHttp [123, 34, 49, 34, 58, 34, 97, 34, 44, 34, 49, 48, 34, 58, 34, 98, 34, 44, 34, 50, 34, 58, 34, 99, 34, 125] [123, 34, 49, 34, 58, 34, 122, 122, 34, 44, 34, 51, 34, 58, 34, 113, 34, 125] = [123, 34, 49, 34, 58, 34, 122, 122, 34, 44, 34, 49, 48, 34, 58, 34, 98, 34, 44, 34, 50, 34, 58, 34, 99, 34, 44, 34, 51, 34, 58, 34, 113, 34, 125] ∧ fillHttp [] [] = [123, 125] ∧
    fillHttp [123, 34, 49, 34, 58, 34, 97] [123, 34, 49, 34, 58, 34, 122, 122, 34, 125] = [123, 34, 49, 34, 58, 34, 97] ∧ fillHttp [123, 34, 53, 34, 58, 34, 120, 34, 125] [103, 97, 114, 98, 97, 103, 101] = [123, 34, 53, 34, 58, 34, 120, 34, 125] := by decide
/-- a record that is not later than its node's previous one is skipped after the end times were written: the
    non-stats elements (httpVals among them) and the counters stay -/
theorem skipped_record_leaves_non_stats (r : InRec) (a : AggRec) (fs fd : Bool) (h : r.end_ ≤ prevEnd r a fs fd) :
    (aggregate r a fs fd).httpVals = a.httpVals ∧ (aggregate r a fs fd).stats = a.stats ∧
    (aggregate r a fs fd).tcpState = a.tcpState ∧ (aggregate r a fs fd).endReason = a.endReason := by
  have hs : aggNums r a.nums fs fd =
      { a.nums with end_ := if r.end_ ≥ a.end_ then r.end_ else a.end_, endSrc := if fs then r.end_ else a.endSrc,
                    endDst := if fd then r.end_ else a.endDst } := by
    simp only [aggNums]
    exact if_pos h
  refine ⟨?_, ?_, ?_, ?_⟩
  · unfold aggregate
    simp only []
    cases hr : r.httpVals <;> cases ha : a.httpVals <;> simp [h]
  all_goals (unfold aggregate; simp only []; rw [hs]; rfl)
/-! ## Non-vacuity: a contract-respecting correlated history with a reset -/
def cS : List CorrV := [.str [1], .str [], .str [], .str [], .str [], .str [], .ip4 [0,0,0,0], .num 0, .num 0, .num 0, .num 0, .ip6 zero16]
def cD : List CorrV := [.str [], .str [], .str [], .str [2], .str [], .str [], .ip4 [0,0,0,0], .num 0, .num 0, .num 0, .num 0, .ip6 zero16]
def rec (c : List CorrV) (e : Nat) (st : List Nat) : InRec :=
  { key := 1, flowType := 2, corr := c, start := 100, end_ := e, endReason := 2, tcpState := [], stats := st }
def hist : List Ev :=
  [.record (rec cS 110 [10, 5, 1000, 500, 0, 0, 0, 0]), .record (rec cD 105 [8, 8, 800, 800, 0, 0, 0, 0]),
   .record (rec cS 120 [30, 20, 3000, 2000, 0, 0, 0, 0]), .reset, .record (rec cD 130 [9, 1, 900, 100, 0, 0, 0, 0])]
example : contract hist = true ∧ (modelAfter hist).isSome = true := by decide
example : (nodeExpected fillsSrc hist).stats = [30, 0, 3000, 0, 0, 0, 0, 0] ∧ (nodeExpected fillsDst hist).stats = [9, 1, 900, 100, 0, 0, 0, 0] ∧
    (nodeExpected fillsDst hist).thr = [(900 - 800) * 8 / (130 - 105), 0] ∧ (expected hist).end_ = 130 := by decide

end Ipfix.C05
