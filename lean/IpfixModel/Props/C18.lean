/-
  C18 - Encrypted transports authenticate the peer. Property theorems only.

  Strength: PARTIAL by nature. The theorems are about the decision model `Ipfix.TLS` whose
  configurations are read off the regenerated facts (`Generated.TLS`) and whose library semantics
  (crypto/tls, crypto/x509, pion/dtls) are ASSUMED as documented in Model/TLSDecision.lean; that the
  TLS stacks behave so is observed on the real code over the whole matrix, not proved.

  The quantifier of C18 is a finite matrix, so case analysis / `decide` over the whole matrix is a
  legitimate proof of the matrix statements (`*_matrix`, `model_satisfies_spec_off_known_cells`);
  the statements about the decision functions themselves are proved for ARBITRARY certificates,
  names, times and peers.

  DTLS: `client_accepts_only_authenticated` is FALSE for the pion client (known finding D11: no
  name / address check when `ServerName` is empty or an IP literal). The DTLS theorem is therefore the
  `_partial` one, with `dtls_name_unchecked_witness` showing the full statement fails.
-/
import IpfixModel.Spec.C18
namespace Ipfix.C18
open Ipfix.TLS Generated.TLS

/-! ## Tie lemmas: the configurations the model reasons about are the ones in /repo now -/

/-- `createClientConfig`, no client certificate: RootCAs, MinVersion TLS 1.2, ServerName passed on, nothing else -/
theorem tie_tls_client_nocert :
    libTLSClient false = { rootsSet := true, skipVerify := false, serverNamePassed := true, minVersion := 12,
                           maxVersion := 13, sendsCert := false, extendedMasterSecret := true } := by decide

/-- `createClientConfig`, with a client certificate: the same plus Certificates -/
theorem tie_tls_client_cert :
    libTLSClient true = { rootsSet := true, skipVerify := false, serverNamePassed := true, minVersion := 12,
                          maxVersion := 13, sendsCert := true, extendedMasterSecret := true } := by decide

/-- both branches at once: the only difference is whether a client certificate is configured -/
theorem tie_tls_client (hasCert : Bool) :
    libTLSClient hasCert = { rootsSet := true, skipVerify := false, serverNamePassed := true, minVersion := 12,
                             maxVersion := 13, sendsCert := hasCert, extendedMasterSecret := true } := by
  cases hasCert
  · exact tie_tls_client_nocert
  · exact tie_tls_client_cert

/-- the exporter's `dtls.Config`: RootCAs, ServerName passed on, RequireExtendedMasterSecret, no client certificate -/
theorem tie_dtls_client :
    libDTLSClient = { rootsSet := true, skipVerify := false, serverNamePassed := true, minVersion := 12,
                      maxVersion := 12, sendsCert := false, extendedMasterSecret := true } := by decide

/-- `createServerConfig` without a client CA: certificate, MinVersion TLS 1.2, no client authentication -/
theorem tie_tls_server_noca :
    libTLSServer false = { hasCert := true, clientAuth := .noClientCert, clientCAsSet := false,
                           minVersion := 12, maxVersion := 13 } := by decide

/-- `createServerConfig` with a client CA: RequireAndVerifyClientCert against that CA, MinVersion TLS 1.2 -/
theorem tie_tls_server_ca :
    libTLSServer true = { hasCert := true, clientAuth := .requireAndVerify, clientCAsSet := true,
                          minVersion := 12, maxVersion := 13 } := by decide

/-- the collector's DTLS listener: a certificate, ClientCAs set (to its own certificate) but NO
    ClientAuth: exporters are not authenticated over DTLS, with or without `CACert` (noted, not demanded by C18) -/
theorem tie_dtls_server :
    libDTLSServer = { hasCert := true, clientAuth := .noClientCert, clientCAsSet := true,
                      minVersion := 12, maxVersion := 12 } := by decide

/-- nothing in the three files mentions InsecureSkipVerify or re-assigns a security field of a config -/
theorem tie_no_insecure_skip_verify :
    insecureSkipVerifyMentions = [] ∧ fieldAssignments = [] := by decide

/-- exactly the six config literals the model reads exist (a seventh would be a configuration the model does not know) -/
theorem tie_config_literals :
    configLits.map (fun l => (l.func, l.kind)) =
      [("InitExportingProcess", "dtls.Config"), ("createClientConfig", "tls.Config"), ("createClientConfig", "tls.Config"),
       ("createServerConfig", "tls.Config"), ("createServerConfig", "tls.Config"), ("startUDPServer", "dtls.Config")] := by decide

/-- the config handed to `tls.Dial` / `tls.Listen` / `dtls.Dial` / `dtls.Listen` is the variable `config`, which
    on the TLS paths is the result of `createClientConfig(tlsConfig)` / `cp.createServerConfig()` -/
theorem tie_config_flow :
    (calls.filter (fun c => isEncryptedCallee c.callee)).map (fun c => (c.callee, c.args.getLast?)) =
      [("tls.Dial", some "config"), ("dtls.Dial", some "config"), ("tls.Listen", some "config"), ("dtls.Listen", some "config")] ∧
    (calls.filter (fun c => !isDialOrListen c.callee)).map (fun c => (c.func, c.callee, c.args, c.lhs.head?)) =
      [("InitExportingProcess", "createClientConfig", ["tlsConfig"], some "config"),
       ("startTCPServer", "createServerConfig", [], some "config")] := by decide

/-- `IsEncrypted`, `CACert`, `ServerCert`, `ServerKey` of the input reach the fields the servers read -/
theorem tie_collector_input :
    passThrough.lookup "isEncrypted" = some "input.IsEncrypted" ∧ passThrough.lookup "caCert" = some "input.CACert" ∧
    passThrough.lookup "serverCert" = some "input.ServerCert" ∧ passThrough.lookup "serverKey" = some "input.ServerKey" := by decide

/-- all of the above at once, in the form the matrix proofs use -/
theorem tie_libCfgs :
    libCfgs =
      { tlsClientNoCert := { rootsSet := true, skipVerify := false, serverNamePassed := true, minVersion := 12,
                             maxVersion := 13, sendsCert := false, extendedMasterSecret := true }
        tlsClientCert := { rootsSet := true, skipVerify := false, serverNamePassed := true, minVersion := 12,
                           maxVersion := 13, sendsCert := true, extendedMasterSecret := true }
        dtlsClient := { rootsSet := true, skipVerify := false, serverNamePassed := true, minVersion := 12,
                        maxVersion := 12, sendsCert := false, extendedMasterSecret := true }
        tlsServerNoCA := { hasCert := true, clientAuth := .noClientCert, clientCAsSet := false, minVersion := 12, maxVersion := 13 }
        tlsServerCA := { hasCert := true, clientAuth := .requireAndVerify, clientCAsSet := true, minVersion := 12, maxVersion := 13 }
        dtlsServer := { hasCert := true, clientAuth := .noClientCert, clientCAsSet := true, minVersion := 12, maxVersion := 12 }
        exporterEncryptsTCP := true, exporterEncryptsUDP := true, collectorEncryptsTCP := true, collectorEncryptsUDP := true } := by
  decide +kernel

/-! ## No plaintext path -/

/-- C18, last clause, on the extracted call structure: with security settings present
    (`TLSClientConfig != nil`, `isEncrypted`) the one transport call on the path is the TLS / DTLS one;
    and every plaintext Dial / Listen in the three files sits under the NEGATION of the security setting. -/
theorem no_plaintext_path :
    exporterDial true "tcp" = ["tls.Dial"] ∧ exporterDial true "udp" = ["dtls.Dial"] ∧
    collectorListen true "tcp" = ["tls.Listen"] ∧ collectorListen true "udp" = ["dtls.Listen"] ∧
    (∀ c ∈ calls, isDialOrListen c.callee = true → isEncryptedCallee c.callee = false →
      c.conds.contains "!(input.TLSClientConfig != nil)" = true ∨ c.conds.contains "!(cp.isEncrypted)" = true) := by decide

/-- ... and on the model of the sessions: a plaintext peer never gets a session with, nor a message
    through, an endpoint that has security settings -/
theorem no_plaintext_session (c : Cell) (hp : c.peer = .plainSrv ∨ c.peer = .plainCli ∨ c.peer = .rawPlainCli) :
    (session c).delivered = false ∧ (c.peer = .plainSrv → (session c).initOk = false) := by
  simp only [session, tie_libCfgs] at *
  obtain ⟨t, sc, sn, cc, ca, p⟩ := c
  revert t sc sn cc ca p
  decide +kernel

/-! ## The exporter authenticates the collector (TLS) -/

/-- C18, first clause, for the crypto/tls client with the configuration `createClientConfig` builds,
    for ARBITRARY server certificates, names, times and server configurations: if the handshake can
    complete then the certificate chains to the configured CA, is within its validity period, is
    valid for the expected name or address (ServerName if set, else the dialled host) and the
    negotiated version is at least TLS 1.2. -/
theorem client_accepts_only_authenticated (hasCert : Bool) (serverName : Option Name) (host : Name) (cert : PeerCert)
    (t : Nat) (srv : ServerCfg) (v : Version)
    (hv : negotiate (libTLSClient hasCert) srv = some v)
    (ha : cryptoTLSVerifiesServer (libTLSClient hasCert) serverName host cert t = true) :
    cert.issuer = .trustedCA ∧ (cert.notBefore ≤ t ∧ t ≤ cert.notAfter) ∧
    nameMatches (serverName.getD host) cert = true ∧ 12 ≤ v := by
  rw [tie_tls_client hasCert] at hv ha
  simp [cryptoTLSVerifiesServer, chainsTo, withinValidity, tlsExpectedName] at ha
  simp [negotiate] at hv
  obtain ⟨⟨h12, _⟩, rfl⟩ := hv
  exact ⟨ha.1.1, ha.1.2, ha.2, h12⟩

/-- the same over the matrix: whenever the model lets the exporter complete a TLS session, the cell is one
    where the property allows it -/
theorem client_accepts_only_authenticated_matrix (c : Cell) (ht : c.transport = .tls) (hu : c.exporterUnderTest = true)
    (hi : (session c).initOk = true) : sessionAllowed c = true := by
  simp only [session, tie_libCfgs] at *
  obtain ⟨t, sc, sn, cc, ca, p⟩ := c
  revert t sc sn cc ca p
  decide +kernel

/-! ## The collector authenticates exporters when it has a client CA (TLS) -/

/-- C18, second clause, for the crypto/tls server with the configuration `createServerConfig` builds when
    a client CA is given, for ARBITRARY clients: the handshake is accepted only if the client presented
    a certificate, and that certificate is issued by the configured CA and within validity. -/
theorem collector_requires_client_cert (client : ClientCfg) (clientCert : Option PeerCert) (t : Nat)
    (h : serverAcceptsClient (libTLSServer true) (presented client clientCert (libTLSServer true)) t = true) :
    ∃ c, clientCert = some c ∧ c.issuer = .trustedCA ∧ c.notBefore ≤ t ∧ t ≤ c.notAfter := by
  rw [tie_tls_server_ca] at h
  simp only [serverAcceptsClient] at h
  cases hp : presented client clientCert
      { hasCert := true, clientAuth := .requireAndVerify, clientCAsSet := true, minVersion := 12, maxVersion := 13 } with
  | none => rw [hp] at h; simp at h
  | some c =>
    rw [hp] at h
    simp [verifiesClient, withinValidity] at h
    refine ⟨c, ?_, h.1, h.2⟩
    unfold presented at hp
    split at hp
    · cases hp
    · cases clientCert with
      | none => simp at hp
      | some c' =>
        simp only at hp
        split at hp
        · cases hp
        · cases hp; rfl

/-- the same over the matrix: with a client CA set, the TLS collector of the model delivers only in cells
    where the client's certificate is issued by that CA and valid -/
theorem collector_requires_client_cert_matrix (c : Cell) (ht : c.transport = .tls) (hu : c.collectorUnderTest = true)
    (hca : c.clientCA = true) (hd : (session c).delivered = true) : clientAuthentic c = true := by
  simp only [session, tie_libCfgs] at *
  obtain ⟨t, sc, sn, cc, ca, p⟩ := c
  revert t sc sn cc ca p
  decide +kernel

/-! ## DTLS: partial -/

/-- C18 for the pion client with the exporter's `dtls.Config`, as far as it holds: an accepted server
    certificate chains to the configured CA and is within validity; its NAME is checked only against a
    `ServerName` that is set and not an IP literal. -/
theorem dtls_client_accepts_partial (serverName : Option Name) (cert : PeerCert) (t : Nat)
    (ha : pionVerifiesServer libDTLSClient serverName cert t = true) :
    cert.issuer = .trustedCA ∧ (cert.notBefore ≤ t ∧ t ≤ cert.notAfter) ∧
    (∀ s, serverName = some (.dns s) → nameMatches (.dns s) cert = true) := by
  rw [tie_dtls_client] at ha
  simp [pionVerifiesServer, chainsTo, withinValidity, pionCheckedName] at ha
  refine ⟨ha.1.1, ha.1.2, ?_⟩
  intro s hs
  subst hs
  simpa using ha.2

/-- finding D11: the full statement is false for DTLS. With `ServerName` unset the exporter completes a
    session (and the message is delivered) with a server whose certificate - issued by the configured CA,
    within validity - is for other.example / 10.9.9.9, not for the dialled 127.0.0.1. -/
theorem dtls_name_unchecked_witness :
    let c : Cell := { transport := .dtls, serverCert := .wrongSAN, serverName := .unset, clientCert := .none,
                      clientCA := false, peer := .real }
    (session c).initOk = true ∧ (session c).delivered = true ∧ sessionAllowed c = false ∧
    nameMatches (expectedName c) (serverCertOf c.serverCert) = false ∧
    holdsOn c (obsOf (session c)) = .fails "dtls-no-name-check" := by decide

/-- ... while the same certificate IS refused by the TLS exporter, and by the DTLS exporter once `ServerName` is a DNS name -/
theorem name_checked_elsewhere :
    (session { transport := .tls, serverCert := .wrongSAN, serverName := .unset, clientCert := .none,
               clientCA := false, peer := .real }).initOk = false ∧
    (session { transport := .dtls, serverCert := .wrongSAN, serverName := .dns, clientCert := .none,
               clientCA := false, peer := .real }).initOk = false := by decide

/-- the DTLS exporter of the model completes a session only where the property allows it, EXCEPT in the D11 cells -/
theorem dtls_client_accepts_matrix_partial (c : Cell) (hv : c.valid = true) (ht : c.transport = .dtls)
    (hu : c.exporterUnderTest = true) (hk : knownD11 c = false) (hi : (session c).initOk = true) : sessionAllowed c = true := by
  simp only [session, tie_libCfgs] at *
  obtain ⟨t, sc, sn, cc, ca, p⟩ := c
  revert t sc sn cc ca p
  decide +kernel

/-! ## The model against the specification -/

/-- on every cell of the matrix that is not a D11 cell, the model's outcome satisfies the property predicate -/
theorem model_satisfies_spec_off_known_cells (c : Cell) (hv : c.valid = true) (hk : knownD11 c = false) :
    holdsOn c (obsOf (session c)) = .holds := by
  simp only [session, tie_libCfgs] at *
  obtain ⟨t, sc, sn, cc, ca, p⟩ := c
  revert t sc sn cc ca p
  decide +kernel

/-- and on every D11 cell it fails with exactly the known signature (the known set is not wider than the defect) -/
theorem known_cells_fail (c : Cell) (hk : knownD11 c = true) :
    holdsOn c (obsOf (session c)) = .fails "dtls-no-name-check" := by
  simp only [session, tie_libCfgs] at *
  obtain ⟨t, sc, sn, cc, ca, p⟩ := c
  revert t sc sn cc ca p
  decide +kernel

/-- the correspondence relation is equality of observations, so the predicate transfers trivially -/
theorem transfer (c : Cell) (o : Obs) (hR : o = obsOf (session c)) (hv : c.valid = true) (hk : knownD11 c = false) :
    holdsOn c o = .holds := hR ▸ model_satisfies_spec_off_known_cells c hv hk

/-! ## Non-vacuity -/

-- valid peers DO get through (the safety statements above are not satisfied by refusing everybody)
example : session { transport := .tls, serverCert := .trusted, serverName := .unset, clientCert := .trusted,
                    clientCA := true, peer := .real } = { initOk := true, delivered := true, version := none } := by decide
example : session { transport := .dtls, serverCert := .trusted, serverName := .dns, clientCert := .none,
                    clientCA := false, peer := .real } = { initOk := true, delivered := true, version := none } := by decide
example : session { transport := .tls, serverCert := .trusted, serverName := .dns, clientCert := .none,
                    clientCA := false, peer := .srv12 } = { initOk := true, delivered := true, version := some 12 } := by decide
-- TLS 1.1 peers are refused in both directions
example : (session { transport := .tls, serverCert := .trusted, serverName := .dns, clientCert := .none,
                     clientCA := false, peer := .srv11 }).initOk = false := by decide
example : (session { transport := .tls, serverCert := .trusted, serverName := .dns, clientCert := .none,
                     clientCA := false, peer := .cli11 }).initOk = false := by decide
-- a client without certificate completes its TLS 1.3 handshake but nothing is delivered
example : session { transport := .tls, serverCert := .trusted, serverName := .dns, clientCert := .none,
                    clientCA := true, peer := .real } = { initOk := true, delivered := false, version := none } := by decide
-- hypotheses of the general theorems are satisfiable
example : negotiate (libTLSClient false) (libTLSServer true) = some 13 := by decide
example : cryptoTLSVerifiesServer (libTLSClient false) none dialHost (serverCertOf .trusted) now = true := by decide
example : serverAcceptsClient (libTLSServer true) (presented (libTLSClient true) (clientCertOf .trusted) (libTLSServer true)) now = true := by decide
example : pionVerifiesServer libDTLSClient (some (.dns "localhost")) (serverCertOf .trusted) now = true := by decide
example : (knownD11 { transport := .dtls, serverCert := .noSAN, serverName := .ip, clientCert := .none, clientCA := false, peer := .real }) = true := by decide

end Ipfix.C18
