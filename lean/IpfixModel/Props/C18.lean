/-
  C18 - Encrypted transports authenticate the peer. Property theorems only.

  Strength: PARTIAL by nature. The theorems are about the decision model `Ipfix.TLS` whose
  configurations are read off the regenerated facts (`Generated.TLS`) and whose library semantics
  (crypto/tls, crypto/x509, pion/dtls) are ASSUMED as documented in Model/TLSDecision.lean; that the
  TLS stacks behave so is observed on the real code over the whole matrix, not proved.

  The quantifier of C18 is a finite matrix, so case analysis / `decide` over the whole matrix is a
  legitimate proof of the matrix statements (`*_matrix`, `model_satisfies_spec`); the statements
  about the decision functions themselves are proved for ARBITRARY certificates, names, times and
  peers.

  DTLS: pion/dtls checks the certificate's name only against a `ServerName` that is a DNS name (the
  former finding D11). Since 90a2eb6 the exporter installs a `VerifyPeerCertificate` hook for an empty
  or IP `ServerName`; the hook is read off the regenerated facts (`tie_dtls_name_hook_source`,
  `tie_dtls_client`), with it the full-strength statements hold for DTLS too
  (`dtls_client_accepts_only_authenticated`, `model_satisfies_spec`, `dtls_name_check_restored`),
  and WITHOUT it the old witness goes through again (`hook_absent_reads_as_none`, `d11_without_hook`,
  `d11_witness_without_hook`) - so a tree that loses or weakens the hook breaks these theorems.
-/
import IpfixModel.Spec.C18
namespace Ipfix.C18
open Ipfix.TLS Generated.TLS

/-! ## Tie lemmas: the configurations the model reasons about are the ones in /repo now -/

/-- `createClientConfig`, no client certificate: RootCAs, MinVersion TLS 1.2, ServerName passed on, nothing else -/
theorem tie_tls_client_nocert :
    libTLSClient false = { rootsSet := true, skipVerify := false, serverNamePassed := true, minVersion := 12,
                           maxVersion := 13, sendsCert := false, extendedMasterSecret := true, nameHook := noHook } := by decide

/-- `createClientConfig`, with a client certificate: the same plus Certificates -/
theorem tie_tls_client_cert :
    libTLSClient true = { rootsSet := true, skipVerify := false, serverNamePassed := true, minVersion := 12,
                          maxVersion := 13, sendsCert := true, extendedMasterSecret := true, nameHook := noHook } := by decide

/-- both branches at once: the only difference is whether a client certificate is configured -/
theorem tie_tls_client (hasCert : Bool) :
    libTLSClient hasCert = { rootsSet := true, skipVerify := false, serverNamePassed := true, minVersion := 12,
                             maxVersion := 13, sendsCert := hasCert, extendedMasterSecret := true, nameHook := noHook } := by
  cases hasCert
  · exact tie_tls_client_nocert
  · exact tie_tls_client_cert

/-- the hook of 90a2eb6 as extracted from the source: ONE func literal is assigned to a security field, on the DTLS
    path of `InitExportingProcess`, under `ServerName == "" || net.ParseIP(ServerName) != nil`; its text is the
    name check the model understands (`leaf.VerifyHostname(expectedName)` on the first raw certificate); and the
    assignments that reach it say that `config` is the `dtls.Config` literal, `tlsConfig` the caller's
    `TLSClientConfig`, and `expectedName` is `ServerName`, replaced when empty by the host of `CollectorAddress` -/
theorem tie_dtls_name_hook_source :
    hooks.map (fun h => (h.file, h.func, h.lhs, h.conds, h.body == nameCheckBody)) =
      [("pkg/exporter/process.go", "InitExportingProcess", "config.VerifyPeerCertificate",
        ["input.TLSClientConfig != nil", "!(input.CollectorProtocol == \"tcp\")", "input.CollectorProtocol == \"udp\"", "!(!ok)",
         "tlsConfig.ServerName == \"\" || net.ParseIP(tlsConfig.ServerName) != nil"], true)] ∧
    (hooks.flatMap (·.defs)).map (fun d => (d.lhs, d.rhs, d.conds.drop 4)) =
      [("tlsConfig", "input.TLSClientConfig", []),
       ("roots", "x509.NewCertPool()", []),
       ("config", "&dtls.Config{ RootCAs: roots, ExtendedMasterSecret: dtls.RequireExtendedMasterSecret, ServerName: tlsConfig.ServerName, }", []),
       ("expectedName", "tlsConfig.ServerName", ["tlsConfig.ServerName == \"\" || net.ParseIP(tlsConfig.ServerName) != nil"]),
       ("host, _, err", "net.SplitHostPort(input.CollectorAddress)",
        ["tlsConfig.ServerName == \"\" || net.ParseIP(tlsConfig.ServerName) != nil", "expectedName == \"\""]),
       ("expectedName", "host",
        ["tlsConfig.ServerName == \"\" || net.ParseIP(tlsConfig.ServerName) != nil", "expectedName == \"\"", "!(err != nil)"])] := by
  decide +kernel

/-- the exporter's `dtls.Config`: RootCAs, ServerName passed on, RequireExtendedMasterSecret, no client certificate,
    and the name check read off the hook: installed for an empty and for an IP `ServerName` (not for a DNS name,
    which pion checks itself), verifying `ServerName` or else the dialled host -/
theorem tie_dtls_client :
    libDTLSClient = { rootsSet := true, skipVerify := false, serverNamePassed := true, minVersion := 12,
                      maxVersion := 12, sendsCert := false, extendedMasterSecret := true,
                      nameHook := { onUnset := true, onIP := true, onDNS := false, hostFallback := true } } := by decide +kernel

/-- the reading of the hook is a function of the facts: with no hook extracted (the tree before 90a2eb6, or one
    that lost the assignment) the DTLS client has NO name check of its own, whatever the literal -/
theorem hook_absent_reads_as_none (assigns : List (String × String × String × String)) (l : ConfigLit) :
    dtlsHookOf [] assigns l = noHook := rfl

/-- ... and a hook whose text is not the name check (e.g. one that returns nil) is not taken for one -/
theorem hook_unrecognised_reads_as_none (h : Hook) (assigns : List (String × String × String × String)) (l : ConfigLit)
    (hb : h.body ≠ nameCheckBody) : dtlsHookOf [h] assigns l = noHook := by
  have hb' : (h.body == nameCheckBody) = false := by simpa using hb
  unfold dtlsHookOf
  by_cases hf : (h.func == "InitExportingProcess" && h.lhs == "config.VerifyPeerCertificate") = true
  · simp [List.filter, hf, hb']
  · simp [List.filter, hf]

/-- `createServerConfig` without a client CA: certificate, MinVersion TLS 1.2, no client authentication -/
theorem tie_tls_server_noca :
    libTLSServer false = { hasCert := true, clientAuth := .noClientCert, clientCAsSet := false,
                           minVersion := 12, maxVersion := 13 } := by decide

/-- `createServerConfig` with a client CA: RequireAndVerifyClientCert against that CA, MinVersion TLS 1.2 -/
theorem tie_tls_server_ca :
    libTLSServer true = { hasCert := true, clientAuth := .requireAndVerify, clientCAsSet := true,
                          minVersion := 12, maxVersion := 13 } := by decide

/-- the collector's DTLS listener: a certificate, ClientCAs set (to its own certificate) but NO
    ClientAuth: exporters are not authenticated over DTLS, with or without `CACert` (noted, not demanded by C18) -/
theorem tie_dtls_server :
    libDTLSServer = { hasCert := true, clientAuth := .noClientCert, clientCAsSet := true,
                      minVersion := 12, maxVersion := 12 } := by decide

/-- nothing in the three files mentions InsecureSkipVerify, and the only security field of a config assigned after
    its construction is the DTLS exporter's `VerifyPeerCertificate` hook (which can only refuse more) -/
theorem tie_no_insecure_skip_verify :
    insecureSkipVerifyMentions = [] ∧ weakeningAssignments = [] ∧
    fieldAssignments.map (fun a => (a.1, a.2.1, a.2.2.1, a.2.2.2 == nameCheckBody)) =
      [("pkg/exporter/process.go", "InitExportingProcess", "config.VerifyPeerCertificate", true)] := by decide +kernel

/-- exactly the six config literals the model reads exist (a seventh would be a configuration the model does not know) -/
theorem tie_config_literals :
    configLits.map (fun l => (l.func, l.kind)) =
      [("InitExportingProcess", "dtls.Config"), ("createClientConfig", "tls.Config"), ("createClientConfig", "tls.Config"),
       ("createServerConfig", "tls.Config"), ("createServerConfig", "tls.Config"), ("startUDPServer", "dtls.Config")] := by decide

/-- the literals set no field the model does not interpret: a session cache, a ticket-key or renegotiation
    setting, a `GetConfigForClient` / `VerifyConnection` callback, `InsecureSkipVerify` ... would each change what
    the stacks accept (e.g. a shared `ClientSessionCache` lets crypto/tls resume a session without re-verifying
    the chain against this config's RootCAs) and would have to be modelled first -/
theorem tie_config_fields_all_interpreted :
    (configLits.flatMap fun l => l.fields.map (·.1)).all
      (fun f => ["RootCAs", "ServerName", "MinVersion", "MaxVersion", "Certificates", "ClientAuth", "ClientCAs",
                 "ExtendedMasterSecret"].contains f) = true := by decide

/-- the config handed to `tls.Dial` / `tls.Listen` / `dtls.Dial` / `dtls.Listen` is the variable `config`, which
    on the TLS paths is the result of `createClientConfig(tlsConfig)` / `cp.createServerConfig()` -/
theorem tie_config_flow :
    (calls.filter (fun c => isEncryptedCallee c.callee)).map (fun c => (c.callee, c.args.getLast?)) =
      [("tls.Dial", some "config"), ("dtls.Dial", some "config"), ("tls.Listen", some "config"), ("dtls.Listen", some "config")] ∧
    (calls.filter (fun c => !isDialOrListen c.callee)).map (fun c => (c.func, c.callee, c.args, c.lhs.head?)) =
      [("InitExportingProcess", "createClientConfig", ["tlsConfig"], some "config"),
       ("startTCPServer", "createServerConfig", [], some "config")] := by decide

/-- `IsEncrypted`, `CACert`, `ServerCert`, `ServerKey` of the input reach the fields the servers read -/
theorem tie_collector_input :
    passThrough.lookup "isEncrypted" = some "input.IsEncrypted" ∧ passThrough.lookup "caCert" = some "input.CACert" ∧
    passThrough.lookup "serverCert" = some "input.ServerCert" ∧ passThrough.lookup "serverKey" = some "input.ServerKey" := by decide

/-- all of the above at once, in the form the matrix proofs use -/
theorem tie_libCfgs :
    libCfgs =
      { tlsClientNoCert := { rootsSet := true, skipVerify := false, serverNamePassed := true, minVersion := 12,
                             maxVersion := 13, sendsCert := false, extendedMasterSecret := true, nameHook := noHook }
        tlsClientCert := { rootsSet := true, skipVerify := false, serverNamePassed := true, minVersion := 12,
                           maxVersion := 13, sendsCert := true, extendedMasterSecret := true, nameHook := noHook }
        dtlsClient := { rootsSet := true, skipVerify := false, serverNamePassed := true, minVersion := 12,
                        maxVersion := 12, sendsCert := false, extendedMasterSecret := true,
                        nameHook := { onUnset := true, onIP := true, onDNS := false, hostFallback := true } }
        tlsServerNoCA := { hasCert := true, clientAuth := .noClientCert, clientCAsSet := false, minVersion := 12, maxVersion := 13 }
        tlsServerCA := { hasCert := true, clientAuth := .requireAndVerify, clientCAsSet := true, minVersion := 12, maxVersion := 13 }
        dtlsServer := { hasCert := true, clientAuth := .noClientCert, clientCAsSet := true, minVersion := 12, maxVersion := 12 }
        exporterEncryptsTCP := true, exporterEncryptsUDP := true, collectorEncryptsTCP := true, collectorEncryptsUDP := true } := by
  decide +kernel

/-! ## No plaintext path -/

/-- C18, last clause, on the extracted call structure: with security settings present
    (`TLSClientConfig != nil`, `isEncrypted`) the one transport call on the path is the TLS / DTLS one;
    and every plaintext Dial / Listen in the three files sits under the NEGATION of the security setting. -/
theorem no_plaintext_path :
    exporterDial true "tcp" = ["tls.Dial"] ∧ exporterDial true "udp" = ["dtls.Dial"] ∧
    collectorListen true "tcp" = ["tls.Listen"] ∧ collectorListen true "udp" = ["dtls.Listen"] ∧
    (∀ c ∈ calls, isDialOrListen c.callee = true → isEncryptedCallee c.callee = false →
      c.conds.contains "!(input.TLSClientConfig != nil)" = true ∨ c.conds.contains "!(cp.isEncrypted)" = true) := by decide

/-- ... and on the model of the sessions: a plaintext peer never gets a session with, nor a message
    through, an endpoint that has security settings -/
theorem no_plaintext_session (c : Cell) (hp : c.peer = .plainSrv ∨ c.peer = .plainCli ∨ c.peer = .rawPlainCli) :
    (session c).delivered = false ∧ (c.peer = .plainSrv → (session c).initOk = false) := by
  simp only [session, tie_libCfgs] at *
  obtain ⟨t, sc, sn, cc, ca, p⟩ := c
  revert t sc sn cc ca p
  decide +kernel

/-! ## The exporter authenticates the collector (TLS and DTLS) -/

/-- C18, first clause, for the crypto/tls client with the configuration `createClientConfig` builds,
    for ARBITRARY server certificates, names, times and server configurations: if the handshake can
    complete then the certificate chains to the configured CA, is within its validity period, is
    valid for the expected name or address (ServerName if set, else the dialled host) and the
    negotiated version is at least TLS 1.2. -/
theorem client_accepts_only_authenticated (hasCert : Bool) (serverName : Option Name) (host : Name) (cert : PeerCert)
    (t : Nat) (srv : ServerCfg) (v : Version)
    (hv : negotiate (libTLSClient hasCert) srv = some v)
    (ha : cryptoTLSVerifiesServer (libTLSClient hasCert) serverName host cert t = true) :
    cert.issuer = .trustedCA ∧ (cert.notBefore ≤ t ∧ t ≤ cert.notAfter) ∧
    nameMatches (serverName.getD host) cert = true ∧ 12 ≤ v := by
  rw [tie_tls_client hasCert] at hv ha
  simp [cryptoTLSVerifiesServer, chainsTo, withinValidity, tlsExpectedName] at ha
  simp [negotiate] at hv
  obtain ⟨⟨h12, _⟩, rfl⟩ := hv
  exact ⟨ha.1.1, ha.1.2, ha.2, h12⟩

/-- C18, third clause ("with DTLS the exporter likewise refuses servers it cannot verify"), now at full strength:
    for the pion client with the exporter's `dtls.Config` AND the exporter's hook, for ARBITRARY server
    certificates, names, dialled hosts and times: an accepted certificate chains to the configured CA, is within
    its validity period and is valid for the expected name or address (ServerName if set, else the dialled
    host). The version is DTLS 1.2 (pion speaks nothing else; `tie_dtls_client`: min = max = 12). -/
theorem dtls_client_accepts_only_authenticated (serverName : Option Name) (host : Name) (cert : PeerCert) (t : Nat)
    (ha : pionVerifiesServer libDTLSClient serverName host cert t = true) :
    cert.issuer = .trustedCA ∧ (cert.notBefore ≤ t ∧ t ≤ cert.notAfter) ∧
    nameMatches (serverName.getD host) cert = true := by
  rw [tie_dtls_client] at ha
  simp only [pionVerifiesServer, pionOwnVerification, hookVerifiesName, Bool.and_eq_true, Bool.false_or] at ha
  obtain ⟨hown, hhook⟩ := ha
  simp [chainsTo, withinValidity, pionCheckedName] at hown
  refine ⟨hown.1.1, hown.1.2, ?_⟩
  match serverName, hown, hhook with
  | none, _, hhook => simpa [NameHook.installedFor] using hhook
  | some (.ip s), _, hhook => simpa [NameHook.installedFor] using hhook
  | some (.dns s), hown, _ => simpa using hown.2

/-- the same over the matrix, for BOTH transports: whenever the model lets the exporter complete a session, the
    cell is one where the property allows it -/
theorem client_accepts_only_authenticated_matrix (c : Cell) (hv : c.valid = true) (hu : c.exporterUnderTest = true)
    (hi : (session c).initOk = true) : sessionAllowed c = true := by
  simp only [session, tie_libCfgs] at *
  obtain ⟨t, sc, sn, cc, ca, p⟩ := c
  revert t sc sn cc ca p
  decide +kernel

/-! ## The collector authenticates exporters when it has a client CA (TLS) -/

/-- C18, second clause, for the crypto/tls server with the configuration `createServerConfig` builds when
    a client CA is given, for ARBITRARY clients: the handshake is accepted only if the client presented
    a certificate, and that certificate is issued by the configured CA and within validity. -/
theorem collector_requires_client_cert (client : ClientCfg) (clientCert : Option PeerCert) (t : Nat)
    (h : serverAcceptsClient (libTLSServer true) (presented client clientCert (libTLSServer true)) t = true) :
    ∃ c, clientCert = some c ∧ c.issuer = .trustedCA ∧ c.notBefore ≤ t ∧ t ≤ c.notAfter := by
  rw [tie_tls_server_ca] at h
  simp only [serverAcceptsClient] at h
  cases hp : presented client clientCert
      { hasCert := true, clientAuth := .requireAndVerify, clientCAsSet := true, minVersion := 12, maxVersion := 13 } with
  | none => rw [hp] at h; simp at h
  | some c =>
    rw [hp] at h
    simp [verifiesClient, withinValidity] at h
    refine ⟨c, ?_, h.1, h.2⟩
    unfold presented at hp
    split at hp
    · cases hp
    · cases clientCert with
      | none => simp at hp
      | some c' =>
        simp only at hp
        split at hp
        · cases hp
        · cases hp; rfl

/-- the same over the matrix: with a client CA set, the TLS collector of the model delivers only in cells
    where the client's certificate is issued by that CA and valid -/
theorem collector_requires_client_cert_matrix (c : Cell) (ht : c.transport = .tls) (hu : c.collectorUnderTest = true)
    (hca : c.clientCA = true) (hd : (session c).delivered = true) : clientAuthentic c = true := by
  simp only [session, tie_libCfgs] at *
  obtain ⟨t, sc, sn, cc, ca, p⟩ := c
  revert t sc sn cc ca p
  decide +kernel

/-! ## DTLS: what the repair of D11 bought, and what the tree is without it -/

/-- pion's OWN verification with the exporter's `dtls.Config`, which is all there was before 90a2eb6: an accepted
    certificate chains to the configured CA and is within validity; its NAME is checked only against a
    `ServerName` that is set and not an IP literal -/
theorem pion_own_verification_partial (serverName : Option Name) (cert : PeerCert) (t : Nat)
    (ha : pionOwnVerification libDTLSClient serverName cert t = true) :
    cert.issuer = .trustedCA ∧ (cert.notBefore ≤ t ∧ t ≤ cert.notAfter) ∧
    (∀ s, serverName = some (.dns s) → nameMatches (.dns s) cert = true) := by
  rw [tie_dtls_client] at ha
  simp [pionOwnVerification, chainsTo, withinValidity, pionCheckedName] at ha
  refine ⟨ha.1.1, ha.1.2, ?_⟩
  intro s hs
  subst hs
  simpa using ha.2

/-- ... and it is strictly weaker than the property: a certificate of the trusted CA for other.example / 10.9.9.9
    passes it with `ServerName` unset or an IP literal, although the server is dialled at 127.0.0.1 -/
theorem pion_own_verification_checks_no_name :
    pionOwnVerification libDTLSClient none (serverCertOf .wrongSAN) now = true ∧
    pionOwnVerification libDTLSClient (some (.ip "127.0.0.1")) (serverCertOf .wrongSAN) now = true ∧
    nameMatches dialHost (serverCertOf .wrongSAN) = false := by decide +kernel

/-- the repair: in every cell of the former finding D11 (DTLS, `ServerName` unset or an IP literal, certificate of
    the trusted CA, within validity, NOT valid for the expected name / address) the exporter's session is now
    refused and nothing is delivered -/
theorem dtls_name_check_restored (c : Cell) (hk : formerD11 c = true) :
    (session c).initOk = false ∧ (session c).delivered = false := by
  simp only [session, tie_libCfgs] at *
  obtain ⟨t, sc, sn, cc, ca, p⟩ := c
  revert t sc sn cc ca p
  decide +kernel

/-- the old witness of D11, refused now; the same certificate is refused by the TLS exporter and by the DTLS
    exporter with a DNS `ServerName` (as it always was) -/
theorem name_checked_everywhere :
    (session { transport := .dtls, serverCert := .wrongSAN, serverName := .unset, clientCert := .none,
               clientCA := false, peer := .real }).initOk = false ∧
    (session { transport := .dtls, serverCert := .wrongSAN, serverName := .ip, clientCert := .none,
               clientCA := false, peer := .real }).initOk = false ∧
    (session { transport := .tls, serverCert := .wrongSAN, serverName := .unset, clientCert := .none,
               clientCA := false, peer := .real }).initOk = false ∧
    (session { transport := .dtls, serverCert := .wrongSAN, serverName := .dns, clientCert := .none,
               clientCA := false, peer := .real }).initOk = false := by
  simp only [session, tie_libCfgs]
  decide +kernel

/-- the hook does not refuse everybody: a certificate valid for the dialled 127.0.0.1 / for localhost is accepted
    by the DTLS exporter with `ServerName` unset, "127.0.0.1" and "localhost", and the message is delivered -/
theorem dtls_valid_names_still_accepted (sn : ServerNameKind) (h : sn = .unset ∨ sn = .ip ∨ sn = .dns) :
    session { transport := .dtls, serverCert := .trusted, serverName := sn, clientCert := .none,
              clientCA := false, peer := .real } = { initOk := true, delivered := true, version := none } := by
  simp only [session, tie_libCfgs]
  rcases h with rfl | rfl | rfl <;> decide +kernel

/-- the tie is meaningful: with the hook taken away (`hook_absent_reads_as_none`: that IS what the model reads off
    a tree without the assignment) every former D11 cell completes its session, delivers the message and fails
    the property predicate with `name-mismatch` - and no other valid cell fails -/
theorem d11_without_hook (c : Cell) (hv : c.valid = true) :
    holdsOn c (obsOf (sessionWith libCfgs.withoutDTLSHook c)) =
      if formerD11 c then .fails "name-mismatch" else .holds := by
  simp only [tie_libCfgs, LibCfgs.withoutDTLSHook] at *
  obtain ⟨t, sc, sn, cc, ca, p⟩ := c
  revert t sc sn cc ca p
  decide +kernel

/-- the old witness, spelled out: without the hook and with `ServerName` unset the exporter completes a session
    (and the message is delivered) with a server whose certificate - issued by the configured CA, within
    validity - is for other.example / 10.9.9.9, not for the dialled 127.0.0.1 -/
theorem d11_witness_without_hook :
    let c : Cell := { transport := .dtls, serverCert := .wrongSAN, serverName := .unset, clientCert := .none,
                      clientCA := false, peer := .real }
    let o := sessionWith libCfgs.withoutDTLSHook c
    o.initOk = true ∧ o.delivered = true ∧ sessionAllowed c = false ∧
    nameMatches (expectedName c) (serverCertOf c.serverCert) = false ∧
    holdsOn c (obsOf o) = .fails "name-mismatch" ∧ (session c).initOk = false := by
  simp only [session, tie_libCfgs, LibCfgs.withoutDTLSHook]
  decide +kernel

/-- the former D11 cells are exactly these 56: DTLS, library on both sides, any client certificate / client CA,
    and (ServerName, server certificate) one of the seven pairs -/
theorem formerD11_cells (c : Cell) :
    formerD11 c = (c.transport == .dtls && c.peer == .real &&
      [(ServerNameKind.unset, ServerCertKind.wrongSAN), (.unset, .noSAN), (.ip, .wrongSAN), (.ip, .noSAN),
       (.badIp, .trusted), (.badIp, .wrongSAN), (.badIp, .noSAN)].contains (c.serverName, c.serverCert)) := by
  obtain ⟨t, sc, sn, cc, ca, p⟩ := c
  revert t sc sn cc ca p
  decide +kernel

/-! ## The model against the specification -/

/-- on EVERY cell of the matrix the model's outcome satisfies the property predicate -/
theorem model_satisfies_spec (c : Cell) (hv : c.valid = true) :
    holdsOn c (obsOf (session c)) = .holds := by
  simp only [session, tie_libCfgs] at *
  obtain ⟨t, sc, sn, cc, ca, p⟩ := c
  revert t sc sn cc ca p
  decide +kernel

/-- the correspondence relation is equality of observations, so the predicate transfers trivially -/
theorem transfer (c : Cell) (o : Obs) (hR : o = obsOf (session c)) (hv : c.valid = true) :
    holdsOn c o = .holds := hR ▸ model_satisfies_spec c hv

/-! ## Every session is authenticated on its own (two exporters of one process, the same collector) -/

/-- in the model the outcome of the SECOND exporter does not depend on the first one: not on its trust settings,
    and therefore not on whether it completed a session (there is no session state to resume; that the code has
    none either is `tie_config_fields_all_interpreted`, and the `tls resume` ops of the run observe it) -/
theorem resume_independent (L : LibCfgs) (r r' : Resume) (ht : r.transport = r'.transport) (hp : r.peer = r'.peer)
    (hs : r.second = r'.second) : (resumeWith L r).2 = (resumeWith L r').2 := by
  simp [resumeWith, Resume.cell, Resume.obsVersion, ht, hp, hs]

/-- ... it is the outcome of a fresh session of an exporter with the second one's configuration -/
theorem resume_second_is_own_session (L : LibCfgs) (r : Resume) :
    (resumeWith L r).2 = r.obsVersion (sessionWith L (r.cell r.second)) ∧
    (resumeWith L r).1 = r.obsVersion (sessionWith L (r.cell r.first)) := ⟨rfl, rfl⟩

/-- the predicate is the property: a completed session without a defect is one `sessionAllowed` permits -/
theorem sessionDefect_none (c : Cell) (o : Obs) (h : sessionDefect c o = none) : sessionAllowed c = true := by
  unfold sessionDefect at h
  unfold sessionAllowed
  cases h1 : serverEncrypted c <;> cases h2 : serverChains c <;> cases h3 : serverInValidity c <;>
    cases h4 : serverNameOK c <;> cases h5 : peerVersionOK c <;> simp [h1, h2, h3, h4, h5] at h ⊢

/-- what `holdsOnResume` demands, for ARBITRARY observations: if it holds and the second exporter completed its
    session, then the collector's certificate chains to the CA the SECOND exporter is configured with (`ca1`, the
    issuer) and matches the name the SECOND exporter expects - whatever the first exporter trusted or achieved -/
theorem resume_spec_demands_own_authentication (r : Resume) (a b : Obs) (h : holdsOnResume r a b = .holds)
    (hb : b.initOk = true) :
    r.second.ca = .ca1 ∧ sessionAllowed (r.cell r.second) = true := by
  unfold holdsOnResume at h
  split at h
  · cases h
  · split at h
    · cases h
    · split at h
      · cases h
      · split at h
        · cases h
        · rename_i hd
          simp only [exporterDefect, hb, if_true] at hd
          have hall := sessionDefect_none _ _ hd
          refine ⟨?_, hall⟩
          have hc : serverChains (r.cell r.second) = true := by
            simp only [sessionAllowed, Bool.and_eq_true] at hall
            exact hall.1.1.1.2
          cases hca : r.second.ca
          · rfl
          · simp [serverChains, Resume.cell, certSeenBy, hca, serverCertOf, goodSANs] at hc

/-- the model against the specification: on every sequence of the run the model's two outcomes satisfy it -/
theorem resume_model_satisfies_spec (r : Resume) (hv : r.valid = true) :
    holdsOnResume r (obsOf (resume r).1) (obsOf (resume r).2) = .holds := by
  simp only [resume, resumeWith, tie_libCfgs] at *
  obtain ⟨t, p, ⟨caA, snA⟩, ⟨caB, snB⟩⟩ := r
  revert t p caA snA caB snB
  decide +kernel

/-- in the model a second exporter configured with the other CA is refused, also right after a first exporter
    configured with the issuing CA got through; and one configured with the issuing CA and a matching name gets
    through, also right after a first exporter that was refused (the statement is not met by refusing everybody) -/
theorem resume_second_refused_or_accepted_on_its_own (r : Resume) (hv : r.valid = true) :
    (r.second.ca = .ca2 → (resume r).2.initOk = false ∧ (resume r).2.delivered = false) ∧
    (r.second.ca = .ca1 → (r.second.serverName = .unset ∨ r.second.serverName = .dns ∨ r.second.serverName = .ip) →
      (resume r).2.initOk = true ∧ (resume r).2.delivered = true) := by
  simp only [resume, resumeWith, tie_libCfgs] at *
  obtain ⟨t, p, ⟨caA, snA⟩, ⟨caB, snB⟩⟩ := r
  revert t p caA snA caB snB
  decide +kernel

/-- the observation a shared session cache produces (exporter A, configured with the issuing CA, gets through; exporter
    B, configured with the OTHER CA only, resumes A's session, gets through and delivers) FAILS the predicate -/
theorem resumed_session_fails_spec (r : Resume) (hv : r.valid = true) (a b : Obs) (h2 : r.second.ca = .ca2)
    (ha : exporterDefect (r.cell r.first) a = none) (hwa : (!a.initOk && a.delivered) = false)
    (hb : b.initOk = true) :
    holdsOnResume r a b = .fails "second-session-untrusted-chain" := by
  have hpl : r.peer ≠ .plainSrv := by
    intro hp
    cases ht : r.transport <;> simp [Resume.valid, hp, ht] at hv
  have hd : exporterDefect (r.cell r.second) b = some "untrusted-chain" := by
    simp [exporterDefect, hb, sessionDefect, serverEncrypted, serverChains, Resume.cell, certSeenBy, h2, serverCertOf, goodSANs, hpl]
  simp [holdsOnResume, hv, ha, hd, hb, hwa]

/-! ## Non-vacuity -/

-- valid peers DO get through (the safety statements above are not satisfied by refusing everybody)
example : session { transport := .tls, serverCert := .trusted, serverName := .unset, clientCert := .trusted,
                    clientCA := true, peer := .real } = { initOk := true, delivered := true, version := none } := by decide +kernel
example : session { transport := .dtls, serverCert := .trusted, serverName := .dns, clientCert := .none,
                    clientCA := false, peer := .real } = { initOk := true, delivered := true, version := none } := by decide +kernel
example : session { transport := .tls, serverCert := .trusted, serverName := .dns, clientCert := .none,
                    clientCA := false, peer := .srv12 } = { initOk := true, delivered := true, version := some 12 } := by decide +kernel
-- TLS 1.1 peers are refused in both directions
example : (session { transport := .tls, serverCert := .trusted, serverName := .dns, clientCert := .none,
                     clientCA := false, peer := .srv11 }).initOk = false := by decide +kernel
example : (session { transport := .tls, serverCert := .trusted, serverName := .dns, clientCert := .none,
                     clientCA := false, peer := .cli11 }).initOk = false := by decide +kernel
-- a client without certificate completes its TLS 1.3 handshake but nothing is delivered
example : session { transport := .tls, serverCert := .trusted, serverName := .dns, clientCert := .none,
                    clientCA := true, peer := .real } = { initOk := true, delivered := false, version := none } := by decide +kernel
-- hypotheses of the general theorems are satisfiable
example : negotiate (libTLSClient false) (libTLSServer true) = some 13 := by decide +kernel
example : cryptoTLSVerifiesServer (libTLSClient false) none dialHost (serverCertOf .trusted) now = true := by decide +kernel
example : serverAcceptsClient (libTLSServer true) (presented (libTLSClient true) (clientCertOf .trusted) (libTLSServer true)) now = true := by decide +kernel
example : pionVerifiesServer libDTLSClient (some (.dns "localhost")) dialHost (serverCertOf .trusted) now = true := by decide +kernel
example : pionVerifiesServer libDTLSClient none dialHost (serverCertOf .trusted) now = true := by decide +kernel
example : pionVerifiesServer libDTLSClient none (.dns "localhost") (serverCertOf .trusted) now = true := by decide +kernel
example : pionVerifiesServer libDTLSClient (some (.ip "127.0.0.1")) (.dns "elsewhere.example") (serverCertOf .trusted) now = true := by decide +kernel
example : (formerD11 { transport := .dtls, serverCert := .noSAN, serverName := .ip, clientCert := .none, clientCA := false, peer := .real }) = true := by decide +kernel
-- the reader of the hook follows the facts: a hook installed only for an empty ServerName leaves the IP cells open, and one
-- whose `expectedName` never falls back to the dialled host verifies the empty name, which nothing matches
example : hookVerifiesName { onUnset := true, onIP := false, onDNS := false, hostFallback := true } (some (.ip "127.0.0.1")) dialHost (serverCertOf .wrongSAN) = true := by decide +kernel
example : hookVerifiesName { onUnset := true, onIP := true, onDNS := false, hostFallback := false } none dialHost (serverCertOf .trusted) = false := by decide +kernel
example : condHolds "tlsConfig.ServerName == \"\"" = (true, false, false) := by decide +kernel
example : condHolds "true" = (false, false, false) := by decide +kernel

end Ipfix.C18
