/-
  C08 - Exporter sequence numbers and header bookkeeping across a session.
-/
import IpfixModel.Props.C02
namespace Ipfix.C08
open ExpSpec

/-- what one successful SendSet does: one message, its exact byte count is reported, the counter
    advances by the number of data records (mod 2^32) for a data set and not at all for a template
    set, and the message is CreateIPFIXMsg of the set with the NEW counter value and the configured
    observation domain -/
theorem send_ok (st st' : ExpState) (time : Nat) (s : SetB) (n : Nat) (w : Bytes)
    (h : st.sendBuilt time s = (st', .ok n w)) :
    n = w.length ∧ st'.dom = st.dom ∧
    st'.seq = (if s.ty = .data then (st.seq + s.recs.length) % 4294967296 else st.seq) ∧
    createMsg s.updateLen st.dom st'.seq time = some w := by
  unfold ExpState.sendBuilt at h
  split at h
  · simp at h
  · split at h
    · simp at h
    · simp only at h
      split at h
      · simp at h
      · rename_i w' hw
        simp at h
        obtain ⟨hst, hn, hwe⟩ := h
        subst hwe
        have hseq : ∀ (l : List Rec) (x : ExpState), (l.foldl (fun acc r => acc.register r.tid
            { fieldCount := r.elems.length, minLen := minDataRecLen (r.elems.map (·.1)) }) x).seq = x.seq ∧
            (l.foldl (fun acc r => acc.register r.tid
            { fieldCount := r.elems.length, minLen := minDataRecLen (r.elems.map (·.1)) }) x).dom = x.dom := by
          intro l
          induction l with
          | nil => intro x; exact ⟨rfl, rfl⟩
          | cons r t ih =>
            intro x
            simp only [List.foldl_cons]
            obtain ⟨a, b⟩ := ih (x.register r.tid { fieldCount := r.elems.length, minLen := minDataRecLen (r.elems.map (·.1)) })
            rw [a, b]
            unfold ExpState.register
            split <;> exact ⟨rfl, rfl⟩
        subst hst
        refine ⟨hn.symm, ?_, ?_, ?_⟩
        · split
          · exact (hseq _ _).2
          · rfl
        · split
          · rename_i ht
            rw [(hseq _ _).1]
            simp [SetB.updateLen, ht]
          · simp [SetB.updateLen]
        · have hs : ∀ x : ExpState, (if s.ty = SetType.template then
              (s.updateLen.recs.foldl (fun acc r => acc.register r.tid
                { fieldCount := r.elems.length, minLen := minDataRecLen (r.elems.map (·.1)) }) x) else x).seq = x.seq := by
            intro x; split
            · exact (hseq _ _).1
            · rfl
          rw [hs]
          simpa [SetB.updateLen] using hw

/-- a session of SendSet calls -/
def sendAll (time : Nat) : ExpState → List SetB → ExpState × List SendResult
  | st, [] => (st, [])
  | st, s :: rest =>
    let r := st.sendBuilt time s
    let rr := sendAll time r.1 rest
    (rr.1, r.2 :: rr.2)

def isOk : SendResult → Bool | .ok _ _ => true | .err => false

def dataRecords (sets : List SetB) : Nat :=
  ((sets.filter (fun s => s.ty = .data)).map (fun s => s.recs.length)).sum

/-- C08: after any session of successful template and data sends, the counter equals the start
    value plus the number of data records carried by all data messages transmitted, modulo 2^32
    (so sessions that cross the wrap are covered); template messages never advance it. By
    `send_ok` every message is stamped with the counter value right after its own records were
    added, i.e. "including that message". -/
theorem seq_law (time : Nat) (st : ExpState) (sets : List SetB) (hseq : st.seq < 4294967296)
    (hall : (sendAll time st sets).2.all isOk = true) :
    (sendAll time st sets).1.seq = (st.seq + dataRecords sets) % 4294967296 ∧ (sendAll time st sets).1.dom = st.dom := by
  induction sets generalizing st with
  | nil => simp [sendAll, dataRecords, Nat.mod_eq_of_lt hseq]
  | cons s rest ih =>
    simp only [sendAll, List.all_cons, Bool.and_eq_true] at hall ⊢
    obtain ⟨h1, h2⟩ := hall
    cases hr : st.sendBuilt time s with
    | mk st1 r1 =>
      simp only [hr] at h1 h2 ⊢
      cases r1 with
      | err => simp [isOk] at h1
      | ok n w =>
        obtain ⟨_, hdom, hs1, _⟩ := send_ok st st1 time s n w hr
        have hlt : st1.seq < 4294967296 := by
          rw [hs1]; split
          · exact Nat.mod_lt _ (by decide)
          · exact hseq
        obtain ⟨ihs, ihd⟩ := ih st1 hlt h2
        refine ⟨?_, by rw [ihd, hdom]⟩
        rw [ihs, hs1]
        by_cases hd : s.ty = .data
        · simp only [hd, if_true, dataRecords, List.filter_cons, decide_true, List.map_cons, List.sum_cons]
          rw [Nat.mod_add_mod]
          congr 1
          omega
        · simp [hd, dataRecords, List.filter_cons]

/-- documented, outside the statement: a FAILED oversize data send has already advanced the counter -/
theorem failed_send_bumps_seq :
    ∃ (st : ExpState) (s : SetB), (st.sendBuilt 0 s).2 = .err ∧ (st.sendBuilt 0 s).1.seq = st.seq + 1 := by
  refine ⟨{ templates := [(256, { fieldCount := 0, minLen := 0 })] },
    { header := [1, 0, 0, 0], ty := .data, recs := [{ isTemplate := false, tid := 256, fieldCount := 0, elems := [], bytes := [] }],
      length := 70000 }, ?_, ?_⟩ <;> decide

/-! ## Non-vacuity: a session crossing the wrap -/
def ieU8 : IE := ⟨"protocolIdentifier", 4, .unsigned8, 0, 1⟩
def dataSet (k : Nat) : SetB :=
  { header := [1, 0, 0, 0], ty := .data,
    recs := List.replicate k { isTemplate := false, tid := 256, fieldCount := 1, elems := [(ieU8, .num 6)], bytes := [6] },
    length := 4 + k }
example : let st : ExpState := { seq := 4294967295, templates := [(256, { fieldCount := 1, minLen := 1 })] }
    (sendAll 0 st [dataSet 3, dataSet 2]).1.seq = 4 ∧ (sendAll 0 st [dataSet 3, dataSet 2]).2.all isOk = true := by decide

/-! ## The header of every transmitted message -/

/-- the 16 header bytes of a message CreateIPFIXMsg builds: version 10, the message's own length,
    export time, sequence number and observation domain exactly as passed -/
theorem createMsg_header (s : SetB) (hi : C16.Inv s) (dom seq time : Nat) (w : Bytes)
    (h : createMsg s dom seq time = some w) : w.take 16 = msgHeader w.length time seq dom := by
  obtain ⟨hlen, _⟩ := C16.createMsg_length s hi dom seq time w h
  unfold createMsg at h
  split at h
  · cases h
  · simp only [Option.some.injEq] at h
    have h16 : Generated.cMsgHeaderLength = 16 := rfl
    rw [hlen, ← h, h16]
    rw [List.take_append_of_le_length (by rw [C16.msgHeader_length]; exact Nat.le_refl _)]
    exact List.take_of_length_le (by rw [C16.msgHeader_length]; exact Nat.le_refl _)

/-- every successful SendSet: the header of the one message written carries the reported byte count,
    the export time handed in, the exporter's NEW counter value and the configured domain -/
theorem sent_header (st st' : ExpState) (time : Nat) (s : SetB) (hi : C16.Inv s) (n : Nat) (w : Bytes)
    (h : st.sendBuilt time s = (st', .ok n w)) : w.take 16 = msgHeader n time st'.seq st.dom := by
  obtain ⟨hn, _, _, hc⟩ := send_ok st st' time s n w h
  have hi' : C16.Inv s.updateLen := C16.inv_step s .updateLen hi
  rw [hn]
  exact createMsg_header s.updateLen hi' st.dom st'.seq time w hc

/-- C08, per message: the sequence number in EACH transmitted message of a session of successful
    sends equals the start value plus the number of data records carried by all data messages
    transmitted so far INCLUDING that message, modulo 2^32; the same header carries the message's
    own byte count (which is also the count reported to the caller), the export time and the
    configured observation domain -/
theorem seq_in_every_message (time : Nat) (st : ExpState) (sets : List SetB) (hseq : st.seq < 4294967296)
    (hinv : ∀ s ∈ sets, C16.Inv s) (hall : (sendAll time st sets).2.all isOk = true)
    (i : Nat) (hi : i < sets.length) :
    ∃ n w, (sendAll time st sets).2[i]? = some (.ok n w) ∧ n = w.length ∧
      w.take 16 = msgHeader n time ((st.seq + dataRecords (sets.take (i + 1))) % 4294967296) st.dom := by
  induction sets generalizing st i with
  | nil => simp at hi
  | cons s rest ih =>
    simp only [sendAll, List.all_cons, Bool.and_eq_true] at hall ⊢
    obtain ⟨h1, h2⟩ := hall
    cases hr : st.sendBuilt time s with
    | mk st1 r1 =>
      simp only [hr] at h1 h2 ⊢
      cases r1 with
      | err => simp [isOk] at h1
      | ok n w =>
        obtain ⟨hn, hdom, hs1, _⟩ := send_ok st st1 time s n w hr
        have hhd := sent_header st st1 time s (hinv s (by simp)) n w hr
        have hlt : st1.seq < 4294967296 := by
          rw [hs1]; split
          · exact Nat.mod_lt _ (by decide)
          · exact hseq
        cases i with
        | zero =>
          refine ⟨n, w, by simp, hn, ?_⟩
          rw [hhd, hs1]
          by_cases hd : s.ty = .data
          · simp [hd, dataRecords]
          · simp [hd, dataRecords, Nat.mod_eq_of_lt hseq]
        | succ j =>
          obtain ⟨n', w', hget, hn', hh⟩ := ih st1 hlt (fun x hx => hinv x (by simp [hx])) h2 j
            (by simpa using hi)
          refine ⟨n', w', by simpa using hget, hn', ?_⟩
          rw [hh, hdom, hs1]
          congr 1
          by_cases hd : s.ty = .data
          · simp only [hd, if_true, List.take_succ_cons, dataRecords, List.filter_cons, decide_true,
              List.map_cons, List.sum_cons]
            rw [Nat.mod_add_mod]
            congr 1
            omega
          · simp [hd, dataRecords]

/-- the per-message law on the wrap-crossing session: the first message (3 records, sent at counter
    2^32 - 1) is stamped 2, the second (2 more records) is stamped 4 -/
example : let st : ExpState := { seq := 4294967295, templates := [(256, { fieldCount := 1, minLen := 1 })] }
    ∀ i, i < 2 → ∃ n w, (sendAll 0 st [dataSet 3, dataSet 2]).2[i]? = some (.ok n w) ∧ n = w.length ∧
      w.take 16 = msgHeader n 0 ((4294967295 + dataRecords ([dataSet 3, dataSet 2].take (i + 1))) % 4294967296) 0 := by
  intro st i hi
  exact seq_in_every_message 0 st [dataSet 3, dataSet 2] (by decide)
    (by intro s hs; simp at hs; rcases hs with rfl | rfl <;> simp [C16.Inv, dataSet, Rec.length])
    (by decide) i hi
example : let st : ExpState := { seq := 4294967295, templates := [(256, { fieldCount := 1, minLen := 1 })] }
    ((sendAll 0 st [dataSet 3, dataSet 2]).2.map fun r => match r with
      | .ok n w => (n, w.take 16) | .err => (0, [])) =
    [(23, msgHeader 23 0 2 0), (22, msgHeader 22 0 4 0)] := by decide

/-- C08 as an independent decoder sees it: the one message a successful SendSet writes parses (with
    the parser that shares nothing with the encoder, `parseMessage`) as version 10 with header length =
    the byte count reported to the caller, the export time handed in, the exporter's NEW counter value,
    the configured observation domain, and one set - the set id the builder was prepared with, a set
    length covering the rest of the message, the record buffers as its body -/
theorem sent_message_parses (st st' : ExpState) (time : Nat) (s : SetB) (hi : C16.Inv s) (n : Nat) (w : Bytes)
    (h : st.sendBuilt time s = (st', .ok n w)) (sid : Nat) (hsid : s.header.take 2 = be 2 sid) (hsl : sid < 65536)
    (hd : st.dom < 4294967296) (hs : st.seq < 4294967296) (ht : time < 4294967296) :
    ∃ m, parseMessage w = some m ∧ m.version = 10 ∧ m.length = n ∧ m.time = time ∧ m.seq = st'.seq ∧
      m.dom = st.dom ∧ m.setId = sid ∧ m.setLen = n - 16 ∧ m.body = (s.recs.map (·.bytes)).flatten := by
  obtain ⟨hn, _, hseq, hc⟩ := send_ok st st' time s n w h
  have hi' : C16.Inv s.updateLen := C16.inv_step s .updateLen hi
  have hlt : st'.seq < 4294967296 := by
    rw [hseq]; split
    · exact Nat.mod_lt _ (by decide)
    · exact hs
  have hhdr : s.updateLen.header = be 2 sid ++ be 2 s.updateLen.length := by
    rw [(C16.header_len s hi.2).1, hsid]; rfl
  obtain ⟨m, hp, h1, h2, h3, h4, h5, h6, h7, h8⟩ :=
    C02.wire_header s.updateLen st.dom st'.seq time sid w hc hi' hhdr hsl hd hlt ht
  exact ⟨m, hp, h1, by rw [h2, hn], h3, h4, h5, h6, by rw [h7, hn], h8⟩

/-- the wrap-crossing session through the independent parser: (length, sequence number, set id, set length) -/
example : let st : ExpState := { seq := 4294967295, templates := [(256, { fieldCount := 1, minLen := 1 })] }
    ((sendAll 0 st [dataSet 3, dataSet 2]).2.map fun r => match r with
      | .ok _ w => (parseMessage w).map (fun m => (m.length, m.seq, m.setId, m.setLen)) | .err => none) =
    [some (23, 2, 256, 7), some (22, 4, 256, 6)] := by decide

end Ipfix.C08
