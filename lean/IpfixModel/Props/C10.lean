/-
  C10 - Over UDP a template stays usable for at least the configured lifetime after its most
  recent (re)transmission and is discarded once that lifetime has elapsed without a refresh,
  however expiry timers interleave with refreshes, replacements and invalidations.
  Property theorems only (model: Model/Timers.lean, definitions: Spec/C10.lean, lemmas:
  Lemmas/Timers.lean). Every theorem is about ALL event sequences, i.e. all placements of timer
  firing, clock reading and callback completion relative to the packets - no bound on length.

  Assumed (trusted): the timer contract of time.AfterFunc / Stop / Reset as written down at the top
  of Model/Timers.lean.
-/
import IpfixModel.Lemmas.Timers
namespace Ipfix.C10
open Ipfix.Timers

/-! ## the invariant -/

theorem inv_init (ttl : Nat) : Inv (init ttl) := by
  constructor <;> simp [init]

/-- the crux: EVERY event preserves the invariant (enabled or not, whatever the schedule) -/
theorem inv_step {s : TState} (h : Inv s) (e : Event) : Inv (step s e).1 := inv_next h e

theorem inv_reachable (ttl : Nat) (es : List Event) : Inv (run ttl es) := by
  induction es using snoc_ind with
  | nil => exact inv_init ttl
  | snoc es e ih => rw [run_snoc]; exact inv_step ih e

theorem inv_of_reachable {s : TState} (h : Reachable s) : Inv s := by
  obtain ⟨ttl, es, rfl⟩ := h
  exact inv_reachable ttl es

/-- the Bool checker the driver evaluates says `true` on every reachable state -/
theorem invB_reachable (ttl : Nat) (es : List Event) : invB (run ttl es) = true := by
  unfold invB
  exact decide_eq_true (inv_reachable ttl es)

/-! ## history functions vs state -/

theorem run_ttl (ttl : Nat) (es : List Event) : (run ttl es).ttl = ttl := by
  induction es using snoc_ind with
  | nil => rfl
  | snoc es e ih => rw [run_snoc]; exact (next_ttl _ e).trans ih

theorem ghost_reachable (ttl : Nat) (es : List Event) : Ghost es.reverse (run ttl es) := by
  induction es using snoc_ind with
  | nil => exact ghost_init ttl
  | snoc es e ih =>
    rw [run_snoc, List.reverse_append]
    exact ghost_next (inv_reachable ttl es) ih e

/-- the model's clock is the sum of the advances -/
theorem clock_eq_now (ttl : Nat) (es : List Event) : clock es = (run ttl es).now :=
  (ghost_reachable ttl es).clock

/-- the ghost field is the time of the most recent `tpl` event for the key: expiry = lastRefresh + ttl -/
theorem expiry_is_lastRefresh_plus_ttl (ttl : Nat) (es : List Event) (p : Key × Tpl) (hp : p ∈ (run ttl es).tpls) :
    ∃ r, lastRefresh es p.1 = some r ∧ p.2.expiry = r + ttl ∧ r ≤ clock es := by
  have hg := (inv_reachable ttl es).ghost p hp
  rw [run_ttl] at hg
  rw [clock_eq_now ttl es]
  exact ⟨p.2.refreshed, (ghost_reachable ttl es).refresh p hp, hg.1, hg.2⟩

/-! ## every stored template has an expiry pending; removed ones have no armed timer -/

/-- every stored template has EXACTLY ONE armed timer (its own object's, created for its key, deadline
    = its expiry), or no armed timer at all but - being past its expiry - a callback of its own timer
    in flight that will still delete it (has not read the clock, or read a time at/after the expiry) -/
theorem stored_has_expiry_pending (ttl : Nat) (es : List Event) (p : Key × Tpl) (hp : p ∈ (run ttl es).tpls) :
    (∃ a ∈ (run ttl es).armed, a.oid = p.2.oid ∧ a.key = p.1 ∧ a.deadline = p.2.expiry ∧
        (∀ b ∈ (run ttl es).armed, (b.oid = p.2.oid ∨ b.key = p.1) → b = a) ∧
        ((run ttl es).armed.filter (fun b => b.oid == p.2.oid)).length = 1) ∨
    ((∀ b ∈ (run ttl es).armed, b.oid ≠ p.2.oid ∧ b.key ≠ p.1) ∧ p.2.expiry ≤ (run ttl es).now ∧
        ∃ c ∈ (run ttl es).pending, c.oid = p.2.oid ∧ c.key = p.1 ∧ eff c p.2) := by
  have h := inv_reachable ttl es
  -- an armed timer with p's oid or p's key is p's timer
  have own : ∀ b ∈ (run ttl es).armed, (b.oid = p.2.oid ∨ b.key = p.1) → b.oid = p.2.oid ∧ b.key = p.1 ∧ b.deadline = p.2.expiry := by
    intro b hb hor
    obtain ⟨q, hq, e1, e2, e3⟩ := h.armedOwner b hb
    have : q = p := by
      rcases hor with e | e
      · exact same_oid h hp hq (e2.trans e)
      · exact same_key h hp hq (e1.trans e)
    subst this
    exact ⟨e2.symm, e1.symm, e3.symm⟩
  rcases h.pendingExpiry p hp with ⟨a, ha, e⟩ | ⟨le, c, hc, e, ef⟩
  · left
    obtain ⟨_, ek, ed⟩ := own a ha (Or.inl e)
    refine ⟨a, ha, e, ek, ed, ?_, ?_⟩
    · intro b hb hor
      exact pw_inj (fun a : Armed => a.oid) h.armedU hb ha ((own b hb hor).1.trans e.symm)
    · rw [← e]; exact pw_count (fun a : Armed => a.oid) h.armedU ha
  · by_cases hex : ∃ a ∈ (run ttl es).armed, a.oid = p.2.oid ∨ a.key = p.1
    · left
      obtain ⟨a, ha, hor⟩ := hex
      obtain ⟨e, ek, ed⟩ := own a ha hor
      refine ⟨a, ha, e, ek, ed, ?_, ?_⟩
      · intro b hb hor
        exact pw_inj (fun a : Armed => a.oid) h.armedU hb ha ((own b hb hor).1.trans e.symm)
      · rw [← e]; exact pw_count (fun a : Armed => a.oid) h.armedU ha
    · right
      refine ⟨fun b hb => ⟨fun e => hex ⟨b, hb, Or.inl e⟩, fun e => hex ⟨b, hb, Or.inr e⟩⟩, le, c, hc, e, ?_, ef⟩
      exact (h.cbKey c hc p hp e.symm).symm

/-- a removed template has no armed timer: every armed timer belongs to a template object that is
    stored right now, under the key the timer was created for -/
theorem removed_has_no_armed_timer (ttl : Nat) (es : List Event) :
    (∀ o, (∀ p ∈ (run ttl es).tpls, p.2.oid ≠ o) → ∀ a ∈ (run ttl es).armed, a.oid ≠ o) ∧
    (∀ k, (run ttl es).stored k = false → ∀ a ∈ (run ttl es).armed, a.key ≠ k) := by
  have h := inv_reachable ttl es
  constructor
  · intro o hno a ha e
    obtain ⟨q, hq, _, e2, _⟩ := h.armedOwner a ha
    exact hno q hq (e2.trans e)
  · intro k hk a ha e
    obtain ⟨q, hq, e1, _, _⟩ := h.armedOwner a ha
    have : (run ttl es).stored k = true := stored_iff_mem.2 ⟨q, hq, e1.trans e⟩
    rw [hk] at this
    cases this

/-! ## lifetime -/

/-- no template is dropped early: if the template for k is stored before an event and not after
    it, the event is its invalidation (`badTpl k`) or its whole lifetime, measured from its most
    recent (re)transmission, has elapsed -/
theorem no_early_drop (ttl : Nat) (es : List Event) (e : Event) (k : Key)
    (hs : (run ttl es).stored k = true) (hd : (step (run ttl es) e).1.stored k = false) (hb : e ≠ .badTpl k) :
    ∃ r, lastRefresh es k = some r ∧ r + ttl ≤ clock es := by
  have ok := (step_ok (inv_reachable ttl es) (ghost_reachable ttl es) .advanced e).noEarlyDrop
  rw [run_ttl] at ok
  have hk : k ∈ (observe (run ttl es) .advanced).keys := mem_keys.2 (stored_iff_mem.1 hs)
  have hnk : k ∉ (step (run ttl es) e).2.keys := by
    intro hm
    have : (step (run ttl es) e).1.stored k = true := stored_iff_mem.2 (mem_keys.1 hm)
    rw [hd] at this
    cases this
  rcases ok k hk hnk with hbad | hover
  · exact absurd hbad hb
  · unfold lifetimeOver at hover
    unfold lastRefresh
    rw [clock_eq_now ttl es]
    cases hl : lastRefreshRev k es.reverse with
    | none => rw [hl] at hover; exact absurd hover id
    | some r => rw [hl] at hover; exact ⟨r, rfl, hover⟩

/-- usable within the lifetime: (re)transmitted at r, not invalidated since, and fewer than ttl time
    units later => the template is stored and a data set for it is accepted - whatever timers fired,
    whatever stale callbacks ran in between -/
theorem usable_within_ttl (ttl : Nat) (es : List Event) (k : Key) (r : Nat)
    (hl : lastRefresh es k = some r) (hnb : noBadSince es k = true) (hlt : clock es < r + ttl) :
    (run ttl es).stored k = true ∧ (step (run ttl es) (.data k)).2.res = .accepted := by
  have hu := (ghost_reachable ttl es).usable k
  rw [run_ttl, ← clock_eq_now ttl es] at hu
  have hw : withinTTL ttl es.reverse k (clock es) := by
    unfold withinTTL
    unfold lastRefresh at hl
    rw [hl]
    exact ⟨hnb, hlt⟩
  have hs : (run ttl es).stored k = true := stored_iff_mem.2 (hu hw)
  refine ⟨hs, ?_⟩
  show (if (run ttl es).stored k then Res.accepted else Res.rejected) = Res.accepted
  simp [hs]

/-- none outlives its lifetime once its timer has run: when a callback that read a time at or after
    the template's current expiry (= most recent (re)transmission + ttl, i.e. no refresh moved the
    expiry past what the callback read) finishes, no template is stored under its key any more -/
theorem gone_after_timer_ran (ttl : Nat) (es : List Event) (cb : Cb) (r lr : Nat)
    (hcb : cb ∈ (run ttl es).pending) (hr : cb.nowRead = some r)
    (hl : lastRefresh es cb.key = some lr) (hle : lr + ttl ≤ r) :
    (step (run ttl es) (.cbFinish cb.cid)).1.stored cb.key = false := by
  have ok := (step_ok (inv_reachable ttl es) (ghost_reachable ttl es) .advanced (.cbFinish cb.cid)).gone
  rw [run_ttl] at ok
  have := ok cb hcb rfl
  unfold goneCb at this
  unfold lastRefresh at hl
  rw [hr, hl] at this
  have hn : cb.key ∉ (step (run ttl es) (.cbFinish cb.cid)).2.keys := this hle
  cases hs : (step (run ttl es) (.cbFinish cb.cid)).1.stored cb.key with
  | false => rfl
  | true => exact absurd (mem_keys.2 (stored_iff_mem.1 hs)) hn

/-- the same on states: a finishing callback deletes whatever template is stored under its key if
    that template's expiry is at or before the time the callback read -/
theorem finish_deletes_expired {s : TState} (h : Inv s) {cb : Cb} (hcb : cb ∈ s.pending) {r : Nat}
    (hr : cb.nowRead = some r) {p : Key × Tpl} (hp : p ∈ s.tpls) (hk : p.1 = cb.key) (hle : p.2.expiry ≤ r) :
    (step s (.cbFinish cb.cid)).1.stored cb.key = false := by
  have hf : s.find cb.key = some p := by rw [← hk]; exact find_of_mem h.keys hp
  show (next s (.cbFinish cb.cid)).1.stored cb.key = false
  rw [finish_spec h hcb hr, hf]
  simp only [hle, if_true]
  cases hs : (TState.delete { s with pending := s.pending.filter (fun p => p.cid != cb.cid) } cb.key p.2).stored cb.key with
  | false => rfl
  | true =>
    obtain ⟨q, hq, e⟩ := stored_iff_mem.1 hs
    exact absurd e (mem_filter_key.1 hq).2

/-- ... and it leaves alone a template that was refreshed after the callback read the clock (the
    stale-callback case), or any template whose expiry is later than the time read -/
theorem finish_keeps_unexpired {s : TState} (h : Inv s) {cb : Cb} (hcb : cb ∈ s.pending) {r : Nat}
    (hr : cb.nowRead = some r) {p : Key × Tpl} (hp : p ∈ s.tpls) (hgt : r < p.2.expiry) :
    p ∈ (step s (.cbFinish cb.cid)).1.tpls := by
  show p ∈ (next s (.cbFinish cb.cid)).1.tpls
  rw [finish_spec h hcb hr]
  cases hf : s.find cb.key with
  | none => exact hp
  | some q =>
    obtain ⟨hq, hqk⟩ := find_some hf
    by_cases hle : q.2.expiry ≤ r
    · simp only [hle, if_true]
      refine mem_filter_key.2 ⟨hp, fun e => ?_⟩
      have : p = q := same_key h hq hp (e.trans hqk.symm)
      subst this
      omega
    · simp only [hle, if_false]
      exact hp

/-! ## the executable predicate: what `chk` evaluates on the implementation holds on the model -/

/-- `chk` prints `holds` exactly when every demand of `StepOK` is met -/
theorem verdict_none_iff (ttl : Nat) (hist : List Event) (before : Obs) (e : Event) (after : Obs) :
    verdict ttl hist before e after = none ↔ StepOK ttl hist before e after := by
  unfold verdict checks
  simp only [Option.map_eq_none_iff, List.find?_eq_none, List.forall_mem_cons, Bool.not_eq_true',
    decide_eq_false_iff_not, Decidable.not_not]
  constructor
  · intro ⟨a, b, c, d, e, f, g, h, i, j, k, _⟩
    exact ⟨⟨a, j, g, h, i, k, b⟩, c, d, e, f⟩
  · intro ⟨⟨a, j, g, h, i, k, b⟩, c, d, e, f⟩
    exact ⟨a, b, c, d, e, f, g, h, i, j, k, by simp⟩

/-- every trace of the model - every schedule, any length - satisfies the trace predicates -/
theorem model_trace_ok (ttl : Nat) (es : List Event) : TraceOK ttl (trace (init ttl) es) :=
  trace_ok (s := init ttl) es .advanced (inv_init ttl) (ghost_init ttl)

/-- in particular the verdict on any step of the model, from any reachable state, is `holds` -/
theorem model_verdict_none (ttl : Nat) (es : List Event) (e : Event) :
    verdict ttl es.reverse (observe (run ttl es) .advanced) e (step (run ttl es) e).2 = none := by
  rw [verdict_none_iff]
  have := step_ok (inv_reachable ttl es) (ghost_reachable ttl es) .advanced e
  rw [run_ttl] at this
  exact this

/-! ## non-vacuity -/

/-- a reachable state with a fired-but-pending callback (clock not read yet) and a template that
    was refreshed after the timer fired: the timer is armed again AND the old callback is in flight -/
example : let s := run 3 [.tpl (1, 256), .advance 3, .fire 0, .tpl (1, 256)]
    s.pending = [⟨0, 0, (1, 256), none⟩] ∧ s.armed = [⟨0, (1, 256), 6⟩] ∧ s.tpls = [((1, 256), ⟨0, 6, 3⟩)] := by decide

/-- the stale callback then reads the clock late and deletes the refreshed template - but only after
    the refreshed lifetime is over (hypotheses of `gone_after_timer_ran` / `no_early_drop` are met) -/
example : let es := [Event.tpl (1, 256), .advance 3, .fire 0, .tpl (1, 256), .advance 3, .cbReadNow 0]
    (∃ cb ∈ (run 3 es).pending, cb.nowRead = some 6 ∧ lastRefresh es cb.key = some 3) ∧
    (run 3 es).stored (1, 256) = true ∧ (step (run 3 es) (.cbFinish 0)).1.stored (1, 256) = false ∧
    (step (run 3 es) (.cbFinish 0)).1.armed = [] := by decide

/-- a callback of a deleted object meets a NEW object under the same key and leaves it alone -/
example : let es := [Event.tpl (1, 256), .advance 3, .fire 0, .cbReadNow 0, .badTpl (1, 256), .tpl (1, 256)]
    (run 3 es).tpls = [((1, 256), ⟨1, 6, 3⟩)] ∧ (step (run 3 es) (.cbFinish 0)).1.tpls = [((1, 256), ⟨1, 6, 3⟩)] ∧
    (step (run 3 es) (.cbFinish 0)).2.res = .finished false := by decide

/-- hypotheses of `usable_within_ttl` are satisfiable with timers firing in between -/
example : let es := [Event.tpl (1, 256), .advance 3, .fire 0, .tpl (1, 256), .cbReadNow 0, .cbFinish 0, .advance 2]
    lastRefresh es (1, 256) = some 3 ∧ noBadSince es (1, 256) = true ∧ clock es < 3 + 3 := by decide

/-- stored template with NO armed timer (second disjunct of `stored_has_expiry_pending`) -/
example : let s := run 3 [.tpl (1, 256), .tpl (2, 257), .advance 4, .fire 1]
    s.armed = [⟨0, (1, 256), 3⟩] ∧ s.stored (2, 257) = true ∧ s.pending = [⟨0, 1, (2, 257), none⟩] := by decide

/-- disabled events change nothing -/
example : (step (run 3 [.tpl (1, 256)]) (.fire 0)).2.res = .disabled ∧
    (step (run 3 [.tpl (1, 256), .advance 3, .fire 0]) (.cbFinish 0)).2.res = .disabled := by decide

end Ipfix.C10
