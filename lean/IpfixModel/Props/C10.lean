/-
  C10 - Over UDP a template stays usable for at least the configured lifetime after its most
  recent (re)transmission and is discarded once that lifetime has elapsed without a refresh,
  however expiry timers interleave with refreshes, replacements and invalidations.
  Property theorems only (model: Model/Timers.lean, definitions: Spec/C10.lean, lemmas:
  Lemmas/Timers.lean). Every theorem is about ALL event sequences, i.e. all placements of timer
  firing, clock reading and callback completion relative to the packets - no bound on length.

  Assumed (trusted): the timer contract of time.AfterFunc / Stop / Reset as written down at the top
  of Model/Timers.lean.

  The model's steps are coarser than the source (a whole addTemplate is one step during which the clock
  stands still; a callback's conditional deletion is one step). The last section (`tie_*`) pins these
  atomicity assumptions to the shape of the source as re-extracted by tools/timerfacts into
  Generated/Timers.lean: a change of that shape breaks a theorem here although no input of the
  correspondence run - whose clock moves only between steps - can exhibit it.
-/
import IpfixModel.Lemmas.Timers
import IpfixModel.Generated.Timers
namespace Ipfix.C10
open Ipfix.Timers

/-! ## the invariant -/

theorem inv_init (ttl : Nat) : Inv (init ttl) := by
  constructor <;> simp [init]

/-- the crux: EVERY event preserves the invariant (enabled or not, whatever the schedule) -/
theorem inv_step {s : TState} (h : Inv s) (e : Event) : Inv (step s e).1 := inv_next h e

theorem inv_reachable (ttl : Nat) (es : List Event) : Inv (run ttl es) := by
  induction es using snoc_ind with
  | nil => exact inv_init ttl
  | snoc es e ih => rw [run_snoc]; exact inv_step ih e

theorem inv_of_reachable {s : TState} (h : Reachable s) : Inv s := by
  obtain ⟨ttl, es, rfl⟩ := h
  exact inv_reachable ttl es

/-- the Bool checker the driver evaluates says `true` on every reachable state -/
theorem invB_reachable (ttl : Nat) (es : List Event) : invB (run ttl es) = true := by
  unfold invB
  exact decide_eq_true (inv_reachable ttl es)

/-! ## history functions vs state -/

theorem run_ttl (ttl : Nat) (es : List Event) : (run ttl es).ttl = ttl := by
  induction es using snoc_ind with
  | nil => rfl
  | snoc es e ih => rw [run_snoc]; exact (next_ttl _ e).trans ih

theorem ghost_reachable (ttl : Nat) (es : List Event) : Ghost es.reverse (run ttl es) := by
  induction es using snoc_ind with
  | nil => exact ghost_init ttl
  | snoc es e ih =>
    rw [run_snoc, List.reverse_append]
    exact ghost_next (inv_reachable ttl es) ih e

/-- the model's clock is the sum of the advances -/
theorem clock_eq_now (ttl : Nat) (es : List Event) : clock es = (run ttl es).now :=
  (ghost_reachable ttl es).clock

/-- the ghost field is the time of the most recent `tpl` event for the key: expiry = lastRefresh + ttl -/
theorem expiry_is_lastRefresh_plus_ttl (ttl : Nat) (es : List Event) (p : Key × Tpl) (hp : p ∈ (run ttl es).tpls) :
    ∃ r, lastRefresh es p.1 = some r ∧ p.2.expiry = r + ttl ∧ r ≤ clock es := by
  have hg := (inv_reachable ttl es).ghost p hp
  rw [run_ttl] at hg
  rw [clock_eq_now ttl es]
  exact ⟨p.2.refreshed, (ghost_reachable ttl es).refresh p hp, hg.1, hg.2⟩

/-! ## every stored template has an expiry pending; removed ones have no armed timer -/

/-- every stored template has EXACTLY ONE armed timer (its own object's, created for its key, deadline
    = its expiry), or no armed timer at all but - being past its expiry - a callback of its own timer
    in flight that will still delete it (has not read the clock, or read a time at/after the expiry) -/
theorem stored_has_expiry_pending (ttl : Nat) (es : List Event) (p : Key × Tpl) (hp : p ∈ (run ttl es).tpls) :
    (∃ a ∈ (run ttl es).armed, a.oid = p.2.oid ∧ a.key = p.1 ∧ a.deadline = p.2.expiry ∧
        (∀ b ∈ (run ttl es).armed, (b.oid = p.2.oid ∨ b.key = p.1) → b = a) ∧
        ((run ttl es).armed.filter (fun b => b.oid == p.2.oid)).length = 1) ∨
    ((∀ b ∈ (run ttl es).armed, b.oid ≠ p.2.oid ∧ b.key ≠ p.1) ∧ p.2.expiry ≤ (run ttl es).now ∧
        ∃ c ∈ (run ttl es).pending, c.oid = p.2.oid ∧ c.key = p.1 ∧ eff c p.2) := by
  have h := inv_reachable ttl es
  -- an armed timer with p's oid or p's key is p's timer
  have own : ∀ b ∈ (run ttl es).armed, (b.oid = p.2.oid ∨ b.key = p.1) → b.oid = p.2.oid ∧ b.key = p.1 ∧ b.deadline = p.2.expiry := by
    intro b hb hor
    obtain ⟨q, hq, e1, e2, e3⟩ := h.armedOwner b hb
    have : q = p := by
      rcases hor with e | e
      · exact same_oid h hp hq (e2.trans e)
      · exact same_key h hp hq (e1.trans e)
    subst this
    exact ⟨e2.symm, e1.symm, e3.symm⟩
  rcases h.pendingExpiry p hp with ⟨a, ha, e⟩ | ⟨le, c, hc, e, ef⟩
  · left
    obtain ⟨_, ek, ed⟩ := own a ha (Or.inl e)
    refine ⟨a, ha, e, ek, ed, ?_, ?_⟩
    · intro b hb hor
      exact pw_inj (fun a : Armed => a.oid) h.armedU hb ha ((own b hb hor).1.trans e.symm)
    · rw [← e]; exact pw_count (fun a : Armed => a.oid) h.armedU ha
  · by_cases hex : ∃ a ∈ (run ttl es).armed, a.oid = p.2.oid ∨ a.key = p.1
    · left
      obtain ⟨a, ha, hor⟩ := hex
      obtain ⟨e, ek, ed⟩ := own a ha hor
      refine ⟨a, ha, e, ek, ed, ?_, ?_⟩
      · intro b hb hor
        exact pw_inj (fun a : Armed => a.oid) h.armedU hb ha ((own b hb hor).1.trans e.symm)
      · rw [← e]; exact pw_count (fun a : Armed => a.oid) h.armedU ha
    · right
      refine ⟨fun b hb => ⟨fun e => hex ⟨b, hb, Or.inl e⟩, fun e => hex ⟨b, hb, Or.inr e⟩⟩, le, c, hc, e, ?_, ef⟩
      exact (h.cbKey c hc p hp e.symm).symm

/-- a removed template has no armed timer: every armed timer belongs to a template object that is
    stored right now, under the key the timer was created for -/
theorem removed_has_no_armed_timer (ttl : Nat) (es : List Event) :
    (∀ o, (∀ p ∈ (run ttl es).tpls, p.2.oid ≠ o) → ∀ a ∈ (run ttl es).armed, a.oid ≠ o) ∧
    (∀ k, (run ttl es).stored k = false → ∀ a ∈ (run ttl es).armed, a.key ≠ k) := by
  have h := inv_reachable ttl es
  constructor
  · intro o hno a ha e
    obtain ⟨q, hq, _, e2, _⟩ := h.armedOwner a ha
    exact hno q hq (e2.trans e)
  · intro k hk a ha e
    obtain ⟨q, hq, e1, _, _⟩ := h.armedOwner a ha
    have : (run ttl es).stored k = true := stored_iff_mem.2 ⟨q, hq, e1.trans e⟩
    rw [hk] at this
    cases this

/-! ## lifetime -/

/-- no template is dropped early: if the template for k is stored before an event and not after
    it, the event is its invalidation (`badTpl k`) or its whole lifetime, measured from its most
    recent (re)transmission, has elapsed -/
theorem no_early_drop (ttl : Nat) (es : List Event) (e : Event) (k : Key)
    (hs : (run ttl es).stored k = true) (hd : (step (run ttl es) e).1.stored k = false) (hb : e ≠ .badTpl k) :
    ∃ r, lastRefresh es k = some r ∧ r + ttl ≤ clock es := by
  have ok := (step_ok (inv_reachable ttl es) (ghost_reachable ttl es) .advanced e).noEarlyDrop
  rw [run_ttl] at ok
  have hk : k ∈ (observe (run ttl es) .advanced).keys := mem_keys.2 (stored_iff_mem.1 hs)
  have hnk : k ∉ (step (run ttl es) e).2.keys := by
    intro hm
    have : (step (run ttl es) e).1.stored k = true := stored_iff_mem.2 (mem_keys.1 hm)
    rw [hd] at this
    cases this
  rcases ok k hk hnk with hbad | hover
  · exact absurd hbad hb
  · unfold lifetimeOver at hover
    unfold lastRefresh
    rw [clock_eq_now ttl es]
    cases hl : lastRefreshRev k es.reverse with
    | none => rw [hl] at hover; exact absurd hover id
    | some r => rw [hl] at hover; exact ⟨r, rfl, hover⟩

/-- usable within the lifetime: (re)transmitted at r, not invalidated since, and fewer than ttl time
    units later => the template is stored and a data set for it is accepted - whatever timers fired,
    whatever stale callbacks ran in between -/
theorem usable_within_ttl (ttl : Nat) (es : List Event) (k : Key) (r : Nat)
    (hl : lastRefresh es k = some r) (hnb : noBadSince es k = true) (hlt : clock es < r + ttl) :
    (run ttl es).stored k = true ∧ (step (run ttl es) (.data k)).2.res = .accepted := by
  have hu := (ghost_reachable ttl es).usable k
  rw [run_ttl, ← clock_eq_now ttl es] at hu
  have hw : withinTTL ttl es.reverse k (clock es) := by
    unfold withinTTL
    unfold lastRefresh at hl
    rw [hl]
    exact ⟨hnb, hlt⟩
  have hs : (run ttl es).stored k = true := stored_iff_mem.2 (hu hw)
  refine ⟨hs, ?_⟩
  show (if (run ttl es).stored k then Res.accepted else Res.rejected) = Res.accepted
  simp [hs]

/-- none outlives its lifetime once its timer has run: when a callback that read a time at or after
    the template's current expiry (= most recent (re)transmission + ttl, i.e. no refresh moved the
    expiry past what the callback read) finishes, no template is stored under its key any more -/
theorem gone_after_timer_ran (ttl : Nat) (es : List Event) (cb : Cb) (r lr : Nat)
    (hcb : cb ∈ (run ttl es).pending) (hr : cb.nowRead = some r)
    (hl : lastRefresh es cb.key = some lr) (hle : lr + ttl ≤ r) :
    (step (run ttl es) (.cbFinish cb.cid)).1.stored cb.key = false := by
  have ok := (step_ok (inv_reachable ttl es) (ghost_reachable ttl es) .advanced (.cbFinish cb.cid)).gone
  rw [run_ttl] at ok
  have := ok cb hcb rfl
  unfold goneCb at this
  unfold lastRefresh at hl
  rw [hr, hl] at this
  have hn : cb.key ∉ (step (run ttl es) (.cbFinish cb.cid)).2.keys := this hle
  cases hs : (step (run ttl es) (.cbFinish cb.cid)).1.stored cb.key with
  | false => rfl
  | true => exact absurd (mem_keys.2 (stored_iff_mem.1 hs)) hn

/-- the same on states: a finishing callback deletes whatever template is stored under its key if
    that template's expiry is at or before the time the callback read -/
theorem finish_deletes_expired {s : TState} (h : Inv s) {cb : Cb} (hcb : cb ∈ s.pending) {r : Nat}
    (hr : cb.nowRead = some r) {p : Key × Tpl} (hp : p ∈ s.tpls) (hk : p.1 = cb.key) (hle : p.2.expiry ≤ r) :
    (step s (.cbFinish cb.cid)).1.stored cb.key = false := by
  have hf : s.find cb.key = some p := by rw [← hk]; exact find_of_mem h.keys hp
  show (next s (.cbFinish cb.cid)).1.stored cb.key = false
  rw [finish_spec h hcb hr, hf]
  simp only [hle, if_true]
  cases hs : (TState.delete { s with pending := s.pending.filter (fun p => p.cid != cb.cid) } cb.key p.2).stored cb.key with
  | false => rfl
  | true =>
    obtain ⟨q, hq, e⟩ := stored_iff_mem.1 hs
    exact absurd e (mem_filter_key.1 hq).2

/-- ... and it leaves alone a template that was refreshed after the callback read the clock (the
    stale-callback case), or any template whose expiry is later than the time read -/
theorem finish_keeps_unexpired {s : TState} (h : Inv s) {cb : Cb} (hcb : cb ∈ s.pending) {r : Nat}
    (hr : cb.nowRead = some r) {p : Key × Tpl} (hp : p ∈ s.tpls) (hgt : r < p.2.expiry) :
    p ∈ (step s (.cbFinish cb.cid)).1.tpls := by
  show p ∈ (next s (.cbFinish cb.cid)).1.tpls
  rw [finish_spec h hcb hr]
  cases hf : s.find cb.key with
  | none => exact hp
  | some q =>
    obtain ⟨hq, hqk⟩ := find_some hf
    by_cases hle : q.2.expiry ≤ r
    · simp only [hle, if_true]
      refine mem_filter_key.2 ⟨hp, fun e => ?_⟩
      have : p = q := same_key h hq hp (e.trans hqk.symm)
      subst this
      omega
    · simp only [hle, if_false]
      exact hp

/-! ## the executable predicate: what `chk` evaluates on the implementation holds on the model -/

/-- `chk` prints `holds` exactly when every demand of `StepOK` is met -/
theorem verdict_none_iff (ttl : Nat) (hist : List Event) (before : Obs) (e : Event) (after : Obs) :
    verdict ttl hist before e after = none ↔ StepOK ttl hist before e after := by
  unfold verdict checks
  simp only [Option.map_eq_none_iff, List.find?_eq_none, List.forall_mem_cons, Bool.not_eq_true',
    decide_eq_false_iff_not, Decidable.not_not]
  constructor
  · intro ⟨a, b, c, d, e, f, g, h, i, j, k, _⟩
    exact ⟨⟨a, j, g, h, i, k, b⟩, c, d, e, f⟩
  · intro ⟨⟨a, j, g, h, i, k, b⟩, c, d, e, f⟩
    exact ⟨a, b, c, d, e, f, g, h, i, j, k, by simp⟩

/-- every trace of the model - every schedule, any length - satisfies the trace predicates -/
theorem model_trace_ok (ttl : Nat) (es : List Event) : TraceOK ttl (trace (init ttl) es) :=
  trace_ok (s := init ttl) es .advanced (inv_init ttl) (ghost_init ttl)

/-- in particular the verdict on any step of the model, from any reachable state, is `holds` -/
theorem model_verdict_none (ttl : Nat) (es : List Event) (e : Event) :
    verdict ttl es.reverse (observe (run ttl es) .advanced) e (step (run ttl es) e).2 = none := by
  rw [verdict_none_iff]
  have := step_ok (inv_reachable ttl es) (ghost_reachable ttl es) .advanced e
  rw [run_ttl] at this
  exact this

/-! ## ties: the atomic steps of the event model vs the source (facts regenerated from /repo by tools/timerfacts)

  Every theorem below is `decide` over Generated/Timers.lean. Line numbers are carried by the facts for the
  reader only; no theorem mentions them. -/
/-- a collector configured without a lifetime (TemplateTTL = 0) keeps UDP templates for the protocol's default,
    `entities.TemplateTTL` = 1800 s (RFC 7011 suggests three times the 600 s refresh interval) - not for the refresh
    interval, and not forever; any other configured value is taken as it is. The constant is regenerated from the
    source on every run, so both halves are ties: to the constructor's rule and to the constant. -/
theorem default_lifetime_is_the_template_ttl_constant :
    effectiveTTL 0 = Generated.cTemplateTTL ∧ Generated.cTemplateTTL = 1800 ∧
    Generated.cTemplateTTL = 3 * Generated.cTemplateRefreshTimeOut ∧ ∀ t, 0 < t → effectiveTTL t = t := by
  refine ⟨rfl, by decide, by decide, ?_⟩
  intro t ht
  simp [effectiveTTL, Nat.ne_of_gt ht]

section Ties
open Generated.TimerFacts

/-- what the ties compare of a statement: its kind and its detail (never its line) -/
def tieSig (e : Ev) : String × String := (e.kind, e.detail)

/-- the statement kinds that operate on cp.mutex -/
def tieMutexKinds : List String := ["lock", "rlock", "unlock", "runlock", "defer-unlock", "defer-runlock"]

/-- a path through addTemplate without its mutex statements -/
def tieTimerPart (p : List Ev) : List (String × String) :=
  (p.filter (fun e => !tieMutexKinds.contains e.kind)).map tieSig

/-- the statements of deleteTemplateWithConds whose relative order matters -/
def tieOrderKinds : List String :=
  tieMutexKinds ++ ["range-conds", "call-cond", "end-range-conds", "stop-timer", "arm-AfterFunc", "arm-Reset",
                    "delete-template-entry", "delete-domain-entry", "delete-other", "call-cp", "go", "defer"]

/-- the statements between `for .. range condFns {` and its closing brace -/
def tieLoopBody (l : List Ev) : List Ev :=
  ((l.dropWhile (fun e => e.kind != "range-conds")).drop 1).takeWhile (fun e => e.kind != "end-range-conds")

/-- the two shapes of the UDP part of addTemplate: read the clock once, assign expiryTime, THEN arm the timer -/
def tieNewTimerPath : List (String × String) :=
  [("call-cp", "clock.Now"), ("assign-expiryTime", "cp.clock.Now().Add(cp.templateTTL)"), ("arm-AfterFunc", "cp.templateTTL")]
def tieRefreshPath : List (String × String) :=
  [("call-cp", "clock.Now"), ("assign-expiryTime", "cp.clock.Now().Add(cp.templateTTL)"), ("arm-Reset", "cp.templateTTL")]

/-- Pins: `Event.tpl` is ONE step of the model (Timers.next: store / refresh the template, set its expiry and
    arm or reset its timer, all in one transition). In the source every path through addTemplate starts with
    `cp.mutex.Lock(); defer cp.mutex.Unlock()`, never touches the mutex again, and so runs under the write
    lock from its first to its last interesting statement: no callback's deletion step and no other packet's
    addTemplate can fall between the assignment of expiryTime and the arming of the timer.
    No input can exhibit a violation: the harness runs one packet / one callback step at a time, so a window
    opened by releasing the lock inside addTemplate is never entered by anything. -/
theorem tie_add_template_is_one_locked_step :
    addTemplatePaths.isEmpty = false ∧
    addTemplatePaths.all (fun p =>
      (p.filter (fun e => tieMutexKinds.contains e.kind)).map (·.kind) == ["lock", "defer-unlock"] &&
      (p.take 2).map (·.kind) == ["lock", "defer-unlock"] &&
      p.all (fun e => e.held == 2)) = true := by decide

/-- Pins: in the model's `tpl` step the clock stands still - the template's expiry and its timer's deadline
    are both `now + ttl` for the same `now` (invariant clause armedOwner: deadline = expiry), which is what
    makes a callback that starts at or after the deadline find the template expired. The source reads the
    clock twice in real time (cp.clock.Now() for expiryTime, and again inside AfterFunc / Reset), so what
    holds there is only `expiryTime <= deadline`, and only BECAUSE expiryTime is assigned first: on every
    path through addTemplate that does anything for UDP, cp.clock.Now() is read once,
    `expiryTime = now.Add(cp.templateTTL)` is assigned, and only then is the timer armed, with the same
    cp.templateTTL, by exactly one of AfterFunc (new template) and Reset (refresh); no path assigns without
    arming, arms without assigning, arms twice or stops the timer; both shapes occur.
    No input can exhibit a violation: were the assignment moved after the arming, real time passing between
    the two would let the callback find the template "not yet expired" with nothing left to re-arm the
    timer - but the harness clock moves only between steps, so within addTemplate both reads return the
    same instant in any order. -/
theorem tie_expiry_assigned_before_timer_armed :
    addTemplatePaths.all (fun p => tieTimerPart p == [] || tieTimerPart p == tieNewTimerPath || tieTimerPart p == tieRefreshPath) = true ∧
    addTemplatePaths.any (fun p => tieTimerPart p == tieNewTimerPath) = true ∧
    addTemplatePaths.any (fun p => tieTimerPart p == tieRefreshPath) = true := by decide

/-- Pins: a timer callback is exactly two steps of the model, `cbReadNow` (read the clock) and `cbFinish`
    (ONE atomic test-and-delete: Timers.next deletes iff the template stored under the key has
    `expiry <= nowRead`, test and deletion in the same transition). In the source there is one AfterFunc
    call, in addTemplate, and it is handed a function literal whose calls - klog aside - are, in a straight
    line (depth 0: no `if`, no loop, no early `return`, no `go` / `defer`): `now := cp.clock.Now()` and then
    ONE cp.deleteTemplateWithConds(.., cond). `cond` is a function literal over the STORED template (its
    parameter, not a variable captured from addTemplate) that returns `!T.expiryTime.After(now)`, i.e.
    expiry <= nowRead with the `now` bound above, reads expiryTime once, and uses neither the receiver nor
    anything else. The callback calls no other deletion function (not the unconditional deleteTemplate, no
    `delete`, no timer operation), conditions are passed to deleteTemplateWithConds by the timer callback
    only, and no deletion function is called with cp.mutex held.
    No input can exhibit a violation: a callback that tests expiryTime in one critical section and deletes
    in another (test under RLock, then the unconditional deleteTemplate) loses a refresh that lands between
    the two - but the harness runs `cbfin` as one uninterrupted call, no packet is ever processed inside it. -/
theorem tie_callback_is_one_conditional_delete :
    timerCallbacks.length = 1 ∧
    timerCallbacks.all (fun cb =>
      cb.inFunc == "addTemplate" && cb.isFuncLit &&
      (cb.order.filter (fun e => e.kind != "log")).map (fun e => (e.kind, e.detail, e.depth)) ==
        [("call-cp", "clock.Now", 0), ("bind-now", "now", 0), ("call-cp", "deleteTemplateWithConds", 0)] &&
      cb.conds.length == 1 &&
      cb.conds.all (fun c =>
        c.isFuncLit && c.param != "" && c.paramExpiryReads == 1 && c.otherExpiryReads == 0 &&
        c.cmp == [("After", "now")] && !c.usesRecv && c.ret == "!T.expiryTime.After(now)" &&
        c.order.map (·.kind) == ["read-expiryTime", "call-other", "return"])) = true ∧
    (deleteCalls.filter (fun d => d.unit == "addTemplate/timer-callback")).map (fun d => (d.callee, d.conds)) =
      [("deleteTemplateWithConds", 1)] ∧
    (deleteCalls.filter (fun d => d.conds != 0)).all (fun d => d.unit == "addTemplate/timer-callback") = true ∧
    deleteCalls.all (fun d => d.held == 0) = true := by decide

/-- Pins: what `cbFinish` (and `badTpl`, through the unconditional deleteTemplate = deleteTemplateWithConds
    without conditions) does in ONE step: look the template up, evaluate the condition on it, and - only if
    it holds - stop its timer and remove it (TState.delete). In the source deleteTemplateWithConds takes the
    WRITE lock (`cp.mutex.Lock()`, not RLock) with a deferred unlock as its first statements and never
    touches the mutex again; the loop over condFns comes next and its body is `if !condFn(..) { return false }`
    (a failing condition leaves the function before anything is changed); `expiryTimer.Stop()` comes AFTER
    the loop, `delete(cp.templatesMap[..], ..)` after both, unconditionally; everything at lock state 2.
    So the condition is evaluated, the timer stopped and the entry removed in one critical section, and a
    template whose condition fails keeps its (possibly re-armed) timer.
    No input can exhibit a violation of the locking part (a read lock, or a lock released between condition
    and deletion): nothing runs concurrently with `cbfin` in the harness. (The order part alone - Stop()
    before the conditions - is visible to inputs; it is pinned here all the same because the theorem
    `stored_has_expiry_pending` rests on it.) -/
theorem tie_conditional_delete_order :
    (deleteTemplateWithCondsOrder.filter (fun e => tieOrderKinds.contains e.kind)).map (fun e => (e.kind, e.depth, e.held)) =
      [("lock", 0, 2), ("defer-unlock", 0, 2), ("range-conds", 0, 2), ("call-cond", 1, 2), ("end-range-conds", 0, 2),
       ("stop-timer", 1, 2), ("delete-template-entry", 0, 2), ("delete-domain-entry", 1, 2)] ∧
    (tieLoopBody deleteTemplateWithCondsOrder).map (fun e => (e.kind, e.depth)) = [("call-cond", 1), ("if", 1), ("return", 2)] ∧
    ((tieLoopBody deleteTemplateWithCondsOrder).filter (fun e => e.kind == "return")).map (·.detail) = ["false"] ∧
    deleteTemplateOrder.map (·.kind) = ["call-cp", "return"] ∧
    (deleteTemplateOrder.filter (fun e => e.kind == "call-cp")).map (·.detail) = ["deleteTemplateWithConds"] := by decide

/-- Pins: `expiry` is a field of the model's stored template that only the `tpl` step writes and only the
    `cbFinish` step reads, both atomic. In the source the field template.expiryTime (a time.Time) is
    written in exactly one place - addTemplate, lock state 2 (write lock held) - and read in exactly one
    place - the deletion condition of the timer callback, which runs inside deleteTemplateWithConds' write
    lock (tie_conditional_delete_order; its own lexical lock state is 0 because it is a function literal).
    A new reader or writer anywhere in pkg/collector - e.g. a helper that tests expiryTime under the read
    lock, outside the deleting critical section - changes this list.
    No input can exhibit a violation: an access outside the write lock matters only to a concurrent
    goroutine, and the harness has none. -/
theorem tie_expiryTime_accessors :
    expiryTimeAccesses.map (fun a => (a.unit, a.write, a.held)) =
      [("addTemplate", true, 2), ("addTemplate/timer-callback/delete-cond", false, 0)] ∧
    templateFields.contains ("expiryTime", "time.Time") = true ∧
    templateFields.contains ("expiryTimer", "timer") = true := by decide

/-- the PRODUCTION clock is the standard library's: `realClock.Now` is `time.Now()` and `realClock.AfterFunc` hands out
    the `*time.Timer` of `time.AfterFunc` itself, whose `Stop` / `Reset` contract is the one the model's timer events
    transcribe (a `Reset` re-arms the timer also after it has fired - that is what keeps a template alive whose refresh
    arrives while its expiry callback is in flight). The harness runs the collector on ITS clock, so a wrapper around the
    real timer with other semantics is invisible to every input it can generate. -/
theorem tie_production_clock_is_the_standard_timer :
    realClockMethods = [("AfterFunc", ["return time.AfterFunc(d, f)"]), ("Now", ["return time.Now()"])] := by decide

end Ties

/-! ## non-vacuity -/

/-- a reachable state with a fired-but-pending callback (clock not read yet) and a template that
    was refreshed after the timer fired: the timer is armed again AND the old callback is in flight -/
example : let s := run 3 [.tpl (1, 256), .advance 3, .fire 0, .tpl (1, 256)]
    s.pending = [⟨0, 0, (1, 256), none⟩] ∧ s.armed = [⟨0, (1, 256), 6⟩] ∧ s.tpls = [((1, 256), ⟨0, 6, 3⟩)] := by decide

/-- the stale callback then reads the clock late and deletes the refreshed template - but only after
    the refreshed lifetime is over (hypotheses of `gone_after_timer_ran` / `no_early_drop` are met) -/
example : let es := [Event.tpl (1, 256), .advance 3, .fire 0, .tpl (1, 256), .advance 3, .cbReadNow 0]
    (∃ cb ∈ (run 3 es).pending, cb.nowRead = some 6 ∧ lastRefresh es cb.key = some 3) ∧
    (run 3 es).stored (1, 256) = true ∧ (step (run 3 es) (.cbFinish 0)).1.stored (1, 256) = false ∧
    (step (run 3 es) (.cbFinish 0)).1.armed = [] := by decide

/-- a callback of a deleted object meets a NEW object under the same key and leaves it alone -/
example : let es := [Event.tpl (1, 256), .advance 3, .fire 0, .cbReadNow 0, .badTpl (1, 256), .tpl (1, 256)]
    (run 3 es).tpls = [((1, 256), ⟨1, 6, 3⟩)] ∧ (step (run 3 es) (.cbFinish 0)).1.tpls = [((1, 256), ⟨1, 6, 3⟩)] ∧
    (step (run 3 es) (.cbFinish 0)).2.res = .finished false := by decide

/-- hypotheses of `usable_within_ttl` are satisfiable with timers firing in between -/
example : let es := [Event.tpl (1, 256), .advance 3, .fire 0, .tpl (1, 256), .cbReadNow 0, .cbFinish 0, .advance 2]
    lastRefresh es (1, 256) = some 3 ∧ noBadSince es (1, 256) = true ∧ clock es < 3 + 3 := by decide

/-- stored template with NO armed timer (second disjunct of `stored_has_expiry_pending`) -/
example : let s := run 3 [.tpl (1, 256), .tpl (2, 257), .advance 4, .fire 1]
    s.armed = [⟨0, (1, 256), 3⟩] ∧ s.stored (2, 257) = true ∧ s.pending = [⟨0, 1, (2, 257), none⟩] := by decide

/-- disabled events change nothing -/
example : (step (run 3 [.tpl (1, 256)]) (.fire 0)).2.res = .disabled ∧
    (step (run 3 [.tpl (1, 256), .advance 3, .fire 0]) (.cbFinish 0)).2.res = .disabled := by decide

end Ipfix.C10
