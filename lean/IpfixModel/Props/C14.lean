/-
  C14 - An exporting process's own background work never corrupts what the application sends.

  PARTIAL: what is proved here is the event-level protocol logic of Model/Lifecycle.lean - for EVERY
  interleaving (`List Event`) of application sends, refresh ticks and refresh sends, connection checks,
  peer close and Close calls. Timing (a refresh EACH interval, detection WITHIN the check interval),
  goroutine termination and freedom from data races are facts of the Go runtime: they are OBSERVED on
  the real code (race detector, real sockets; Spec/C14.lean evaluated on every run), not proved.
  `lockset_exporter` is a proved statement about the lock discipline table re-extracted from the source.
-/
import IpfixModel.Lemmas.Lifecycle
namespace Ipfix.C14
open Life ExpSpec

/-! ## UDP: template refresh -/

/-- one whole refresh (the tick and its sends, nothing in between) on an open UDP process appends
    exactly one message per template recorded so far - in SOME order (Go map iteration; every order the
    priority function can produce) - and the independent RFC 7011 parser reads each one back as exactly
    that template: version 10, length field = size, the current sequence number, the observation
    domain, set id 2, one template record with the recorded id and field specifiers (C02 `wire_header`,
    `wire_template` through the exporter model's ordinary send path). The counter does not move and
    the process stays open. -/
theorem refresh_emits_all_templates (st : LState) (prio : Nat → Nat) (times : List Nat)
    (hudp : st.proto = .udp) (hopen : st.closed = false) (hidle : st.pending = [])
    (hd : st.exp.dom < 4294967296) (hs : st.exp.seq < 4294967296)
    (hr : ∀ p ∈ st.tpls, Refreshable p.1 p.2)
    (hl : times.length = st.tpls.length) (ht : ∀ t ∈ times, t < 4294967296) :
    ∃ order msgs, order.Perm st.tpls ∧
      (refreshAll st prio times).wire = st.wire ++ msgs ∧
      AllTemplateMsgs st.exp.dom st.exp.seq msgs order ∧
      (refreshAll st prio times).exp.seq = st.exp.seq ∧
      (refreshAll st prio times).closed = false ∧ (refreshAll st prio times).pending = [] := by
  have hperm : (refreshOrder prio st.tpls).Perm st.tpls := refreshOrder_perm prio _
  have hr' : ∀ p ∈ refreshOrder prio st.tpls, Refreshable p.1 p.2 := fun p hp => hr p (hperm.mem_iff.mp hp)
  obtain ⟨sets, hsets⟩ := buildAll_some (refreshOrder prio st.tpls) (fun p hp => (hr' p hp).2.2.2.1)
  have htick : st.refreshTick prio = { st with pending := sets } := by
    unfold LState.refreshTick
    rw [if_pos ⟨hudp, hopen, hidle⟩, hsets]
  have hrun : refreshAll st prio times = runS { st with pending := sets } (times.map .refreshStep) := by
    simp [refreshAll, runS, run, step, htick]
  obtain ⟨msgs, h1, h2, h3, _, h5, h6, _⟩ :=
    drain (refreshOrder prio st.tpls) sets times { st with pending := sets } hsets
      (by rw [hl, hperm.length_eq]) ht hr' hopen rfl hd hs
  rw [hrun]
  exact ⟨_, msgs, hperm, h1, h2, h3, h5, h6⟩

/-- the same, send by send and under ANY interleaving: whenever the refresher gets to run on an open
    process, its next queued template goes out as one message that parses back as that template ... -/
theorem refresh_step_emits_next (st : LState) (time tid : Nat) (ies : List IE) (s : SetB) (rest : List SetB)
    (hopen : st.closed = false) (hp : st.pending = s :: rest) (hs : makeTemplateSet tid ies = some s)
    (hr : Refreshable tid ies)
    (hd : st.exp.dom < 4294967296) (hq : st.exp.seq < 4294967296) (ht : time < 4294967296) :
    ∃ w, (step st (.refreshStep time)).1.wire = st.wire ++ [w] ∧ IsTemplateMsg st.exp.dom st.exp.seq tid ies w ∧
      (step st (.refreshStep time)).1.pending = rest ∧ (step st (.refreshStep time)).1.closed = false := by
  obtain ⟨es, _, rfl⟩ := makeTemplateSet_shape tid ies s hs
  obtain ⟨htid, hn, hspec, _, hfit⟩ := hr
  obtain ⟨w, h1, h2, _, _, h5, h6, _⟩ := refreshStep_emits st time tid ies es rest hopen hp htid hn hspec hfit hd hq ht
  exact ⟨w, h1, h2, h6, h5⟩

/-- ... and an application send in between leaves the refresher's queue alone -/
theorem app_send_keeps_refresh_queue (st : LState) (time : Nat) (s : SetB) :
    (step st (.appSend time s)).1.pending = st.pending :=
  (send_frame st time s).2.1

/-- template refreshes never change the sequence counter (C08 `send_ok`: only data sets advance it;
    the refresher only ever queues template sets - `run_pendTpl`) -/
theorem refresh_preserves_seq (proto : Proto) (dom : Nat) (evs : List Event) :
    (∀ prio, (step (runS (LState.init proto dom) evs) (.refreshTick prio)).1.exp.seq =
      (runS (LState.init proto dom) evs).exp.seq) ∧
    (∀ time, (step (runS (LState.init proto dom) evs) (.refreshStep time)).1.exp.seq =
      (runS (LState.init proto dom) evs).exp.seq) := by
  have hinv : PendTpl (runS (LState.init proto dom) evs) :=
    run_pendTpl evs _ (by intro s hs; simp [LState.init] at hs)
  generalize runS (LState.init proto dom) evs = st at hinv
  constructor
  · intro prio
    simp only [step, LState.refreshTick]
    split
    · split
      · rw [doClose_exp]
      · rfl
    · rfl
  · intro time
    simp only [step, LState.refreshStep]
    split
    · rfl
    · rename_i s rest hp
      have hty : s.ty = .template := hinv s (by rw [hp]; simp)
      split
      · rfl
      · split
        · exact send_template_seq st time s hty
        · rw [doClose_exp]; exact send_template_seq st time s hty

/-! ## Messages interleave, never intermix -/

/-- every event leaves the wire alone or appends exactly ONE element, and that element is the complete
    output of one CreateIPFIXMsg: one `Write` of one whole message (over UDP one datagram) -/
theorem one_whole_message_per_write (st : LState) (e : Event) :
    (step st e).1.wire = st.wire ∨ ∃ w, Whole w ∧ (step st e).1.wire = st.wire ++ [w] :=
  step_wire st e

/-- for every interleaving the wire is a list of whole messages; nothing already written is ever altered -/
theorem messages_not_intermixed (proto : Proto) (dom : Nat) (evs more : List Event) :
    (∀ w ∈ (runS (LState.init proto dom) evs).wire, Whole w) ∧
    ∃ tail, (runS (LState.init proto dom) (evs ++ more)).wire = (runS (LState.init proto dom) evs).wire ++ tail := by
  have h0 : ∀ w ∈ (LState.init proto dom).wire, Whole w := by intro w hw; simp [LState.init] at hw
  have h1 := run_wire evs _ h0
  refine ⟨h1.2, ?_⟩
  rw [runS_append]
  exact (run_wire more _ h1.2).1

/-! ## Close -/

/-- close ∘ close = close -/
theorem close_idempotent (st : LState) : (step (step st .close).1 .close).1 = (step st .close).1 := by
  simp only [step]; exact doClose_idem st

/-- after the first Close, any number of further Close calls, from any goroutine and at any point of any
    schedule, leave the same state as if they had not been made -/
theorem repeated_close_noop (st : LState) (evs : List Event) :
    runS (step st .close).1 evs = runS (step st .close).1 (evs.filter (fun e => !isCloseEv e)) :=
  run_strip_closes evs _ (by simp only [step]; exact doClose_closed st)

/-- `close(stopCh)` is executed at most once in every schedule (a second execution panics in Go):
    exactly once if the process ended up closed, never otherwise; and a closed process has no
    background work queued -/
theorem stop_channel_closed_once (proto : Proto) (dom : Nat) (evs : List Event) :
    (runS (LState.init proto dom) evs).stopCloses = (if (runS (LState.init proto dom) evs).closed then 1 else 0) ∧
    ((runS (LState.init proto dom) evs).closed = true → (runS (LState.init proto dom) evs).pending = []) :=
  run_closeInv evs _ (by simp [CloseInv, LState.init])

/-- after close - by anyone - for every further schedule: no byte is written, the process stays closed, and
    every SendSet of the application reports an error -/
theorem no_write_after_close (st : LState) (h : st.closed = true) (evs : List Event) :
    (run st evs).1.wire = st.wire ∧ (run st evs).1.closed = true ∧
    ∀ o ∈ (run st evs).2, o = none ∨ o = some .err := by
  obtain ⟨h1, h2, h3⟩ := run_closed evs st h
  refine ⟨h2, h1, ?_⟩
  intro o ho
  have := List.all_eq_true.mp h3 o ho
  cases o with
  | none => exact Or.inl rfl
  | some r => cases r with
    | err => exact Or.inr rfl
    | ok n w => simp [isErrOut] at this

/-- the same, stated from the Close call itself: whatever the state, after `close` nothing is written -/
theorem close_stops_all_writes (st : LState) (evs : List Event) :
    (run (step st .close).1 evs).1.wire = st.wire ∧ ∀ o ∈ (run (step st .close).1 evs).2, o = none ∨ o = some .err := by
  have hc : (step st .close).1.closed = true := by simp only [step]; exact doClose_closed st
  obtain ⟨h1, _, h3⟩ := no_write_after_close _ hc evs
  refine ⟨?_, h3⟩
  rw [h1]; simp only [step]; exact doClose_wire st

/-! ## UDP: a template the refresher cannot rebuild (D17) -/

/-- a template with a dateTimeMicroseconds or dateTimeNanoseconds element - wherever in the template, whatever the
    other elements - cannot be rebuilt: entities.MakeTemplateSet fails on it
    (DecodeAndCreateInfoElementWithValue(ie, nil) has no value for these types) -/
theorem micro_nano_template_unbuildable (tid : Nat) (ies : List IE) (ie : IE) (hm : ie ∈ ies)
    (hty : ie.ty = .dateTimeMicroseconds ∨ ie.ty = .dateTimeNanoseconds) :
    makeTemplateSet tid ies = none :=
  makeTemplateSet_none_of_mem tid ies ie hm (zeroValue_err_of_micro_nano ie hty)

/-- "a refresh that cannot be built closes the process": a refresh tick on an open UDP process that has recorded a
    template for which MakeTemplateSet fails - in whatever order the map iteration visits the templates - closes
    the process (exactly one more close(stopCh)), leaves no refresh work queued and writes NOTHING (not even the
    templates that could have been rebuilt); nothing else of the state changes -/
theorem unbuildable_refresh_closes (st : LState) (prio : Nat → Nat) (tid : Nat) (ies : List IE)
    (hudp : st.proto = .udp) (hopen : st.closed = false) (hidle : st.pending = [])
    (hrec : (tid, ies) ∈ st.tpls) (hfail : makeTemplateSet tid ies = none) :
    (step st (.refreshTick prio)).1.closed = true ∧ (step st (.refreshTick prio)).1.pending = [] ∧
    (step st (.refreshTick prio)).1.wire = st.wire ∧ (step st (.refreshTick prio)).1.stopCloses = st.stopCloses + 1 ∧
    (step st (.refreshTick prio)).1.exp = st.exp ∧ (step st (.refreshTick prio)).1.tpls = st.tpls ∧
    (step st (.refreshTick prio)).2 = none := by
  have h : (step st (.refreshTick prio)).1 = { st with closed := true, stopCloses := st.stopCloses + 1, pending := [] } := by
    show st.refreshTick prio = _
    rw [refreshTick_unbuildable st prio tid ies hudp hopen hidle hrec hfail, doClose_open st hopen]
  rw [h]
  exact ⟨rfl, rfl, rfl, rfl, rfl, rfl, rfl⟩

/-- ... and from then on, for EVERY further schedule: every SendSet of the application RETURNS an error (it is a step
    of the event system like any other: it does not wait for anything), nothing is written, the process stays closed -/
theorem after_unbuildable_refresh_sends_fail (st : LState) (prio : Nat → Nat) (tid : Nat) (ies : List IE)
    (hudp : st.proto = .udp) (hopen : st.closed = false) (hidle : st.pending = [])
    (hrec : (tid, ies) ∈ st.tpls) (hfail : makeTemplateSet tid ies = none) (evs : List Event) :
    (run (step st (.refreshTick prio)).1 evs).1.wire = st.wire ∧
    (run (step st (.refreshTick prio)).1 evs).1.closed = true ∧
    (∀ o ∈ (run (step st (.refreshTick prio)).1 evs).2, o = none ∨ o = some .err) ∧
    ∀ time s, (step (runS (step st (.refreshTick prio)).1 evs) (.appSend time s)).2 = some .err ∧
      (step (runS (step st (.refreshTick prio)).1 evs) (.appSend time s)).1.wire = st.wire := by
  obtain ⟨hc, _, hw, _⟩ := unbuildable_refresh_closes st prio tid ies hudp hopen hidle hrec hfail
  obtain ⟨h1, h2, h3⟩ := no_write_after_close _ hc evs
  refine ⟨by rw [h1, hw], h2, h3, ?_⟩
  intro time s
  have hc2 : (runS (step st (.refreshTick prio)).1 evs).closed = true := h2
  have hw2 : (runS (step st (.refreshTick prio)).1 evs).wire = st.wire := by
    show (run (step st (.refreshTick prio)).1 evs).1.wire = st.wire
    rw [h1, hw]
  generalize runS (step st (.refreshTick prio)).1 evs = q at hc2 hw2
  obtain ⟨g1, g2⟩ := send_closed q time s hc2
  show some (q.send time s).2 = some .err ∧ (q.send time s).1.wire = st.wire
  exact ⟨by rw [g1], by rw [g2, hw2]⟩

/-- how the process gets there: a template set the application sends on an open process is transmitted and RECORDED
    whether or not it can be rebuilt later - sending asks nothing of the element types (template records carry no
    values) - so the precondition of `unbuildable_refresh_closes` is reachable through SendSet alone -/
theorem sent_template_is_recorded (st : LState) (time : Nat) (s : SetB) (n : Nat) (w : Bytes)
    (hty : s.ty = .template) (hok : (step st (.appSend time s)).2 = some (.ok n w)) :
    (step st (.appSend time s)).1.tpls = recordTemplates st.tpls s ∧
    (step st (.appSend time s)).1.wire = st.wire ++ [w] ∧ (step st (.appSend time s)).1.closed = false := by
  simp only [step] at hok ⊢
  have hsome : (st.send time s).2 = .ok n w := by simpa using hok
  unfold LState.send at hsome ⊢
  by_cases hcl : st.closed = true
  · simp [hcl] at hsome
  · have hcl' : st.closed = false := by simpa using hcl
    simp only [hcl', Bool.false_eq_true, if_false] at hsome ⊢
    cases hr : (st.exp.sendBuilt time s).2 with
    | err => simp [hr] at hsome
    | ok n' w' =>
      simp only [hr] at hsome ⊢
      injection hsome with e1 e2
      subst e2
      simp [hty, hcl']

/-! ## TCP: the collector closes -/

/-- once the collector has closed its side, the first connection check that reads EOF - after whatever
    happened in between - closes the process; from then on every SendSet is an error and nothing is
    written: sends fail instead of vanishing -/
theorem peer_close_detected (st : LState) (mid post : List Event) (htcp : st.proto = .tcp) :
    let st1 := runS st (.peerClose :: mid ++ [.connCheck true])
    st1.closed = true ∧ (run st1 post).1.wire = st1.wire ∧ ∀ o ∈ (run st1 post).2, o = none ∨ o = some .err := by
  intro st1
  have hcl : st1.closed = true := by
    show (runS st (.peerClose :: mid ++ [.connCheck true])).closed = true
    have e1 : runS st (.peerClose :: mid ++ [.connCheck true]) =
        (step (runS (step st .peerClose).1 mid) (.connCheck true)).1 := by
      rw [show Event.peerClose :: mid ++ [Event.connCheck true] = [Event.peerClose] ++ (mid ++ [Event.connCheck true]) from rfl,
        runS_append, runS_append]
      rfl
    rw [e1]
    obtain ⟨hp, _, hpc⟩ := run_frame mid (step st .peerClose).1
    have hproto : (runS (step st .peerClose).1 mid).proto = .tcp := by rw [hp]; exact htcp
    have hpeer : (runS (step st .peerClose).1 mid).peerClosed = true := hpc rfl
    have key : ∀ st2 : LState, st2.proto = .tcp → st2.peerClosed = true → (step st2 (.connCheck true)).1.closed = true := by
      intro st2 a b
      simp only [step, a, b, and_self, if_true]
      exact doClose_closed _
    exact key _ hproto hpeer
  obtain ⟨h1, _, h3⟩ := no_write_after_close st1 hcl post
  exact ⟨hcl, h1, h3⟩

/-- a connection check that does not read EOF, or reads it on a connection the peer has not closed, changes nothing -/
theorem conn_check_without_eof_is_noop (st : LState) (hp : st.peerClosed = false) (eof : Bool) :
    (step st (.connCheck eof)).1 = st ∧ (step st (.connCheck false)).1 = st := by
  simp [step, hp]

/-! ## The model satisfies the executable specification -/

/-- for every schedule in which the application hands well-built sets to SendSet (C16 `length_inv`) and
    export times fit 32 bits: every element of the wire passes `Spec.C14.wellFormed` - the predicate the
    check evaluates on every datagram of a real run - and the concatenation of the wire (the TCP byte
    stream) is cut by `Spec.C14.splitFrames` into exactly the messages written, with nothing left over -/
theorem model_satisfies_spec (proto : Proto) (dom : Nat) (hd : dom < 4294967296) (evs : List Event)
    (hg : ∀ e ∈ evs, GoodEvent e) :
    framesOK dom (runS (LState.init proto dom) evs).wire = true ∧
    splitFrames (runS (LState.init proto dom) evs).wire.flatten.length (runS (LState.init proto dom) evs).wire.flatten =
      ((runS (LState.init proto dom) evs).wire, []) ∧
    streamOK dom (runS (LState.init proto dom) evs).wire.flatten = true := by
  have h0 : GInv (LState.init proto dom) := by
    refine ⟨by simp [LState.init], by simpa [LState.init] using hd, ?_, ?_⟩ <;> intro x hx <;> simp [LState.init] at hx
  obtain ⟨_, _, _, hw⟩ := run_ginv evs _ h0 hg
  have hdom : (runS (LState.init proto dom) evs).exp.dom = dom := (run_frame evs _).2.1
  rw [hdom] at hw
  have hsplit := splitFrames_flatten dom _ _ hw (length_le_flatten dom _ hw)
  have hframes : framesOK dom (runS (LState.init proto dom) evs).wire = true := by
    unfold framesOK; exact List.all_eq_true.mpr hw
  refine ⟨hframes, hsplit, ?_⟩
  unfold streamOK
  simp only [hsplit, hframes, List.isEmpty_nil, Bool.and_self]

/-! ## Lock discipline (regenerated table) -/

/-- every field of the process state that the application goroutine and a background goroutine both
    access, and that one of them writes, is accessed under templateMutex throughout or atomically
    throughout (holds since fix d3d6170 made the sequence number atomic) -/
theorem lockset_exporter :
    (∀ f ∈ Locks.trackedFields, (Generated.LocksExporter.fields.map (·.1)).contains f = true ∧ Locks.fieldOK f = true) ∧
    Locks.sharedWritten "seqNumber" = true ∧ Locks.sharedWritten "templatesMap" = true ∧
    Locks.sharedWritten "isClosed" = true := by decide

/-- over ALL fields the same holds with one exception, the configuration field jsonBufferLen:
    InitExportingProcess assigns it after its `go` statements, and the refresher can reach its only
    reader (createAndSendJSONMsg) through SendSet in the call graph. Statically unguarded; dynamically
    the refresher sends template sets only and the JSON path is taken for data sets only. -/
theorem lockset_exporter_all_fields_partial :
    (Generated.LocksExporter.fields.map (·.1)).filter (fun f => !Locks.fieldOK f) = ["jsonBufferLen"] := by decide

/-- ties between the table and the event model: two background goroutines, the checker under
    protocol == "tcp" and the refresher under protocol == "udp"; the refresher sends through SendSet (the
    application's send path); both close through closeConnToCollector, which is the only place that
    touches isClosed and does so with an atomic method; createAndSendIPFIXMsg calls Write on the
    connection exactly once -/
theorem model_ties :
    Generated.LocksExporter.goroutines.map (·.2) = ["input.CollectorProtocol == \"tcp\"", "input.CollectorProtocol == \"udp\""] ∧
    Locks.callees "InitExportingProcess$go1" = ["checkConnToCollector", "closeConnToCollector"] ∧
    Locks.callees "InitExportingProcess$go2" = ["sendRefreshedTemplates", "closeConnToCollector"] ∧
    Locks.callees "sendRefreshedTemplates" = ["SendSet"] ∧
    Locks.callees "CloseConnToCollector" = ["closeConnToCollector"] ∧
    (Generated.LocksExporter.accesses.filter (·.field == "isClosed")).map (fun a => (a.unit, a.how, a.write)) =
      [("closeConnToCollector", "atomicMethod", true)] ∧
    ((Generated.LocksExporter.fieldCalls.filter (fun c => c.1 == "createAndSendIPFIXMsg" && c.2.2.1 == "Write")).length = 1) := by
  decide

/-- the refresh pass of the event model retransmits the templates that are in the template map AT THAT PASS
    (`Life.buildAll` over the current map). In the code that is so because `sendRefreshedTemplates` reads
    nothing of the exporting process but `templatesMap`, under `templateMutex`, and writes nothing: no cached
    copy of an earlier pass, no "changed since the last pass" flag whose update could be lost between the
    application's `updateTemplate` and the refresher (a window of microseconds that no harness schedule hits). -/
theorem tie_refresh_reads_only_the_template_map :
    (Generated.LocksExporter.accesses.filter (·.unit == "sendRefreshedTemplates")).all
        (fun a => a.write == false &&
          ((a.field == "templatesMap" && a.how == "mutex" && a.lock == "templateMutex") ||
           (a.field == "templateMutex" && a.how == "sync"))) = true ∧
    (Generated.LocksExporter.accesses.any
        (fun a => a.unit == "sendRefreshedTemplates" && a.field == "templatesMap")) = true := by decide

/-- EVERY call of the exported `CloseConnToCollector` waits for the background goroutines (`ep.wg.Wait()`,
    unconditionally, after the internal close): when any of several concurrent or repeated Close calls returns,
    the refresher / checker has exited and writes nothing more. A call that returned early because "somebody else
    is already closing" would let the refresher go on writing behind its back - a window of microseconds on a real
    socket, which no harness schedule hits. (The event model's `close` step is "mark closed, stop the goroutines";
    `close_idempotent`, `no_write_after_close` speak about the state after ANY close call.) -/
theorem tie_every_close_call_waits :
    Generated.LocksExporter.closeBody = ["ep.closeConnToCollector()", "ep.wg.Wait()"] := by decide

/-- the connection probe of the checker goroutine cannot disturb a write of the application: the only deadline
    the library ever arms on the connection is a READ deadline, in `checkConnToCollector` (a write deadline, or
    `SetDeadline`, armed by the probe would cut a `Write` of the application that is blocked on a slow collector
    short and leave a message prefix on the stream - the event model has no such step) -/
theorem tie_probe_arms_read_deadline_only :
    ((Generated.LocksExporter.fieldCalls.filter
        (fun c => c.2.2.1 == "SetDeadline" || c.2.2.1 == "SetReadDeadline" || c.2.2.1 == "SetWriteDeadline")).map
        (fun c => (c.1, c.2.1, c.2.2.1))) = [("checkConnToCollector", "connToCollector", "SetReadDeadline")] := by decide

/-- the sequence counter is shared by the application's sends and the refresher's (both go through
    `createAndSendIPFIXMsg`): it advances by ONE atomic read-modify-write (`atomic.AddUint32`) and is otherwise
    only loaded - there is no load ... store pair between which a concurrent send's records could be lost. This
    is what lets the event model (and C08's `seq_in_every_message`) treat "stamp and advance" as one step of
    whichever goroutine sends. -/
theorem tie_sequence_counter_advances_atomically :
    ((Generated.LocksExporter.atomicOps.filter (fun c => c.2.1 == "seqNumber")).map (fun c => (c.1, c.2.2.1))) =
      [("createAndSendIPFIXMsg", "LoadUint32"), ("createAndSendIPFIXMsg", "AddUint32")] ∧
    (Generated.LocksExporter.accesses.filter (fun a => a.field == "seqNumber" && a.how != "atomic")).map (·.unit) =
      ["InitExportingProcess:pre"] := by decide

/-- "subsequent sends fail instead of vanishing": the result of the connection's `Write` - the byte count and the
    error - is what the sending functions test and report; no statement after the call assigns those variables
    again. The event model (and C08 / C09: a send that succeeded put exactly one message on the wire, a template is
    registered only after it was written) takes "SendSet returned nil" to mean "Write returned (len, nil)"; a
    send path that turned some error of the real socket into a success (an ICMP-reported ECONNREFUSED on a UDP
    socket, say, which no in-memory connection ever returns) would break that reading without any input of the
    correspondence showing it. -/
theorem tie_write_result_reported_as_is :
    Generated.LocksExporter.connWrites =
      [("createAndSendIPFIXMsg", ["bytesSent", "err"]), ("createAndSendJSONMsg", ["bytes", "err"])] ∧
    Generated.LocksExporter.writeResultRewrites = [] := by decide

/-! ## Non-vacuity -/

def ieU8 : IE := ⟨"protocolIdentifier", 4, .unsigned8, 0, 1⟩
def ieStr : IE := ⟨"sourcePodName", 101, .string, 56506, 65535⟩
def tplSet : SetB := (makeTemplateSet 256 [ieU8, ieStr]).getD SetB.new
def dataSet : SetB :=
  { header := [1, 0, 0, 0], ty := .data,
    recs := [{ isTemplate := false, tid := 256, fieldCount := 2, elems := [(ieU8, .num 6), (ieStr, .bytes [97])], bytes := [6, 1, 97] }],
    length := 7 }

example : Refreshable 256 [ieU8, ieStr] := by
  refine ⟨by decide, by decide, ?_, by decide, by decide⟩
  intro ie hie; simp [ieU8, ieStr] at hie; rcases hie with rfl | rfl <;> simp [C02.SpecOK]
example : GoodEvent (.appSend 0 tplSet) ∧ GoodEvent (.appSend 0 dataSet) := by
  refine ⟨⟨⟨by decide, by decide⟩, by decide⟩, ⟨⟨by decide, by decide⟩, by decide⟩⟩

/-- a UDP session: template, data, a refresh (queued by hand: one set), data, close by the application, a
    second close, then a send and a refresh attempt: 4 messages on the wire, the two late ones refused -/
def udpDemo : List Event :=
  [.appSend 0 tplSet, .appSend 0 dataSet, .refreshTick id, .refreshStep 0, .appSend 0 dataSet, .close, .close,
   .appSend 0 dataSet, .refreshTick id, .refreshStep 0]

example : (runS (LState.init .udp 7) [.appSend 0 tplSet, .appSend 0 dataSet]).tpls = [(256, [ieU8, ieStr])] ∧
    (runS (LState.init .udp 7) [.appSend 0 tplSet, .appSend 0 dataSet]).wire.length = 2 ∧
    (runS (LState.init .udp 7) [.appSend 0 tplSet, .appSend 0 dataSet]).exp.seq = 1 := by decide

example : let r := run (LState.init .udp 7) udpDemo
    r.1.wire.length = 4 ∧ r.1.closed = true ∧ r.1.stopCloses = 1 ∧ r.1.exp.seq = 3 ∧
    r.2.map isErrOut = [false, false, true, true, false, true, true, true, true, true] := by decide

/-- D17's template: the registry's flowStartMicroseconds (id 154, dateTimeMicroseconds = type 16) next to an ordinary
    element. It can be built and sent by the application (an empty value is all a template record asks) ... -/
def ieMicro : IE := ⟨"flowStartMicroseconds", 154, .dateTimeMicroseconds, 0, 8⟩
def tplMicroSet : SetB := ((SetB.new.prepare .template 257).bind (·.addRecord [(ieU8, .num 0), (ieMicro, .num 0)] 257)).getD SetB.new

/-- ... but not rebuilt: MakeTemplateSet fails on it (and on it alone), so `buildAll` fails in either order -/
example : tplMicroSet.ty = .template ∧ tplMicroSet.recs.length = 1 ∧
    makeTemplateSet 257 [ieU8, ieMicro] = none ∧ (makeTemplateSet 256 [ieU8, ieStr]).isSome = true ∧
    buildAll [(256, [ieU8, ieStr]), (257, [ieU8, ieMicro])] = none ∧
    buildAll [(257, [ieU8, ieMicro]), (256, [ieU8, ieStr])] = none := by decide

/-- a UDP session with it: both templates and a data set go out (3 messages), the first refresh tick closes the process
    without writing, its (empty) send loop does nothing, the data sets of the OTHER template sent afterwards are
    refused - each call returns `.err` - and the application's Close finds the process closed already -/
def udpUnrefreshableDemo : List Event :=
  [.appSend 0 tplSet, .appSend 0 tplMicroSet, .appSend 0 dataSet, .refreshTick id, .refreshStep 0,
   .appSend 0 dataSet, .appSend 0 dataSet, .close, .appSend 0 dataSet]

example : (runS (LState.init .udp 7) (udpUnrefreshableDemo.take 3)).tpls = [(256, [ieU8, ieStr]), (257, [ieU8, ieMicro])] ∧
    (runS (LState.init .udp 7) (udpUnrefreshableDemo.take 3)).closed = false ∧
    (runS (LState.init .udp 7) (udpUnrefreshableDemo.take 3)).wire.length = 3 ∧
    (runS (LState.init .udp 7) (udpUnrefreshableDemo.take 4)).closed = true ∧
    (runS (LState.init .udp 7) (udpUnrefreshableDemo.take 4)).wire.length = 3 := by decide

example : let r := run (LState.init .udp 7) udpUnrefreshableDemo
    r.1.wire.length = 3 ∧ r.1.closed = true ∧ r.1.stopCloses = 1 ∧ r.1.pending = [] ∧
    r.2 = [r.2.head!, r.2[1]!, r.2[2]!, none, none, some .err, some .err, none, some .err] ∧
    r.2.map isErrOut = [false, false, false, true, true, true, true, true, true] := by decide

/-- the same tick with the priority function that visits the unbuildable template LAST: nothing is written either -/
example : (runS (LState.init .udp 7) (udpUnrefreshableDemo.take 3 ++ [.refreshTick (fun i => i), .refreshStep 0])).wire.length = 3 ∧
    (runS (LState.init .udp 7) (udpUnrefreshableDemo.take 3 ++ [.refreshTick (fun i => 1000 - i), .refreshStep 0])).wire.length = 3 ∧
    (runS (LState.init .udp 7) (udpUnrefreshableDemo.take 3 ++ [.refreshTick (fun i => 1000 - i)])).closed = true := by decide

/-- the executable specification derives "cannot be rebuilt" from the element types: of these two templates only 257 -/
example : unbuildable [{ ty := .template, setId := 256, recs := [(256, [(ieU8, .num 0), (ieStr, .bytes [])])] },
                       { ty := .template, setId := 257, recs := [(257, [(ieU8, .num 0), (ieMicro, .num 0)])] },
                       { ty := .data, setId := 256, recs := [(256, [(ieU8, .num 6), (ieStr, .bytes [97])])] }] = [257] := by decide

/-- every order is possible: two templates, refreshed in either order depending on the priority function -/
example : (refreshOrder id [(256, [ieU8]), (257, [ieStr])]).map (·.1) = [256, 257] ∧
    (refreshOrder (fun i => 1000 - i) [(256, [ieU8]), (257, [ieStr])]).map (·.1) = [257, 256] := by decide

/-- a TCP session: the collector closes, sends still "succeed" until the check reads EOF, then fail -/
example : let r := run (LState.init .tcp 7) [.appSend 0 tplSet, .peerClose, .appSend 0 dataSet, .connCheck true, .appSend 0 dataSet, .close]
    r.1.closed = true ∧ r.1.stopCloses = 1 ∧ r.1.wire.length = 2 ∧
    r.2.map isErrOut = [false, true, false, true, true, true] := by decide

/-- an EOF flag without a peer close (cannot happen on a real socket) does not close, nor does a check over UDP -/
example : (runS (LState.init .tcp 7) [.connCheck true]).closed = false ∧
    (runS (LState.init .udp 7) [.peerClose, .connCheck true]).closed = false := by decide

end Ipfix.C14
