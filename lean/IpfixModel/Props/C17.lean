/-
  C17 - Unknown information elements: strict rejects, keep preserves, drop omits exactly.
  Property theorems only; helper lemmas in Lemmas/Unknown.lean.
-/
import IpfixModel.Lemmas.Unknown
import IpfixModel.Lemmas.UnknownSpec
import IpfixModel.Props.C15
import IpfixModel.Lemmas.Store4
import IpfixModel.Model.Registry
namespace Ipfix.C17
open Outcome C03

/-! ## Tie: "no name" really means "unknown" -/

/-- the collector marks an unknown element by an empty name; no element of the shipped registry
    that can appear in an accepted template has an empty name (the two nameless IANA entries have
    the invalid data type, which makes template decoding fail) -/
theorem tie_no_empty_names : ∀ ie ∈ registry, ie.name = "" → zeroValue ie = .err := by decide +kernel

/-! ## Strict mode -/

/-- strict mode: every element of an accepted template comes from the registry; a template with
    an element that the registry lacks is therefore rejected (and, by C04 `bad_template_erases`,
    erases its predecessor so that following data is rejected too) -/
theorem strict_only_registry {lookup : Nat → Nat → Option IE} {n : Nat} {b : Bytes} {ies : List IE}
    (h : decodeSpecifiers lookup .strict n b = .ok ies) :
    ∀ ie ∈ ies, ∃ ent id, lookup ent id = some ie := by
  induction n generalizing b ies with
  | zero => simp [decodeSpecifiers] at h; subst h; simp
  | succ n ih =>
    unfold decodeSpecifiers at h
    rw [bind_eq_ok] at h
    obtain ⟨⟨ie, r⟩, h1, h⟩ := h
    rw [bind_eq_ok] at h
    obtain ⟨ies', h2, h⟩ := h
    simp at h; subst h
    intro x hx
    simp at hx
    rcases hx with rfl | hx
    · unfold decodeSpecifier at h1
      split at h1
      · simp only at h1
        split at h1
        · split at h1
          · split at h1
            · rename_i ie' hlk
              rw [bind_eq_ok] at h1
              obtain ⟨_, _, h1⟩ := h1
              simp at h1; obtain ⟨rfl, _⟩ := h1
              exact ⟨_, _, hlk⟩
            · simp at h1
          · cases h1
        · split at h1
          · rename_i ie' hlk
            rw [bind_eq_ok] at h1
            obtain ⟨_, _, h1⟩ := h1
            simp at h1; obtain ⟨rfl, _⟩ := h1
            exact ⟨_, _, hlk⟩
          · simp at h1
      · cases h1
    · exact ih h2 x hx

/-! ## Keep mode -/

/-- keep mode: an unknown element (delivered as an octet array) carries exactly the bytes received
    for it - the payload of its complete wire field, fixed or variable length -/
theorem keep_preserves {ie : IE} {b r : Bytes} {v : Value} (hty : ie.ty = .octetArray)
    (h : decodeField ie b = .ok (v, r)) :
    ∃ s p, IsField ie s p ∧ b = s ++ r ∧ v = .bytes p := by
  obtain ⟨s, p, hf, hb, hd⟩ := decodeField_sound h
  refine ⟨s, p, hf, hb, ?_⟩
  simp [decodeElem, hty] at hd
  exact hd.symm

/-- data is decoded the same way in strict and keep mode -/
theorem strict_data_eq_keep (tpl : Template) (b : Bytes) :
    decodeRecord .strict tpl b = decodeRecord .keep tpl b := decodeRecord_strict_eq_keep tpl b

/-! ## Drop mode -/

/-- drop mode omits exactly the unknown fields: it consumes the same bytes as keep mode and
    delivers the keep-mode values at the positions of the known elements, nothing else -/
theorem drop_omits (tpl : Template) (b : Bytes) :
    decodeRecord .drop tpl b =
      (decodeRecord .keep tpl b >>= fun (vs, r) => .ok (filterKnown tpl vs, r)) := decodeRecord_drop tpl b

/-! ## Alignment -/

/-- In keep mode (hence in drop and, for templates it accepts, strict mode) every known field
    decodes to the value it would have had if the unknown fields were not there: cutting the
    unknown fields out of the template and their bytes out of the record yields exactly the
    known values, and the same remaining bytes. -/
theorem known_fields_independent {tpl : Template} {b r : Bytes} {vs : List Value}
    (h : decodeRecord .keep tpl b = .ok (vs, r)) :
    ∃ ss ps, IsRecord tpl ss ps ∧ b = ss.flatten ++ r ∧
      decodeRecord .keep (tpl.filter IE.known) ((stripUnknown tpl ss).flatten ++ r) =
        .ok (filterKnown tpl vs, r) := by
  obtain ⟨ss, ps, hrec, hb, hdp⟩ := decodeRecord_sound h
  exact ⟨ss, ps, hrec, hb, decodeRecord_complete r (isRecord_strip hrec) (decodePayloads_strip hrec hdp)⟩

/-! ## Template level: what each mode makes of a template that interleaves known and unknown elements -/

/-- strict mode rejects the template AND the data that follows: a template record (as the exporter
    lays it out) with at least one element the registry lacks - at any position, IANA or enterprise -
    is refused, whatever was stored for (domain, id) is erased, and a data set for that id is then
    refused too, whatever its bytes -/
theorem strict_rejects_template_and_data (lookup : Nat → Nat → Option IE) (c : CState) (dom tid : Nat) (ies : List IE)
    (hs : ∀ ie ∈ ies, C02.SpecOK ie) (hunk : ∃ ie ∈ ies, lookup ie.ent ie.id = none)
    (htid : tid < 65536) (hn : ies.length < 65536) :
    decodeTemplateSet lookup .strict c dom (templateRecordBytes tid ies) = (c.erase (dom, tid), .err) ∧
    ∀ mode body, decodeDataSet mode (c.erase (dom, tid)) dom tid body = .err := by
  constructor
  · unfold templateRecordBytes
    rw [be_two, be_two]
    simp only [List.cons_append, List.nil_append, decodeTemplateSet, C02.u8_mod, C02.hi_lo tid htid, C02.hi_lo ies.length hn]
    have := decodeSpecifiers_strict_unknown lookup ies hs hunk []
    simp only [List.append_nil] at this
    rw [this]
  · intro mode body
    unfold decodeDataSet
    rw [CState.lookup_erase_same]

/-- keep and drop mode accept such a template when every element is either registered as described
    or unknown with a non-zero length, and hold it with the known elements as registered and each
    unknown element as a nameless octet array carrying the id, enterprise number and length that
    were on the wire, in the same positions -/
theorem lenient_accepts_template (lookup : Nat → Nat → Option IE) (mode : Mode) (hm : mode ≠ .strict) (c : CState)
    (dom tid : Nat) (ies : List IE) (h : ∀ ie ∈ ies, Lenient lookup ie) (htid : tid < 65536) (hn : ies.length < 65536) :
    decodeTemplateSet lookup mode c dom (templateRecordBytes tid ies) =
      (c.insert (dom, tid) (ies.map (asDelivered lookup)), .ok (.template tid (ies.map (asDelivered lookup)))) := by
  unfold templateRecordBytes
  rw [be_two, be_two]
  simp only [List.cons_append, List.nil_append, decodeTemplateSet, C02.u8_mod, C02.hi_lo tid htid, C02.hi_lo ies.length hn]
  have := decodeSpecifiers_lenient lookup mode hm ies h []
  simp only [List.append_nil] at this
  rw [this]

/-- the stand-in for an unknown element is recognisably unknown, has the wire's id / enterprise /
    length, and occupies exactly the same bytes of a record as the real element would -/
theorem unknown_stand_in (lookup : Nat → Nat → Option IE) (ie : IE) (h : lookup ie.ent ie.id = none) :
    asDelivered lookup ie = unknownIE ie ∧ IE.known (unknownIE ie) = false ∧ (unknownIE ie).ty = .octetArray ∧
    (unknownIE ie).id = ie.id ∧ (unknownIE ie).ent = ie.ent ∧ (unknownIE ie).len = ie.len ∧
    ∀ s p, IsField (unknownIE ie) s p ↔ IsField ie s p := by
  refine ⟨by simp [asDelivered, h], by simp [unknownIE, IE.known], rfl, rfl, rfl, rfl, ?_⟩
  intro s p
  exact Iff.rfl

/-- keep mode, from the exporter's hands: a field the exporter encoded for an element the collector
    does not know is delivered as an octet array holding exactly the payload `p` the exporter wrote
    (the whole encoding of a fixed-length element, the encoding minus its 1- or 3-byte length prefix
    of a variable-length one) - the very bytes from which a collector that knew the element would
    have produced the original value - and the bytes after the field are untouched -/
theorem keep_delivers_payload {ie : IE} {v : Value} {bs : Bytes} (hwf : ie.WF) (h : encodeElem ie v = some bs) (r : Bytes) :
    ∃ p, IsField ie bs p ∧ decodeElem ie p = .ok (C15.canon ie v) ∧
      decodeField (unknownIE ie) (bs ++ r) = .ok (.bytes p, r) := by
  obtain ⟨s, p, hf, hb, hd⟩ := decodeField_sound (C15.decode_encode r hwf h)
  have hs : bs = s := List.append_cancel_right hb
  subst hs
  refine ⟨p, hf, hd, ?_⟩
  apply decodeField_complete
  · exact hf
  · simp [decodeElem, unknownIE]

/-! ## Non-vacuity -/

def tplMixed : Template :=
  [⟨"protocolIdentifier", 4, .unsigned8, 0, 1⟩, ⟨"", 20000, .octetArray, 0, 65535⟩,
   ⟨"sourceTransportPort", 7, .unsigned16, 0, 2⟩]

example : decodeRecord .keep tplMixed [6, 2, 0xAA, 0xBB, 0x1F, 0x90] = .ok ([.num 6, .bytes [0xAA, 0xBB], .num 8080], []) ∧
    decodeRecord .drop tplMixed [6, 2, 0xAA, 0xBB, 0x1F, 0x90] = .ok ([.num 6, .num 8080], []) ∧
    decodeRecord .keep (tplMixed.filter IE.known) [6, 0x1F, 0x90] = .ok ([.num 6, .num 8080], []) := by decide

/-- a template as an exporter with a user-registered element 20000 would describe it; the shipped
    registry does not know (0, 20000): the hypotheses of the template-level theorems are met -/
def tplExp : List IE :=
  [⟨"protocolIdentifier", 4, .unsigned8, 0, 1⟩, ⟨"myElement", 20000, .string, 0, 65535⟩,
   ⟨"sourceTransportPort", 7, .unsigned16, 0, 2⟩]
example : (∃ ie ∈ tplExp, lookupIE ie.ent ie.id = none) ∧ (∀ ie ∈ tplExp, C02.SpecOK ie) := by
  refine ⟨⟨tplExp[1], by simp [tplExp], by decide +kernel⟩, ?_⟩
  intro ie h; simp [tplExp] at h; rcases h with rfl | rfl | rfl <;> simp [C02.SpecOK]
example : (decodeTemplateSet lookupIE .strict {} 7 (templateRecordBytes 256 tplExp)).2 = .err ∧
    (decodeTemplateSet lookupIE .keep {} 7 (templateRecordBytes 256 tplExp)).2 = .ok (.template 256 tplMixed) ∧
    tplExp.map (asDelivered lookupIE) = tplMixed := by decide +kernel

end Ipfix.C17
