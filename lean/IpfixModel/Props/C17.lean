/-
  C17 - Unknown information elements: strict rejects, keep preserves, drop omits exactly.
  Property theorems only; helper lemmas in Lemmas/Unknown.lean.
-/
import IpfixModel.Lemmas.Unknown
import IpfixModel.Model.Registry
namespace Ipfix.C17
open Outcome C03

/-! ## Tie: "no name" really means "unknown" -/

/-- the collector marks an unknown element by an empty name; no element of the shipped registry
    that can appear in an accepted template has an empty name (the two nameless IANA entries have
    the invalid data type, which makes template decoding fail) -/
theorem tie_no_empty_names : ∀ ie ∈ registry, ie.name = "" → zeroValue ie = .err := by decide +kernel

/-! ## Strict mode -/

/-- strict mode: every element of an accepted template comes from the registry; a template with
    an element that the registry lacks is therefore rejected (and, by C04 `bad_template_erases`,
    erases its predecessor so that following data is rejected too) -/
theorem strict_only_registry {lookup : Nat → Nat → Option IE} {n : Nat} {b : Bytes} {ies : List IE}
    (h : decodeSpecifiers lookup .strict n b = .ok ies) :
    ∀ ie ∈ ies, ∃ ent id, lookup ent id = some ie := by
  induction n generalizing b ies with
  | zero => simp [decodeSpecifiers] at h; subst h; simp
  | succ n ih =>
    unfold decodeSpecifiers at h
    rw [bind_eq_ok] at h
    obtain ⟨⟨ie, r⟩, h1, h⟩ := h
    rw [bind_eq_ok] at h
    obtain ⟨ies', h2, h⟩ := h
    simp at h; subst h
    intro x hx
    simp at hx
    rcases hx with rfl | hx
    · unfold decodeSpecifier at h1
      split at h1
      · simp only at h1
        split at h1
        · split at h1
          · split at h1
            · rename_i ie' hlk
              rw [bind_eq_ok] at h1
              obtain ⟨_, _, h1⟩ := h1
              simp at h1; obtain ⟨rfl, _⟩ := h1
              exact ⟨_, _, hlk⟩
            · simp at h1
          · cases h1
        · split at h1
          · rename_i ie' hlk
            rw [bind_eq_ok] at h1
            obtain ⟨_, _, h1⟩ := h1
            simp at h1; obtain ⟨rfl, _⟩ := h1
            exact ⟨_, _, hlk⟩
          · simp at h1
      · cases h1
    · exact ih h2 x hx

/-! ## Keep mode -/

/-- keep mode: an unknown element (delivered as an octet array) carries exactly the bytes received
    for it - the payload of its complete wire field, fixed or variable length -/
theorem keep_preserves {ie : IE} {b r : Bytes} {v : Value} (hty : ie.ty = .octetArray)
    (h : decodeField ie b = .ok (v, r)) :
    ∃ s p, IsField ie s p ∧ b = s ++ r ∧ v = .bytes p := by
  obtain ⟨s, p, hf, hb, hd⟩ := decodeField_sound h
  refine ⟨s, p, hf, hb, ?_⟩
  simp [decodeElem, hty] at hd
  exact hd.symm

/-- data is decoded the same way in strict and keep mode -/
theorem strict_data_eq_keep (tpl : Template) (b : Bytes) :
    decodeRecord .strict tpl b = decodeRecord .keep tpl b := decodeRecord_strict_eq_keep tpl b

/-! ## Drop mode -/

/-- drop mode omits exactly the unknown fields: it consumes the same bytes as keep mode and
    delivers the keep-mode values at the positions of the known elements, nothing else -/
theorem drop_omits (tpl : Template) (b : Bytes) :
    decodeRecord .drop tpl b =
      (decodeRecord .keep tpl b >>= fun (vs, r) => .ok (filterKnown tpl vs, r)) := decodeRecord_drop tpl b

/-! ## Alignment -/

/-- In keep mode (hence in drop and, for templates it accepts, strict mode) every known field
    decodes to the value it would have had if the unknown fields were not there: cutting the
    unknown fields out of the template and their bytes out of the record yields exactly the
    known values, and the same remaining bytes. -/
theorem known_fields_independent {tpl : Template} {b r : Bytes} {vs : List Value}
    (h : decodeRecord .keep tpl b = .ok (vs, r)) :
    ∃ ss ps, IsRecord tpl ss ps ∧ b = ss.flatten ++ r ∧
      decodeRecord .keep (tpl.filter IE.known) ((stripUnknown tpl ss).flatten ++ r) =
        .ok (filterKnown tpl vs, r) := by
  obtain ⟨ss, ps, hrec, hb, hdp⟩ := decodeRecord_sound h
  exact ⟨ss, ps, hrec, hb, decodeRecord_complete r (isRecord_strip hrec) (decodePayloads_strip hrec hdp)⟩

/-! ## Non-vacuity -/

def tplMixed : Template :=
  [⟨"protocolIdentifier", 4, .unsigned8, 0, 1⟩, ⟨"", 20000, .octetArray, 0, 65535⟩,
   ⟨"sourceTransportPort", 7, .unsigned16, 0, 2⟩]

example : decodeRecord .keep tplMixed [6, 2, 0xAA, 0xBB, 0x1F, 0x90] = .ok ([.num 6, .bytes [0xAA, 0xBB], .num 8080], []) ∧
    decodeRecord .drop tplMixed [6, 2, 0xAA, 0xBB, 0x1F, 0x90] = .ok ([.num 6, .num 8080], []) ∧
    decodeRecord .keep (tplMixed.filter IE.known) [6, 0x1F, 0x90] = .ok ([.num 6, .num 8080], []) := by decide

end Ipfix.C17
