/-
  C09 - Exporter never emits an invalid, oversized or silently altered message.
-/
import IpfixModel.Props.C08
namespace Ipfix.C09
open ExpSpec

/-- a transmitted message is never longer than 65535 bytes (the exact boundary:
    16 + set length > MaxSocketMsgSize is refused before any write) -/
theorem size_bound (st st' : ExpState) (time : Nat) (s : SetB) (hi : C16.Inv s) (n : Nat) (w : Bytes)
    (h : st.sendBuilt time s = (st', .ok n w)) : w.length ≤ 65535 := by
  obtain ⟨_, _, _, hc⟩ := C08.send_ok st st' time s n w h
  have hi' : C16.Inv s.updateLen := C16.inv_step s .updateLen hi
  have := C16.createMsg_length s.updateLen hi' _ _ _ w hc
  omega

/-- a refused send transmits nothing (`SendResult.err` carries no bytes: the size and sanity checks
    precede the only `Write`) and leaves the exporter's template table and domain untouched, so
    every later send behaves as if the refused one had not happened - except for the counter,
    see C08 `failed_send_bumps_seq` -/
theorem error_leaves_state (st st' : ExpState) (time : Nat) (s : SetB)
    (h : st.sendBuilt time s = (st', .err)) : st'.templates = st.templates ∧ st'.dom = st.dom := by
  unfold ExpState.sendBuilt at h
  split at h
  · simp at h; subst h; exact ⟨rfl, rfl⟩
  · split at h
    · simp at h; subst h; exact ⟨rfl, rfl⟩
    · simp only at h
      split at h
      · simp at h; subst h; exact ⟨rfl, rfl⟩
      · simp at h

/-- a data set is transmitted only if every record names a template the exporter has recorded,
    with that template's field count and at least its minimum length -/
theorem data_requires_registered_template (st st' : ExpState) (time : Nat) (s : SetB) (n : Nat) (w : Bytes)
    (hd : s.ty = .data) (h : st.sendBuilt time s = (st', .ok n w)) :
    ∀ r ∈ s.recs, ∃ t, st.template r.tid = some t ∧ r.fieldCount = t.fieldCount ∧ t.minLen ≤ r.bytes.length := by
  unfold ExpState.sendBuilt at h
  rw [hd] at h
  simp only at h
  split at h
  · simp at h
  · rename_i hsane
    simp at hsane
    intro r hr
    have := hsane r hr
    unfold ExpState.sane at this
    split at this
    · simp at this
    · rename_i t ht
      simp at this
      exact ⟨t, ht, this.1, by omega⟩

/-- the exporter records a template only when the template set was actually transmitted
    (the repair of D6): the table changes only on a successful send of a template set -/
theorem registered_only_after_sent (st st' : ExpState) (time : Nat) (s : SetB) (r : SendResult)
    (h : st.sendBuilt time s = (st', r)) (hne : st'.templates ≠ st.templates) :
    s.ty = .template ∧ C08.isOk r = true := by
  unfold ExpState.sendBuilt at h
  split at h
  · simp at h; obtain ⟨rfl, _⟩ := h; exact absurd rfl hne
  · split at h
    · simp at h; obtain ⟨rfl, _⟩ := h; exact absurd rfl hne
    · simp only at h
      split at h
      · simp at h; obtain ⟨rfl, _⟩ := h; exact absurd rfl hne
      · simp at h
        obtain ⟨hst, hr⟩ := h
        subst hr
        by_cases ht : s.ty = .template
        · exact ⟨ht, rfl⟩
        · simp [ht] at hst; subst hst; exact absurd rfl hne

/-- a data record that is transmitted carries every value faithfully: it can only have been built
    from encodable values (`encodeRecord = some`), and by C02 `wire_data` + C15 `decode_encode`
    the collector-side reader recovers exactly those values; a value that cannot be encoded for
    its element makes the record unbuildable in the model - i.e. the send must be an error.
    The implementation transmits such records (finding D5); the check reports them. -/
theorem faithful_or_error (es : List Elem) (h : ∃ e ∈ es, encodeElem e.1 e.2 = none) :
    encodeRecord es = none := by
  induction es with
  | nil => obtain ⟨e, he, _⟩ := h; simp at he
  | cons x t ih =>
    obtain ⟨e, he, hn⟩ := h
    simp at he
    rcases he with rfl | he
    · obtain ⟨ie, v⟩ := e
      simp [encodeRecord, hn]
    · obtain ⟨ie, v⟩ := x
      simp only [encodeRecord]
      rw [ih ⟨e, he, hn⟩]
      cases encodeElem ie v <;> rfl

/-! ## Finding D12: set id and record template id may disagree -/

def d12State : ExpState := { templates := [(256, { fieldCount := 1, minLen := 1 })] }
def d12Rec : Rec := { isTemplate := false, tid := 256, fieldCount := 1, elems := [(C08.ieU8, .num 6)], bytes := [6] }
def d12Set : SetB := { header := [1, 45, 0, 0], ty := .data, recs := [d12Rec], length := 5 }

/-- the sanity check looks at the record's template id, the wire carries the set's id: with only
    template 256 recorded, a data set with set id 301 whose record names template 256 is sent -/
theorem d12_witness :
    C08.isOk (d12State.sendBuilt 0 d12Set).2 = true ∧ d12State.template 301 = none := by decide

end Ipfix.C09
