/-
  C09 - Exporter never emits an invalid, oversized or silently altered message.
-/
import IpfixModel.Props.C08
import IpfixModel.Model.RecordBuf
namespace Ipfix.C09
open ExpSpec

/-- a transmitted message is never longer than 65535 bytes (the exact boundary:
    16 + set length > MaxSocketMsgSize is refused before any write) -/
theorem size_bound (st st' : ExpState) (time : Nat) (s : SetB) (hi : C16.Inv s) (n : Nat) (w : Bytes)
    (h : st.sendBuilt time s = (st', .ok n w)) : w.length ≤ 65535 := by
  obtain ⟨_, _, _, hc⟩ := C08.send_ok st st' time s n w h
  have hi' : C16.Inv s.updateLen := C16.inv_step s .updateLen hi
  have := C16.createMsg_length s.updateLen hi' _ _ _ w hc
  omega

/-- a refused send transmits nothing (`SendResult.err` carries no bytes: the size and sanity checks
    precede the only `Write`) and leaves the exporter's template table and domain untouched, so
    every later send behaves as if the refused one had not happened - except for the counter,
    see C08 `failed_send_bumps_seq` -/
theorem error_leaves_state (st st' : ExpState) (time : Nat) (s : SetB)
    (h : st.sendBuilt time s = (st', .err)) : st'.templates = st.templates ∧ st'.dom = st.dom := by
  unfold ExpState.sendBuilt at h
  split at h
  · simp at h; subst h; exact ⟨rfl, rfl⟩
  · split at h
    · simp at h; subst h; exact ⟨rfl, rfl⟩
    · simp only at h
      split at h
      · simp at h; subst h; exact ⟨rfl, rfl⟩
      · simp at h

/-- a data set is transmitted only if every record names a template the exporter has recorded,
    with that template's field count and at least its minimum length - and (the repair of D12) that
    template's id is the Set ID that goes on the wire -/
theorem data_requires_registered_template (st st' : ExpState) (time : Nat) (s : SetB) (n : Nat) (w : Bytes)
    (hd : s.ty = .data) (h : st.sendBuilt time s = (st', .ok n w)) :
    ∀ r ∈ s.recs, r.tid = s.setId ∧
      ∃ t, st.template r.tid = some t ∧ r.fieldCount = t.fieldCount ∧ t.minLen ≤ r.bytes.length := by
  unfold ExpState.sendBuilt at h
  rw [hd] at h
  simp only at h
  split at h
  · simp at h
  · rename_i hsane
    simp at hsane
    intro r hr
    obtain ⟨htid, this⟩ := hsane r hr
    refine ⟨htid, ?_⟩
    unfold ExpState.sane at this
    split at this
    · simp at this
    · rename_i t ht
      simp at this
      exact ⟨t, ht, this.1, by omega⟩

/-- the exporter records a template only when the template set was actually transmitted
    (the repair of D6): the table changes only on a successful send of a template set -/
theorem registered_only_after_sent (st st' : ExpState) (time : Nat) (s : SetB) (r : SendResult)
    (h : st.sendBuilt time s = (st', r)) (hne : st'.templates ≠ st.templates) :
    s.ty = .template ∧ C08.isOk r = true := by
  unfold ExpState.sendBuilt at h
  split at h
  · simp at h; obtain ⟨rfl, _⟩ := h; exact absurd rfl hne
  · split at h
    · simp at h; obtain ⟨rfl, _⟩ := h; exact absurd rfl hne
    · simp only at h
      split at h
      · simp at h; obtain ⟨rfl, _⟩ := h; exact absurd rfl hne
      · simp at h
        obtain ⟨hst, hr⟩ := h
        subst hr
        by_cases ht : s.ty = .template
        · exact ⟨ht, rfl⟩
        · simp [ht] at hst; subst hst; exact absurd rfl hne

/-- a data record that is transmitted carries every value faithfully: it can only have been built
    from encodable values (`encodeRecord = some`), and by C02 `wire_data` + C15 `decode_encode`
    the collector-side reader recovers exactly those values; a value that cannot be encoded for
    its element makes the record unbuildable in the model - i.e. the send must be an error.
    The implementation transmits such records (finding D5); the check reports them. -/
theorem faithful_or_error (es : List Elem) (h : ∃ e ∈ es, encodeElem e.1 e.2 = none) :
    encodeRecord es = none := by
  induction es with
  | nil => obtain ⟨e, he, _⟩ := h; simp at he
  | cons x t ih =>
    obtain ⟨e, he, hn⟩ := h
    simp at he
    rcases he with rfl | he
    · obtain ⟨ie, v⟩ := e
      simp [encodeRecord, hn]
    · obtain ⟨ie, v⟩ := x
      simp only [encodeRecord]
      rw [ih ⟨e, he, hn⟩]
      cases encodeElem ie v <;> rfl

/-! ## D12 (repaired): set id and record template id may not disagree -/

def d12State : ExpState := { templates := [(256, { fieldCount := 1, minLen := 1 })] }
def d12Rec : Rec := { isTemplate := false, tid := 256, fieldCount := 1, elems := [(C08.ieU8, .num 6)], bytes := [6] }
def d12Set : SetB := { header := [1, 45, 0, 0], ty := .data, recs := [d12Rec], length := 5 }

/-- the old failing input: with only template 256 recorded, a data set with set id 301 whose record
    names template 256 used to be sent (the sanity check looked at the record's id, the wire carries
    the set's); it is refused now, and nothing is written -/
theorem d12_refused :
    (d12State.sendBuilt 0 d12Set).2 = .err ∧ d12State.template 301 = none ∧ d12Set.setId = 301 := by decide

/-- ... and in general: the Set ID on the wire of a transmitted data set is the id of a template that
    was recorded (hence, by `data_only_after_template_sent`, sent) - for a non-empty set -/
theorem wire_set_id_is_a_sent_template (st st' : ExpState) (time : Nat) (s : SetB) (n : Nat) (w : Bytes)
    (hd : s.ty = .data) (hne : s.recs ≠ []) (h : st.sendBuilt time s = (st', .ok n w)) :
    ∃ t, st.template s.setId = some t := by
  obtain ⟨r, hr⟩ := List.exists_mem_of_ne_nil _ hne
  obtain ⟨htid, t, ht, _⟩ := data_requires_registered_template st st' time s n w hd h r hr
  exact ⟨t, htid ▸ ht⟩

/-! ## History form: where the exporter's template table comes from -/

theorem register_mem (st : ExpState) (id : Nat) (t : TplInfo) (x : Nat × TplInfo)
    (hx : x ∈ (st.register id t).templates) : x ∈ st.templates ∨ x = (id, t) := by
  unfold ExpState.register at hx
  split at hx
  · exact .inl hx
  · simp at hx
    exact hx

theorem foldl_register_mem (l : List Rec) (st : ExpState) (x : Nat × TplInfo)
    (hx : x ∈ (l.foldl (fun acc r => acc.register r.tid
      { fieldCount := r.elems.length, minLen := minDataRecLen (r.elems.map (·.1)) }) st).templates) :
    x ∈ st.templates ∨ ∃ r' ∈ l, r'.tid = x.1 ∧ x.2.fieldCount = r'.elems.length := by
  induction l generalizing st with
  | nil => exact .inl hx
  | cons r t ih =>
    simp only [List.foldl_cons] at hx
    rcases ih _ hx with h | ⟨r', hr', h1, h2⟩
    · rcases register_mem _ _ _ _ h with h | h
      · exact .inl h
      · exact .inr ⟨r, by simp, by rw [h], by rw [h]⟩
    · exact .inr ⟨r', by simp [hr'], h1, h2⟩

/-- one SendSet: an entry of the table afterwards was there before, or the call was a successful
    send of a template set one of whose records defines it -/
theorem step_templates (st st' : ExpState) (time : Nat) (s : SetB) (r : SendResult)
    (h : st.sendBuilt time s = (st', r)) (x : Nat × TplInfo) (hx : x ∈ st'.templates) :
    x ∈ st.templates ∨ (s.ty = .template ∧ C08.isOk r = true ∧
      ∃ r' ∈ s.recs, r'.tid = x.1 ∧ x.2.fieldCount = r'.elems.length) := by
  unfold ExpState.sendBuilt at h
  split at h
  · simp at h; obtain ⟨rfl, _⟩ := h; exact .inl hx
  · split at h
    · simp at h; obtain ⟨rfl, _⟩ := h; exact .inl hx
    · simp only at h
      split at h
      · simp at h; obtain ⟨rfl, _⟩ := h; exact .inl hx
      · simp at h
        obtain ⟨hst, hr⟩ := h
        subst hr
        by_cases ht : s.ty = .template
        · simp only [ht, if_true] at hst
          subst hst
          rcases foldl_register_mem _ _ _ hx with h | h
          · exact .inl h
          · exact .inr ⟨ht, rfl, h⟩
        · simp [ht] at hst; subst hst; exact .inl hx

/-- a whole session: an entry of the table afterwards was there at the start, or some send of the
    session - a successful send of a template set - put it there -/
theorem session_templates (time : Nat) (pre : List SetB) (st0 : ExpState) (x : Nat × TplInfo)
    (hx : x ∈ (C08.sendAll time st0 pre).1.templates) :
    x ∈ st0.templates ∨ ∃ pre1 t pre2, pre = pre1 ++ t :: pre2 ∧ t.ty = .template ∧
      C08.isOk ((C08.sendAll time st0 pre1).1.sendBuilt time t).2 = true ∧
      ∃ r' ∈ t.recs, r'.tid = x.1 ∧ x.2.fieldCount = r'.elems.length := by
  induction pre generalizing st0 with
  | nil => exact .inl hx
  | cons s rest ih =>
    simp only [C08.sendAll] at hx
    rcases ih _ hx with h | ⟨pre1, t, pre2, hp, ht, hok, hr⟩
    · rcases step_templates st0 _ time s _ rfl x h with h | ⟨ht, hok, hr⟩
      · exact .inl h
      · exact .inr ⟨[], s, rest, rfl, ht, hok, hr⟩
    · exact .inr ⟨s :: pre1, t, pre2, by rw [hp]; rfl, ht, hok, hr⟩

/-- provenance of the exporter's template table over a whole session that starts with an empty table:
    SendSet transmits a data set only if, for every record of it, a template set containing a
    template record with that id and exactly that many fields was previously SENT (successfully)
    in the same session on the same exporting process -/
theorem data_only_after_template_sent (time : Nat) (st0 : ExpState) (h0 : st0.templates = [])
    (pre : List SetB) (s : SetB) (st' : ExpState) (n : Nat) (w : Bytes) (hd : s.ty = .data)
    (h : (C08.sendAll time st0 pre).1.sendBuilt time s = (st', .ok n w)) :
    ∀ r ∈ s.recs, ∃ pre1 t pre2, pre = pre1 ++ t :: pre2 ∧ t.ty = .template ∧
      C08.isOk ((C08.sendAll time st0 pre1).1.sendBuilt time t).2 = true ∧
      ∃ r' ∈ t.recs, r'.tid = r.tid ∧ r'.elems.length = r.fieldCount := by
  intro r hr
  obtain ⟨_, ti, hti, hfc, _⟩ := data_requires_registered_template _ st' time s n w hd h r hr
  unfold ExpState.template at hti
  cases hf : (C08.sendAll time st0 pre).1.templates.find? (·.1 == r.tid) with
  | none => simp [hf] at hti
  | some x =>
    simp [hf] at hti
    have hmem := List.mem_of_find?_eq_some hf
    have hkey := List.find?_some hf
    simp at hkey
    rcases session_templates time pre st0 x hmem with h | ⟨pre1, t, pre2, hp, ht, hok, r', hr', h1, h2⟩
    · rw [h0] at h; simp at h
    · exact ⟨pre1, t, pre2, hp, ht, hok, r', hr', by rw [h1, hkey], by rw [← h2, hti, hfc]⟩

/-- a refused send does not disturb what follows: the next send from the state it leaves behaves,
    byte for byte, like the same send from a state with the same counter that never saw the refusal -/
theorem refusal_is_transparent (st st' : ExpState) (time : Nat) (s : SetB)
    (h : st.sendBuilt time s = (st', .err)) (time2 : Nat) (s2 : SetB) :
    st'.sendBuilt time2 s2 = ({ st with seq := st'.seq }).sendBuilt time2 s2 := by
  have he : st' = { st with seq := st'.seq } := by
    unfold ExpState.sendBuilt at h
    split at h
    · simp at h; subst h; rfl
    · split at h
      · simp at h; subst h; rfl
      · simp only at h
        split at h
        · simp at h; subst h; rfl
        · simp at h
  rw [← he]


/-- "... and later sends still produce well-formed messages": WHATEVER the exporter went through
    before (any mix of successful and refused sends - the statement is about an arbitrary state
    `st`), a send that succeeds writes one message that the independent parser reads as version 10,
    header length = bytes written ≤ 65535, the time handed in, the new counter, the configured
    domain, and exactly one set with the prepared id whose length covers the rest of the message -/
theorem every_sent_message_parses (st st' : ExpState) (time : Nat) (s : SetB) (n : Nat) (w : Bytes) (sid : Nat)
    (hi : C16.Inv s) (hhdr : s.header.take 2 = be 2 sid) (hsid : sid < 65536)
    (hd : st.dom < 4294967296) (hs : st.seq < 4294967296) (ht : time < 4294967296)
    (h : st.sendBuilt time s = (st', .ok n w)) :
    ∃ m, ExpSpec.parseMessage w = some m ∧ m.version = 10 ∧ m.length = w.length ∧ w.length ≤ 65535 ∧ n = w.length ∧
      m.time = time ∧ m.seq = st'.seq ∧ m.dom = st.dom ∧ m.setId = sid ∧ m.setLen = w.length - 16 ∧
      m.body = (s.recs.map (·.bytes)).flatten := by
  obtain ⟨hn, _, hseq, hc⟩ := C08.send_ok st st' time s n w h
  have hi' : C16.Inv s.updateLen := C16.inv_step s .updateLen hi
  have hs' : st'.seq < 4294967296 := by
    rw [hseq]; split
    · exact Nat.mod_lt _ (by decide)
    · exact hs
  have hh : s.updateLen.header = be 2 sid ++ be 2 s.updateLen.length := by simp [SetB.updateLen, hhdr]
  obtain ⟨m, h1, h2, h3, h4, h5, h6, h7, h8, h9⟩ := C02.wire_header s.updateLen st.dom st'.seq time sid w hc hi' hh hsid hd hs' ht
  exact ⟨m, h1, h2, h3, size_bound st st' time s hi n w h, hn, h4, h5, h6, h7, h8, by simpa [SetB.updateLen] using h9⟩

/-! ## Finding D5, exactly: what the code transmits where the specification encoder refuses -/

/-- Finding D5 with the exact model of `dataRecord.GetBuffer()` (`recordBuf`, Model/RecordBuf.lean,
    tied to the code by the differential run `ie recbuf` of C15): a record port 443, an IPv6
    address (2001:db8::1) as value of the IPv4 element `sourceIPv4Address`, port 80. The
    specification encoder refuses it (`encodeRecord = none`, hence `faithful_or_error`: the send
    must be an error). The code logs the element's error, leaves its four bytes ZERO and sends
    the record: the collector reads the address 0.0.0.0, silently altered. -/
theorem d5_exact_witness :
    ∃ es : List Elem, encodeRecord es = none ∧ recordBuf es = [1, 187, 0, 0, 0, 0, 0, 80] :=
  ⟨[(⟨"sourceTransportPort", 7, .unsigned16, 0, 2⟩, .num 443),
    (⟨"sourceIPv4Address", 8, .ipv4Address, 0, 4⟩,
      .bytes [0x20, 0x01, 0x0d, 0xb8, 0, 0, 0, 0, 0, 0, 0, 0, 0, 0, 0, 1]),
    (⟨"destinationTransportPort", 11, .unsigned16, 0, 2⟩, .num 80)], by decide, by decide⟩

end Ipfix.C09
