/-
  C09 - Exporter never emits an invalid, oversized or silently altered message.
-/
import IpfixModel.Props.C08
import IpfixModel.Model.RecordBuf
namespace Ipfix.C09
open ExpSpec

/-- a transmitted message is never longer than 65535 bytes (the exact boundary:
    16 + set length > MaxSocketMsgSize is refused before any write) -/
theorem size_bound (st st' : ExpState) (time : Nat) (s : SetB) (hi : C16.Inv s) (n : Nat) (w : Bytes)
    (h : st.sendBuilt time s = (st', .ok n w)) : w.length ≤ 65535 := by
  obtain ⟨_, _, _, hc⟩ := C08.send_ok st st' time s n w h
  have hi' : C16.Inv s.updateLen := C16.inv_step s .updateLen hi
  have := C16.createMsg_length s.updateLen hi' _ _ _ w hc
  omega

/-- the limit does not depend on what was sent before: a set whose message would exceed MaxSocketMsgSize is
    refused by the exporting process in EVERY state - whatever it has sent, however large - and, under every
    outcome the connection could give a Write, nothing reaches the connection -/
theorem oversize_refused_in_every_state (st : ExpState) (time : Nat) (s : SetB)
    (h : Generated.cMsgHeaderLength + s.updateLen.length > Generated.cMaxSocketMsgSize) :
    (st.sendBuilt time s).2 = .err ∧ ∀ w, st.wroteW time s w = [] := by
  have h1 : (st.sendBuilt time s).2 = .err := by
    unfold ExpState.sendBuilt
    split
    · rfl
    · split
      · rfl
      · simp only [createMsg, h, if_true]
  refine ⟨h1, fun w => ?_⟩
  unfold ExpState.wroteW
  rw [h1]

/-- non-vacuity: a template set of reported length 65520 (message 65536 bytes) meets the hypothesis, one of 65519 does not -/
example : Generated.cMsgHeaderLength + ({ length := 65520 } : SetB).updateLen.length > Generated.cMaxSocketMsgSize ∧
    ¬ (Generated.cMsgHeaderLength + ({ length := 65519 } : SetB).updateLen.length > Generated.cMaxSocketMsgSize) := by decide

/-- a refused send transmits nothing (`SendResult.err` carries no bytes: the size and sanity checks
    precede the only `Write`) and leaves the exporter's template table and domain untouched, so
    every later send behaves as if the refused one had not happened - except for the counter,
    see C08 `failed_send_bumps_seq` -/
theorem error_leaves_state (st st' : ExpState) (time : Nat) (s : SetB)
    (h : st.sendBuilt time s = (st', .err)) : st'.templates = st.templates ∧ st'.dom = st.dom := by
  unfold ExpState.sendBuilt at h
  split at h
  · simp at h; subst h; exact ⟨rfl, rfl⟩
  · split at h
    · simp at h; subst h; exact ⟨rfl, rfl⟩
    · simp only at h
      split at h
      · simp at h; subst h; exact ⟨rfl, rfl⟩
      · simp at h

/-- a data set is transmitted only if every record names a template the exporter has recorded,
    with that template's field count and at least its minimum length - and (the repair of D12) that
    template's id is the Set ID that goes on the wire -/
theorem data_requires_registered_template (st st' : ExpState) (time : Nat) (s : SetB) (n : Nat) (w : Bytes)
    (hd : s.ty = .data) (h : st.sendBuilt time s = (st', .ok n w)) :
    ∀ r ∈ s.recs, r.tid = s.setId ∧
      ∃ t, st.template r.tid = some t ∧ r.fieldCount = t.fieldCount ∧ t.minLen ≤ r.bytes.length := by
  unfold ExpState.sendBuilt at h
  rw [hd] at h
  simp only at h
  split at h
  · simp at h
  · rename_i hsane
    simp at hsane
    intro r hr
    obtain ⟨htid, this⟩ := hsane r hr
    refine ⟨htid, ?_⟩
    unfold ExpState.sane at this
    split at this
    · simp at this
    · rename_i t ht
      simp at this
      exact ⟨t, ht, this.1, by omega⟩

/-- the exporter records a template only when the template set was actually transmitted
    (the repair of D6): the table changes only on a successful send of a template set -/
theorem registered_only_after_sent (st st' : ExpState) (time : Nat) (s : SetB) (r : SendResult)
    (h : st.sendBuilt time s = (st', r)) (hne : st'.templates ≠ st.templates) :
    s.ty = .template ∧ C08.isOk r = true := by
  unfold ExpState.sendBuilt at h
  split at h
  · simp at h; obtain ⟨rfl, _⟩ := h; exact absurd rfl hne
  · split at h
    · simp at h; obtain ⟨rfl, _⟩ := h; exact absurd rfl hne
    · simp only at h
      split at h
      · simp at h; obtain ⟨rfl, _⟩ := h; exact absurd rfl hne
      · simp at h
        obtain ⟨hst, hr⟩ := h
        subst hr
        by_cases ht : s.ty = .template
        · exact ⟨ht, rfl⟩
        · simp [ht] at hst; subst hst; exact absurd rfl hne

/-- a data record that is transmitted carries every value faithfully: it can only have been built
    from encodable values (`encodeRecord = some`), and by C02 `wire_data` + C15 `decode_encode`
    the collector-side reader recovers exactly those values; a value that cannot be encoded for
    its element makes the record unbuildable in the model - i.e. the send must be an error.
    The implementation transmits such records (finding D5); the check reports them. -/
theorem faithful_or_error (es : List Elem) (h : ∃ e ∈ es, encodeElem e.1 e.2 = none) :
    encodeRecord es = none := by
  induction es with
  | nil => obtain ⟨e, he, _⟩ := h; simp at he
  | cons x t ih =>
    obtain ⟨e, he, hn⟩ := h
    simp at he
    rcases he with rfl | he
    · obtain ⟨ie, v⟩ := e
      simp [encodeRecord, hn]
    · obtain ⟨ie, v⟩ := x
      simp only [encodeRecord]
      rw [ih ⟨e, he, hn⟩]
      cases encodeElem ie v <;> rfl

/-! ## D12 (repaired): set id and record template id may not disagree -/

def d12State : ExpState := { templates := [(256, { fieldCount := 1, minLen := 1 })] }
def d12Rec : Rec := { isTemplate := false, tid := 256, fieldCount := 1, elems := [(C08.ieU8, .num 6)], bytes := [6] }
def d12Set : SetB := { header := [1, 45, 0, 0], ty := .data, recs := [d12Rec], length := 5 }

/-- the old failing input: with only template 256 recorded, a data set with set id 301 whose record
    names template 256 used to be sent (the sanity check looked at the record's id, the wire carries
    the set's); it is refused now, and nothing is written -/
theorem d12_refused :
    (d12State.sendBuilt 0 d12Set).2 = .err ∧ d12State.template 301 = none ∧ d12Set.setId = 301 := by decide

/-- ... and in general: the Set ID on the wire of a transmitted data set is the id of a template that
    was recorded (hence, by `data_only_after_template_sent`, sent) - for a non-empty set -/
theorem wire_set_id_is_a_sent_template (st st' : ExpState) (time : Nat) (s : SetB) (n : Nat) (w : Bytes)
    (hd : s.ty = .data) (hne : s.recs ≠ []) (h : st.sendBuilt time s = (st', .ok n w)) :
    ∃ t, st.template s.setId = some t := by
  obtain ⟨r, hr⟩ := List.exists_mem_of_ne_nil _ hne
  obtain ⟨htid, t, ht, _⟩ := data_requires_registered_template st st' time s n w hd h r hr
  exact ⟨t, htid ▸ ht⟩

/-! ## History form: where the exporter's template table comes from -/

theorem register_mem (st : ExpState) (id : Nat) (t : TplInfo) (x : Nat × TplInfo)
    (hx : x ∈ (st.register id t).templates) : x ∈ st.templates ∨ x = (id, t) := by
  unfold ExpState.register at hx
  split at hx
  · exact .inl hx
  · simp at hx
    exact hx

theorem foldl_register_mem (l : List Rec) (st : ExpState) (x : Nat × TplInfo)
    (hx : x ∈ (l.foldl (fun acc r => acc.register r.tid
      { fieldCount := r.elems.length, minLen := minDataRecLen (r.elems.map (·.1)) }) st).templates) :
    x ∈ st.templates ∨ ∃ r' ∈ l, r'.tid = x.1 ∧ x.2.fieldCount = r'.elems.length := by
  induction l generalizing st with
  | nil => exact .inl hx
  | cons r t ih =>
    simp only [List.foldl_cons] at hx
    rcases ih _ hx with h | ⟨r', hr', h1, h2⟩
    · rcases register_mem _ _ _ _ h with h | h
      · exact .inl h
      · exact .inr ⟨r, by simp, by rw [h], by rw [h]⟩
    · exact .inr ⟨r', by simp [hr'], h1, h2⟩

/-- one SendSet: an entry of the table afterwards was there before, or the call was a successful
    send of a template set one of whose records defines it -/
theorem step_templates (st st' : ExpState) (time : Nat) (s : SetB) (r : SendResult)
    (h : st.sendBuilt time s = (st', r)) (x : Nat × TplInfo) (hx : x ∈ st'.templates) :
    x ∈ st.templates ∨ (s.ty = .template ∧ C08.isOk r = true ∧
      ∃ r' ∈ s.recs, r'.tid = x.1 ∧ x.2.fieldCount = r'.elems.length) := by
  unfold ExpState.sendBuilt at h
  split at h
  · simp at h; obtain ⟨rfl, _⟩ := h; exact .inl hx
  · split at h
    · simp at h; obtain ⟨rfl, _⟩ := h; exact .inl hx
    · simp only at h
      split at h
      · simp at h; obtain ⟨rfl, _⟩ := h; exact .inl hx
      · simp at h
        obtain ⟨hst, hr⟩ := h
        subst hr
        by_cases ht : s.ty = .template
        · simp only [ht, if_true] at hst
          subst hst
          rcases foldl_register_mem _ _ _ hx with h | h
          · exact .inl h
          · exact .inr ⟨ht, rfl, h⟩
        · simp [ht] at hst; subst hst; exact .inl hx

/-- a whole session: an entry of the table afterwards was there at the start, or some send of the
    session - a successful send of a template set - put it there -/
theorem session_templates (time : Nat) (pre : List SetB) (st0 : ExpState) (x : Nat × TplInfo)
    (hx : x ∈ (C08.sendAll time st0 pre).1.templates) :
    x ∈ st0.templates ∨ ∃ pre1 t pre2, pre = pre1 ++ t :: pre2 ∧ t.ty = .template ∧
      C08.isOk ((C08.sendAll time st0 pre1).1.sendBuilt time t).2 = true ∧
      ∃ r' ∈ t.recs, r'.tid = x.1 ∧ x.2.fieldCount = r'.elems.length := by
  induction pre generalizing st0 with
  | nil => exact .inl hx
  | cons s rest ih =>
    simp only [C08.sendAll] at hx
    rcases ih _ hx with h | ⟨pre1, t, pre2, hp, ht, hok, hr⟩
    · rcases step_templates st0 _ time s _ rfl x h with h | ⟨ht, hok, hr⟩
      · exact .inl h
      · exact .inr ⟨[], s, rest, rfl, ht, hok, hr⟩
    · exact .inr ⟨s :: pre1, t, pre2, by rw [hp]; rfl, ht, hok, hr⟩

/-- provenance of the exporter's template table over a whole session that starts with an empty table:
    SendSet transmits a data set only if, for every record of it, a template set containing a
    template record with that id and exactly that many fields was previously SENT (successfully)
    in the same session on the same exporting process -/
theorem data_only_after_template_sent (time : Nat) (st0 : ExpState) (h0 : st0.templates = [])
    (pre : List SetB) (s : SetB) (st' : ExpState) (n : Nat) (w : Bytes) (hd : s.ty = .data)
    (h : (C08.sendAll time st0 pre).1.sendBuilt time s = (st', .ok n w)) :
    ∀ r ∈ s.recs, ∃ pre1 t pre2, pre = pre1 ++ t :: pre2 ∧ t.ty = .template ∧
      C08.isOk ((C08.sendAll time st0 pre1).1.sendBuilt time t).2 = true ∧
      ∃ r' ∈ t.recs, r'.tid = r.tid ∧ r'.elems.length = r.fieldCount := by
  intro r hr
  obtain ⟨_, ti, hti, hfc, _⟩ := data_requires_registered_template _ st' time s n w hd h r hr
  unfold ExpState.template at hti
  cases hf : (C08.sendAll time st0 pre).1.templates.find? (·.1 == r.tid) with
  | none => simp [hf] at hti
  | some x =>
    simp [hf] at hti
    have hmem := List.mem_of_find?_eq_some hf
    have hkey := List.find?_some hf
    simp at hkey
    rcases session_templates time pre st0 x hmem with h | ⟨pre1, t, pre2, hp, ht, hok, r', hr', h1, h2⟩
    · rw [h0] at h; simp at h
    · exact ⟨pre1, t, pre2, hp, ht, hok, r', hr', by rw [h1, hkey], by rw [← h2, hti, hfc]⟩

/-- a refused send does not disturb what follows: the next send from the state it leaves behaves,
    byte for byte, like the same send from a state with the same counter that never saw the refusal -/
theorem refusal_is_transparent (st st' : ExpState) (time : Nat) (s : SetB)
    (h : st.sendBuilt time s = (st', .err)) (time2 : Nat) (s2 : SetB) :
    st'.sendBuilt time2 s2 = ({ st with seq := st'.seq }).sendBuilt time2 s2 := by
  have he : st' = { st with seq := st'.seq } := by
    unfold ExpState.sendBuilt at h
    split at h
    · simp at h; subst h; rfl
    · split at h
      · simp at h; subst h; rfl
      · simp only at h
        split at h
        · simp at h; subst h; rfl
        · simp at h
  rw [← he]


/-- "... and later sends still produce well-formed messages": WHATEVER the exporter went through
    before (any mix of successful and refused sends - the statement is about an arbitrary state
    `st`), a send that succeeds writes one message that the independent parser reads as version 10,
    header length = bytes written ≤ 65535, the time handed in, the new counter, the configured
    domain, and exactly one set with the prepared id whose length covers the rest of the message -/
theorem every_sent_message_parses (st st' : ExpState) (time : Nat) (s : SetB) (n : Nat) (w : Bytes) (sid : Nat)
    (hi : C16.Inv s) (hhdr : s.header.take 2 = be 2 sid) (hsid : sid < 65536)
    (hd : st.dom < 4294967296) (hs : st.seq < 4294967296) (ht : time < 4294967296)
    (h : st.sendBuilt time s = (st', .ok n w)) :
    ∃ m, ExpSpec.parseMessage w = some m ∧ m.version = 10 ∧ m.length = w.length ∧ w.length ≤ 65535 ∧ n = w.length ∧
      m.time = time ∧ m.seq = st'.seq ∧ m.dom = st.dom ∧ m.setId = sid ∧ m.setLen = w.length - 16 ∧
      m.body = (s.recs.map (·.bytes)).flatten := by
  obtain ⟨hn, _, hseq, hc⟩ := C08.send_ok st st' time s n w h
  have hi' : C16.Inv s.updateLen := C16.inv_step s .updateLen hi
  have hs' : st'.seq < 4294967296 := by
    rw [hseq]; split
    · exact Nat.mod_lt _ (by decide)
    · exact hs
  have hh : s.updateLen.header = be 2 sid ++ be 2 s.updateLen.length := by simp [SetB.updateLen, hhdr]
  obtain ⟨m, h1, h2, h3, h4, h5, h6, h7, h8, h9⟩ := C02.wire_header s.updateLen st.dom st'.seq time sid w hc hi' hh hsid hd hs' ht
  exact ⟨m, h1, h2, h3, size_bound st st' time s hi n w h, hn, h4, h5, h6, h7, h8, by simpa [SetB.updateLen] using h9⟩

/-! ## Finding D5, exactly: what the code transmits where the specification encoder refuses -/

/-- Finding D5 with the exact model of `dataRecord.GetBuffer()` (`recordBuf`, Model/RecordBuf.lean,
    tied to the code by the differential run `ie recbuf` of C15): a record port 443, an IPv6
    address (2001:db8::1) as value of the IPv4 element `sourceIPv4Address`, port 80. The
    specification encoder refuses it (`encodeRecord = none`, hence `faithful_or_error`: the send
    must be an error). The code logs the element's error, leaves its four bytes ZERO and sends
    the record: the collector reads the address 0.0.0.0, silently altered. -/
theorem d5_exact_witness :
    ∃ es : List Elem, encodeRecord es = none ∧ recordBuf es = [1, 187, 0, 0, 0, 0, 0, 80] :=
  ⟨[(⟨"sourceTransportPort", 7, .unsigned16, 0, 2⟩, .num 443),
    (⟨"sourceIPv4Address", 8, .ipv4Address, 0, 4⟩,
      .bytes [0x20, 0x01, 0x0d, 0xb8, 0, 0, 0, 0, 0, 0, 0, 0, 0, 0, 0, 1]),
    (⟨"destinationTransportPort", 11, .unsigned16, 0, 2⟩, .num 80)], by decide, by decide⟩

/-! ## Write outcomes: the connection may fail a Write or take only part of the message

  `ExpState.sendBuiltW` (Model/Exporter.lean) is SendSet with the outcome of its Write as a parameter;
  with the outcome `ok` it IS `sendBuilt`, so every theorem above speaks about the same function. -/

/-- with a complete Write, `sendBuiltW` is `sendBuilt` -/
theorem sendBuiltW_ok (st : ExpState) (time : Nat) (s : SetB) :
    st.sendBuiltW time s .ok = st.sendBuilt time s := by
  unfold ExpState.sendBuiltW ExpState.sendBuilt
  split
  · rfl
  · split
    · rfl
    · simp only [WriteOutcome.complete]
      split <;> simp

/-- under any outcome SendSet either behaves exactly as with a connection that never fails, or - the
    message was built, the Write was not complete - it is an error that keeps the template table and
    the domain and has advanced the counter of a data set -/
theorem sendBuiltW_cases (st : ExpState) (time : Nat) (s : SetB) (w : WriteOutcome) :
    st.sendBuiltW time s w = st.sendBuilt time s ∨
    (∃ n m, (st.sendBuilt time s).2 = .ok n m ∧ w.complete m.length = false ∧
      (st.sendBuiltW time s w).2 = .err ∧ (st.sendBuiltW time s w).1.templates = st.templates ∧
      (st.sendBuiltW time s w).1.dom = st.dom ∧
      (st.sendBuiltW time s w).1.seq = (if s.ty = .data then (st.seq + s.recs.length) % 4294967296 else st.seq)) := by
  unfold ExpState.sendBuiltW ExpState.sendBuilt
  split
  · exact .inl rfl
  · split
    · exact .inl rfl
    · simp only
      split
      · exact .inl rfl
      · rename_i m hm
        by_cases hc : w.complete m.length = true
        · simp [hc]
        · simp at hc
          refine .inr ⟨m.length, m, rfl, hc, ?_⟩
          simp [hc, SetB.updateLen]

/-- SendSet reports success under the outcome `w` exactly when it would with a connection that never
    fails AND `w` is a complete write of that message -/
theorem sendBuiltW_ok_iff (st : ExpState) (time : Nat) (s : SetB) (w : WriteOutcome) (n : Nat) (m : Bytes) :
    (st.sendBuiltW time s w).2 = .ok n m ↔ ((st.sendBuilt time s).2 = .ok n m ∧ w.complete m.length = true) := by
  unfold ExpState.sendBuiltW ExpState.sendBuilt
  split
  · simp
  · split
    · simp
    · simp only
      split
      · simp
      · rename_i m' hm
        by_cases hc : w.complete m'.length = true
        · simp [hc]
          intro _ h; subst h; exact hc
        · simp at hc
          simp [hc]
          intro _ h; subst h; simp [hc]

theorem sendBuiltW_state_of_ok (st : ExpState) (time : Nat) (s : SetB) (w : WriteOutcome) (n : Nat) (m : Bytes)
    (h : (st.sendBuiltW time s w).2 = .ok n m) : st.sendBuiltW time s w = st.sendBuilt time s := by
  rcases sendBuiltW_cases st time s w with h1 | ⟨_, _, _, _, herr, _⟩
  · exact h1
  · rw [herr] at h; simp at h


/-- a Write that fails, or that is short, makes SendSet an error that records NOTHING: whatever the
    state, the set (a template set in particular) and the outcome, if the outcome is not a complete
    write of the message SendSet built, the result is an error and the template table and the domain
    are what they were; the counter of a data set has already been advanced (atomic.AddUint32 precedes
    the Write) -/
theorem failed_write_registers_nothing (st : ExpState) (time : Nat) (s : SetB) (w : WriteOutcome)
    (hw : ∀ n m, (st.sendBuilt time s).2 = .ok n m → w.complete m.length = false) :
    (st.sendBuiltW time s w).2 = .err ∧ (st.sendBuiltW time s w).1.templates = st.templates ∧
    (st.sendBuiltW time s w).1.dom = st.dom ∧
    ((∃ n m, (st.sendBuilt time s).2 = .ok n m) →
      (st.sendBuiltW time s w).1.seq = (if s.ty = .data then (st.seq + s.recs.length) % 4294967296 else st.seq)) := by
  rcases sendBuiltW_cases st time s w with h1 | ⟨n, m, hok, _, herr, ht, hdm, hsq⟩
  · rw [h1]
    cases hr : (st.sendBuilt time s).2 with
    | ok n m =>
      have := (sendBuiltW_ok_iff st time s w n m).1 (by rw [h1]; exact hr)
      rw [hw n m hr] at this
      simp at this
    | err =>
      have he : st.sendBuilt time s = ((st.sendBuilt time s).1, .err) := by rw [← hr]
      obtain ⟨h2, h3⟩ := error_leaves_state st _ time s he
      exact ⟨rfl, h2, h3, fun ⟨n, m, h⟩ => by simp at h⟩
  · exact ⟨herr, ht, hdm, fun _ => hsq⟩

/-- the two instances: a Write error (ECONNREFUSED of a connected UDP socket, a closed pipe, ...) ... -/
theorem write_error_registers_nothing (st : ExpState) (time : Nat) (s : SetB) :
    (st.sendBuiltW time s .fail).2 = .err ∧ (st.sendBuiltW time s .fail).1.templates = st.templates :=
  let h := failed_write_registers_nothing st time s .fail (fun _ _ _ => rfl)
  ⟨h.1, h.2.1⟩

/-- ... and a Write that took only `k` bytes of a longer message and reported no error -/
theorem short_write_registers_nothing (st : ExpState) (time : Nat) (s : SetB) (k : Nat)
    (hk : ∀ n m, (st.sendBuilt time s).2 = .ok n m → k < m.length) :
    (st.sendBuiltW time s (.short k)).2 = .err ∧ (st.sendBuiltW time s (.short k)).1.templates = st.templates :=
  let h := failed_write_registers_nothing st time s (.short k) (fun n m hm => by
    have := hk n m hm
    simp [WriteOutcome.complete]; omega)
  ⟨h.1, h.2.1⟩

/-- what reaches the connection is a prefix of the message SendSet built: all of it, nothing (failed
    Write, or a send refused before the Write), or the first `k` bytes -/
theorem wroteW_prefix (st : ExpState) (time : Nat) (s : SetB) (w : WriteOutcome) :
    (st.wroteW time s w = [] ∧ (w = .fail ∨ (st.sendBuilt time s).2 = .err)) ∨
    ∃ n m, (st.sendBuilt time s).2 = .ok n m ∧
      ((w = .ok ∧ st.wroteW time s w = m) ∨ ∃ k, w = .short k ∧ st.wroteW time s w = m.take k) := by
  unfold ExpState.wroteW
  cases hr : (st.sendBuilt time s).2 with
  | err => exact .inl ⟨rfl, .inr rfl⟩
  | ok n m =>
    cases w with
    | ok => exact .inr ⟨n, m, rfl, .inl ⟨rfl, rfl⟩⟩
    | fail => exact .inl ⟨rfl, .inl rfl⟩
    | short k => exact .inr ⟨n, m, rfl, .inr ⟨k, rfl, rfl⟩⟩

/-- a send that SendSet refuses on its own (type, sanity, size) writes nothing under any outcome, and
    is the same refusal: the outcome of a Write that is never made does not matter -/
theorem refusal_precedes_write (st : ExpState) (time : Nat) (s : SetB) (w : WriteOutcome)
    (h : (st.sendBuilt time s).2 = .err) :
    st.sendBuiltW time s w = st.sendBuilt time s ∧ st.wroteW time s w = [] := by
  refine ⟨?_, by simp [ExpState.wroteW, h]⟩
  rcases sendBuiltW_cases st time s w with h1 | ⟨n, m, hok, _⟩
  · exact h1
  · rw [h] at hok; simp at hok

/-! ### History form with write outcomes -/

/-- a session: every SendSet with its export time and the outcome of its Write -/
def sendAllW : ExpState → List (Nat × SetB × WriteOutcome) → ExpState
  | st, [] => st
  | st, x :: rest => sendAllW (st.sendBuiltW x.1 x.2.1 x.2.2).1 rest

/-- one SendSet under any outcome: an entry of the table afterwards was there before, or the call was
    a send of a template set that reported success - i.e. whose Write was complete - and one of
    whose records defines it -/
theorem stepW_templates (st : ExpState) (time : Nat) (s : SetB) (w : WriteOutcome) (x : Nat × TplInfo)
    (hx : x ∈ (st.sendBuiltW time s w).1.templates) :
    x ∈ st.templates ∨ (s.ty = .template ∧
      (∃ n m, (st.sendBuiltW time s w).2 = .ok n m ∧ w.complete m.length = true) ∧
      ∃ r' ∈ s.recs, r'.tid = x.1 ∧ x.2.fieldCount = r'.elems.length) := by
  rcases sendBuiltW_cases st time s w with h1 | ⟨_, _, _, _, _, ht, _⟩
  · rw [h1] at hx
    have hstep := step_templates st (st.sendBuilt time s).1 time s (st.sendBuilt time s).2 rfl x hx
    rcases hstep with h | ⟨hty, hok, hr⟩
    · exact .inl h
    · refine .inr ⟨hty, ?_, hr⟩
      cases hres : (st.sendBuilt time s).2 with
      | err => rw [hres] at hok; simp [C08.isOk] at hok
      | ok n m =>
        have h2 : (st.sendBuiltW time s w).2 = .ok n m := by rw [h1]; exact hres
        exact ⟨n, m, h2, ((sendBuiltW_ok_iff st time s w n m).1 h2).2⟩
  · rw [ht] at hx; exact .inl hx

theorem sessionW_templates (pre : List (Nat × SetB × WriteOutcome)) (st0 : ExpState) (x : Nat × TplInfo)
    (hx : x ∈ (sendAllW st0 pre).templates) :
    x ∈ st0.templates ∨ ∃ pre1 tt t wt pre2, pre = pre1 ++ (tt, t, wt) :: pre2 ∧ t.ty = .template ∧
      (∃ n m, ((sendAllW st0 pre1).sendBuiltW tt t wt).2 = .ok n m ∧ wt.complete m.length = true) ∧
      ∃ r' ∈ t.recs, r'.tid = x.1 ∧ x.2.fieldCount = r'.elems.length := by
  induction pre generalizing st0 with
  | nil => exact .inl hx
  | cons p rest ih =>
    obtain ⟨tt, s, w⟩ := p
    simp only [sendAllW] at hx
    rcases ih _ hx with h | ⟨pre1, tt', t, wt, pre2, hp, ht, hok, hr⟩
    · rcases stepW_templates st0 tt s w x h with h | ⟨ht, hok, hr⟩
      · exact .inl h
      · exact .inr ⟨[], tt, s, w, rest, rfl, ht, hok, hr⟩
    · exact .inr ⟨(tt, s, w) :: pre1, tt', t, wt, pre2, by rw [hp]; rfl, ht, hok, hr⟩

/-- `data_only_after_template_sent` with the connection in the picture: in ANY sequence of SendSet
    calls, each with an arbitrary outcome of its Write (complete, failed, short), starting from an empty
    template table, a data set that is transmitted (SendSet reports success) has, for every record, a
    template set EARLIER in the sequence whose Write was COMPLETE - SendSet reported success for it
    under its outcome - containing a template record with that id and exactly that many fields.
    A template whose Write failed (the ECONNREFUSED of seeded change 1) does not count. -/
theorem data_only_after_template_WRITTEN (st0 : ExpState) (h0 : st0.templates = [])
    (pre : List (Nat × SetB × WriteOutcome)) (time : Nat) (s : SetB) (w : WriteOutcome)
    (n : Nat) (m : Bytes) (hd : s.ty = .data)
    (h : ((sendAllW st0 pre).sendBuiltW time s w).2 = .ok n m) :
    ∀ r ∈ s.recs, ∃ pre1 tt t wt pre2, pre = pre1 ++ (tt, t, wt) :: pre2 ∧ t.ty = .template ∧
      (∃ n' m', ((sendAllW st0 pre1).sendBuiltW tt t wt).2 = .ok n' m' ∧ wt.complete m'.length = true) ∧
      ∃ r' ∈ t.recs, r'.tid = r.tid ∧ r'.elems.length = r.fieldCount := by
  intro r hr
  have hs := ((sendBuiltW_ok_iff _ time s w n m).1 h).1
  have he : (sendAllW st0 pre).sendBuilt time s = (((sendAllW st0 pre).sendBuilt time s).1, .ok n m) := by rw [← hs]
  obtain ⟨_, ti, hti, hfc, _⟩ := data_requires_registered_template _ _ time s n m hd he r hr
  unfold ExpState.template at hti
  cases hf : (sendAllW st0 pre).templates.find? (·.1 == r.tid) with
  | none => simp [hf] at hti
  | some x =>
    simp [hf] at hti
    have hmem := List.mem_of_find?_eq_some hf
    have hkey := List.find?_some hf
    simp at hkey
    rcases sessionW_templates pre st0 x hmem with h | ⟨pre1, tt, t, wt, pre2, hp, ht, hok, r', hr', h1, h2⟩
    · rw [h0] at h; simp at h
    · exact ⟨pre1, tt, t, wt, pre2, hp, ht, hok, r', hr', by rw [h1, hkey], by rw [← h2, hti, hfc]⟩

/-- with every Write complete the session is the old one -/
theorem sendAllW_ok (time : Nat) (st0 : ExpState) (pre : List SetB) :
    sendAllW st0 (pre.map fun s => (time, s, .ok)) = (C08.sendAll time st0 pre).1 := by
  induction pre generalizing st0 with
  | nil => rfl
  | cons s rest ih => simp only [List.map_cons, sendAllW, C08.sendAll, sendBuiltW_ok]; exact ih _

/-! ### Non-vacuity: the session of seeded change 1 in the model -/

def wTplRec : Rec := { isTemplate := true, tid := 256, fieldCount := 1, elems := [(C08.ieU8, .num 0)], bytes := [1, 0, 0, 1, 0, 4, 0, 1] }
def wTplSet : SetB := { header := [0, 2, 0, 0], ty := .template, recs := [wTplRec], length := 12 }
def wDataSet : SetB := C08.dataSet 1

/-- a template set whose Write fails, then a data set for it: refused (nothing recorded) ... -/
example : ((sendAllW {} [(0, wTplSet, .fail)]).sendBuiltW 0 wDataSet .ok).2 = .err := by decide
/-- ... also when the Write was short by one byte ... -/
example : ((sendAllW {} [(0, wTplSet, .short 27)]).sendBuiltW 0 wDataSet .ok).2 = .err := by decide
/-- ... and after a re-send whose Write is complete the same data set IS transmitted: the hypotheses of
    `data_only_after_template_WRITTEN` are satisfiable, and its witness is the second send, not the first -/
example : C08.isOk ((sendAllW {} [(0, wTplSet, .fail), (0, wTplSet, .ok)]).sendBuiltW 0 wDataSet .ok).2 = true := by decide
example : C08.isOk (({} : ExpState).sendBuiltW 0 wTplSet .ok).2 = true ∧ (({} : ExpState).sendBuiltW 0 wTplSet .fail).2 = .err ∧
    (({} : ExpState).sendBuiltW 0 wTplSet (.short 28)).2 = (({} : ExpState).sendBuiltW 0 wTplSet .ok).2 := by decide
/-- a data set whose Write fails has advanced the counter all the same -/
example : ((sendAllW {} [(0, wTplSet, .ok)]).sendBuiltW 0 wDataSet .fail) =
    ({ seq := 1, templates := [(256, { fieldCount := 1, minLen := 1 })] }, .err) := by decide

/-! ## JSON mode (ExporterInput.SendJSONRecord) -/

/-- `ExpState.refuses` IS the sanity condition of `sendBuilt`: a set it refuses is an error of the IPFIX
    path in every state, before any message is built, and leaves the state alone -/
theorem refuses_is_ipfix_refusal (st : ExpState) (time : Nat) (s : SetB) (h : st.refuses s = true) :
    st.sendBuilt time s = (st, .err) := by
  unfold ExpState.refuses at h
  unfold ExpState.sendBuilt
  split at h
  · rename_i hty; simp [hty]
  · rename_i hty; simp [hty, h]
  · simp at h

/-- JSON mode refuses what IPFIX mode refuses: a set refused by `sendBuilt`'s sanity condition
    (Undefined type; a data set with a record for another template than the Set ID's, for an unknown
    template, with another field count than the template's, or shorter than its minimum length) is
    refused by `sendBuiltJ` too, for every state - the skipped field-count check of seeded change 2
    is not this function -/
theorem json_mode_refuses_like_ipfix (st : ExpState) (time : Nat) (s : SetB) (h : st.refuses s = true) :
    (st.sendBuilt time s).2 = .err ∧ ∃ k, (st.sendBuiltJ s).2 = .err k := by
  refine ⟨by rw [refuses_is_ipfix_refusal st time s h], 0, ?_⟩
  unfold ExpState.refuses at h
  unfold ExpState.sendBuiltJ
  split at h
  · rename_i hty; simp [hty]
  · rename_i hty; simp [hty, h]
  · simp at h

/-- ... and such a refusal writes nothing (zero calls of Write) and changes nothing -/
theorem json_refusal_writes_nothing (st : ExpState) (s : SetB) (h : st.refuses s = true) :
    st.sendBuiltJ s = (st, .err 0) ∧ st.writesJ s = 0 := by
  have : st.sendBuiltJ s = (st, .err 0) := by
    unfold ExpState.refuses at h
    unfold ExpState.sendBuiltJ
    split at h
    · rename_i hty; simp [hty]
    · rename_i hty; simp [hty, h]
    · simp at h
  exact ⟨this, by simp [ExpState.writesJ, this]⟩

theorem jsonWrites_le (l : List Rec) : jsonWrites l ≤ l.length := by
  induction l with
  | nil => simp [jsonWrites]
  | cons r t ih => simp only [jsonWrites]; split <;> simp <;> omega

/-- conversely: whenever JSON mode calls Write at all (with or without an error afterwards), the set is
    a data set every record of which names the Set ID's template, recorded by the exporter, with that
    template's field count and at least its minimum length - `data_requires_registered_template` for
    the JSON path; and there is at most one Write per record -/
theorem json_writes_only_sane_data (st : ExpState) (s : SetB) (hk : 0 < st.writesJ s) :
    s.ty = .data ∧ st.writesJ s ≤ s.recs.length ∧ ∀ r ∈ s.recs, r.tid = s.setId ∧
      ∃ t, st.template r.tid = some t ∧ r.fieldCount = t.fieldCount ∧ t.minLen ≤ r.bytes.length := by
  cases hty : s.ty with
  | undefined => simp [ExpState.writesJ, ExpState.sendBuiltJ, hty] at hk
  | template => simp [ExpState.writesJ, ExpState.sendBuiltJ, hty] at hk
  | other => simp [ExpState.writesJ, ExpState.sendBuiltJ, hty] at hk
  | data =>
    by_cases hs : (s.recs.all fun r => r.tid == s.setId && st.sane r) = true
    · refine ⟨rfl, ?_, ?_⟩
      · by_cases hj : s.recs.all jsonRecOK = true
        · simp [ExpState.writesJ, ExpState.sendBuiltJ, hty, hs, hj]
        · simp only [ExpState.writesJ, ExpState.sendBuiltJ, hty, hs, hj]
          exact jsonWrites_le _
      · simp at hs
        intro r hr
        obtain ⟨htid, this⟩ := hs r hr
        refine ⟨htid, ?_⟩
        unfold ExpState.sane at this
        split at this
        · simp at this
        · rename_i t ht
          simp at this
          exact ⟨t, ht, this.1, by omega⟩
    · simp [ExpState.writesJ, ExpState.sendBuiltJ, hty, hs] at hk

theorem register_seq_dom (st : ExpState) (id : Nat) (t : TplInfo) :
    (st.register id t).seq = st.seq ∧ (st.register id t).dom = st.dom := by
  unfold ExpState.register; split <;> exact ⟨rfl, rfl⟩

theorem foldl_register_seq_dom (l : List Rec) (st : ExpState) :
    (l.foldl (fun acc r => acc.register r.tid
      { fieldCount := r.elems.length, minLen := minDataRecLen (r.elems.map (·.1)) }) st).seq = st.seq ∧
    (l.foldl (fun acc r => acc.register r.tid
      { fieldCount := r.elems.length, minLen := minDataRecLen (r.elems.map (·.1)) }) st).dom = st.dom := by
  induction l generalizing st with
  | nil => exact ⟨rfl, rfl⟩
  | cons r t ih =>
    simp only [List.foldl_cons]
    obtain ⟨h1, h2⟩ := ih (st.register r.tid { fieldCount := r.elems.length, minLen := minDataRecLen (r.elems.map (·.1)) })
    obtain ⟨h3, h4⟩ := register_seq_dom st r.tid { fieldCount := r.elems.length, minLen := minDataRecLen (r.elems.map (·.1)) }
    exact ⟨h1.trans h3, h2.trans h4⟩

/-- JSON mode never touches the sequence counter or the domain; the template table changes only by a
    template set (which writes nothing), with entries its records define; a failing first Write
    (`sendBuiltJW`) changes no more than that -/
theorem json_state (st : ExpState) (s : SetB) :
    (st.sendBuiltJ s).1.seq = st.seq ∧ (st.sendBuiltJ s).1.dom = st.dom ∧
    (∀ x ∈ (st.sendBuiltJ s).1.templates, x ∈ st.templates ∨
      (s.ty = .template ∧ (st.sendBuiltJ s).2 = .ok 0 ∧ ∃ r' ∈ s.recs, r'.tid = x.1 ∧ x.2.fieldCount = r'.elems.length)) ∧
    ∀ w, (st.sendBuiltJW s w).1 = (st.sendBuiltJ s).1 := by
  refine ⟨?_, ?_, ?_, ?_⟩
  · unfold ExpState.sendBuiltJ
    split
    · rfl
    · split <;> (try split) <;> rfl
    · exact (foldl_register_seq_dom _ _).1
    · rfl
  · unfold ExpState.sendBuiltJ
    split
    · rfl
    · split <;> (try split) <;> rfl
    · exact (foldl_register_seq_dom _ _).2
    · rfl
  · intro x hx
    unfold ExpState.sendBuiltJ at hx ⊢
    split at hx
    · exact .inl hx
    · split at hx
      · exact .inl hx
      · split at hx <;> exact .inl hx
    · rename_i hty
      rcases foldl_register_mem _ _ _ hx with h | h
      · exact .inl h
      · exact .inr ⟨hty, by simp, h⟩
    · exact .inl hx
  · intro w
    unfold ExpState.sendBuiltJW
    split <;> simp_all

/-- non-vacuity, and seeded change 2 in the model: with template 256 (one field) recorded, a record
    with TWO fields is refused in JSON mode as in IPFIX mode, a record with one field is written -/
def jState : ExpState := { templates := [(256, { fieldCount := 1, minLen := 1 })] }
def jTwoRec : Rec := { isTemplate := false, tid := 256, fieldCount := 2, elems := [(C08.ieU8, .num 6), (C08.ieU8, .num 7)], bytes := [6, 7] }
def jTwoFields : SetB := { header := [1, 0, 0, 0], ty := .data, recs := [jTwoRec], length := 6 }
example : jState.refuses jTwoFields = true ∧ jState.sendBuiltJ jTwoFields = (jState, .err 0) ∧
    (jState.sendBuilt 0 jTwoFields).2 = .err ∧
    jState.refuses (C08.dataSet 3) = false ∧ jState.sendBuiltJ (C08.dataSet 3) = (jState, .ok 3) ∧
    (({} : ExpState).sendBuiltJ wTplSet) = (jState, .ok 0) := by decide

end Ipfix.C09
