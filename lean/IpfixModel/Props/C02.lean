/-
  C02 - Exporter output is well-formed RFC 7011 as judged by an independent decoder.
  `parse ∘ encode` at the three layers: message, template record, data records.
-/
import IpfixModel.Lemmas.Wire
import IpfixModel.Props.C16
namespace Ipfix.C02
open Outcome ExpSpec

/-- message layer: what CreateIPFIXMsg emits parses (with the independent parser) as version 10,
    header length = the bytes actually sent, the given export time / sequence number / observation
    domain, exactly one set whose length field covers the rest of the message and whose id is the
    one in the set header; the set body is the concatenation of the record buffers. -/
theorem wire_header (s : SetB) (dom seq time sid : Nat) (w : Bytes)
    (hw : createMsg s dom seq time = some w) (hi : C16.Inv s)
    (hhdr : s.header = be 2 sid ++ be 2 s.length) (hsid : sid < 65536)
    (hd : dom < 4294967296) (hs : seq < 4294967296) (ht : time < 4294967296) :
    ∃ m, parseMessage w = some m ∧ m.version = 10 ∧ m.length = w.length ∧ m.time = time ∧ m.seq = seq ∧
      m.dom = dom ∧ m.setId = sid ∧ m.setLen = w.length - 16 ∧ m.body = (s.recs.map (·.bytes)).flatten := by
  obtain ⟨hwl, hwb⟩ := C16.createMsg_length s hi dom seq time w hw
  unfold createMsg at hw
  split at hw
  · cases hw
  · simp at hw
    have h16 : Generated.cMsgHeaderLength = 16 := rfl
    rw [h16] at hw
    have hlen : w.length = 16 + s.length := hwl
    have hnot : ¬ w.length < 20 := by have := hi.1; omega
    refine ⟨_, by unfold parseMessage; rw [if_neg hnot], ?_⟩
    subst hw
    have e1 : msgHeader (16 + s.length) time seq dom ++ s.serialize =
        be 2 10 ++ (be 2 (16 + s.length) ++ (be 4 time ++ (be 4 seq ++ (be 4 dom ++ (be 2 sid ++ (be 2 s.length ++ (s.recs.map (·.bytes)).flatten)))))) := by
      simp [msgHeader, SetB.serialize, hhdr, List.append_assoc]
    have d2 : (be 2 10 ++ (be 2 (16 + s.length) ++ (be 4 time ++ (be 4 seq ++ (be 4 dom ++ (be 2 sid ++ (be 2 s.length ++ (s.recs.map (·.bytes)).flatten))))))).drop 2 =
        be 2 (16 + s.length) ++ (be 4 time ++ (be 4 seq ++ (be 4 dom ++ (be 2 sid ++ (be 2 s.length ++ (s.recs.map (·.bytes)).flatten))))) :=
      List.drop_left' (by simp)
    have hL := hwl
    rw [e1] at hL
    simp only [e1]
    refine ⟨u16_be 10 _ (by omega), ?_, ?_, ?_, ?_, ?_, ?_, ?_⟩
    · rw [d2, u16_be _ _ (by omega), hL]
    · rw [show (4:Nat) = 2 + 2 from rfl, ← List.drop_drop, d2, List.drop_left' (by simp)]; exact u32_be _ _ ht
    · rw [show (8:Nat) = 2 + (2 + 4) from rfl, ← List.drop_drop, d2, ← List.drop_drop, List.drop_left' (by simp),
        List.drop_left' (by simp)]; exact u32_be _ _ hs
    · rw [show (12:Nat) = 2 + (2 + (4 + 4)) from rfl, ← List.drop_drop, d2, ← List.drop_drop, List.drop_left' (by simp),
        ← List.drop_drop, List.drop_left' (by simp), List.drop_left' (by simp)]; exact u32_be _ _ hd
    · rw [show (16:Nat) = 2 + (2 + (4 + (4 + 4))) from rfl, ← List.drop_drop, d2, ← List.drop_drop, List.drop_left' (by simp),
        ← List.drop_drop, List.drop_left' (by simp), ← List.drop_drop, List.drop_left' (by simp), List.drop_left' (by simp)]
      exact u16_be _ _ hsid
    · rw [show (18:Nat) = 2 + (2 + (4 + (4 + (4 + 2)))) from rfl, ← List.drop_drop, d2, ← List.drop_drop, List.drop_left' (by simp),
        ← List.drop_drop, List.drop_left' (by simp), ← List.drop_drop, List.drop_left' (by simp), ← List.drop_drop,
        List.drop_left' (by simp), List.drop_left' (by simp)]
      rw [u16_be _ _ (by have := hi.1; omega), hL]; omega
    · rw [show (20:Nat) = 2 + (2 + (4 + (4 + (4 + (2 + 2))))) from rfl, ← List.drop_drop, d2, ← List.drop_drop, List.drop_left' (by simp),
        ← List.drop_drop, List.drop_left' (by simp), ← List.drop_drop, List.drop_left' (by simp), ← List.drop_drop,
        List.drop_left' (by simp), ← List.drop_drop, List.drop_left' (by simp), List.drop_left' (by simp)]


/-- an element as the exporter can describe it in 2 + 2 (+ 4) bytes: the stated guard of C02 -/
def SpecOK (ie : IE) : Prop := ie.id < 32768 ∧ ie.len < 65536 ∧ ie.ent < 4294967296

theorem u8_mod (n : Nat) : (UInt8.ofNat (n % 256)).toNat = n % 256 :=
  u8_ofNat_toNat_lt _ (Nat.mod_lt _ (by decide))

theorem hi_lo (x : Nat) (h : x < 65536) : x / 256 % 256 * 256 + x % 256 = x := by
  have h1 : x / 256 % 256 = x / 256 := Nat.mod_eq_of_lt (by omega)
  rw [h1]; exact Nat.div_add_mod' x 256

theorem parse_fieldSpec (ie : IE) (h : SpecOK ie) (n : Nat) (rest : Bytes) (t : List Spec) (r : Bytes)
    (hrest : parseSpecs n rest = some (t, r)) :
    parseSpecs (n + 1) (fieldSpec ie ++ rest) = some (expectedSpec ie :: t, r) := by
  obtain ⟨hid, hlen, hent⟩ := h
  unfold fieldSpec expectedSpec
  by_cases he : ie.ent = 0
  · simp only [he, ne_eq, not_true_eq_false, if_false]
    rw [be_two, be_two]
    simp only [List.cons_append, List.nil_append, parseSpecs, u8_mod]
    have hlt : ¬ (ie.id / 256 % 256 ≥ 128) := by
      have h1 : ie.id / 256 % 256 = ie.id / 256 := Nat.mod_eq_of_lt (by omega)
      rw [h1]; omega
    rw [if_neg hlt, hrest]
    simp [hi_lo ie.id (by omega), hi_lo ie.len hlen]
  · have hmod : ie.id % 65536 = ie.id := Nat.mod_eq_of_lt (by omega)
    simp only [he, ne_eq, not_false_eq_true, if_true, hmod, hid]
    rw [be_two, be_two, be_four]
    simp only [List.cons_append, List.nil_append, parseSpecs, u8_mod]
    have h1 : (ie.id + 32768) / 256 % 256 = ie.id / 256 + 128 := by
      have : (ie.id + 32768) / 256 = ie.id / 256 + 128 := by omega
      rw [this]; exact Nat.mod_eq_of_lt (by omega)
    have h2 : (ie.id + 32768) % 256 = ie.id % 256 := by omega
    have hge : (ie.id + 32768) / 256 % 256 ≥ 128 := by rw [h1]; omega
    rw [if_pos hge, hrest, h1, h2]
    have e1 : (ie.id / 256 + 128 - 128) * 256 + ie.id % 256 = ie.id := by
      rw [Nat.add_sub_cancel]; exact Nat.div_add_mod' ie.id 256
    have e3 : u32 [UInt8.ofNat (ie.ent / 16777216 % 256), UInt8.ofNat (ie.ent / 65536 % 256),
        UInt8.ofNat (ie.ent / 256 % 256), UInt8.ofNat (ie.ent % 256)] = ie.ent := by
      have := u32_be ie.ent [] hent
      rwa [be_four] at this
    simp [hi_lo ie.len hlen, e3, Nat.div_add_mod' ie.id 256]

/-- template layer: the specifiers of a template record parse back as (id, length, enterprise
    number present exactly for enterprise-specific elements), in order -/
theorem wire_specs (ies : List IE) (h : ∀ ie ∈ ies, SpecOK ie) (rest : Bytes) :
    parseSpecs ies.length ((ies.map fieldSpec).flatten ++ rest) = some (ies.map expectedSpec, rest) := by
  induction ies with
  | nil => simp [parseSpecs]
  | cons ie t ih =>
    simp only [List.map_cons, List.flatten_cons, List.length_cons, List.append_assoc]
    exact parse_fieldSpec ie (h ie (by simp)) _ _ _ _ (ih (fun x hx => h x (by simp [hx])))

/-- a whole template record: (template id, field count) then the specifiers -/
theorem wire_template (tid : Nat) (ies : List IE) (htid : tid < 65536) (hn : ies.length < 65536)
    (h : ∀ ie ∈ ies, SpecOK ie) (fuel : Nat) :
    parseTemplateRecords (fuel + 1) (templateRecordBytes tid ies) = some [(tid, ies.map expectedSpec)] := by
  unfold templateRecordBytes
  rw [be_two, be_two]
  have e0 := hi_lo tid htid
  have e1 := hi_lo ies.length hn
  have hs := wire_specs ies h []
  simp only [List.append_nil] at hs
  show parseTemplateRecords (fuel + 1)
    (UInt8.ofNat (tid / 256 % 256) :: UInt8.ofNat (tid % 256) :: UInt8.ofNat (ies.length / 256 % 256) ::
      UInt8.ofNat (ies.length % 256) :: (ies.map fieldSpec).flatten) = _
  unfold parseTemplateRecords
  simp only [u8_mod, e0, e1, hs]
  cases fuel <;> simp [parseTemplateRecords]

/-- data layer: the records of a data set, each field big-endian at the template's width or
    length-prefixed, are read back by the collector-side record reader (sound for the independent
    slicing relation by C03 `decode_exact`) as exactly the values handed to the exporter -/
theorem wire_data (ies : List IE) (hmin : 0 < minRecordLen ies) (hwf : ∀ ie ∈ ies, ie.WF)
    (recs : List (List Elem)) (bodies : List Bytes) (hshape : ∀ r ∈ recs, r.map (·.1) = ies)
    (henc : recs.map encodeRecord = bodies.map some) :
    decodeRecords .keep ies bodies.flatten = .ok (recs.map fun r => r.map fun e => C15.canon e.1 e.2) := by
  unfold decodeRecords
  rw [if_neg (by omega)]
  exact decodeRecordsFuel_encode ies hmin hwf recs bodies hshape henc _ (by omega)

/-! ## Non-vacuity -/
example : SpecOK ⟨"sourcePodName", 101, .string, 56506, 65535⟩ := by simp [SpecOK]
example : parseSpecs 2 (fieldSpec ⟨"sourcePodName", 101, .string, 56506, 65535⟩ ++ fieldSpec ⟨"protocolIdentifier", 4, .unsigned8, 0, 1⟩) =
    some ([(101, 65535, some 56506), (4, 1, none)], []) := by decide
/-- outside the guard: an IANA element id >= 32768 would read back as an enterprise-specific one -/
example : (parseSpecs 1 (fieldSpec ⟨"x", 40000, .unsigned8, 0, 1⟩ ++ [0, 0, 0, 0])).map (·.1) = some [(7232, 1, some 0)] := by decide

end Ipfix.C02
