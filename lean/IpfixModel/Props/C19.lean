/-
  C19 - Kafka publication: one payload per data record, in order, none for templates; every
  payload is a 4-byte big-endian length followed by exactly that many bytes of protobuf that
  decode to the record's field values and the message's header; the consumer recovers them.
  Property theorems only; helper lemmas live in Lemmas/Kafka.lean.

  All statements are about the model (Model/Kafka.lean) at full strength: every stream, every
  record count, every value. The explicit hypotheses are decidable and each has a non-vacuity
  `example` at the end:
    * `recordValid`  - the strings of the record's proto message are valid UTF-8. Without it the
                       statement is FALSE for the code and for the model alike
                       (`nonutf8_record_dropped`, `count_and_order_full_strength_fails`: finding D14);
    * `recordFits`   - the protobuf bytes are shorter than 2^32 (else `uint32(len)` wraps);
    * `fieldsOK`     - schema well-formedness, proved for both shipped schemas (`tie_schema_shape`);
    * `n < 2^64`     - varints carry uint64 values.
-/
import IpfixModel.Lemmas.Kafka
import IpfixModel.Spec.C19
namespace Ipfix.C19
open Ipfix.Kafka

/-! ## Tie lemmas: the regenerated facts have the shape the statements rely on -/

/-- the element-name -> field switch of flowtype1.go is the reference mapping of Spec/C19 -/
theorem tie_mapping_flowType1 : refSchema flowType1 = flowType1 := by decide

/-- the element-name -> field switch of flowtype2.go is the reference mapping of Spec/C19 -/
theorem tie_mapping_flowType2 : refSchema flowType2 = flowType2 := by decide

/-- both message types: field numbers in 1 .. 2^29-1 and unambiguous; every field the convertor
    assigns exists -/
theorem tie_schema_shape :
    fieldsOK flowType1.fields = true ∧ fieldsOK flowType2.fields = true ∧
    (∀ S ∈ [flowType1, flowType2], (S.map.all fun e => (S.field? e.2.1).isSome) = true ∧
      (S.hdr.all fun e => (S.field? e.1).isSome) = true) := by decide

/-- the consumer strips as many bytes as the producer prepends -/
theorem tie_prefix_length : Generated.cmsgDelimitLen = 4 := by decide

/-! ## Varints -/

/-- every uint64 survives the varint encoding, whatever follows it -/
theorem varint_round_trip (n : Nat) (h : n < 2 ^ 64) (rest : Bytes) :
    decodeVarint (encodeVarint n ++ rest) = some (n, rest) :=
  decodeVarint_encodeVarint n rest h

/-! ## Framing -/

/-- the 4-byte big-endian prefix is the real length of what follows, and stripping it gives back
    the protobuf bytes -/
theorem frame_exact (b : Bytes) (h : b.length < 2 ^ 32) :
    unframe (frame b) = some b ∧ (frame b).length = 4 + b.length ∧
    unbe ((frame b).take 4) = b.length ∧ (frame b).drop 4 = b := by
  refine ⟨unframe_frame b h, frame_length b, ?_, frame_drop b⟩
  rw [frame_take]
  exact unbe_be 4 b.length (by simpa using h)

/-! ## Protobuf -/

/-- Unmarshal ∘ Marshal: whenever the struct can be marshalled, decoding the bytes yields exactly
    its populated fields (non-zero numbers at their Go width, non-empty strings), in field-number
    order, and no unknown field -/
theorem proto_round_trip (fs : List Field) (hfs : fieldsOK fs = true) (f : Flow) (bs : Bytes)
    (hs : sizesOK (normalise (wireOrder fs) f) = true) (h : protoEncode fs f = some bs) :
    protoDecodeFull fs bs = some (normalise (wireOrder fs) f, []) ∧
    protoDecode fs bs = some (normalise (wireOrder fs) f) := by
  have := protoDecodeFull_protoEncode fs hfs f bs hs h
  exact ⟨this, by simp [protoDecode, this]⟩

/-- Marshal fails exactly when a populated string field is not valid UTF-8 -/
theorem protoEncode_none_iff (fs : List Field) (f : Flow) :
    protoEncode fs f = none ↔ stringsValid (normalise (wireOrder fs) f) = false := by
  unfold protoEncode
  simp only
  split <;> simp_all

/-! ## Count and order -/

/-- a template message publishes nothing -/
theorem template_publishes_nothing (S : Schema) (m : Msg) (h : m.isData = false) :
    publishMsg S m = [] := by simp [publishMsg, h]

/-- messages are handled one after the other: the stream's payloads are the concatenation -/
theorem publish_append (S : Schema) (a b : List Msg) : publish S (a ++ b) = publish S a ++ publish S b := by
  simp [publish]

/-- exactly one payload per data record, in message order and record order within a message, none
    for template messages - provided every record's strings are valid UTF-8 -/
theorem count_and_order_partial (S : Schema) (msgs : List Msg)
    (hvalid : ∀ hr ∈ dataRecords msgs, recordValid S hr = true) :
    publish S msgs = (dataRecords msgs).map (fun hr => frame (bodyOf S hr)) ∧
    (publish S msgs).length = (dataRecords msgs).length := by
  have h : publish S msgs = (dataRecords msgs).map (fun hr => frame (bodyOf S hr)) := by
    rw [publish_eq_filterMap]
    exact filterMap_eq_map_of_forall _ _ _ (fun hr hhr => payloadOf_valid S hr (hvalid hr hhr))
  exact ⟨h, by rw [h, List.length_map]⟩

/-- the number of data records of a stream, spelled out -/
theorem dataRecords_length (msgs : List Msg) :
    (dataRecords msgs).length = (msgs.map fun m => if m.isData then m.records.length else 0).sum := by
  induction msgs with
  | nil => rfl
  | cons m ms ih =>
    simp only [dataRecords, List.flatMap_cons, List.length_append, List.map_cons, List.sum_cons] at ih ⊢
    rw [ih]
    cases m.isData <;> simp

/-- without the guard the model never publishes more than one payload per record, and the
    payloads it does publish are those of the valid records, in order -/
theorem publish_is_valid_subsequence (S : Schema) (msgs : List Msg) :
    publish S msgs = ((dataRecords msgs).filter (recordValid S)).map (fun hr => frame (bodyOf S hr)) := by
  rw [publish_eq_filterMap]
  induction dataRecords msgs with
  | nil => rfl
  | cons hr l ih =>
    by_cases h : recordValid S hr = true
    · simp [payloadOf_valid S hr h, h, ih]
    · have hn : payloadOf S hr.1 hr.2 = none := by
        have : stringsValid (normalise (wireOrder S.fields) (fieldsOf S hr.1 hr.2)) = false := by
          simpa [recordValid] using h
        simp [payloadOf, protoEncode, this]
      simp [hn, h, ih]

/-- never more than one payload per data record -/
theorem at_most_one_per_record (S : Schema) (msgs : List Msg) :
    (publish S msgs).length ≤ (dataRecords msgs).length := by
  rw [publish_is_valid_subsequence, List.length_map]
  exact List.length_filter_le _ _

/-! ## What the proto message of a record holds (the convertor, element by element) -/

/-- the header fields: export time, sequence number, observation domain, exporter address -/
theorem header_fields (h : Hdr) :
    fieldsOf flowType1 h [] = [(33, .str h.exportAddr), (3, .num h.obsDomain), (2, .num h.seqNum), (1, .num h.exportTime)] ∧
    fieldsOf flowType2 h [] = [(33, .str h.exportAddr), (3, .num h.obsDomain), (2, .num h.seqNum), (1, .num h.exportTime)] := by
  constructor <;> rfl

/-- an element whose name the schema maps stores its value in that field (it overrides whatever an
    earlier element of the record put there) -/
theorem element_value_stored (S : Schema) (h : Hdr) (r : Record) (e : IE × Value) (goField getter : String)
    (fd : Field) (v : PVal) (hmap : S.map.lookup e.1.name = some (goField, getter))
    (hfd : S.field? goField = some fd) (hv : elemVal getter e = some v) :
    Flow.get (fieldsOf S h (r ++ [e])) fd = Flow.get [(fd.num, v)] fd := by
  rw [fieldsOf_snoc]
  simp [applyElem, hmap, hv, assign, hfd, Flow.get, List.lookup]

/-- an element the schema does not know changes nothing -/
theorem unknown_element_ignored (S : Schema) (h : Hdr) (r : Record) (e : IE × Value)
    (hmap : S.map.lookup e.1.name = none) : fieldsOf S h (r ++ [e]) = fieldsOf S h r := by
  rw [fieldsOf_snoc]; simp [applyElem, hmap]

/-- addresses are rendered as ASCII text, so they can never make Marshal fail -/
theorem address_text_is_valid_utf8 (ip : Bytes) : validUTF8 (ipString ip) = true := ipString_validUTF8 ip

/-! ## The known defect: a record with a string that is not valid UTF-8 is silently dropped -/

/-- sourcePodName of three records: "ok-1", "bad-\xff\xfe", "ok-2" -/
def witnessMsg : Msg :=
  let ie : IE := { name := "sourcePodName", id := 101, ty := .string, ent := 56506, len := 65535 }
  { hdr := { exportTime := 1, seqNum := 2, obsDomain := 3, exportAddr := ascii "10.0.0.1" },
    isData := true,
    records := [[(ie, .bytes (ascii "ok-1"))], [(ie, .bytes (ascii "bad-" ++ [0xff, 0xfe]))], [(ie, .bytes (ascii "ok-2"))]] }

/-- three data records, two Kafka messages -/
theorem nonutf8_record_dropped :
    (dataRecords [witnessMsg]).length = 3 ∧ (publish flowType1 [witnessMsg]).length = 2 ∧
    (publish flowType2 [witnessMsg]).length = 2 := by decide +kernel

/-- hence the full-strength statement (one payload per data record for EVERY stream) is false -/
theorem count_and_order_full_strength_fails :
    ¬ ∀ msgs : List Msg, (publish flowType1 msgs).length = (dataRecords msgs).length := by
  intro h
  have := h [witnessMsg]
  rw [nonutf8_record_dropped.2.1, nonutf8_record_dropped.1] at this
  cases this

/-! ## The consumer -/

/-- the consumer-side decoder accepts the payload of every valid record and recovers exactly the
    populated fields of the proto message the convertor built -/
theorem consumer_recovers (S : Schema) (hfs : fieldsOK S.fields = true) (hr : Hdr × Record)
    (hvalid : recordValid S hr = true) (hfits : recordFits S hr = true) :
    ∃ p, payloadOf S hr.1 hr.2 = some p ∧
      consumerDecode S p = .ok (normalise (wireOrder S.fields) (fieldsOf S hr.1 hr.2)) := by
  refine ⟨frame (bodyOf S hr), payloadOf_valid S hr hvalid, ?_⟩
  have hlen : (bodyOf S hr).length < 2 ^ 32 := by simpa [recordFits] using hfits
  have henc : protoEncode S.fields (fieldsOf S hr.1 hr.2) = some (bodyOf S hr) := by
    unfold recordValid at hvalid
    simp [protoEncode, bodyOf, hvalid]
  have hrt := (proto_round_trip S.fields hfs _ _ (sizesOK_of_length _ hlen) henc).2
  have h4 : ¬ (frame (bodyOf S hr)).length < 4 := by rw [frame_length]; omega
  simp [consumerDecode, h4, frame_drop, hrt]

/-! ## The model's own output satisfies the executable predicate -/

theorem checkAll_map {α : Type} (S : Schema) (topic : Bytes) (e : α → Canon) (o : α → Obs) (l : List α)
    (h : ∀ x ∈ l, checkOne S topic (e x) (o x) = none) (i : Nat) :
    checkAll S topic (l.map e) (l.map o) i = .holds := by
  induction l generalizing i with
  | nil => rfl
  | cons x l ih =>
    have h1 := h x (by simp)
    simp only [List.map_cons, checkAll, h1]
    exact ih (fun y hy => h y (by simp [hy])) (i + 1)

/-- one payload of the model passes every clause of `checkOne` -/
theorem checkOne_model (S : Schema) (href : refSchema S = S) (hfs : fieldsOK S.fields = true)
    (topic : Bytes) (hr : Hdr × Record) (hvalid : recordValid S hr = true) (hfits : recordFits S hr = true) :
    checkOne S topic (expectedOf S hr) (obsOf S topic (frame (bodyOf S hr))) = none := by
  have hlen : (bodyOf S hr).length < 2 ^ 32 := by simpa [recordFits] using hfits
  have henc : protoEncode S.fields (fieldsOf S hr.1 hr.2) = some (bodyOf S hr) := by
    unfold recordValid at hvalid
    simp [protoEncode, bodyOf, hvalid]
  have hrt := proto_round_trip S.fields hfs _ _ (sizesOK_of_length _ hlen) henc
  have h4 : ¬ (frame (bodyOf S hr)).length < 4 := by rw [frame_length]; omega
  have hcons : consumerDecode S (frame (bodyOf S hr)) = .ok (expectedOf S hr) := by
    simp [consumerDecode, h4, frame_drop, hrt.2, expectedOf, href]
  have hexp : expectedOf S hr = normalise (wireOrder S.fields) (fieldsOf S hr.1 hr.2) := by
    simp [expectedOf, href]
  simp [checkOne, obsOf, unframe_frame _ hlen, hrt.1, hcons, hexp, Outcome.isOk]

/-- For both shipped schemas and every well-typed stream whose records are valid and fit, the
    observation the model produces satisfies `Spec.C19.holdsOn` - the predicate the check evaluates
    on the implementation's payloads. -/
theorem model_satisfies_spec (S : Schema) (hS : S = flowType1 ∨ S = flowType2) (topic : Bytes) (msgs : List Msg)
    (hwt : msgs.all (Msg.wellTyped S) = true)
    (hvalid : ∀ hr ∈ dataRecords msgs, recordValid S hr = true)
    (hfits : ∀ hr ∈ dataRecords msgs, recordFits S hr = true) :
    holdsOn S topic msgs (modelObs S topic msgs) = .holds := by
  have href : refSchema S = S := by
    rcases hS with rfl | rfl
    · exact tie_mapping_flowType1
    · exact tie_mapping_flowType2
  have hfs : fieldsOK S.fields = true := by
    rcases hS with rfl | rfl
    · exact tie_schema_shape.1
    · exact tie_schema_shape.2.1
  have hpub := (count_and_order_partial S msgs hvalid).1
  unfold holdsOn modelObs
  simp only [href, hwt, Bool.not_true, Bool.false_eq_true, if_false, hpub, List.length_map, if_true, List.map_map]
  exact checkAll_map S topic (expectedOf S) _ (dataRecords msgs)
    (fun hr hhr => checkOne_model S href hfs topic hr (hvalid hr hhr) (hfits hr hhr)) 0

/-! ## Non-vacuity -/

/-- a full IPv4 flow record -/
def sampleRecord : Record :=
  [({ name := "sourceIPv4Address", id := 8, ty := .ipv4Address, ent := 0, len := 4 }, .bytes [10, 0, 0, 1]),
   ({ name := "destinationIPv6Address", id := 28, ty := .ipv6Address, ent := 0, len := 16 },
      .bytes [0x20, 0x01, 0x0d, 0xb8, 0, 0, 0, 0, 0, 0, 0, 0, 0, 0, 0, 1]),
   ({ name := "sourceTransportPort", id := 7, ty := .unsigned16, ent := 0, len := 2 }, .num 1234),
   ({ name := "packetTotalCount", id := 86, ty := .unsigned64, ent := 0, len := 8 }, .num (2 ^ 64 - 1)),
   ({ name := "sourcePodName", id := 101, ty := .string, ent := 56506, len := 65535 }, .bytes (ascii "pod-a")),
   ({ name := "tcpState", id := 136, ty := .string, ent := 56506, len := 65535 }, .bytes (ascii "ESTABLISHED"))]

def sampleMsgs : List Msg :=
  [{ hdr := { exportTime := 9, seqNum := 1, obsDomain := 1, exportAddr := ascii "10.0.0.1" }, isData := false, records := [sampleRecord] },
   { hdr := { exportTime := 100, seqNum := 7, obsDomain := 9, exportAddr := ascii "10.0.0.1" }, isData := true,
     records := [sampleRecord, [], sampleRecord] }]

/-- the hypotheses of `model_satisfies_spec` / `count_and_order_partial` are satisfiable by a
    stream with a template message and a data message of three records -/
example : sampleMsgs.all (Msg.wellTyped flowType1) = true ∧
    (dataRecords sampleMsgs).all (recordValid flowType1) = true ∧
    (dataRecords sampleMsgs).all (recordFits flowType1) = true ∧
    (publish flowType1 sampleMsgs).length = 3 := by decide +kernel

/-- the populated fields of the sample record: header, addresses as text, port, counter, pod name;
    the element the schema does not know (tcpState) is ignored -/
example : expectedOf flowType1 (sampleMsgs[1]!.hdr, sampleRecord) =
    [(1, .num 100), (2, .num 7), (3, .num 9), (6, .str (ascii "10.0.0.1")), (7, .str (ascii "2001:db8::1")),
     (8, .num 1234), (11, .num (2 ^ 64 - 1)), (19, .str (ascii "pod-a")), (33, .str (ascii "10.0.0.1"))] := by decide +kernel

/-- varint boundaries -/
example : encodeVarint 0 = [0] ∧ encodeVarint 127 = [0x7f] ∧ encodeVarint 128 = [0x80, 0x01] ∧
    encodeVarint 300 = [0xac, 0x02] ∧ (encodeVarint (2 ^ 64 - 1)).length = 10 ∧
    decodeVarint [0xff, 0xff, 0xff, 0xff, 0xff, 0xff, 0xff, 0xff, 0xff, 0x02] = none := by decide

/-- utf8.Valid at its boundaries -/
example : validUTF8 [0xc2, 0x80] = true ∧ validUTF8 [0xc0, 0x80] = false ∧ validUTF8 [0xed, 0x9f, 0xbf] = true ∧
    validUTF8 [0xed, 0xa0, 0x80] = false ∧ validUTF8 [0xf4, 0x8f, 0xbf, 0xbf] = true ∧
    validUTF8 [0xf4, 0x90, 0x80, 0x80] = false ∧ validUTF8 [0xe2, 0x82] = false := by decide

/-- net.IP.String: RFC 5952 compresses the first longest run of two or more zero groups -/
example : ipString [0, 1, 0, 0, 0, 0, 0, 0, 0, 1, 0, 0, 0, 0, 0, 0x0a] = ascii "1::1:0:0:a" ∧
    ipString [0, 0, 0, 0, 0, 0, 0, 0, 0, 0, 0xff, 0xff, 1, 2, 3, 4] = ascii "1.2.3.4" ∧
    ipString [] = ascii "<nil>" ∧ ipString [1, 2, 3] = ascii "?010203" := by decide

end Ipfix.C19
