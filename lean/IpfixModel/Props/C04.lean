/-
  C04 - data is decoded with the right template: scoping, replacement, invalidation.
  Property theorems only.
-/
import IpfixModel.Lemmas.Store4
import IpfixModel.Props.C03
namespace Ipfix.C04
open Outcome

/-- the template store after one packet is the store with the packet's event applied -/
theorem templateSetSpec_state (lookup : Nat → Nat → Option IE) (mode : Mode) (s : CState) (dom : Nat) (body : Bytes) :
    (decodeTemplateSetSpec lookup mode s dom body).1 = (templateEvent lookup mode dom body).apply s := by
  unfold templateEvent
  unfold decodeTemplateSetSpec
  match body with
  | [] => rfl
  | [_] => rfl
  | [_, _] => rfl
  | [_, _, _] => rfl
  | t0 :: t1 :: c0 :: c1 :: r =>
    simp only
    cases decodeSpecifiers lookup mode (c0.toNat * 256 + c1.toNat) r <;> rfl

theorem spec_state_is_event (lookup : Nat → Nat → Option IE) (mode : Mode) (s : CState) (pkt : Bytes) :
    (decodePacketSpec lookup mode s pkt).1 = (classify lookup mode pkt).apply s := by
  unfold decodePacketSpec classify
  cases parseHeader pkt with
  | none => rfl
  | some hb =>
    obtain ⟨h, body⟩ := hb
    simp only
    split
    · rfl
    · split
      · simp only [templateSetSpec_state]
      · rfl

/-- C04, refinement: after ANY history of packets the template in force for (domain, id) is the
    most recent valid template received for that key, and none if the most recent template set for
    that key failed to decode after its id was read, or if there was none. -/
theorem templates_refine (lookup : Nat → Nat → Option IE) (mode : Mode) (pkts : List Bytes) (k : TKey) :
    (runSpec lookup mode {} pkts).lookup k = lastValid ((pkts.map (classify lookup mode)).reverse) k := by
  induction pkts using List.snoc_induction with
  | nil => simp [runSpec, lastValid, CState.lookup]
  | snoc ps p ih =>
    unfold runSpec at ih ⊢
    rw [List.foldl_append]
    simp only [List.foldl_cons, List.foldl_nil, List.map_append, List.map_cons, List.map_nil,
      List.reverse_append, List.reverse_cons, List.reverse_nil, List.nil_append, List.cons_append]
    rw [spec_state_is_event]
    cases hc : classify lookup mode p with
    | valid k' t =>
      by_cases h : k' = k
      · subst h; simp [TEvent.apply, lastValid, CState.lookup_insert_same]
      · simp [TEvent.apply, lastValid, h, CState.lookup_insert_other _ k' k t (fun h' => h h'.symm)]
        exact ih
    | bad k' =>
      by_cases h : k' = k
      · subst h; simp [TEvent.apply, lastValid, CState.lookup_erase_same]
      · simp [TEvent.apply, lastValid, h, CState.lookup_erase_other _ k' k (fun h' => h h'.symm)]
        exact ih
    | other => simp [TEvent.apply, lastValid]; exact ih

/-- C04, scoping: a packet about another observation domain or another template id never changes
    the template in force for `k` -/
theorem frame (lookup : Nat → Nat → Option IE) (mode : Mode) (s : CState) (pkt : Bytes) (k : TKey)
    (h : ∀ k' t, classify lookup mode pkt = .valid k' t → k' ≠ k)
    (h' : ∀ k', classify lookup mode pkt = .bad k' → k' ≠ k) :
    (decodePacketSpec lookup mode s pkt).1.lookup k = s.lookup k := by
  rw [spec_state_is_event]
  cases hc : classify lookup mode pkt with
  | valid k' t => exact CState.lookup_insert_other s k' k t (fun e => h k' t hc e.symm)
  | bad k' => exact CState.lookup_erase_other s k' k (fun e => h' k' hc e.symm)
  | other => rfl

/-- C04: a data set is decoded with the template in force for its (domain, id) - which by
    `templates_refine` is the most recent valid one ... -/
theorem data_uses_last_valid (lookup : Nat → Nat → Option IE) (mode : Mode) (pkts : List Bytes)
    (dom tid : Nat) (body : Bytes) (tpl : Template)
    (h : lastValid ((pkts.map (classify lookup mode)).reverse) (dom, tid) = some tpl) :
    decodeDataSet mode (runSpec lookup mode {} pkts) dom tid body =
      (decodeRecords mode tpl body >>= fun recs => .ok (.data tid recs)) := by
  unfold decodeDataSet
  rw [templates_refine, h]

/-- ... and rejected when there is none -/
theorem data_rejected_without_template (lookup : Nat → Nat → Option IE) (mode : Mode) (pkts : List Bytes)
    (dom tid : Nat) (body : Bytes)
    (h : lastValid ((pkts.map (classify lookup mode)).reverse) (dom, tid) = none) :
    decodeDataSet mode (runSpec lookup mode {} pkts) dom tid body = .err := by
  unfold decodeDataSet
  rw [templates_refine, h]

/-- C04: a template set that fails after its id was read leaves no template for that id -/
theorem bad_template_erases (lookup : Nat → Nat → Option IE) (mode : Mode) (s : CState) (pkt : Bytes) (k : TKey)
    (h : classify lookup mode pkt = .bad k) : (decodePacketSpec lookup mode s pkt).1.lookup k = none := by
  rw [spec_state_is_event, h]; exact CState.lookup_erase_same s k

/-! ## The code against the specification -/

/-- the code's bookkeeping IS the specification's, except on a template set cut right after its id -/
theorem templateSet_eq_spec_off_cut (lookup : Nat → Nat → Option IE) (mode : Mode) (s : CState) (dom : Nat)
    (body : Bytes) (h : ¬ (body.length = 2 ∨ body.length = 3)) :
    decodeTemplateSet lookup mode s dom body = decodeTemplateSetSpec lookup mode s dom body := by
  unfold decodeTemplateSet decodeTemplateSetSpec
  match body, h with
  | [], _ => rfl
  | [_], _ => rfl
  | [_, _], h => simp at h
  | [_, _, _], h => simp at h
  | _ :: _ :: _ :: _ :: _, _ => rfl

theorem code_eq_spec_off_cut (lookup : Nat → Nat → Option IE) (mode : Mode) (s : CState) (pkt : Bytes)
    (h : truncatedAfterId pkt = false) : decodePacket lookup mode s pkt = decodePacketSpec lookup mode s pkt := by
  unfold decodePacket decodePacketSpec
  unfold truncatedAfterId at h
  cases hp : parseHeader pkt with
  | none => rfl
  | some hb =>
    obtain ⟨hd, body⟩ := hb
    simp only [hp] at h ⊢
    by_cases hv : hd.version ≠ 10
    · simp [hv]
    · by_cases hs : hd.setID = Generated.cTemplateSetID
      · have hv' : hd.version = 10 := by simpa using hv
        simp [hv', hs] at h
        have hcut : ¬ (body.length = 2 ∨ body.length = 3) := by
          intro hc; rcases hc with hc | hc
          · exact absurd hc h.1
          · exact absurd hc h.2
        simp only [hv, hs, if_false, if_true, templateSet_eq_spec_off_cut lookup mode s hd.dom body hcut]
      · simp [hv, hs]

/-- ... hence on histories without such a packet the code satisfies the refinement
    (`templates_refine`, `data_uses_last_valid`, `frame`, `bad_template_erases`) -/
theorem templates_refine_partial (lookup : Nat → Nat → Option IE) (mode : Mode) (pkts : List Bytes)
    (h : ∀ p ∈ pkts, truncatedAfterId p = false) (s : CState) :
    runCode lookup mode s pkts = runSpec lookup mode s pkts := by
  induction pkts generalizing s with
  | nil => rfl
  | cons p ps ih =>
    unfold runCode runSpec at *
    simp only [List.foldl_cons]
    rw [code_eq_spec_off_cut lookup mode s p (h p (by simp))]
    exact ih (fun q hq => h q (by simp [hq])) _

/-! ## Finding D13: the full-strength statement is false for the code -/

def lk (ent id : Nat) : Option IE :=
  if ent = 0 ∧ id = 7 then some ⟨"sourceTransportPort", 7, .unsigned16, 0, 2⟩ else none

def tplPkt : Bytes := [0,10,0,28, 0,0,0,0, 0,0,0,0, 0,0,0,1, 0,2,0,12, 1,0, 0,1, 0,7,0,2]
def cutPkt : Bytes := [0,10,0,22, 0,0,0,0, 0,0,0,0, 0,0,0,1, 0,2,0,6, 1,0]

/-- after a valid template 256 and a template set cut right after the id 256, the specification
    has no template for (1, 256) but the code still has the old one -/
theorem d13_witness :
    (runSpec lk .strict {} [tplPkt, cutPkt]).lookup (1, 256) = none ∧
    (runCode lk .strict {} [tplPkt, cutPkt]).lookup (1, 256) = some [⟨"sourceTransportPort", 7, .unsigned16, 0, 2⟩] ∧
    truncatedAfterId cutPkt = true := by decide

/-! ## Non-vacuity -/
example : truncatedAfterId tplPkt = false := by decide
example : (runSpec lk .strict {} [tplPkt]).lookup (1, 256) = some [⟨"sourceTransportPort", 7, .unsigned16, 0, 2⟩] := by decide

end Ipfix.C04
