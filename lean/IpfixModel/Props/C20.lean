/-
  C20 - the standalone collector's in-memory store: bounded, ordered window of the most recent
  messages; queries return the last min(n, stored) entries in either format; invalid requests
  are refused; reset empties; every field of a message is in its rendered entry.
  Property theorems only (all operation sequences, by induction; no bound on their length);
  helper lemmas live in Lemmas/Store.lean.
-/
import IpfixModel.Lemmas.Store
import IpfixModel.Spec.C20
namespace Ipfix.C20
open Ipfix.Store

/-! ## Tie: the model's cap is the constant in cmd/collector/collector.go -/

theorem tie_cap : cap = Generated.cmaxFlowRecords ∧ 0 < cap := ⟨rfl, cap_pos⟩

/-! ## The store never holds more than the cap -/

/-- invariant of every operation -/
theorem step_len_le_cap (s : Store) (op : Op) (h : s.items.length ≤ cap) : (s.step op).1.items.length ≤ cap := by
  cases op with
  | add m => exact add_length_le _ h
  | records method c f => exact h
  | reset method =>
    simp only [step, handleReset]
    split <;> simp_all [reset]

/-- after any sequence of arrivals, queries and resets (valid or not) the store holds at most
    `cap` entries -/
theorem len_le_cap (ops : List Op) : ∀ (s : Store), s.items.length ≤ cap → (s.exec ops).items.length ≤ cap := by
  induction ops with
  | nil => intro s h; exact h
  | cons op ops ih => intro s h; exact ih _ (step_len_le_cap s op h)

theorem len_le_cap_init (ops : List Op) : (Store.empty.exec ops).items.length ≤ cap :=
  len_le_cap ops _ (by simp [Store.empty])

/-! ## The store is the window of the most recent arrivals, in arrival order -/

/-- if the store is the last `cap` of the arrivals so far, it still is after any sequence of
    operations (arrivals = entries of the messages received since the last successful reset) -/
theorem window (ops : List Op) : ∀ (s : Store) (acc : List String), s.items = takeLast cap acc →
    (s.exec ops).items = takeLast cap (arrivals acc ops) := by
  induction ops with
  | nil => intro s acc h; exact h
  | cons op ops ih =>
    intro s acc h
    cases op with
    | add m => exact ih _ _ (add_window _ h)
    | records method c f => exact ih _ _ h
    | reset method =>
      simp only [exec, step, handleReset, arrivals]
      by_cases hm : method = "POST"
      · simp only [hm, if_true]; exact ih _ _ (by simp [reset])
      · simp only [hm, if_false]; exact ih _ _ h

theorem window_init (ops : List Op) : (Store.empty.exec ops).items = takeLast cap (arrivals [] ops) :=
  window ops _ _ (by simp [Store.empty])

/-- in particular: while fewer than `cap` messages have arrived since the last reset the store
    holds all of them -/
theorem window_all (ops : List Op) (h : (arrivals [] ops).length ≤ cap) :
    (Store.empty.exec ops).items = arrivals [] ops := by
  rw [window_init, takeLast_of_length_le h]

/-! ## Queries -/

/-- a query for `n` returns the last min(n, stored) entries, in order -/
theorem query_last (s : Store) (n : Nat) :
    s.query (some n) = s.items.drop (s.items.length - min n s.items.length) := by
  simpa [takeLast] using query_eq s (some n)

/-- a query without a count returns everything -/
theorem query_all (s : Store) : s.query none = s.items := by simp [query]

/-- the number of entries returned -/
theorem query_length (s : Store) (n : Nat) : (s.query (some n)).length = min n s.items.length := by
  rw [query_last]; simp; omega

/-- the response to a valid GET /records, in either format: 200 and the encoding of the last
    min(n, stored) entries -/
theorem query_response (s : Store) (c f : Option String) (n : Nat) (fm : Fmt)
    (hc : countArg c = some (some n)) (hf : formatArg f = some fm) :
    s.handleRecords "GET" c f = ⟨200, encode fm (takeLast (min n s.items.length) s.items)⟩ := by
  simp [handleRecords, hc, hf, query_eq]

theorem query_response_all (s : Store) (c f : Option String) (fm : Fmt)
    (hc : countArg c = some none) (hf : formatArg f = some fm) :
    s.handleRecords "GET" c f = ⟨200, encode fm s.items⟩ := by
  simp [handleRecords, hc, hf, query_all]

/-- a wrong method, an invalid count or an invalid format is refused with a 4xx status -/
theorem query_refused (s : Store) (method : String) (c f : Option String)
    (h : method ≠ "GET" ∨ countArg c = none ∨ formatArg f = none) :
    (s.handleRecords method c f).status / 100 = 4 := by
  unfold handleRecords
  by_cases hm : method = "GET"
  · simp only [hm, ne_eq, not_true_eq_false, if_false]
    cases hc : countArg c with
    | none => simp [refuseCount]
    | some n =>
      cases hf : formatArg f with
      | none => simp [refuseFormat]
      | some fm => simp_all
  · simp [hm, refuseMethod]

/-- no request to /records, valid or not, changes the store -/
theorem records_unchanged (s : Store) (method : String) (c f : Option String) :
    (s.step (.records method c f)).1 = s := rfl

/-! ## Reset -/

/-- POST /reset empties the store and answers 200 -/
theorem reset_empties (s : Store) :
    (s.step (.reset "POST")).1.items = [] ∧ (s.step (.reset "POST")).2 = .resp 200 "Flow records successfully reset" := by
  simp [step, handleReset, reset]

/-- any other method on /reset is refused and leaves the store unchanged -/
theorem reset_refused (s : Store) (method : String) (h : method ≠ "POST") :
    (s.step (.reset method)).1 = s ∧ (s.step (.reset method)).2 = .resp 405 "Invalid request method\n" := by
  simp [step, handleReset, h, refuseMethod]

/-- after a reset, the store is exactly the window of what arrived afterwards -/
theorem reset_then (s : Store) (ops : List Op) :
    (s.exec (.reset "POST" :: ops)).items = takeLast cap (arrivals [] ops) := by
  simp only [exec]
  exact window ops _ _ (by simp [(reset_empties s).1])

/-! ## Rendering -/

/-- every field of every record has its line among the lines of the entry -/
theorem render_complete_lines (m : Msg) (r : List (IE × Value)) (f : IE × Value)
    (hr : r ∈ m.records) (hf : f ∈ r) : elemLine m.isTemplate f ∈ renderLines m :=
  mem_renderLines hr hf

/-- data message: for every record and every field, the line `    name: value \n` occurs in the
    rendered entry -/
theorem render_complete (m : Msg) (hd : m.isTemplate = false) (r : List (IE × Value)) (ie : IE) (v : Value)
    (hr : r ∈ m.records) (hf : (ie, v) ∈ r) :
    ∃ pre post, render m = pre ++ ("    " ++ ie.name ++ ": " ++ fmtValue ie v ++ " \n") ++ post := by
  have h := render_complete_lines m r (ie, v) hr hf
  simp only [hd, elemLine, fieldLine] at h
  exact String.join_of_mem h

/-- template message: every field appears with its name, length and enterprise id -/
theorem render_complete_template (m : Msg) (ht : m.isTemplate = true) (r : List (IE × Value)) (ie : IE) (v : Value)
    (hr : r ∈ m.records) (hf : (ie, v) ∈ r) :
    ∃ pre post, render m = pre ++ tplLine ie ++ post := by
  have h := render_complete_lines m r (ie, v) hr hf
  simp only [ht, elemLine] at h
  exact String.join_of_mem h

/-- the value shown is the element's value: e.g. signed integers are printed as the integer
    their two's-complement pattern denotes, unsigned ones as the number itself -/
theorem fmtValue_numeric (name : String) (id ent len n : Nat) :
    fmtValue ⟨name, id, .unsigned32, ent, len⟩ (.num n) = toString n ∧
    fmtValue ⟨name, id, .unsigned64, ent, len⟩ (.num n) = toString n ∧
    fmtValue ⟨name, id, .signed32, ent, len⟩ (.num n) = toString (ofTwos 4 n) ∧
    fmtValue ⟨name, id, .signed64, ent, len⟩ (.num n) = toString (ofTwos 8 n) := ⟨rfl, rfl, rfl, rfl⟩

/-! ## The model's own trace satisfies the Spec predicate -/

/-- "arrival order" in the model is the order of the `addIPFIXMessage` calls. In the program those calls come from ONE
    place, the message case of `signalHandler`'s loop, as a plain (synchronous) call: the loop takes the next message off
    the channel only when the previous one has been stored. A `go addIPFIXMessage(msg)` there would store messages in
    completion order - nothing a harness that calls `addIPFIXMessage` itself can see. -/
theorem tie_store_fed_in_arrival_order :
    Generated.storeFeed = [("signalHandler", "call", "addIPFIXMessage")] := by decide

/-- the compiled checker evaluates `missingField` in one pass over the entry (`missingFieldFast`: each demanded
    line is looked up behind the previous one; only if that fails does the specification's own search decide).
    The two are EQUAL - this equation is what `@[csimp]` hands to the compiler (Spec/C20), restated here
    so that its axioms are audited with the property theorems. -/
theorem chk_search_is_the_specified_one : @missingField = @missingFieldFast := missingField_eq_fast

theorem missingField_render (m : Msg) : missingField m (render m) = none := by
  simp only [missingField, Option.map_eq_none_iff, List.find?_eq_none]
  intro f hf
  obtain ⟨r, hr, hfr⟩ := List.mem_flatten.mp hf
  have hmem := mem_renderLines hr hfr
  have hocc := occursIn_render_of_mem hmem
  unfold demandedLine
  cases hT : m.isTemplate with
  | true => simp_all [elemLine]
  | false =>
    cases hv : valueShown f.1.ty with
    | true => simp_all [elemLine]
    | false => simp

/-- from any related pair (store = window of the tracker) every step of the model is what the
    predicate demands, and the pair stays related -/
theorem holdsFrom_model (ops : List Op) : ∀ (s : Store) (t : Tracker), s.items = t.window →
    holdsFrom t (ops.zip (s.run ops)) = true := by
  induction ops with
  | nil => intro s t _; rfl
  | cons op ops ih =>
    intro s t h
    simp only [run, List.zip_cons_cons, holdsFrom, Bool.and_eq_true]
    cases op with
    | add m =>
      have hlen : s.items.length = min cap t.rev.length := by
        rw [h]; simp [Tracker.window]
      have hle : s.items.length ≤ cap := by omega
      refine ⟨?_, ih _ _ ?_⟩
      · simp only [holdsStep, step, verdict, missingField_render, add_length _ hle, hlen]
        have : min cap (min cap t.rev.length + 1) = min cap (t.rev.length + 1) := by omega
        simp [this]
      · simp only [step, next]
        rw [window_eq_takeLast] at h ⊢
        simpa [Tracker.arrivals] using add_window (render m) h
    | records method c f =>
      refine ⟨?_, ih _ _ (by simpa [step, next] using h)⟩
      simp only [holdsStep, step, verdict, handleRecords]
      by_cases hm : method = "GET"
      · simp only [hm, ne_eq, not_true_eq_false, if_false]
        cases hc : countArg c with
        | none => simp [refuseCount, is4xx]
        | some n =>
          cases hf : formatArg f with
          | none => simp [refuseFormat, is4xx]
          | some fm =>
            have : s.query n = t.expected n := by
              rw [query_eq, h]
              cases n <;> simp [Tracker.expected, takeLast]
            simp [this]
      · simp [hm, refuseMethod, is4xx]
    | reset method =>
      by_cases hm : method = "POST"
      · refine ⟨by simp [holdsStep, step, verdict, handleReset, hm, is2xx], ih _ _ ?_⟩
        simp [step, next, handleReset, hm, reset, Tracker.window]
      · refine ⟨by simp [holdsStep, step, verdict, handleReset, hm, refuseMethod, is4xx], ih _ _ ?_⟩
        simpa [step, next, handleReset, hm] using h

/-- every trace of the model that starts from the empty store satisfies C20's predicate -/
theorem model_trace_holds (ops : List Op) : holdsTrace (ops.zip (Store.empty.run ops)) = true :=
  holdsFrom_model ops _ _ (by simp [Store.empty, Tracker.init, Tracker.window])

/-- ... and also from any store that is within the cap, taken as the arrivals so far -/
theorem model_trace_holds_from (ops : List Op) (s : Store) (h : s.items.length ≤ cap) :
    holdsFrom ⟨s.items.reverse⟩ (ops.zip (s.run ops)) = true :=
  holdsFrom_model ops _ _ (by simp [Tracker.window, List.take_of_length_le, h])

/-! ## Non-vacuity: the hypotheses above are satisfiable -/

def exIE : IE := ⟨"protocolIdentifier", 4, .unsigned8, 0, 1⟩
def exMsg : Msg := ⟨10, 33, 0, 1, 2, false, [[(exIE, .num 6)]]⟩

example : Store.empty.items.length ≤ cap := by decide
example : Store.empty.items = takeLast cap [] := rfl
example : countArg none = some none ∧ formatArg none = some .json := ⟨rfl, rfl⟩
example : countArg (some "3") = some (some 3) ∧ formatArg (some "text") = some .text := by decide
example : countArg (some "-1") = none ∧ countArg (some "x") = none ∧ formatArg (some "xml") = none := by decide
example : exMsg.isTemplate = false ∧ [(exIE, Value.num 6)] ∈ exMsg.records ∧ (exIE, Value.num 6) ∈ [(exIE, Value.num 6)] := by
  simp [exMsg]
example : ∃ s : Store, s.items.length ≤ cap ∧ s.items ≠ [] := ⟨⟨["e"]⟩, by decide, by simp⟩
example : (arrivals [] [.add exMsg, .reset "GET", .add exMsg]).length = 2 := rfl
example : valueShown exIE.ty = true := rfl

end Ipfix.C20
