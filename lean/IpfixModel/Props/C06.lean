/-
  C06 - Flow expiry: callbacks fire exactly at deadlines and no flow is ever stranded.
  Property theorems (statements only here; the proofs, including the loop invariant of the expiry
  scan and the container/heap lemmas they rest on, are in Lemmas/Sched.lean and Lemmas/Heap.lean).
  The model runs the REAL container/heap algorithm on the queue array (Model/Heap.lean), so heap order
  and tie-breaking are part of the correspondence, and "earliest deadline first" is a theorem
  about that algorithm (`Heap.pop_ordered`), not an assumption.
-/
import IpfixModel.Lemmas.Sched
import IpfixModel.Lemmas.SchedOrder
import IpfixModel.Spec.C06
namespace Ipfix.C06
open Agg

/-- the invariant: after ANY sequence of arrivals, clock advances and expiry scans - including
    scans aborted by a failing callback, retries of unready flows and drops after MaxRetries -
    the queue holds exactly one item per held flow (no flow is stranded, no entry refers to a flow
    that is gone, no flow is queued twice) and is a heap on the earlier of the two deadlines -/
theorem no_flow_stranded (a i : Nat) (ops : List Op) :
    Sched (ops.foldl step { activeT := a, inactiveT := i }) := sched_reachable a i ops

theorem sched_preserved_by_arrival (s : State) (r : InRec) (h : Sched s) : Sched (ingest s r) := sched_ingest s r h
theorem sched_preserved_by_scan (s : State) (fail : Nat → Bool) (ra : Bool) (h : Sched s) :
    Sched (scan s fail ra).1 := sched_scan s fail ra h

/-- the expiry callback is invoked only on a queued flow whose active or inactive deadline has
    passed (deadline <= scan time) and which is ready -/
theorem callback_only_when_due (s : State) (fail : Nat → Bool) (ra : Bool) (h : Sched s) :
    ∀ p ∈ (scan s fail ra).2.callbacks, p.2.ready = true ∧
      ∃ it ∈ s.pq.toList, it.key = p.1 ∧ (it.active ≤ s.now ∨ it.inactive ≤ s.now) := callback_due_ready s fail ra h

/-- conversely nothing due is left behind: after a scan that was not aborted every held flow is
    scheduled strictly in the future (positive timeouts) - so every due ready flow was handed to the
    callback, every inactive-expired one removed, every active-expired one re-armed -/
theorem after_complete_scan_all_future (s : State) (fail : Nat → Bool) (ra : Bool) (h : Sched s)
    (hA : 0 < s.activeT) (hI : 0 < s.inactiveT) (hok : (scan s fail ra).2.failed = false) :
    ∀ it ∈ (scan s fail ra).1.pq.toList, s.now < it.active ∧ s.now < it.inactive :=
  after_scan_future s fail ra h hA hI hok

/-- a new flow is scheduled at (now + active timeout, now + inactive timeout) -/
theorem new_flow_deadlines (s : State) (r : InRec) (h : Sched s) (hnew : s.find r.key = none) :
    ∃ it ∈ (ingest s r).pq.toList, it.key = r.key ∧ it.active = s.now + s.activeT ∧
      it.inactive = s.now + s.inactiveT := ingest_new_deadlines s r h hnew

/-- every new record pushes the inactive deadline back and leaves the active one alone -/
theorem record_pushes_inactive_deadline (s : State) (r : InRec) (h : Sched s) (it : Item)
    (hit : it ∈ s.pq.toList) (hk : it.key = r.key) :
    { it with inactive := s.now + s.inactiveT } ∈ (ingest s r).pq.toList := ingest_existing_deadlines s r h it hit hk

/-- ... and does not touch the schedule of other flows -/
theorem other_flows_untouched (s : State) (r : InRec) (h : Sched s) (it : Item)
    (hit : it ∈ s.pq.toList) (hk : it.key ≠ r.key) : it ∈ (ingest s r).pq.toList := ingest_other_items s r h it hit hk

/-- the advertised time to the next expiry is MinExpiryTime + (earliest deadline - now), never below
    MinExpiryTime; the earliest deadline is the heap's root -/
theorem next_expiry_is_earliest_deadline (s : State) (h : Sched s) (hne : s.pq.size ≠ 0) :
    (∀ it ∈ s.pq.toList, s.pq[0]!.deadline ≤ it.deadline) ∧
    nextExpiry s = (if Generated.cMinExpiryTime / 1000000 + s.pq[0]!.deadline < s.now
                    then Generated.cMinExpiryTime / 1000000
                    else Generated.cMinExpiryTime / 1000000 + s.pq[0]!.deadline - s.now) := next_expiry_min s h hne

/-- earliest deadline first: the item heap.Pop returns is the root and no remaining item is earlier -/
theorem pop_is_earliest {a a' : Array Item} {x : Item} (h : Heap.Ordered Item.deadline a)
    (hp : Heap.pop Item.deadline a = some (x, a')) :
    Heap.Ordered Item.deadline a' ∧ (∀ y ∈ a'.toList, x.deadline ≤ y.deadline) ∧ x = a[0]! :=
  Heap.pop_ordered Item.deadline h hp

/-- earliest deadline first, for a whole scan: the flows handed to the callback during one
    ForAllExpiredFlowRecordsDo are items of the queue the scan started with, handed over in
    non-decreasing order of the deadline they were queued with (the heap only loses items during
    the loop: re-armed and retried flows wait in a deferred list until the loop is over) -/
theorem callbacks_earliest_deadline_first (s : State) (fail : Nat → Bool) (ra : Bool) (h : Sched s) :
    ∃ its : List Item, (scan s fail ra).2.callbacks.map (·.1) = its.map (·.key) ∧
      (∀ it ∈ its, it ∈ s.pq.toList) ∧ its.Pairwise (fun a b => a.deadline ≤ b.deadline) :=
  scan_callbacks_ordered s fail ra h

/-! ## Refused records

  A record whose template lacks an element the aggregation is configured with is refused
  (AggregateMsgByFlowKey returns an error). The model has no such record - the scheduling
  specification says what the schedule must look like afterwards: what it was (`checkIdle`, the
  judgement of a snapshot that follows no operation on the schedule). The two lemmas show that this
  judgement is exact on the items: it accepts the unchanged snapshot and rejects any snapshot in
  which an item of a held flow has another deadline (readiness, retry count) or is gone. -/

/-- in a queue without repeated keys an item is found under its key -/
theorem findItem_self (q : List SItem) (hnd : (q.map (·.key)).Nodup) (it : SItem) (hit : it ∈ q) :
    findItem q it.key = some it := by
  unfold findItem
  induction q with
  | nil => cases hit
  | cons x t ih =>
    simp only [List.map_cons, List.nodup_cons] at hnd
    rcases List.mem_cons.mp hit with h | h
    · subst h; simp
    · have hne : x.key ≠ it.key := by
        intro he
        exact hnd.1 (he ▸ List.mem_map_of_mem h)
      rw [List.find?_cons_of_neg (by simpa using hne)]
      exact ih hnd.2 h

/-- a refused record - like a clock advance - may leave everything as it was -/
theorem idle_accepts_unchanged (s : Snap) (hnd : (s.queue.map (·.key)).Nodup) : checkIdle s s = none := by
  unfold checkIdle
  have h : s.queue.find? (fun it => findItem s.queue it.key != some it) = none := by
    rw [List.find?_eq_none]
    intro it hit
    simp [findItem_self s.queue hnd it hit]
  simp [h]

/-- ... and nothing else: an item of the earlier snapshot that the later one shows differently (a deadline
    moved by a refused record, say) or not at all is reported -/
theorem idle_rejects_changed_item (pre post : Snap) (it : SItem) (hit : it ∈ pre.queue)
    (hch : findItem post.queue it.key ≠ some it) : checkIdle pre post ≠ none := by
  unfold checkIdle
  split
  · simp
  · split
    · simp
    · split
      · simp
      · split
        · simp
        · rename_i hf
          rw [List.find?_eq_none] at hf
          have := hf it hit
          simp at this
          exact absurd this hch
/-! ## Non-vacuity: the two shapes that used to strand a flow (D7, D8) now keep the invariant -/
def r1 : InRec := { key := 1, flowType := 1, corr := [.str [1], .str [], .str [], .str [2], .str [], .str [], .ip4 [0,0,0,0], .num 0, .num 0, .num 0, .num 0, .ip6 zero16],
                    start := 100, end_ := 101, endReason := 2, tcpState := [], stats := [1, 1, 1, 1, 1, 1, 1, 1] }
/-- D8: the deadline equals the scan time (record at t = 0, active timeout 100, scan at t = 100) -/
example : let s := [Op.record r1, .adv 100, .scan [] false].foldl step { activeT := 100, inactiveT := 250 }
    s.flows.map (·.1) = [1] ∧ s.pq.toList.map (fun it => (it.key, it.active, it.inactive)) = [(1, 200, 250)] := by decide
/-- D7: the callback fails -/
example : let s := [Op.record r1, .adv 300, .scan [1] false].foldl step { activeT := 100, inactiveT := 250 }
    s.flows.map (·.1) = [1] ∧ s.pq.toList.map (·.key) = [1] := by decide

/-- earliest first on a concrete scan: flow 2 arrives 10 ms after flow 1, both are inactive-expired at
    t = 400; flow 1 (deadline 100) is handed over before flow 2 (deadline 110) -/
example : let s := [Op.record r1, .adv 10, .record { r1 with key := 2 }, .adv 390].foldl step { activeT := 100, inactiveT := 250 }
    (scan s (fun _ => false) false).2.callbacks.map (·.1) = [1, 2] := by decide

end Ipfix.C06
