/-
  C11 - TCP framing: the same messages however the byte stream is segmented.
  Property theorems only; helper lemmas in Lemmas/Framer.lean.

  Model: Model/Framer.lean (`feed` = a segment arrives and the reader goroutine of
  handleTCPClient runs until it blocks again or returns), for ANY decoder that rejects byte
  strings shorter than 4 bytes; instantiated with the collector's decodePacket at the end.
  Specification: Spec/C11.lean (`frames` = the declarative splitting of the whole stream,
  `runFrames` = decode in order until the first failure, `expectSeg` = what a segment must
  cause). All statements are for streams, segmentations and message counts of any size.
-/
import IpfixModel.Lemmas.Framer
import IpfixModel.Spec.C11
namespace Ipfix.C11
open Ipfix.Framer

variable {σ μ : Type}

/-- what a connection has been through: segments arriving one by one on a fresh connection -/
def run (dec : Decoder σ μ) (st : σ) (segs : List Bytes) : FState σ μ :=
  segs.foldl (feed dec) (FState.init st)

/-! ## segmentation invariance -/

/-- any further segmentation of what follows a segment = the concatenation (any state, including
    one whose buffer holds a partial message) -/
theorem feed_segments (dec : Decoder σ μ) (s : FState σ μ) (a : Bytes) (segs : List Bytes) :
    segs.foldl (feed dec) (feed dec s a) = feed dec s (a ++ segs.flatten) := by
  induction segs generalizing a with
  | nil => simp
  | cons b rest ih => simp [List.foldl_cons, feed_feed, ih, List.append_assoc]

/-- C11: however the stream is cut into segments (or coalesced), the connection ends in the
    state - delivered messages, decoder state, open/closed, buffered rest - it reaches when the
    whole stream arrives as one segment -/
theorem segmentation_invariant (dec : Decoder σ μ) (st : σ) (segs : List Bytes) :
    run dec st segs = feed dec (FState.init st) segs.flatten := by
  unfold run
  cases segs with
  | nil => simp [feed, FState.init, app, drain, peekLen]
  | cons a rest => simp [List.foldl_cons, feed_segments]

/-- two segmentations of the same byte stream are indistinguishable -/
theorem same_stream_same_delivery (dec : Decoder σ μ) (st : σ) (segs segs' : List Bytes)
    (h : segs.flatten = segs'.flatten) : run dec st segs = run dec st segs' := by
  rw [segmentation_invariant, segmentation_invariant, h]

/-- the incremental reader agrees with the declarative specification: split the whole stream
    into length-prefixed frames, decode them in order until the first failure -/
theorem run_eq_spec (dec : Decoder σ μ) (st : σ) (segs : List Bytes) :
    run dec st segs = specState dec (FState.init st) (frames segs.flatten) := by
  rw [segmentation_invariant, feed_spec dec _ rfl]
  simp [FState.init]

/-! ## delivered frames are contiguous, non-overlapping slices of the stream -/

/-- C11: the frames partition the stream (contiguous, in order, nothing skipped, nothing used
    twice); the i-th delivered message is the decoding of the i-th frame and of nothing else, and
    that frame is exactly as long as its own header says - a message is never assembled from bytes
    of two messages; the stream is the delivered frames' bytes followed by what was not consumed,
    which for an open connection is exactly its buffer. -/
theorem frames_partition (dec : Decoder σ μ) (st : σ) (segs : List Bytes) :
    (frames segs.flatten).1.flatten ++ (frames segs.flatten).2 = segs.flatten ∧
    (run dec st segs).out.length ≤ (frames segs.flatten).1.length ∧
    (∀ (i : Nat) (m : μ), (run dec st segs).out[i]? = some m →
        ∃ f a, (frames segs.flatten).1[i]? = some f ∧ WFFrame f ∧ (dec.run a f).2 = some m) ∧
    segs.flatten = ((frames segs.flatten).1.take (run dec st segs).out.length).flatten ++
        (((frames segs.flatten).1.drop (run dec st segs).out.length).flatten ++ (frames segs.flatten).2) ∧
    ((run dec st segs).closed = false →
        (run dec st segs).buf = (frames segs.flatten).2 ∧
        (run dec st segs).out.length = (frames segs.flatten).1.length) := by
  have hpart : (frames segs.flatten).1.flatten ++ (frames segs.flatten).2 = segs.flatten :=
    framesFuel_flatten _ _
  rw [run_eq_spec]
  simp only [specState, FState.init, List.nil_append]
  refine ⟨hpart, runFrames_length_le _ _ _, ?_, ?_, ?_⟩
  · intro i m h
    obtain ⟨f, a, h1, h2⟩ := runFrames_get dec st _ i m h
    refine ⟨f, a, h1, ?_, h2⟩
    have hmem : f ∈ (frames segs.flatten).1 := List.mem_of_getElem? h1
    have h4 : 4 ≤ f.length := by
      apply Classical.byContradiction
      intro hn
      have hs := dec.short a f (by omega)
      rw [h2] at hs
      cases hs
    exact framesFuel_wf _ _ f hmem h4
  · rw [← List.append_assoc, ← List.flatten_append, List.take_append_drop, hpart]
  · intro hc
    simp only [hc, Bool.false_eq_true, if_false, true_and]
    exact (runFrames_open dec st _ hc).1

/-! ## after the first undecodable message -/

/-- a closed connection stays closed and delivers nothing more, whatever arrives -/
theorem closed_absorbing (dec : Decoder σ μ) (s : FState σ μ) (hc : s.closed = true) (more : List Bytes) :
    more.foldl (feed dec) s = s := by
  induction more with
  | nil => rfl
  | cons a rest ih => rw [List.foldl_cons, feed_closed dec s hc, ih]

/-- C11: the stream is `good` (messages that decode, in this order, from decoder state `st`),
    then a complete frame `bad` that does not decode, then anything. However it is segmented:
    exactly the messages of `good` are delivered, the connection is closed, and whatever arrives
    afterwards changes nothing. (`bad` is a frame by its own header, which for a length field
    below 4 lies partly in `rest`.) -/
theorem stops_at_first_bad (dec : Decoder σ μ) (st st1 : σ) (good : List Bytes) (ms : List μ)
    (bad rest : Bytes) (hgood : ∀ w ∈ good, WFFrame w) (hdec : runFrames dec st good = (st1, ms, false))
    (hbad : peekLen (bad ++ rest) = some bad.length) (hfail : (dec.run st1 bad).2 = none)
    (segs : List Bytes) (hsegs : segs.flatten = good.flatten ++ (bad ++ rest)) :
    (run dec st segs).out = ms ∧ (run dec st segs).closed = true ∧
    ∀ more : List Bytes, run dec st (segs ++ more) = run dec st segs := by
  have hhead : ∃ t r, frames (bad ++ rest) = (bad :: t, r) := by
    unfold frames
    rw [framesFuel]
    simp only [hbad, List.length_append, Nat.le_add_right, if_true, List.take_left']
    split
    · exact ⟨_, _, rfl⟩
    · exact ⟨_, _, rfl⟩
  obtain ⟨t, r, hfr⟩ := hhead
  have hrun : runFrames dec st (good ++ bad :: t) = ((dec.run st1 bad).1, ms, true) := by
    have hopen : (runFrames dec st good).2.2 = false := by rw [hdec]
    rw [runFrames_append_open dec st good _ hopen, hdec]
    simp only [runFrames]
    rcases hd : dec.run st1 bad with ⟨st', _ | m⟩
    · simp
    · rw [hd] at hfail; cases hfail
  have hstate : (run dec st segs).out = ms ∧ (run dec st segs).closed = true := by
    rw [run_eq_spec, hsegs, frames_flatten_wf good hgood, hfr]
    simp [specState, FState.init, hrun]
  refine ⟨hstate.1, hstate.2, ?_⟩
  intro more
  show (segs ++ more).foldl (feed dec) (FState.init st) = _
  rw [List.foldl_append]
  exact closed_absorbing dec _ hstate.2 more

/-! ## well-formed messages that decode are delivered, all of them, in order -/

/-- C11: the stream is the concatenation of messages, each as long as its header says, which
    the decoder accepts in this order from state `st` (hypotheses on the decoder, not on who
    produced the bytes). However the stream is segmented, exactly these messages are delivered, in
    order; the connection stays open with an empty buffer. -/
theorem round_trip (dec : Decoder σ μ) (st st' : σ) (wires : List Bytes) (ms : List μ)
    (hw : ∀ w ∈ wires, WFFrame w) (hdec : runFrames dec st wires = (st', ms, false))
    (segs : List Bytes) (hsegs : segs.flatten = wires.flatten) :
    (run dec st segs).out = ms ∧ (run dec st segs).closed = false ∧
    (run dec st segs).buf = [] ∧ (run dec st segs).st = st' := by
  have hfr : frames segs.flatten = (wires, []) := by
    have := frames_flatten_wf wires hw []
    rw [List.append_nil, frames_nil, List.append_nil] at this
    rw [hsegs, this]
  rw [run_eq_spec, hfr]
  simp [specState, FState.init, hdec]

/-! ## other connections are unaffected -/

/-- C11: a segment arriving on connection `a` (and whatever it causes: deliveries, a decoding
    failure, the close) leaves the buffer and the open/closed state of every other connection as
    they were. What connections share is the decoder state, threaded through in delivery order. -/
theorem connections_independent (dec : Decoder σ μ) (sys : Sys σ) (a b : Nat) (hab : b ≠ a) (chunk : Bytes) :
    (feedConn dec sys a chunk).1.conns b = sys.conns b := by
  unfold feedConn
  split
  · rfl
  · simp [hab]

theorem eof_independent (sys : Sys σ) (a b : Nat) (hab : b ≠ a) : (eofConn sys a).conns b = sys.conns b := by
  unfold eofConn
  split
  · rfl
  · simp [hab]

/-- on its own connection a segment does what the single-connection reader does from the shared
    decoder state of that moment -/
theorem feedConn_own (dec : Decoder σ μ) (sys : Sys σ) (a : Nat) (cn : Conn) (h : sys.conns a = some cn) (chunk : Bytes) :
    (feedConn dec sys a chunk).2 = (feed dec (view sys.st cn) chunk).out ∧
    (feedConn dec sys a chunk).1.st = (feed dec (view sys.st cn) chunk).st ∧
    (feedConn dec sys a chunk).1.conns a =
      some { buf := (feed dec (view sys.st cn) chunk).buf, closed := (feed dec (view sys.st cn) chunk).closed } := by
  unfold feedConn
  rw [h]
  simp

/-! ## the model meets the executable specification (Spec.C11.expectSeg / holdsSeg) -/

/-- the specification's view `sc` (whole stream received) describes the connection state `cn`:
    same open/closed state, and an open connection buffers exactly the incomplete rest of its
    own stream, all of whose complete frames were consumed -/
def Tracks (sc : SConn) (cn : Conn) : Prop :=
  sc.closed = cn.closed ∧
  (cn.closed = false → cn.buf = (frames sc.stream).2 ∧ ∀ x ∈ (frames sc.stream).1, 4 ≤ x.length)

theorem tracks_fresh : Tracks {} {} := by
  refine ⟨rfl, fun _ => ?_⟩
  show [] = (frames []).2 ∧ ∀ x ∈ (frames []).1, 4 ≤ x.length
  rw [frames_nil]
  simp

/-- one segment, ANY decoder state (i.e. whatever the other connections did in between): the
    messages the specification expects are the messages the reader delivers, the decoder states
    agree, and the specification keeps describing the connection. The framing of a connection is a
    function of its own bytes only. -/
theorem expectSeg_feed (dec : Decoder σ μ) (sc : SConn) (cn : Conn) (h : Tracks sc cn) (st : σ) (chunk : Bytes) :
    (expectSeg dec st sc chunk).2.2 = (feed dec (view st cn) chunk).out ∧
    (expectSeg dec st sc chunk).1 = (feed dec (view st cn) chunk).st ∧
    Tracks (expectSeg dec st sc chunk).2.1
      { buf := (feed dec (view st cn) chunk).buf, closed := (feed dec (view st cn) chunk).closed } := by
  obtain ⟨hcl, hopen⟩ := h
  cases hc : cn.closed with
  | true =>
    have h1 : (view st cn : FState σ μ).closed = true := hc
    rw [feed_closed dec _ h1]
    have h2 : sc.closed = true := by rw [hcl, hc]
    have he : expectSeg dec st sc chunk = (st, sc, []) := by simp [expectSeg, h2]
    rw [he]
    refine ⟨rfl, rfl, ?_, ?_⟩
    · exact h2.trans h1.symm
    · intro h
      rw [h1] at h
      cases h
  | false =>
    obtain ⟨hbuf, hall⟩ := hopen hc
    have h1 : (view st cn : FState σ μ).closed = false := hc
    have h2 : sc.closed = false := by rw [hcl, hc]
    rw [feed_spec dec _ h1]
    have happ := frames_append sc.stream chunk hall
    have hnew : newFrames sc.stream chunk = (frames (cn.buf ++ chunk)).1 := by
      unfold newFrames
      rw [happ, hbuf]
      simp
    have he : expectSeg dec st sc chunk =
        ((runFrames dec st (frames (cn.buf ++ chunk)).1).1,
         { stream := sc.stream ++ chunk, closed := (runFrames dec st (frames (cn.buf ++ chunk)).1).2.2 },
         (runFrames dec st (frames (cn.buf ++ chunk)).1).2.1) := by
      simp [expectSeg, h2, hnew]
    rw [he]
    refine ⟨by simp [specState, view], by simp [specState, view], by simp [specState, view], ?_⟩
    intro hopen'
    have hopen'' : (runFrames dec st (frames (cn.buf ++ chunk)).1).2.2 = false := by
      simpa [specState, view] using hopen'
    refine ⟨?_, ?_⟩
    · show (specState dec (view st cn) (frames ((view st cn : FState σ μ).buf ++ chunk))).buf = (frames (sc.stream ++ chunk)).2
      rw [happ, ← hbuf]
      simp [specState, view, hopen'']
    · intro x hx
      rw [happ] at hx
      simp only [List.mem_append] at hx
      rcases hx with hx | hx
      · exact hall x hx
      · rw [← hbuf] at hx
        exact (runFrames_open dec st _ hopen'').2 x hx

/-- the relation between the model's collecting process and the specification's -/
def Rel (sys : Sys σ) (ss : SSys σ) : Prop :=
  sys.st = ss.st ∧
  ∀ c, (sys.conns c = none ∧ ss.conns c = none) ∨
       ∃ cn sc, sys.conns c = some cn ∧ ss.conns c = some sc ∧ Tracks sc cn

theorem rel_init (st : σ) : Rel ({ st := st } : Sys σ) ({ st := st } : SSys σ) :=
  ⟨rfl, fun _ => Or.inl ⟨rfl, rfl⟩⟩

theorem rel_open (sys : Sys σ) (ss : SSys σ) (h : Rel sys ss) (c : Nat) : Rel (sys.open c) (ss.open c) := by
  refine ⟨h.1, fun x => ?_⟩
  by_cases hx : x = c
  · exact Or.inr ⟨{}, {}, by simp [Sys.open, hx], by simp [SSys.open, hx], tracks_fresh⟩
  · simpa [Sys.open, SSys.open, hx] using h.2 x

theorem rel_eof (sys : Sys σ) (ss : SSys σ) (h : Rel sys ss) (c : Nat) : Rel (eofConn sys c) (ss.eof c) := by
  rcases h.2 c with ⟨h1, h2⟩ | ⟨cn, sc, h1, h2, ht⟩
  · simpa [eofConn, SSys.eof, h1, h2] using h
  · refine ⟨by simpa [eofConn, SSys.eof, h1, h2] using h.1, fun x => ?_⟩
    by_cases hx : x = c
    · refine Or.inr ⟨{ buf := [], closed := true }, expectEof sc, by simp [eofConn, h1, hx],
        by simp [SSys.eof, h2, hx], rfl, fun h => by simp at h⟩
    · simpa [eofConn, SSys.eof, h1, h2, hx] using h.2 x

/-- C11, executable form: on every history of segments on any number of interleaved connections
    the model delivers, segment by segment, exactly what `Spec.C11` expects - so the predicate
    evaluated on the implementation's observations (`holdsSeg`, `holdsState`) is the predicate
    proved of the model. -/
theorem model_meets_spec (dec : Decoder σ μ) (sys : Sys σ) (ss : SSys σ) (h : Rel sys ss) (c : Nat) (chunk : Bytes) :
    (feedConn dec sys c chunk).2 = (ss.seg dec c chunk).2 ∧
    Rel (feedConn dec sys c chunk).1 (ss.seg dec c chunk).1 := by
  rcases h.2 c with ⟨h1, h2⟩ | ⟨cn, sc, h1, h2, ht⟩
  · simpa [feedConn, SSys.seg, h1, h2] using h
  · have hst := h.1
    obtain ⟨e1, e2, e3⟩ := expectSeg_feed dec sc cn ht ss.st chunk
    simp only [feedConn, SSys.seg, h1, h2, hst]
    refine ⟨e1.symm, e2.symm, fun x => ?_⟩
    by_cases hx : x = c
    · exact Or.inr ⟨_, _, by simp [hx], by simp [hx], e3⟩
    · simpa [hx] using h.2 x

theorem model_holdsSeg (render : μ → String) (ms : List μ) : holdsSeg (ms.map render) (ms.map render) = true := by
  simp [holdsSeg, verdict]

theorem model_holdsState (sc : SConn) (cn : Conn) (h : Tracks sc cn) : holdsState sc cn.closed = true := by
  simp [holdsState, h.1]

/-! ## the collector's decoder -/

/-- C11 for the collecting process: decodePacket behind the TCP reader, any registry, any
    decoding mode, any template state: segmentation does not matter -/
theorem ipfix_segmentation_invariant (lookup : Nat → Nat → Option IE) (mode : Mode) (st : CState)
    (segs segs' : List Bytes) (h : segs.flatten = segs'.flatten) :
    run (ipfixDecoder lookup mode) st segs = run (ipfixDecoder lookup mode) st segs' :=
  same_stream_same_delivery _ st segs segs' h

/-- a frame whose length field is below 20 closes the connection (decodePacket needs the
    16-byte message header and a 4-byte set header) -/
theorem ipfix_short_frame_closes (lookup : Nat → Nat → Option IE) (mode : Mode) (st : CState) (f : Bytes)
    (h : f.length < 20) : ((ipfixDecoder lookup mode).run st f).2 = none := by
  simp [ipfixDecoder, ipfixRun, decodePacket_short lookup mode st f h]

/-! ## non-vacuity -/

/-- a toy decoder: a frame decodes to its 5th byte iff that byte is non-zero -/
def toyDecoder : Decoder Nat UInt8 where
  run := fun n b => match b with
    | _ :: _ :: _ :: _ :: x :: _ => if x = 0 then (n + 1, none) else (n + 1, some x)
    | _ => (n, none)
  short := by
    intro st b h
    match b, h with
    | [], _ => rfl
    | [_], _ => rfl
    | [_, _], _ => rfl
    | [_, _, _], _ => rfl
    | _ :: _ :: _ :: _ :: _, h => simp at h; omega

/-- two messages [0,10,0,5,7] [0,10,0,6,9,9], cut inside both: both delivered, once, in order -/
example : (run toyDecoder 0 [[0, 10], [0, 5, 7, 0], [10, 0, 6, 9], [9]]).out = [7, 9] ∧
    (run toyDecoder 0 [[0, 10, 0, 5, 7, 0, 10, 0, 6, 9, 9]]).out = [7, 9] ∧
    (run toyDecoder 0 [[0, 10], [0, 5, 7, 0], [10, 0, 6, 9], [9]]).closed = false := by decide

/-- the hypotheses of `round_trip` are satisfiable -/
example : (∀ w ∈ [[0, 10, 0, 5, 7], [0, 10, 0, 6, 9, 9]], WFFrame w) ∧
    runFrames toyDecoder 0 [[0, 10, 0, 5, 7], [0, 10, 0, 6, 9, 9]] = (2, [7, 9], false) := by decide

/-- the hypotheses of `stops_at_first_bad` are satisfiable, with a bad frame that is well-formed
    as a frame (5th byte 0) and with one whose length field is 2 -/
example : runFrames toyDecoder 0 [[0, 10, 0, 5, 7]] = (1, [7], false) ∧
    peekLen ([0, 10, 0, 5, 0] ++ [1, 2, 3]) = some [0, 10, 0, 5, 0].length ∧ (toyDecoder.run 1 [0, 10, 0, 5, 0]).2 = none ∧
    peekLen ([0, 10] ++ [0, 2, 3]) = some [0, 10].length ∧ (toyDecoder.run 1 [0, 10]).2 = none := by decide

/-- after the bad message nothing is delivered although a good message follows; a second
    connection of the same process still delivers -/
example : (run toyDecoder 0 [[0, 10, 0, 5, 7, 0, 10, 0], [5, 0, 0, 10, 0, 5, 8]]).out = [7] ∧
    (run toyDecoder 0 [[0, 10, 0, 5, 7, 0, 10, 0], [5, 0, 0, 10, 0, 5, 8]]).closed = true := by decide

example :
    let s0 : Sys Nat := (({ st := 0 } : Sys Nat).open 1).open 2
    let s1 := (feedConn toyDecoder s0 1 [0, 10, 0, 5, 0, 0]).1     -- connection 1 closes
    (s1.conns 1).map (·.closed) = some true ∧
    (feedConn toyDecoder s1 2 [0, 10, 0, 5, 8]).2 = [8] ∧
    (feedConn toyDecoder s1 1 [0, 10, 0, 5, 8]).2 = [] := by decide

/-- `Tracks` / `Rel` are inhabited beyond the initial state: the specification's expectation for a
    cut message, computed on the whole stream, is what the model delivers -/
example : (expectSeg toyDecoder 0 { stream := [0, 10, 0], closed := false } [5, 7, 0, 10]).2.2 = [7] ∧
    (feed toyDecoder (view 0 { buf := [0, 10, 0], closed := false }) [5, 7, 0, 10]).out = [7] := by decide

/-- the collector's decoder behind the reader: a template message (observation domain 1,
    template 256, one unknown 4-byte element, lenient mode) cut inside its header and inside
    its body is delivered once; a frame with version 9 closes the connection -/
example :
    let tpl : Bytes := [0, 10, 0, 28, 0, 0, 0, 0, 0, 0, 0, 0, 0, 0, 0, 1, 0, 2, 0, 12, 1, 0, 0, 1, 0x7f, 0xff, 0, 4]
    let s := run (ipfixDecoder (fun _ _ => none) .keep) {} [tpl.take 3, (tpl.drop 3).take 20, tpl.drop 23]
    s.out.length = 1 ∧ s.closed = false ∧ s.buf = [] ∧
    (run (ipfixDecoder (fun _ _ => none) .keep) {} [[0, 9, 0, 20], [0, 0, 0, 0, 0, 0, 0, 0, 0, 0, 0, 1, 0, 2, 0, 4]]).closed = true := by
  decide

end Ipfix.C11
