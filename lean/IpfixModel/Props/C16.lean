/-
  C16 - Set and record builders: length bookkeeping, equivalence of add paths, reuse.
-/
import IpfixModel.Model.Builder
import IpfixModel.Spec.C16
import IpfixModel.Lemmas.IE
import IpfixModel.Lemmas.RecordBuf
namespace Ipfix.C16

inductive BOp where
  | prepare (ty : SetType) (id : Nat)
  | add (es : List Elem) (tid : Nat)
  | addV2 (es : List Elem) (tid : Nat)
  | updateLen
  | reset
  deriving Repr

/-- a failing operation returns an error and leaves the set unchanged -/
def step (s : SetB) : BOp → SetB
  | .prepare ty id => (s.prepare ty id).getD s
  | .add es tid => (s.addRecord es tid).getD s
  | .addV2 es tid => (s.addRecordV2 es tid).getD s
  | .updateLen => s.updateLen
  | .reset => s.reset

def run (s : SetB) (ops : List BOp) : SetB := ops.foldl step s

/-- the bookkeeping invariant -/
def Inv (s : SetB) : Prop :=
  s.length = 4 + (s.recs.map Rec.length).sum ∧ s.header.length = 4

theorem inv_new : Inv SetB.new := by simp [Inv, SetB.new]

theorem inv_step (s : SetB) (op : BOp) (h : Inv s) : Inv (step s op) := by
  obtain ⟨hl, hh⟩ := h
  cases op with
  | prepare ty id =>
    cases ty <;> simp [step, SetB.prepare, Inv, hl, hh, List.length_drop]
  | add es tid =>
    simp only [step, SetB.addRecord]
    split
    · split
      · simp [Inv, hl, hh, Rec.length]; omega
      · simp [Inv, hl, hh]
    · split
      · simp [Inv, hl, hh, Rec.length]; omega
      · simp [Inv, hl, hh]
    · simp [Inv, hl, hh]
  | addV2 es tid =>
    simp only [step, SetB.addRecordV2]
    split
    · split
      · simp [Inv, hl, hh, Rec.length]; omega
      · simp [Inv, hl, hh]
    · simp [Inv, hl, hh, Rec.length]; omega
    · simp [Inv, hl, hh]
  | updateLen => simp [step, SetB.updateLen, Inv, hl, hh, List.length_take]
  | reset => simp [step, SetB.reset, Inv]

/-- C16: for ANY operation sequence the set's reported length is 4 plus the sum of its records'
    reported lengths ... -/
theorem length_inv (ops : List BOp) : Inv (run SetB.new ops) := by
  have : ∀ s, Inv s → Inv (run s ops) := by
    induction ops with
    | nil => intro s h; exact h
    | cons op ops ih => intro s h; exact ih _ (inv_step s op h)
  exact this _ inv_new

/-- ... and equals the number of bytes that get serialized for it -/
theorem serialize_length (s : SetB) (h : Inv s) : s.serialize.length = s.length := by
  obtain ⟨hl, hh⟩ := h
  simp only [SetB.serialize, List.length_append, hh, hl, List.length_flatten, List.map_map]
  congr 1

/-- the message CreateIPFIXMsg builds is exactly 16 + length bytes -/
theorem createMsg_length (s : SetB) (h : Inv s) (dom seq time : Nat) (w : Bytes)
    (hw : createMsg s dom seq time = some w) : w.length = 16 + s.length ∧ 16 + s.length ≤ 65535 := by
  unfold createMsg at hw
  split at hw
  · cases hw
  · rename_i hle
    simp at hw; subst hw
    simp [msgHeader, serialize_length s h]
    refine ⟨by omega, ?_⟩
    have : Generated.cMsgHeaderLength = 16 := rfl
    have : Generated.cMaxSocketMsgSize = 65535 := rfl
    omega

theorem msgHeader_length (len time seq dom : Nat) : (msgHeader len time seq dom).length = 16 := by
  simp [msgHeader]

/-- the model's observation satisfies the executable predicate evaluated on the implementation -/
theorem model_holdsObs (s : SetB) (h : Inv s) : holdsObs (SetB.toObs s) = true := by
  obtain ⟨hl, hh⟩ := h
  have h16 : Generated.cMsgHeaderLength = 16 := rfl
  have hmax : Generated.cMaxSocketMsgSize = 65535 := rfl
  have hrec : (s.recs.map fun r => ({ tid := r.tid, fieldCount := r.fieldCount, length := r.length, bytes := r.bytes } : RecObs)).all
      (fun r => r.bytes.length == r.length) = true := by
    simp [List.all_eq_true, Rec.length]
  have hsum : ((s.recs.map fun r => ({ tid := r.tid, fieldCount := r.fieldCount, length := r.length, bytes := r.bytes } : RecObs)).map (·.length)).sum
      = (s.recs.map Rec.length).sum := by simp [List.map_map, Function.comp_def]
  have hflat : ((s.recs.map fun r => ({ tid := r.tid, fieldCount := r.fieldCount, length := r.length, bytes := r.bytes } : RecObs)).map (·.bytes)).flatten
      = (s.recs.map (·.bytes)).flatten := by simp [List.map_map, Function.comp_def]
  have hser := serialize_length s ⟨hl, hh⟩
  unfold holdsObs SetB.toObs
  simp only [hrec, hsum, hflat, hh, beq_self_eq_true, Bool.and_true, Bool.true_and]
  cases hc : createMsg s 7 9 0 with
  | none =>
    unfold createMsg at hc
    split at hc
    · rename_i hgt
      simp only [Bool.and_eq_true, beq_iff_eq, decide_eq_true_eq]
      exact ⟨hl, by omega⟩
    · cases hc
  | some w =>
    obtain ⟨hwl, hwb⟩ := createMsg_length s ⟨hl, hh⟩ 7 9 0 w hc
    unfold createMsg at hc
    split at hc
    · cases hc
    · simp at hc; subst hc
      have hd : (msgHeader (Generated.cMsgHeaderLength + s.length) 0 9 7 ++ s.serialize).drop 16 = s.serialize := by
        rw [List.drop_append_of_le_length (by simp [msgHeader_length])]
        simp [List.drop_of_length_le, msgHeader_length]
      simp only [hd, Bool.and_eq_true, beq_iff_eq, decide_eq_true_eq]
      exact ⟨hl, ⟨hwl, rfl⟩, hwb⟩

/-! ## The three add paths -/

theorem fold_data (es : List Elem) (acc : List Elem) (bs : Bytes) :
    es.foldl addElemData (some (acc, bs)) = (encodeRecord es).map fun b => (acc ++ es, bs ++ b) := by
  induction es generalizing acc bs with
  | nil => simp [encodeRecord]
  | cons e t ih =>
    obtain ⟨ie, v⟩ := e
    simp only [List.foldl_cons, addElemData, encodeRecord]
    cases he : encodeElem ie v with
    | none =>
      simp
      clear ih
      induction t with
      | nil => rfl
      | cons e' t' ih' => simpa [List.foldl_cons, addElemData] using ih'
    | some b =>
      simp only [ih]
      cases encodeRecord t <;> simp [List.append_assoc]

theorem fold_template (es : List Elem) (acc : List Elem) (bs : Bytes) (hz : ∀ e ∈ es, elemEmpty e = true) :
    es.foldl addElemTemplate (some (acc, bs)) = some (acc ++ es, bs ++ ((es.map (·.1)).map fieldSpec).flatten) := by
  induction es generalizing acc bs with
  | nil => simp
  | cons e t ih =>
    have he : elemEmpty e = true := hz e (by simp)
    simp only [List.foldl_cons, addElemTemplate, he, if_true]
    rw [ih _ _ (fun x hx => hz x (by simp [hx]))]
    simp [List.append_assoc]

/-- C16: the copying path (AddRecord / AddRecordWithExtraElements, element by element) and the
    slice-adopting path (AddRecordV2) produce the same set - same records, same buffers, same
    length - for data sets ... -/
theorem add_paths_equiv_data (s : SetB) (es : List Elem) (tid : Nat) (hd : s.ty = .data) :
    s.addRecord es tid = s.addRecordV2 es tid := by
  simp only [SetB.addRecord, SetB.addRecordV2, hd, fold_data]
  cases encodeRecord es <;> simp

/-- ... and for template sets (whose elements carry empty values - zero, false, nil/"", or a float's -0.0 - which AddRecord insists on) -/
theorem add_paths_equiv_template (s : SetB) (es : List Elem) (tid : Nat) (ht : s.ty = .template)
    (hz : ∀ e ∈ es, elemEmpty e = true) :
    s.addRecord es tid = s.addRecordV2 es tid := by
  simp only [SetB.addRecord, SetB.addRecordV2, ht, fold_template es [] _ hz, templateRecordBytes]
  simp [List.append_assoc]

/-- the link to the EXACT model of dataRecord.GetBuffer (Model/RecordBuf.lean, tied to the code byte
    for byte by `ie recbuf`): a record that the builder model accepts into a data set carries exactly the
    bytes GetBuffer computes for its elements, and as many as the record reports -/
theorem data_record_bytes_exact (s s' : SetB) (es : List Elem) (tid : Nat) (hd : s.ty = .data)
    (h : s.addRecordV2 es tid = some s') :
    ∃ r, s'.recs = s.recs ++ [r] ∧ r.elems = es ∧ r.bytes = recordBuf es ∧ r.bytes.length = recordLength es := by
  simp only [SetB.addRecordV2, hd] at h
  cases he : encodeRecord es with
  | none => simp [he] at h
  | some bs =>
    simp [he] at h
    subst h
    exact ⟨_, rfl, rfl, (recordBuf_eq_encodeRecord' es bs he).symm, encodeRecord_length es bs he⟩

/-! ## Reuse -/

/-- C16: after a reset a set behaves exactly like a new one: the first operation of a well-formed
    sequence is a prepare, and it yields the same set on both ... -/
theorem reset_like_new (s : SetB) (ty : SetType) (id : Nat) :
    s.reset.prepare ty id = SetB.new.prepare ty id := by
  cases ty <;> simp [SetB.reset, SetB.new, SetB.prepare]

/-- ... hence so does every continuation -/
theorem reset_like_new_run (s : SetB) (ty : SetType) (id : Nat) (ops : List BOp)
    (hp : (SetB.new.prepare ty id).isSome) :
    run s.reset (.prepare ty id :: ops) = run SetB.new (.prepare ty id :: ops) := by
  simp only [run, List.foldl_cons, step, reset_like_new]
  cases hq : SetB.new.prepare ty id with
  | none => simp [hq] at hp
  | some s' => rfl

/-- outside the property's quantifier (no prepare): a brand-new set has the zero-value type
    Template, a reset one has Undefined, so an add succeeds on one and fails on the other -/
theorem new_vs_reset_without_prepare_differ :
    (SetB.new.addRecord [] 256).isSome = true ∧ (SetB.new.reset.addRecord [] 256).isSome = false := by decide

/-- UpdateLenInHeader writes the 16-bit length at offset 2 and keeps the set id -/
theorem header_len (s : SetB) (h : s.header.length = 4) :
    s.updateLen.header = s.header.take 2 ++ be 2 s.length ∧ s.updateLen.header.length = 4 := by
  simp [SetB.updateLen, List.length_take, h]

/-! ## Non-vacuity -/
def ieU8 : IE := ⟨"protocolIdentifier", 4, .unsigned8, 0, 1⟩
example : (run SetB.new [.prepare .data 256, .add [(ieU8, .num 6)] 256, .updateLen]).serialize = [1, 0, 0, 5, 6] := by decide
example : (run SetB.new [.prepare .template 256, .addV2 [(ieU8, .num 0)] 256, .updateLen]).serialize =
    [0, 2, 0, 12, 1, 0, 0, 1, 0, 4, 0, 1] := by decide

end Ipfix.C16
