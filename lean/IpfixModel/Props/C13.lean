/-
  C13 - Concurrent record ingestion by any number of workers, expiry scans and queries behave as if
  executed one at a time in some order consistent with real time.

  PARTIAL. What is PROVED here (for every execution / history / state, no bound):
    * `atomic_linearizable`: if every operation takes effect atomically at one point between its
      invocation and its response (the machine of Model/Atomic.lean), then the order of those
      points is a sequential execution of the same operations with the same responses and the same
      final state, and it respects real time;
    * `linearizable_sound`: the executable checker that is run on the histories recorded from the
      real code never accepts a history that has no such order;
    * what a sequential order then gives for the aggregation model: records for different keys do
      not interfere (`keys_independent`, `serialisation_independent`), no delta is lost or counted
      twice (`no_lost_delta`, `no_double_count`), no key is exported twice within a scan and a
      second scan at the same clock reading exports nothing (`no_double_export`,
      `no_double_export_reachable`, `rescan_exports_nothing`);
    * the tie to the source: `lock_discipline_agg` & co. are `decide`d over the lock table that
      tools/lockfacts-agg regenerates from pkg/intermediate on every run - every access to the flow
      map, the expiry queue and the worker list in a method reachable from a goroutine root happens
      with a.mutex held, the user callbacks run inside the critical section, and every operation
      acquires the lock once (one critical section, i.e. one atomic step per record / scan / query).
  What is NOT proved but OBSERVED on every run: that sync.RWMutex makes those critical sections
  atomic and that there is no data race (Go race detector on stress runs with 1..16 goroutines plus
  the worker pool), and that the real code's responses are those of the model (recorded small
  histories through `Ipfix.C13.holdsHistory`).
  Granularity: one atomic step per RECORD, not per message (AggregateMsgByFlowKey takes the lock
  once per record).
-/
import IpfixModel.Spec.C13
import IpfixModel.Lemmas.Atomic
import IpfixModel.Lemmas.AggLin
import IpfixModel.Generated.LocksAgg
namespace Ipfix.C13
open Agg Atomic AggLin

/-! ## atomic ⇒ linearizable (generic) -/

/-- For every well-formed execution whose operations take effect atomically at their `step`:
    the step order (1) lists the operations as they were invoked, (2) is a sequential execution
    from the initial state that ends in the same final state, (3) gives every operation the
    response it returned in the concurrent execution, and (4) respects real time - if `a`
    responded before `b` was invoked, `a`'s step comes before `b`'s. -/
theorem atomic_linearizable {σ Op Out : Type} [DecidableEq Out] (spec : σ → Op → σ × Out) (init : σ)
    (evs : List (Event Op Out)) (c : Cfg σ Op Out) (h : exec spec (Cfg.init init) evs = some c) :
    (c.lin.map (·.id) = stepOrder evs ∧ ∀ t ∈ c.lin, Event.inv t.id t.op ∈ evs) ∧
    seqRun spec init (c.lin.map fun t => (t.id, t.op)) = (c.state, c.lin) ∧
    (∀ i out, Event.res i out ∈ evs → ∃ t ∈ c.lin, t.id = i ∧ t.out = out) ∧
    (∀ a b, Precedes evs a b → b ∈ stepOrder evs → Before (stepOrder evs) a b) := by
  obtain ⟨new, tr⟩ := exec_trace_from spec h
  have hlin : c.lin = new := by
    have := tr.lin
    simpa [Cfg.init] using this
  refine ⟨⟨?_, ?_⟩, ?_, ?_, ?_⟩
  · rw [hlin]; exact tr.order
  · intro t ht
    rcases tr.ops t (hlin ▸ ht) with hp | hp
    · simp [Cfg.init] at hp
    · exact hp
  · rw [hlin]; exact tr.seq
  · intro i out hr
    rcases tr.resp i out hr with hd | hd
    · simp [Cfg.init] at hd
    · rw [hlin]; exact hd
  · exact fun a b hp hb => exec_real_time spec h a b hp hb

/-- the aggregation instance: any interleaving of record arrivals, scans and queries whose critical
    sections are atomic is a sequential run of `Ipfix.C13.spec` (same exported records, same answers,
    same final flow map and queue), in an order consistent with real time -/
theorem agg_atomic_linearizable (init : State) (evs : List (Event LOp Obs)) (c : Cfg State LOp Obs)
    (h : exec spec (Cfg.init init) evs = some c) :
    seqRun spec init (c.lin.map fun t => (t.id, t.op)) = (c.state, c.lin) ∧
    (∀ i out, Event.res i out ∈ evs → ∃ t ∈ c.lin, t.id = i ∧ t.out = out) ∧
    (∀ a b, Precedes evs a b → b ∈ stepOrder evs → Before (stepOrder evs) a b) :=
  (atomic_linearizable spec init evs c h).2

/-! ## the checker is sound -/

/-- if the checker accepts a recorded history then there IS a total order of its operations that is
    consistent with real time, whose sequential run from `init` reproduces every recorded response,
    and whose final state is the one observed after the run (if one was observed) -/
theorem linearizable_sound (init : State) (hist : List (HEvent LOp Obs)) (final : Option Final)
    (h : holdsHistory init hist final = true) :
    ∃ order s', order.Perm hist ∧ RealTime order ∧ Legal spec init order s' ∧
      (∀ f, final = some f → finalOf s' = f) := by
  obtain ⟨order, s', hp, hrt, hl, hf⟩ := search_sound spec _ hist.length init hist h
  refine ⟨order, s', hp, hrt, hl, ?_⟩
  intro f e
  subst e
  simpa using hf

/-- generic form -/
theorem checker_sound {σ Op Out : Type} [BEq Out] (spec : σ → Op → σ × Out) (init : σ) (fin : σ → Bool)
    (hist : List (HEvent Op Out)) (h : linearizable spec init fin hist = true) :
    ∃ order s', order.Perm hist ∧ RealTime order ∧ Legal spec init order s' ∧ fin s' = true :=
  search_sound spec fin hist.length init hist h

/-! ## what a sequential order gives: no interference, no lost or double-counted delta -/

theorem keys_independent (s : State) (r : InRec) (k : Nat) (h : r.key ≠ k) : (ingest s r).find k = s.find k :=
  AggLin.keys_independent s r k h

/-- the state of key `k` after any sequence of arrivals depends only on the arrivals for `k`, in
    their order: two serialisations of a concurrent run that agree on the per-key order (e.g. every
    goroutine owns its keys) give the same flow record -/
theorem serialisation_independent (s : State) (rs1 rs2 : List InRec) (k : Nat)
    (h : rs1.filter (·.key == k) = rs2.filter (·.key == k)) :
    (rs1.foldl ingest s).find k = (rs2.foldl ingest s).find k := by
  rw [ingests_per_key, ingests_per_key, per_key_filter k _ rs1, per_key_filter k _ rs2, h]

theorem runOps_noScan (ops : List LOp) (s : State) (h : noScan ops = true) :
    runOps s ops = (ingestsOf ops).foldl ingest s := by
  induction ops generalizing s with
  | nil => rfl
  | cons op ops ih =>
    cases op with
    | ingest r => exact ih _ (by simpa [noScan] using h)
    | scan f ra => simp [noScan] at h
    | numFlows => exact ih _ (by simpa [noScan] using h)
    | getExpiry => exact ih _ (by simpa [noScan] using h)
    | dump => exact ih _ (by simpa [noScan] using h)

/-- NO DELTA IS LOST OR DOUBLE-COUNTED. In any sequential order `ops` of arrivals and queries (any
    linearization of a concurrent phase between two scans), for a held flow `k` that needs no
    correlation whose arrivals come with increasing end times (the contract of C05): the per-node
    delta counter `i` of the flow ends up as its old value plus the sum of the deltas of ALL the
    arrivals for `k` - each exactly once - modulo 2^64, whatever was interleaved for other keys. -/
theorem no_lost_delta (s : State) (ops : List LOp) (k i : Nat) (a : AggRec) (hns : noScan ops = true)
    (hfind : s.find k = some a) (hd : isDelta i = true)
    (hrs : ∀ r ∈ (ingestsOf ops).filter (·.key == k), i < r.stats.length ∧ corrRequired r.flowType r.corr = false)
    (h0 : a.endDst ≠ 0) (hinc : Increasing a.endDst ((ingestsOf ops).filter (·.key == k)))
    (hb : a.dstStats.getD i 0 < u64 ∧ a.srcStats.getD i 0 < u64) :
    ∃ a', (runOps s ops).find k = some a' ∧
      a'.dstStats.getD i 0 = (a.dstStats.getD i 0 + sumDelta i ((ingestsOf ops).filter (·.key == k))) % u64 ∧
      a'.srcStats.getD i 0 = (a.srcStats.getD i 0 + sumDelta i ((ingestsOf ops).filter (·.key == k))) % u64 := by
  rw [runOps_noScan ops s hns, ingests_per_key, per_key_filter, hfind,
    perKey_some k _ a (fun r hr => by simpa using (List.mem_filter.mp hr).2)]
  exact ⟨_, rfl, delta_sum _ a i hd (fun r hr => (hrs r hr).1) (fun r hr => (hrs r hr).2) h0 hinc hb⟩

/-- ... and since the last reset: after the exporter has reset the flow's statistics, the delta
    counter is exactly the sum of the deltas that arrived afterwards (mod 2^64) - nothing from
    before the reset is counted again -/
theorem no_double_count (s : State) (ops : List LOp) (k i : Nat) (a0 : AggRec) (hns : noScan ops = true)
    (hfind : s.find k = some (resetStats a0)) (hd : isDelta i = true)
    (hrs : ∀ r ∈ (ingestsOf ops).filter (·.key == k), i < r.stats.length ∧ corrRequired r.flowType r.corr = false)
    (h0 : a0.endDst ≠ 0) (hinc : Increasing a0.endDst ((ingestsOf ops).filter (·.key == k))) :
    ∃ a', (runOps s ops).find k = some a' ∧
      a'.dstStats.getD i 0 = sumDelta i ((ingestsOf ops).filter (·.key == k)) % u64 ∧
      a'.srcStats.getD i 0 = sumDelta i ((ingestsOf ops).filter (·.key == k)) % u64 := by
  obtain ⟨r1, r2, r3, _⟩ := reset_delta a0 i hd
  have hu : 0 < u64 := by unfold u64; omega
  obtain ⟨a', h1, h2, h3⟩ := no_lost_delta s ops k i (resetStats a0) hns hfind hd hrs (by rw [r3]; exact h0)
    (by rw [r3]; exact hinc) (by rw [r1, r2]; exact ⟨hu, hu⟩)
  refine ⟨a', h1, ?_, ?_⟩
  · rw [h2, r1, Nat.zero_add]
  · rw [h3, r2, Nat.zero_add]

/-! ## no flow is exported twice -/

/-- within one expiry scan no key is handed to the callback twice (loop invariant of the scan on top
    of the scheduling invariant: every popped item is deleted or deferred to the push list) -/
theorem no_double_export (s : State) (fail : Nat → Bool) (ra : Bool) (h : Sched s) :
    ((scan s fail ra).2.callbacks.map (·.1)).Nodup := scan_callbacks_nodup s fail ra h

/-- ... in every state the process can reach, by any sequential order of arrivals, clock advances and
    scans (hence, by `atomic_linearizable`, by any interleaving of atomic operations) -/
theorem no_double_export_reachable (a i : Nat) (ops : List Agg.Op) (fail : Nat → Bool) (ra : Bool) :
    ((scan (ops.foldl step { activeT := a, inactiveT := i }) fail ra).2.callbacks.map (·.1)).Nodup :=
  scan_callbacks_nodup _ fail ra (sched_reachable a i ops)

/-- no flow is exported twice for one deadline: after a scan that ran to its end (positive
    timeouts), another scan at the same clock reading finds nothing due -/
theorem rescan_exports_nothing (s : State) (f f' : Nat → Bool) (ra ra' : Bool) (h : Sched s)
    (hA : 0 < s.activeT) (hI : 0 < s.inactiveT) (hok : (scan s f ra).2.failed = false) :
    (scan (scan s f ra).1 f' ra').2.callbacks = [] := by
  apply scan_all_future
  have hnow : (scan s f ra).1.now = s.now := by
    rw [scan_fst]
    exact (scan_spec s f ra h).now
  rw [hnow]
  exact after_scan_future s f ra h hA hI hok

/-! ## tie to the source: the regenerated lock table (tools/lockfacts-agg) -/

/-- every access to flowKeyRecordMap / expirePriorityQueue / workerList in a method reachable from a
    goroutine root (the exported API, the worker loop) is made with a.mutex held -/
theorem lock_discipline_agg :
    ∀ root ∈ Generated.aggRoots, ∀ m ∈ root.2, ∀ acc ∈ Generated.aggAccesses,
      acc.1 = m → acc.2.1 ∈ sharedFields → acc.2.2.2 = true := by decide

/-- ... and, reachable or not, no access in the package is unguarded -/
theorem no_unguarded_access : ∀ acc ∈ Generated.aggAccesses, acc.2.2.2 = true := by decide

/-- the user callbacks (expiry export, ForAllRecordsDo) run inside the critical section: the record
    they are shown cannot change under them -/
theorem callbacks_inside_critical_section : ∀ c ∈ Generated.aggCallbackCalls, c.2.2 = true := by decide

/-- the critical sections are EXCLUSIVE where they have to be: a method that writes shared state, or that
    hands a live record to a user callback (the documented use of those callbacks is to modify the record:
    ResetStatAndThroughputElementsInRecord, SetExternalFieldsFilled, ...), or the query that renders live
    records (GetRecords reads what such a callback writes), never takes a.mutex in shared mode - two such
    operations cannot overlap, which is what "one atomic step each" in the model means. A read lock in a
    method that only reads scalars (GetNumFlows) would be harmless and does not break this. -/
theorem exclusive_lock_where_records_are_exposed :
    (∀ acc ∈ Generated.aggAccesses, acc.2.2.1 = "w" → acc.1 ∉ Generated.aggSharedLockUsers) ∧
    (∀ c ∈ Generated.aggCallbackCalls, c.1 ∉ Generated.aggSharedLockUsers) ∧
    "GetRecords" ∉ Generated.aggSharedLockUsers := by decide

/-- the helpers that run INSIDE an operation's critical section (every call site holds the lock) never take the
    mutex themselves - so they cannot release it in the middle either (a helper that did `Unlock(); slow work; Lock()`
    would split the operation's one atomic step into read / compute / write-back, with every access still made under
    the lock: no lockset analysis and no race detector objects to that, the updates of two ingesting goroutines
    just overwrite each other) -/
theorem helpers_never_touch_the_mutex :
    ∀ m ∈ Generated.aggCalledWithLock, (m, 0, false) ∈ Generated.aggLockRegions := by decide

/-- every operation reads the clock INSIDE its critical section: the time an operation acts on (deadlines it sets,
    "is it due", "how long until the next deadline") is the time of its atomic step, not a reading taken before it
    waited for the lock - an answer computed from state after somebody else's step and a clock reading from before
    it is one no sequential execution can give. (The harness's clock is frozen while operations run, so no input
    can exhibit a reading taken too early.) -/
theorem clock_read_inside_critical_section :
    Generated.aggClockReads.isEmpty = false ∧ ∀ r ∈ Generated.aggClockReads, r.2 = true := by decide

/-- one critical section per operation: no method acquires the lock more than once, so an operation
    is ONE atomic step (per record for ingestion) -/
theorem one_critical_section_per_operation : ∀ m ∈ Generated.aggLockRegions, m.2.1 ≤ 1 := by decide

/-- the helpers that rewrite flow records (correlation, aggregation, added fields) are unexported,
    never handed out as method values, and every call site of them holds the lock -/
theorem record_helpers_called_with_lock :
    ∀ m ∈ ["correlateRecords", "aggregateRecords", "addFieldsForStatsAggregation",
           "addFieldsForThroughputCalculation", "updateFlowEndSecondsFromNodes",
           "deleteFlowKeyFromMapWithoutLock"], m ∈ Generated.aggCalledWithLock := by decide

/-- the table is about the operations the property names: each of them touches shared state, takes
    the lock itself, and is reachable from a goroutine root; the worker goroutine reaches the
    per-record ingestion -/
theorem lock_table_covers_operations :
    (∀ m ∈ ["GetNumFlows", "ForAllRecordsDo", "GetExpiryFromExpirePriorityQueue", "GetRecords",
            "ForAllExpiredFlowRecordsDo", "addOrUpdateRecordInMap", "Start", "Stop"],
        Generated.aggAccesses.any (·.1 == m) = true ∧ (m, 1, true) ∈ Generated.aggLockRegions ∨
          Generated.aggAccesses.any (·.1 == m) = true ∧ (m, 1, false) ∈ Generated.aggLockRegions) ∧
    (∃ root ∈ Generated.aggRoots, root.1 = "AggregateMsgByFlowKey" ∧ "addOrUpdateRecordInMap" ∈ root.2) ∧
    (∃ root ∈ Generated.aggRoots, root.1 = "worker.start$go1" ∧ "addOrUpdateRecordInMap" ∈ root.2) := by decide

/-! ## non-vacuity -/

def rA : InRec := { key := 1, flowType := 1, corr := [.str [1], .str [], .str [], .str [2], .str [], .str [], .ip4 [0,0,0,0], .num 0, .num 0, .num 0, .num 0, .ip6 zero16],
                    start := 100, end_ := 101, endReason := 2, tcpState := [], stats := [1, 1, 1, 1, 1, 1, 1, 1] }
def rB : InRec := { rA with key := 2 }
def s0 : State := { activeT := 100, inactiveT := 250 }

/-- a well-formed atomic execution with two overlapping operations -/
example : (exec spec (Cfg.init s0)
    [.inv 1 (.ingest rA), .inv 2 .numFlows, .step 2, .step 1, .res 1 .ack, .res 2 (.num 0)]).isSome = true := by decide
/-- ... and an ill-formed one (the response is not the one computed at the step) -/
example : (exec spec (Cfg.init s0)
    [.inv 1 (.ingest rA), .inv 2 .numFlows, .step 1, .step 2, .res 1 .ack, .res 2 (.num 0)]).isSome = false := by decide

/-- a concrete overlapping history that is linearizable: GetNumFlows overlaps an ingest and may see 0 or 1 -/
example : holdsHistory s0 [{ id := 1, op := .ingest rA, out := .ack, inv := 1, res := 4 },
                           { id := 2, thread := 1, op := .numFlows, out := .num 0, inv := 2, res := 3 }] none = true := by decide
example : holdsHistory s0 [{ id := 1, op := .ingest rA, out := .ack, inv := 1, res := 4 },
                           { id := 2, thread := 1, op := .numFlows, out := .num 1, inv := 2, res := 3 }] none = true := by decide
/-- ... and one that is not: the ingest had RETURNED before GetNumFlows was called, yet 0 flows are reported -/
example : holdsHistory s0 [{ id := 1, op := .ingest rA, out := .ack, inv := 1, res := 2 },
                           { id := 2, thread := 1, op := .numFlows, out := .num 0, inv := 3, res := 4 }] none = false := by decide
/-- ... and a lost update: two overlapping ingests for different keys, but only one flow at the end -/
example : holdsHistory s0 [{ id := 1, op := .ingest rA, out := .ack, inv := 1, res := 4 },
                           { id := 2, thread := 1, op := .ingest rB, out := .ack, inv := 2, res := 3 }]
            (some (finalOf (ingest s0 rA))) = false := by decide
/-- the hypotheses of `no_lost_delta` are satisfiable: a second, newer record adds its delta -/
example : ((runOps (ingest s0 rA) [.ingest { rA with end_ := 102 }, .numFlows]).find 1).map (·.dstStats.getD 1 0) = some 2 := by decide

end Ipfix.C13
