/-
  C12 - Collector under many clients. Property theorems (statements here, invariants in Lemmas/Mux.lean).

  PARTIAL. What is PROVED, for every number of connections, every message list and EVERY schedule (an
  arbitrary list of scheduler choices, no bound): the queueing logic of Model/Mux.lean - one sequential
  reader per connection, one rendezvous channel to the consumer - delivers every accepted message
  exactly once, in the connection's order, invents nothing, loses nothing over TCP/TLS and at most
  drops (never duplicates) over UDP; the client map is exactly the set of unfinished handlers; after
  Stop nothing moves; and the lock discipline of CollectingProcess as extracted from the current tree
  (Generated/LocksCollector.lean) by `decide`.
  What is NOT proved, because the model cannot exhibit it: goroutine and socket leaks, the latency of
  Stop(), the absence of data races at run time. These are OBSERVED by harness-mux on the real
  collector (race detector, goroutine profile, re-bind of the port) and judged by `Ipfix.C12.holdsOn`.
-/
import IpfixModel.Lemmas.Mux
namespace Ipfix.C12
open Ipfix.Mux

/-- TCP/TLS, every schedule: what connection `c` sent is, in order and without gaps, what the consumer
    received from it, then the (at most one) message its reader holds, then what is still unread. So the
    delivered sub-sequence of `c` is exactly the prefix of c's messages that c has pushed: each exactly
    once, in order. And "accepted" is "delivered, or in the reader's hand". -/
theorem per_connection_fifo (conns : List (ConnId × List Msg)) (sched : List Choice) (c : ConnId) :
    let s := run false (init conns) sched
    deliveredOf s c ++ getL s.hand c ++ getL s.pending c = getL conns c ∧
    acceptedOf s c = deliveredOf s c ++ getL s.hand c ∧ (getL s.hand c).length ≤ 1 := by
  intro s
  have hl := run_line_tcp (init conns) sched c
  rw [line_init] at hl
  exact ⟨hl, run_accInv false _ sched (accInv_init conns) c⟩

/-- ... in particular a prefix of what it sent -/
theorem delivered_prefix_of_sent (conns : List (ConnId × List Msg)) (sched : List Choice) (c : ConnId) :
    deliveredOf (run false (init conns) sched) c <+: getL conns c := by
  have h := (per_connection_fifo conns sched c).1
  exact ⟨_, by rw [← h, List.append_assoc]⟩

/-- once Stop() has returned (both transports), every accepted message has been delivered: exactly once,
    in order - nothing is stuck in a reader -/
theorem accepted_all_delivered_after_stop (udp : Bool) (conns : List (ConnId × List Msg)) (sched : List Choice)
    (c : ConnId) (h : (run udp (init conns) sched).stopped = true) :
    acceptedOf (run udp (init conns) sched) c = deliveredOf (run udp (init conns) sched) c := by
  have ha := (run_accInv udp _ sched (accInv_init conns) c).1
  have hs := (run_stopInv udp _ sched (stopInv_init conns) h).1 c
  rw [ha, hs, List.append_nil]

/-- the delivered list is an interleaving of per-connection prefixes - nothing invented: replaying it
    against the queues, every delivery is the head of its connection's queue, and what is left of the
    queues is what the readers hold and have not read -/
theorem delivered_is_interleaving (conns : List (ConnId × List Msg)) (sched : List Choice) :
    let s := run false (init conns) sched
    ∃ q, replay conns s.delivered = some q ∧ ∀ c, getL q c = getL s.hand c ++ getL s.pending c :=
  run_replayInv conns _ sched (replayInv_init conns)

/-- UDP (datagrams may be dropped before acceptance, at any point of any schedule): the delivered
    messages of a connection are a sub-sequence of what it sent, and - the message ids of a connection
    being distinct - none is delivered twice -/
theorem udp_at_most_once (conns : List (ConnId × List Msg)) (sched : List Choice) (c : ConnId)
    (hid : (getL conns c).Nodup) :
    let s := run true (init conns) sched
    (deliveredOf s c).Sublist (getL conns c) ∧ (deliveredOf s c).Nodup ∧
    acceptedOf s c = deliveredOf s c ++ getL s.hand c := by
  intro s
  have hl := run_line_sublist true (init conns) sched c
  rw [line_init] at hl
  have hd : (deliveredOf s c).Sublist (getL conns c) := by
    refine List.Sublist.trans ?_ hl
    show (deliveredOf s c).Sublist (deliveredOf s c ++ getL s.hand c ++ getL s.pending c)
    rw [List.append_assoc]
    exact List.sublist_append_left _ _
  exact ⟨hd, hid.sublist hd, (run_accInv true _ sched (accInv_init conns) c).1⟩

/-- the client map is exactly the set of connections whose handler has started and not finished (no
    entry twice); when every client that connected has disconnected it is empty; and it is empty once
    Stop() has returned -/
theorem conn_count_returns (udp : Bool) (conns : List (ConnId × List Msg)) (sched : List Choice) :
    let s := run udp (init conns) sched
    s.live.Nodup ∧ (∀ c, c ∈ s.live ↔ (c ∈ s.started ∧ c ∉ s.done)) ∧
    ((∀ c, c ∈ s.started → c ∈ s.done) → s.live = []) ∧ (s.stopped = true → s.live = []) := by
  intro s
  obtain ⟨hn, hiff, _⟩ := run_liveInv udp _ sched (liveInv_init conns)
  refine ⟨hn, hiff, ?_, fun h => (run_stopInv udp _ sched (stopInv_init conns) h).2⟩
  intro hall
  cases hlive : s.live with
  | nil => rfl
  | cons c r =>
    have hc : c ∈ s.live := by rw [hlive]; exact List.mem_cons_self
    exact absurd (hall c ((hiff c).1 hc).1) ((hiff c).1 hc).2

/-- after `stop` nothing further is delivered (nor accepted, nor does any handler come back): the state is frozen -/
theorem stop_stops (udp : Bool) (s : State) (sched : List Choice) (h : s.stopped = true) : run udp s sched = s :=
  run_stopped udp s sched h

/-- ... stated on schedules: whatever is scheduled after the point where Stop() returned changes nothing -/
theorem nothing_delivered_after_stop (udp : Bool) (conns : List (ConnId × List Msg)) (before after : List Choice)
    (h : (run udp (init conns) before).stopped = true) :
    (run udp (init conns) (before ++ after)).delivered = (run udp (init conns) before).delivered := by
  rw [run_append, run_stopped udp _ after h]

/-- `stop` takes effect exactly when no reader is blocked on the channel ("provided the consumer keeps draining") -/
theorem stop_enabled_iff (udp : Bool) (s : State) (h : s.stopped = false) :
    (step udp s .stop).stopped = true ↔ handsEmpty s = true := by
  unfold step
  simp only [h, Bool.false_eq_true, if_false]
  by_cases he : handsEmpty s = true
  · simp [he]
  · simp [he, h]

/-- the model satisfies the executable specification that is evaluated on real runs: for every schedule
    `fifoWhyOn` finds nothing to object to - prefix mode at any moment over TCP/TLS, exact mode once
    everything sent has been read and handed over, sub-sequence mode over UDP with drops -/
theorem model_satisfies_spec (conns : List (ConnId × List Msg)) (hid : ∀ c, (getL conns c).Nodup) (sched : List Choice) :
    fifoWhyOn .pref conns (run false (init conns) sched).delivered = none ∧
    (quiescent (run false (init conns) sched) = true → fifoWhyOn .exact conns (run false (init conns) sched).delivered = none) ∧
    fifoWhyOn .subseq conns (run true (init conns) sched).delivered = none := by
  have hpre : ∀ c, proj (run false (init conns) sched).delivered c <+: getL conns c := delivered_prefix_of_sent conns sched
  have hsubT : ∀ c, (proj (run false (init conns) sched).delivered c).Sublist (getL conns c) := fun c => (hpre c).sublist
  have htrace : (replay conns (run false (init conns) sched).delivered).isSome = true := by
    obtain ⟨q, hq, _⟩ := delivered_is_interleaving conns sched
    rw [hq]; rfl
  refine ⟨?_, ?_, ?_⟩
  · refine fifoWhyOn_none hsubT hid ?_ (fun _ => htrace)
    rw [isPerConnFIFO_iff]
    exact ⟨delivered_conn_known hsubT, fun c _ => connOK_pref.2 (hpre c)⟩
  · intro hq
    refine fifoWhyOn_none hsubT hid ?_ (fun _ => htrace)
    rw [isPerConnFIFO_iff]
    refine ⟨delivered_conn_known hsubT, fun c _ => connOK_exact.2 ?_⟩
    have h := (per_connection_fifo conns sched c).1
    simp only [quiescent, Bool.and_eq_true] at hq
    rw [handsEmpty_getL hq.2 c, allEmpty_getL hq.1 c, List.append_nil, List.append_nil] at h
    exact h
  · have hsubU : ∀ c, (proj (run true (init conns) sched).delivered c).Sublist (getL conns c) :=
      fun c => (udp_at_most_once conns sched c (hid c)).1
    refine fifoWhyOn_none hsubU hid ?_ (fun h => absurd rfl h)
    rw [isPerConnFIFO_iff]
    exact ⟨delivered_conn_known hsubU,
      fun c _ => connOK_subseq.2 ⟨hsubU c, (udp_at_most_once conns sched c (hid c)).2.1⟩⟩

/-- ... and the hypothesis is met by every scenario the harness runs: client i numbers its messages 0 .. n-1 -/
theorem model_satisfies_spec_scenario (sc : Scenario) (sched : List Choice) :
    fifoWhyOn .pref sc.sent (run false (init sc.sent) sched).delivered = none ∧
    (quiescent (run false (init sc.sent) sched) = true → fifoWhyOn .exact sc.sent (run false (init sc.sent) sched).delivered = none) ∧
    fifoWhyOn .subseq sc.sent (run true (init sc.sent) sched).delivered = none :=
  model_satisfies_spec sc.sent (scenario_sent_nodup sc) sched

/-! ## lock discipline (facts regenerated from /repo by tools/lockfacts-collector) -/
open Locks Generated.LocksCollector

/-- every access to clients / templatesMap / netAddress / numOfRecordsReceived that can happen in some
    goroutine is made under cp.mutex (exclusive for writes; taken in the function itself or held by every
    caller, as for createUDPClient) - or is a read by the only goroutine that ever writes the field -/
theorem lock_discipline_collector :
    accesses.all (fun a => !fromRoot a || guarded a || ownerRead a) = true := by decide

/-- the guarded subset, without the escape clause: every access to clients, templatesMap and
    numOfRecordsReceived, and every WRITE of netAddress, is under cp.mutex -/
theorem lock_discipline_collector_partial :
    (accesses.filter (fun a => a.field != "netAddress" || a.write)).all (fun a => !fromRoot a || guarded a) = true := by decide

/-- witness for what the partial theorem leaves out: every access NOT under the lock is a read of
    netAddress (the klog lines of startTCPServer / startUDPServer right after updateAddress) in code
    reachable from the application's Start() call only -/
theorem unguarded_accesses_are_start_reads :
    unguarded.all (fun a => a.field == "netAddress" && !a.write && a.roots == ["Start"]) = true := by decide

/-- the table is about the real struct: one mutex, the four shared fields exist -/
theorem tie_struct_shape :
    structName = "CollectingProcess" ∧ mutexFields = ["mutex"] ∧
    sharedFields.all (fun f => (structFields.map (·.1)).contains f) = true := by decide

/-- decodeDataSet reads a stored template's element list AFTER getTemplateIEs has released the read lock.
    That is free of data races only because a published element list is never changed in place - a new
    definition of the template installs a NEW list. The translator lists every syntactic use of `.ies`
    that could change a list in place (re-slicing, append to it, copy into it, assignment to one of its
    elements); there is none. (A change of this kind is a data race between two exporters that share an
    observation domain and template id - a schedule no deterministic input reproduces - so it is tied here.) -/
theorem tie_template_elements_never_changed_in_place : templateIesInPlace = [] := by decide

/-- The collector arms NO deadline on any connection: the translator lists every call of a method named
    SetDeadline / SetReadDeadline / SetWriteDeadline in the non-test files of pkg/collector, as (enclosing
    function, method); there is none. The model's connections deliver whatever arrives, whenever it
    arrives - a session may be idle or slow for any length of time: C12's per-connection FIFO /
    exactly-once theorems and C11's segmentation independence both quantify over timing (a schedule, a
    segmentation, carries no clock). A deadline that is armed and not cleared (say, around the TLS
    handshake, or per message body) cuts a healthy session after that much wall-clock time and loses what
    the exporter sends afterwards. A change that arms a deadline is reported as `no-failing-input-found`
    by this tie unless the dynamic side finds an input: harness-mux's `<n>w<ms>` clients (a session that
    stays idle for 6 s / 11 s between two of its messages, over TCP and TLS) are there to find one. -/
theorem tie_collector_arms_no_deadline : Generated.LocksCollector.deadlineCalls = [] := by decide

/-! ## Non-vacuity -/

/-- two connections, a fair schedule: everything is delivered, per-connection order kept, the map is empty, stopped -/
example : let s := run false (init [(1, [0, 1, 2]), (2, [0, 1])]) (roundRobin [1, 2] 3)
    s.delivered = [(1, 0), (2, 0), (1, 1), (2, 1), (1, 2)] ∧ s.live = [] ∧ s.stopped = true ∧ quiescent s = true ∧
    s.accepted = s.delivered ∧ s.done = [2, 1] := by decide
/-- a reader blocked on the channel keeps Stop() from returning; once the consumer takes the message it returns -/
example : (run false (init [(1, [7])]) [.accept 1, .read 1, .stop]).stopped = false ∧
    (run false (init [(1, [7])]) [.accept 1, .read 1, .stop, .push 1, .stop]).stopped = true ∧
    (run false (init [(1, [7])]) [.accept 1, .read 1, .stop, .push 1, .stop, .read 1, .push 1]).delivered = [(1, 7)] := by decide
/-- abrupt close: the unread rest is never delivered, the connection leaves the map -/
example : let s := run false (init [(1, [0, 1, 2])]) [.accept 1, .read 1, .push 1, .close 1, .read 1, .push 1]
    s.delivered = [(1, 0)] ∧ s.live = [] ∧ getL s.pending 1 = [1, 2] := by decide
/-- a handler cannot finish while its reader holds a message -/
example : (run false (init [(1, [0])]) [.accept 1, .read 1, .close 1]).live = [1] := by decide
/-- UDP drop: a sub-sequence; over TCP the same choice is a no-op -/
example : (run true (init [(1, [0, 1, 2])]) [.accept 1, .read 1, .push 1, .drop 1, .read 1, .push 1]).delivered = [(1, 0), (1, 2)] ∧
    (run false (init [(1, [0, 1, 2])]) [.accept 1, .read 1, .push 1, .drop 1, .read 1, .push 1]).delivered = [(1, 0), (1, 1)] := by decide
/-- the predicates do reject: a swap, a duplicate, a loss, an invented message -/
example : fifoWhyOn .exact [(1, [0, 1, 2])] [(1, 0), (1, 2), (1, 1)] = some "out-of-order" ∧
    fifoWhyOn .subseq [(1, [0, 1, 2])] [(1, 0), (1, 0)] = some "duplicate-delivery" ∧
    fifoWhyOn .exact [(1, [0, 1, 2])] [(1, 0), (1, 1)] = some "message-lost" ∧
    fifoWhyOn .pref [(1, [0, 1, 2])] [(1, 0), (1, 2)] = some "message-lost" ∧
    fifoWhyOn .subseq [(1, [0, 1, 2])] [(1, 0), (1, 2)] = none ∧
    fifoWhyOn .exact [(1, [0, 1, 2])] [(1, 0), (2, 0)] = some "invented-message" ∧
    fifoWhyOn .exact [(1, [0, 1]), (2, [0])] [(2, 0), (1, 0), (1, 1)] = none := by decide
/-- the bundle is satisfiable and each runtime clause bites -/
def okObs : Obs := { order := [(1, 0), (2, 0), (1, 1)], badPayload := 0, nconn := 1, nconnStop := 0, stopMs := 3, afterStop := 0,
                     g0 := 4, g1 := 4, grem := 0, rebind := true, ownSock := false, race := false }
def okScenario : Scenario := { transport := .tcp, seed := 1, stopMid := none, clients := [⟨2, .close⟩, ⟨1, .idle⟩] }
example : holdsOn okScenario okObs = .holds ∧
    holdsOn okScenario { okObs with nconn := 2 } = .fails "conn-count" ∧
    holdsOn okScenario { okObs with stopMs := 2001 } = .fails "stop-latency" ∧
    holdsOn okScenario { okObs with g1 := 5 } = .fails "goroutine-leak" ∧
    holdsOn okScenario { okObs with rebind := false, ownSock := true } = .fails "socket-remains" ∧
    holdsOn okScenario { okObs with race := true } = .fails "race" ∧
    holdsOn okScenario { okObs with afterStop := 1 } = .fails "delivered-after-stop" := by decide
/-- the lock table is not empty: every shared field is accessed from some goroutine, `clients` is written
    from at least two different goroutine roots, and there are unguarded accesses for the witness to speak about -/
example : sharedFields.all (fun f => accesses.any (fun a => a.field == f && fromRoot a)) = true ∧
    2 ≤ ((accesses.filter (fun a => a.field == "clients" && a.write)).map (·.roots)).eraseDups.length ∧
    accesses.any (fun a => a.entryHeld == 2) = true := by decide

end Ipfix.C12
