/-
  C07 - Inter-node correlation: withheld until both sides seen, merged field-complete.
  (That the expiry callback is only ever invoked on ready flows, and the retry / drop bookkeeping of
  the scan, are `callback_due_ready` and the scan theorems of C06.)
-/
import IpfixModel.Model.Agg
import IpfixModel.Spec.C07
import IpfixModel.Lemmas.Retry
import IpfixModel.Lemmas.AggLin
namespace Ipfix.C07
open Agg

/-- decision logic stated outright: correlation is required exactly for inter-node flows that were
    neither dropped / rejected at egress nor rejected at ingress -/
theorem needs_correlation_iff (ft : Nat) (c : List CorrV) :
    corrRequired ft c = true ↔ ft = 2 ∧ corrNum c iEgress ≠ 2 ∧ corrNum c iEgress ≠ 3 ∧ corrNum c iIngress ≠ 3 := by
  have h1 : Generated.cFlowTypeInterNode = 2 := rfl
  have h2 : Generated.cNetworkPolicyRuleActionDrop = 2 := rfl
  have h3 : Generated.cNetworkPolicyRuleActionReject = 3 := rfl
  simp [corrRequired, h1, h2, h3]
  constructor
  · rintro ⟨⟨a, b, c⟩, d⟩; exact ⟨a, b, c, d⟩
  · rintro ⟨a, b, c, d⟩; exact ⟨⟨a, b, c⟩, d⟩

/-- intra-node and to-external flows, and inter-node flows denied at egress or rejected at ingress,
    are ready at once -/
theorem ready_at_once (r : InRec) (h : corrRequired r.flowType r.corr = false) : (create r).ready = true := by
  simp [create, h]

/-- a flow that needs correlation starts withheld -/
theorem withheld_at_first (r : InRec) (h : corrRequired r.flowType r.corr = true) :
    (create r).ready = false ∧ (create r).corrFilled = false ∧ (create r).corr = r.corr := by
  simp [create, h]

/-- the statistics update never touches readiness or the correlate fields -/
theorem aggregate_keeps (r : InRec) (a : AggRec) (fs fd : Bool) :
    (aggregate r a fs fd).ready = a.ready ∧ (aggregate r a fs fd).corr = a.corr ∧
    (aggregate r a fs fd).corrFilled = a.corrFilled ∧ (aggregate r a fs fd).retries = a.retries := by
  simp [aggregate]

/-- one more record: the flow becomes ready exactly when it already was, or the record is the first
    one from the other node -/
theorem update_ready (r : InRec) (a : AggRec) :
    (update r a).ready = (a.ready || (corrRequired r.flowType r.corr && !sameNode r.corr a.corr)) := by
  unfold update
  by_cases hc : corrRequired r.flowType r.corr = true
  · simp only [hc, if_true]
    by_cases hr : a.ready = true <;> by_cases hs : sameNode r.corr a.corr = true <;>
      split <;> simp [(aggregate_keeps r _ _ _).1, hr, hs]
  · have hc' : corrRequired r.flowType r.corr = false := by simpa using hc
    simp [hc', (aggregate_keeps r a true true).1]

/-- while a flow is withheld its correlate fields are those of its first record -/
theorem update_corr_unready (r : InRec) (a : AggRec) (h : (update r a).ready = false) :
    (update r a).corr = a.corr := by
  have hr := update_ready r a
  rw [h] at hr
  unfold update
  by_cases hc : corrRequired r.flowType r.corr = true
  · simp only [hc, if_true]
    by_cases har : a.ready = true
    · simp [har] at hr
    · have har' : a.ready = false := by simpa using har
      by_cases hs : sameNode r.corr a.corr = true
      · split <;> simp [(aggregate_keeps r _ _ _).2.1, har', hs]
      · have hs' : sameNode r.corr a.corr = false := by simpa using hs
        simp [har', hc, hs'] at hr
  · have hc' : corrRequired r.flowType r.corr = false := by simpa using hc
    simp [hc', (aggregate_keeps r a true true).2.1]

/-- a record reported by exactly one of the two nodes -/
def Proper (c : List CorrV) : Prop := fromSrc c ≠ fromDst c

theorem sameNode_proper (a b : List CorrV) (ha : Proper a) (hb : Proper b) :
    sameNode a b = (fromSrc a == fromSrc b) := by
  unfold Proper at ha hb
  unfold sameNode
  cases h1 : fromSrc a <;> cases h2 : fromDst a <;> cases h3 : fromSrc b <;> cases h4 : fromDst b <;> simp_all

/-- the flow after its first record `r1` and the further records `rs` -/
def flowAfter (r1 : InRec) (rs : List InRec) : AggRec := rs.foldl (fun a r => update r a) (create r1)

/-- C07: a flow that needs correlation is withheld until records from BOTH the source and the
    destination node have been received, whichever arrives first and however many arrive -/
theorem withheld_until_both (r1 : InRec) (rs : List InRec)
    (h1 : corrRequired r1.flowType r1.corr = true) (hp1 : Proper r1.corr)
    (hall : ∀ r ∈ rs, corrRequired r.flowType r.corr = true ∧ Proper r.corr) :
    (flowAfter r1 rs).ready = true ↔ ∃ r ∈ rs, fromSrc r.corr ≠ fromSrc r1.corr := by
  unfold flowAfter
  -- invariant: ready ↔ some record so far came from the other node; while withheld, corr = r1.corr
  have key : ∀ (rs : List InRec) (a : AggRec) (seen : Prop),
      (∀ r ∈ rs, corrRequired r.flowType r.corr = true ∧ Proper r.corr) →
      (a.ready = true ↔ seen) → (a.ready = false → a.corr = r1.corr) →
      ((rs.foldl (fun a r => update r a) a).ready = true ↔ (seen ∨ ∃ r ∈ rs, fromSrc r.corr ≠ fromSrc r1.corr)) := by
    intro rs
    induction rs with
    | nil => intro a seen _ h _; simpa using h
    | cons r t ih =>
      intro a seen hall hs hc
      obtain ⟨hcr, hpr⟩ := hall r (by simp)
      simp only [List.foldl_cons]
      have hu := update_ready r a
      rw [ih (update r a) (seen ∨ fromSrc r.corr ≠ fromSrc r1.corr) (fun x hx => hall x (by simp [hx])) ?_ ?_]
      · simp only [List.mem_cons, exists_eq_or_imp]
        constructor
        · rintro ((h | h) | h)
          · exact Or.inl h
          · exact Or.inr (Or.inl h)
          · exact Or.inr (Or.inr h)
        · rintro (h | h | h)
          · exact Or.inl (Or.inl h)
          · exact Or.inl (Or.inr h)
          · exact Or.inr h
      · rw [hu, hcr]
        by_cases har : a.ready = true
        · simp [har, hs.mp har]
        · have har' : a.ready = false := by simpa using har
          have hcorr := hc har'
          rw [hcorr, sameNode_proper r.corr r1.corr hpr hp1]
          have hns : ¬ seen := fun h => har (hs.mpr h)
          simp [har', hns]
      · intro hur
        rw [update_corr_unready r a hur]
        apply hc
        rw [hu] at hur
        simpa using (Bool.or_eq_false_iff.mp hur).1
  have := key rs (create r1) False hall (by simp [(withheld_at_first r1 h1).1]) (fun _ => (withheld_at_first r1 h1).2.2)
  simpa using this

/-! ### Records that lack a correlate field (`CorrV.absent`: the two nodes of a flow may export with
    different templates) -/

/-- the merge of one field, case by case: a field the incoming record lacks is skipped (the stored
    record keeps what it has - or keeps lacking it); a field the stored record lacks is taken over
    from the incoming record whatever its value; when both carry it a non-empty incoming value
    overwrites the stored one -/
theorem mergeV_cases (i e : CorrV) :
    (i = .absent → mergeV i e = e) ∧
    (i ≠ .absent → e = .absent → mergeV i e = i) ∧
    (i ≠ .absent → e ≠ .absent → mergeV i e = if i.isEmpty then e else i) := by
  unfold mergeV
  refine ⟨fun h => by simp [h], fun h1 h2 => by simp [h1, h2], fun h1 h2 => by simp [h1, h2]⟩

/-- the merged value is always that of one of the two records, and the merged record lacks the field
    exactly when both records lack it -/
theorem mergeV_from_either (i e : CorrV) :
    (mergeV i e = i ∨ mergeV i e = e) ∧ (mergeV i e = .absent ↔ i = .absent ∧ e = .absent) := by
  unfold mergeV
  by_cases hi : i = .absent
  · simp [hi]
  · by_cases he : e = .absent
    · simp [hi, he]
    · by_cases hem : i.isEmpty = true <;> simp [hi, he, hem]

/-- a field that is non-empty on either side is non-empty in the merge -/
theorem mergeV_nonempty (i e : CorrV) (h : (!i.isEmpty || !e.isEmpty) = true) : (mergeV i e).isEmpty = false := by
  unfold mergeV
  by_cases hi : i = .absent
  · subst hi
    simpa [CorrV.isEmpty] using h
  · by_cases he : e = .absent
    · subst he
      simpa [hi, CorrV.isEmpty] using h
    · by_cases hem : i.isEmpty = true
      · simp [hi, he, hem] at h ⊢; exact h
      · simp [hi, he, hem]

/-- C07: the merged record, position by position, at full strength: position `i` of the merge is
    `mergeV` of the two records' values, i.e.
      - the incoming record lacks the field: the stored record's value (or absence) is kept,
      - the stored record lacks the field, the incoming one carries it: the incoming value, EMPTY OR
        NOT, is taken over (the code appends the incoming element to the stored record),
      - both carry it: a non-empty incoming value overwrites the stored one, an empty one does not;
    hence the merge carries a field exactly when one of the two records carries it, its value is
    that of one of the two, and every correlate field that is non-empty on either side is non-empty
    in the merge, taken from one of the two sides -/
theorem merged_complete (inc ex : List CorrV) (hlen : inc.length = ex.length) (i : Nat) (hi : i < inc.length) :
    (correlate inc ex)[i]? = some (mergeV (inc[i]'hi) (ex[i]'(hlen ▸ hi))) ∧
    (inc[i]'hi = .absent → (correlate inc ex)[i]? = some (ex[i]'(hlen ▸ hi))) ∧
    (inc[i]'hi ≠ .absent → ex[i]'(hlen ▸ hi) = .absent → (correlate inc ex)[i]? = some (inc[i]'hi)) ∧
    (inc[i]'hi ≠ .absent → ex[i]'(hlen ▸ hi) ≠ .absent →
      (correlate inc ex)[i]? = some (if (inc[i]'hi).isEmpty then ex[i]'(hlen ▸ hi) else inc[i]'hi)) ∧
    ((correlate inc ex)[i]? = some .absent ↔ inc[i]'hi = .absent ∧ ex[i]'(hlen ▸ hi) = .absent) ∧
    ((!(inc[i]'hi).isEmpty || !(ex[i]'(hlen ▸ hi)).isEmpty) →
      ∃ v, (correlate inc ex)[i]? = some v ∧ !v.isEmpty ∧ (v = inc[i]'hi ∨ v = ex[i]'(hlen ▸ hi))) := by
  have h1 : (correlate inc ex)[i]? = some (mergeV (inc[i]'hi) (ex[i]'(hlen ▸ hi))) := by
    unfold correlate
    rw [List.getElem?_zipWith]
    simp [List.getElem?_eq_getElem hi, List.getElem?_eq_getElem (hlen ▸ hi : i < ex.length)]
  obtain ⟨c1, c2, c3⟩ := mergeV_cases (inc[i]'hi) (ex[i]'(hlen ▸ hi))
  obtain ⟨f1, f2⟩ := mergeV_from_either (inc[i]'hi) (ex[i]'(hlen ▸ hi))
  refine ⟨h1, fun h => by rw [h1, c1 h], fun h h' => by rw [h1, c2 h h'], fun h h' => by rw [h1, c3 h h'], ?_, ?_⟩
  · rw [h1]
    constructor
    · intro h; exact f2.mp (Option.some.inj h)
    · intro h; rw [f2.mpr h]
  · intro hne
    refine ⟨_, h1, ?_, f1⟩
    simp [mergeV_nonempty _ _ hne]

/-! ## The two byte forms of an IPv4 value

  The value of an IPv4 element is a net.IP: 4 bytes as the collector decodes it, or the 16-byte
  IPv4-mapped form (net.IPv4zero, net.ParseIP) an in-process caller may build the element with. For
  correlateRecords both are the same address (`val.To4().String()`); the merge stores the incoming
  value object as it is. -/

/-- net.IP.To4 gives the four address bytes of either form -/
theorem to4_of_either_form (a b c d : UInt8) :
    to4 [a, b, c, d] = some [a, b, c, d] ∧ to4 (v4InV6Prefix ++ [a, b, c, d]) = some [a, b, c, d] := by
  constructor <;> simp [to4, v4InV6Prefix]

/-- an IPv4 correlate value is empty exactly when it IS the address 0.0.0.0 -/
theorem ip4_empty_iff (b : Bytes) : (CorrV.ip4 b).isEmpty = true ↔ to4 b = some [0, 0, 0, 0] := by
  simp [CorrV.isEmpty]

/-- the 16-byte form of an address is empty exactly when its 4-byte form is -/
theorem ip4_form_independent (a b c d : UInt8) :
    (CorrV.ip4 (v4InV6Prefix ++ [a, b, c, d])).isEmpty = (CorrV.ip4 [a, b, c, d]).isEmpty := by
  simp [CorrV.isEmpty, (to4_of_either_form a b c d).1, (to4_of_either_form a b c d).2]

/-- the empty IPv4 values are the two forms of 0.0.0.0 and nothing else -/
theorem ip4_empty_forms (b : Bytes) :
    (CorrV.ip4 b).isEmpty = true ↔ b = [0, 0, 0, 0] ∨ b = v4InV6Prefix ++ [0, 0, 0, 0] := by
  rw [ip4_empty_iff]
  unfold to4
  constructor
  · intro h
    split at h
    · left; simpa using h
    · split at h
      · rename_i h16
        right
        have hd : b.drop 12 = [0, 0, 0, 0] := by simpa using h
        calc b = b.take 12 ++ b.drop 12 := (List.take_append_drop 12 b).symm
          _ = v4InV6Prefix ++ [0, 0, 0, 0] := by rw [h16.2, hd]
      · cases h
  · rintro (h | h) <;> subst h <;> simp [v4InV6Prefix]

/-- 0.0.0.0 in the 16-byte form (net.IPv4zero) arriving from the other node does not overwrite what is stored -/
theorem mapped_zero_keeps_stored (e : CorrV) (he : e ≠ .absent) :
    mergeV (.ip4 (v4InV6Prefix ++ [0, 0, 0, 0])) e = e := by
  have h : (CorrV.ip4 (v4InV6Prefix ++ [0, 0, 0, 0])).isEmpty = true := by decide
  simp [mergeV, he, h]

/-- an address in the 16-byte form is not empty: it is taken over, in the form it came in -/
theorem mapped_address_overwrites (a b c d : UInt8) (hne : [a, b, c, d] ≠ [0, 0, 0, 0]) (e : CorrV) :
    mergeV (.ip4 (v4InV6Prefix ++ [a, b, c, d])) e = .ip4 (v4InV6Prefix ++ [a, b, c, d]) := by
  have h : (CorrV.ip4 (v4InV6Prefix ++ [a, b, c, d])).isEmpty = false := by
    rw [ip4_form_independent]
    simp [CorrV.isEmpty, to4]
    simpa using hne
  unfold mergeV
  by_cases he : e = .absent <;> simp [he, h]

example : correlate [.str [], .ip4 (v4InV6Prefix ++ [0, 0, 0, 0])] [.str [1], .ip4 [10, 96, 0, 1]] = [.str [1], .ip4 [10, 96, 0, 1]] ∧
    correlate [.str [], .ip4 (v4InV6Prefix ++ [10, 96, 0, 9])] [.str [1], .ip4 [10, 96, 0, 1]] = [.str [1], .ip4 (v4InV6Prefix ++ [10, 96, 0, 9])] ∧
    correlate [.str [], .ip4 [0, 0, 0, 0]] [.str [1], .ip4 (v4InV6Prefix ++ [10, 96, 0, 1])] = [.str [1], .ip4 (v4InV6Prefix ++ [10, 96, 0, 1])] := by decide
/-- the merge has the length of the two records -/
theorem merged_length (inc ex : List CorrV) (hlen : inc.length = ex.length) : (correlate inc ex).length = inc.length := by
  unfold correlate
  simp [List.length_zipWith, hlen]

/-- a record without absent fields merges as before: every non-empty incoming field overwrites -/
theorem merged_all_present (inc ex : List CorrV) (hi : ∀ v ∈ inc, v ≠ .absent) (he : ∀ v ∈ ex, v ≠ .absent) :
    correlate inc ex = List.zipWith (fun i e => if i.isEmpty then e else i) inc ex := by
  unfold correlate
  induction inc generalizing ex with
  | nil => simp
  | cons a t ih =>
    cases ex with
    | nil => simp
    | cons b u =>
      simp only [List.zipWith_cons_cons]
      rw [ih u (fun v hv => hi v (List.mem_cons_of_mem _ hv)) (fun v hv => he v (List.mem_cons_of_mem _ hv))]
      rw [(mergeV_cases a b).2.2 (hi a List.mem_cons_self) (he b List.mem_cons_self)]

/-- isCorrelationRequired does not consult a rule action the record lacks: the decision is the one for
    the record with that action = 0 (no NetworkPolicy decision) -/
theorem absent_action_not_consulted (ft : Nat) (c : List CorrV) :
    (c[iEgress]? = some .absent → corrRequired ft c = corrRequired ft (c.set iEgress (.num 0))) ∧
    (c[iIngress]? = some .absent → corrRequired ft c = corrRequired ft (c.set iIngress (.num 0))) := by
  have hne : iIngress ≠ iEgress := by decide
  constructor
  · intro h
    have hlt : iEgress < c.length := by
      apply Classical.byContradiction; intro hn
      rw [List.getElem?_eq_none (by omega)] at h; cases h
    have e1 : corrNum c iEgress = 0 := by simp [corrNum, h]
    have e2 : corrNum (c.set iEgress (.num 0)) iEgress = 0 := by simp [corrNum, List.getElem?_set_self hlt]
    have e3 : corrNum (c.set iEgress (.num 0)) iIngress = corrNum c iIngress := by
      simp [corrNum, List.getElem?_set_ne (Ne.symm hne)]
    simp [corrRequired, e1, e2, e3]
  · intro h
    have hlt : iIngress < c.length := by
      apply Classical.byContradiction; intro hn
      rw [List.getElem?_eq_none (by omega)] at h; cases h
    have e1 : corrNum c iIngress = 0 := by simp [corrNum, h]
    have e2 : corrNum (c.set iIngress (.num 0)) iIngress = 0 := by simp [corrNum, List.getElem?_set_self hlt]
    have e3 : corrNum (c.set iIngress (.num 0)) iEgress = corrNum c iEgress := by
      simp [corrNum, List.getElem?_set_ne hne]
    simp [corrRequired, e1, e2, e3]

/-- in particular with the decision logic spelled out: an inter-node record WITHOUT the egress action
    needs correlation exactly when its ingress action is not Reject; one WITHOUT the ingress action
    exactly when its egress action is neither Drop nor Reject; one without both always -/
theorem needs_correlation_absent_action (c : List CorrV) :
    (c[iEgress]? = some .absent → (corrRequired 2 c = true ↔ corrNum c iIngress ≠ 3)) ∧
    (c[iIngress]? = some .absent → (corrRequired 2 c = true ↔ corrNum c iEgress ≠ 2 ∧ corrNum c iEgress ≠ 3)) ∧
    (c[iEgress]? = some .absent → c[iIngress]? = some .absent → corrRequired 2 c = true) := by
  refine ⟨fun h => ?_, fun h => ?_, fun h h' => ?_⟩
  · have e1 : corrNum c iEgress = 0 := by simp [corrNum, h]
    rw [needs_correlation_iff]; simp [e1]
  · have e1 : corrNum c iIngress = 0 := by simp [corrNum, h]
    rw [needs_correlation_iff]; simp [e1]
  · have e1 : corrNum c iEgress = 0 := by simp [corrNum, h]
    have e2 : corrNum c iIngress = 0 := by simp [corrNum, h']
    rw [needs_correlation_iff]; simp [e1, e2]

/-- C07 for such a record: an inter-node record that lacks the egress action and was rejected at
    ingress needs no correlation and is ready at once (`ready_at_once` applies); so is one that lacks
    the ingress action and was dropped / rejected at egress -/
theorem absent_action_ready_at_once (r : InRec) (hft : r.flowType = 2) :
    (r.corr[iEgress]? = some .absent → corrNum r.corr iIngress = 3 → (create r).ready = true) ∧
    (r.corr[iIngress]? = some .absent → (corrNum r.corr iEgress = 2 ∨ corrNum r.corr iEgress = 3) → (create r).ready = true) := by
  constructor
  · intro h h3
    apply ready_at_once
    have := ((needs_correlation_absent_action r.corr).1 h)
    rw [hft]
    cases hc : corrRequired 2 r.corr
    · rfl
    · exact absurd h3 (this.mp hc)
  · intro h h23
    apply ready_at_once
    have := ((needs_correlation_absent_action r.corr).2.1 h)
    rw [hft]
    cases hc : corrRequired 2 r.corr
    · rfl
    · have := this.mp hc; omega

/-- ... whereas one that lacks the egress action and was NOT rejected at ingress (allowed, dropped,
    or no decision) starts withheld -/
theorem absent_egress_withheld (r : InRec) (hft : r.flowType = 2) (h : r.corr[iEgress]? = some .absent)
    (h3 : corrNum r.corr iIngress ≠ 3) : (create r).ready = false :=
  (withheld_at_first r (by rw [hft]; exact ((needs_correlation_absent_action r.corr).1 h).mpr h3)).1

/-- isRecordFromSrc / isRecordFromDst on records that lack a pod name: without sourcePodName a record
    is not from the source node, without destinationPodName not from the destination node; an
    absent pod name on the other side counts as an empty one -/
theorem absent_pod_name (c : List CorrV) :
    (c[iSrcPod]? = some .absent → fromSrc c = false ∧ fromDst c = !(corrStr c iDstPod).isEmpty) ∧
    (c[iDstPod]? = some .absent → fromDst c = false ∧ fromSrc c = !(corrStr c iSrcPod).isEmpty) := by
  constructor
  · intro h
    have e : corrStr c iSrcPod = [] := by simp [corrStr, h]
    simp [fromSrc, fromDst, e]
  · intro h
    have e : corrStr c iDstPod = [] := by simp [corrStr, h]
    simp [fromSrc, fromDst, e]

/-- the record created for a new flow carries exactly the correlate fields of its first record:
    absent positions stay absent -/
theorem create_keeps_corr (r : InRec) : (create r).corr = r.corr := rfl

/-- the correlating update marks the record filled and ready -/
theorem correlating_update_fills (r : InRec) (a : AggRec) (hc : corrRequired r.flowType r.corr = true)
    (hr : a.ready = false) (hs : sameNode r.corr a.corr = false) :
    (update r a).ready = true ∧ (update r a).corrFilled = true ∧ (update r a).corr = correlate r.corr a.corr := by
  unfold update
  simp only [hc, if_true, hr, hs, Bool.not_false, Bool.and_self]
  split <;> simp [(aggregate_keeps r _ _ _)]

/-! ## Non-vacuity -/
def cS : List CorrV := [.str [1], .str [], .str [], .str [], .str [], .str [], .ip4 [0,0,0,0], .num 0, .num 0, .num 0, .num 0, .ip6 zero16]
def cD : List CorrV := [.str [], .str [], .str [], .str [2], .str [], .str [], .ip4 [10,0,0,1], .num 443, .num 0, .num 0, .num 0, .ip6 zero16]
/-- a source-node record of an inter-node flow -/
def rS : InRec := { key := 1, flowType := 2, corr := cS, start := 100, end_ := 101, endReason := 2,
                    tcpState := [], stats := [1, 1, 1, 1, 1, 1, 1, 1] }
example : Proper cS ∧ Proper cD ∧ corrRequired 2 cS = true ∧ fromSrc cS ≠ fromSrc cD := by
  refine ⟨?_, ?_, ?_, ?_⟩ <;> (try unfold Proper) <;> decide
example : correlate cD cS = [.str [1], .str [], .str [], .str [2], .str [], .str [], .ip4 [10,0,0,1], .num 443, .num 0, .num 0, .num 0, .ip6 zero16] := by decide

/-- a source-node record whose template has no egressNetworkPolicyRuleAction (and no namespace, no
    IPv6 cluster address): rejected at ingress / not -/
def cSnoEgress (ingress : Nat) : List CorrV :=
  [.str [1], .absent, .str [7], .str [], .str [], .str [], .ip4 [0,0,0,0], .num 0, .num ingress, .absent, .num 0, .absent]
/-- a destination-node record whose template has no source node name and no service port, but the egress action -/
def cDnoNode : List CorrV :=
  [.str [], .str [], .absent, .str [2], .str [9], .str [], .ip4 [10,0,0,1], .absent, .num 0, .num 1, .num 5, .ip6 zero16]
example : (cSnoEgress 3)[iEgress]? = some .absent ∧ corrRequired 2 (cSnoEgress 3) = false ∧
    (create { rS with corr := cSnoEgress 3 }).ready = true ∧ (create { rS with corr := cSnoEgress 3 }).corr = cSnoEgress 3 := by decide
example : corrRequired 2 (cSnoEgress 2) = true ∧ corrRequired 2 (cSnoEgress 1) = true ∧ corrRequired 2 (cSnoEgress 0) = true ∧
    (create { rS with corr := cSnoEgress 0 }).ready = false := by decide
/-- the two merge: fields only one side carries are taken from it (empty or not), absent on both stays absent -/
example : Proper (cSnoEgress 0) ∧ Proper cDnoNode ∧ sameNode cDnoNode (cSnoEgress 0) = false ∧
    correlate cDnoNode (cSnoEgress 0) =
      [.str [1], .str [], .str [7], .str [2], .str [9], .str [], .ip4 [10,0,0,1], .num 0, .num 0, .num 1, .num 5, .ip6 zero16] ∧
    correlate (cSnoEgress 0) cDnoNode =
      [.str [1], .str [], .str [7], .str [2], .str [9], .str [], .ip4 [10,0,0,1], .num 0, .num 0, .num 1, .num 5, .ip6 zero16] ∧
    correlate (cSnoEgress 0) (cSnoEgress 3) = cSnoEgress 3 := by
  refine ⟨?_, ?_, ?_, ?_, ?_, ?_⟩ <;> (try unfold Proper) <;> decide
/-- a record without sourcePodName is not from the source node, whatever else it carries -/
example : fromSrc [.absent, .str [], .str [7], .str [], .str [], .str [], .ip4 [0,0,0,0], .num 0, .num 0, .num 0, .num 0, .ip6 zero16] = false := by decide

/-! ## Retry bound and drop: "a flow still uncorrelated when its deadline passes is retried a bounded
    number of times and then dropped, never exported half-filled"
    (the last clause is `Agg.callback_due_ready` / `C06.callback_only_when_due`: the callback only
    ever sees ready flows; the helper lemmas about the scan loop are in Lemmas/Retry.lean) -/

/-- C07: in every reachable state - after ANY sequence of arrivals, clock advances and expiry scans
    (the histories of `C06.no_flow_stranded`), from the initial state with any two timeouts - every
    flow held in the map has been retried at most MaxRetries times -/
theorem retries_bounded (aT iT : Nat) (ops : List Op) (k : Nat) (a : AggRec)
    (hheld : (ops.foldl step { activeT := aT, inactiveT := iT }).find k = some a) :
    a.retries ≤ Generated.cMaxRetries := (bnd_reachable aT iT ops).find hheld

/-- the same for every entry of the flow list -/
theorem retries_bounded_entries (aT iT : Nat) (ops : List Op) :
    ∀ p ∈ (ops.foldl step { activeT := aT, inactiveT := iT }).flows, p.2.retries ≤ Generated.cMaxRetries :=
  bnd_reachable aT iT ops

/-- the bound is an invariant of each single operation -/
theorem retries_bound_preserved (s : State) (op : Op)
    (h : ∀ p ∈ s.flows, p.2.retries ≤ Generated.cMaxRetries) :
    ∀ p ∈ (step s op).flows, p.2.retries ≤ Generated.cMaxRetries := bnd_step s op h

/-- an arrival never changes the retry counter; a new flow starts with 0 -/
theorem arrival_keeps_retries (r : InRec) (a : AggRec) :
    (update r a).retries = a.retries ∧ (create r).retries = 0 := ⟨update_retries r a, rfl⟩

/-- C07, one scan: in a state satisfying the scheduling invariant of C06, a held flow `k` that is NOT
    ready and whose queue item is due at the scan time is - by any scan that is not aborted by a
    failing callback (so in particular by every scan whose callback never fails) - never handed to
    the callback, and is either dropped from the map, exactly when its retry counter had already
    reached MaxRetries, or kept, unchanged but for the retry counter, which is one higher (so it is
    still not ready), and re-armed at (scan time + active timeout, scan time + inactive timeout).
    Other flows, due or not, ready or not, may be present. -/
theorem unready_due_flow_retried_or_dropped (s : State) (fail : Nat → Bool) (ra : Bool) (h : Sched s)
    (k : Nat) (a : AggRec) (hheld : s.find k = some a) (hnr : a.ready = false)
    (it : Item) (hit : it ∈ s.pq.toList) (hk : it.key = k)
    (hdue : it.active ≤ s.now ∨ it.inactive ≤ s.now)
    (hok : (scan s fail ra).2.failed = false) :
    (∀ p ∈ (scan s fail ra).2.callbacks, p.1 ≠ k) ∧
    ((scan s fail ra).1.find k = none ↔ Generated.cMaxRetries ≤ a.retries) ∧
    (a.retries < Generated.cMaxRetries →
      (scan s fail ra).1.find k = some { a with retries := a.retries + 1 } ∧
      { key := k, active := s.now + s.activeT, inactive := s.now + s.inactiveT } ∈
        (scan s fail ra).1.pq.toList) := by
  obtain ⟨h1, h2, h3⟩ := scan_retry s fail ra h k a it hheld hnr hit hk hdue hok
  refine ⟨h1, ⟨fun hn => ?_, h2⟩, h3⟩
  apply Classical.byContradiction
  intro hlt
  rw [(h3 (by omega)).1] at hn
  cases hn

/-- the same in a reachable state, where the counter is bounded: the flow is dropped exactly when
    its counter EQUALS MaxRetries, otherwise kept with the counter one higher and still not ready -/
theorem unready_due_flow_retried_or_dropped_reachable (aT iT : Nat) (ops : List Op) (fail : Nat → Bool)
    (ra : Bool) (k : Nat) (a : AggRec) (it : Item) :
    let s := ops.foldl step { activeT := aT, inactiveT := iT }
    s.find k = some a → a.ready = false → it ∈ s.pq.toList → it.key = k →
    (it.active ≤ s.now ∨ it.inactive ≤ s.now) → (scan s fail ra).2.failed = false →
    (∀ p ∈ (scan s fail ra).2.callbacks, p.1 ≠ k) ∧
    ((scan s fail ra).1.find k = none ↔ a.retries = Generated.cMaxRetries) ∧
    (a.retries ≠ Generated.cMaxRetries → ∃ a', (scan s fail ra).1.find k = some a' ∧
      a'.ready = false ∧ a'.retries = a.retries + 1 ∧ a'.retries ≤ Generated.cMaxRetries) := by
  intro s hheld hnr hit hk hdue hok
  have hb := retries_bounded aT iT ops k a hheld
  obtain ⟨h1, h2, h3⟩ := unready_due_flow_retried_or_dropped s fail ra (sched_reachable aT iT ops) k a
    hheld hnr it hit hk hdue hok
  refine ⟨h1, ?_, ?_⟩
  · rw [h2]; omega
  · intro hne
    have hlt : a.retries < Generated.cMaxRetries := by omega
    exact ⟨_, (h3 hlt).1, hnr, rfl, hlt⟩

/-! ### several scans -/

/-- one round of the history after `k`'s last record: records (of other flows) arrive, the clock
    advances by `d`, then the expiry scan runs (its callback failing on the keys in `fail`) -/
structure Round where
  recs : List InRec
  d : Nat
  fail : List Nat
  resetAfter : Bool

/-- the round as operations of the histories of C06 -/
def Round.ops (r : Round) : List Op := r.recs.map Op.record ++ [Op.adv r.d, Op.scan r.fail r.resetAfter]
/-- the state in which the round's scan runs -/
def Round.pre (r : Round) (s : State) : State := { r.recs.foldl ingest s with now := (r.recs.foldl ingest s).now + r.d }
/-- the state after the round -/
def Round.post (r : Round) (s : State) : State := (scan (r.pre s) (fun k => r.fail.contains k) r.resetAfter).1
/-- what the round's scan handed to the callback -/
def Round.out (r : Round) (s : State) : ScanOut := (scan (r.pre s) (fun k => r.fail.contains k) r.resetAfter).2

/-- the state after the rounds, and the outputs of their scans -/
def runRounds : State → List Round → State × List ScanOut
  | s, [] => (s, [])
  | s, r :: rs => ((runRounds (r.post s) rs).1, r.out s :: (runRounds (r.post s) rs).2)

theorem foldl_ingest_eq (recs : List InRec) (s : State) :
    (recs.map Op.record).foldl step s = recs.foldl ingest s := by
  induction recs generalizing s with
  | nil => rfl
  | cons r t ih => exact ih (ingest s r)

theorem round_post_eq (r : Round) (s : State) : r.post s = r.ops.foldl step s := by
  unfold Round.ops
  rw [List.foldl_append, foldl_ingest_eq]
  rfl

/-- the rounds are histories in the sense of `C06.no_flow_stranded` / `retries_bounded` -/
theorem runRounds_eq_history (rs : List Round) (s : State) :
    (runRounds s rs).1 = (rs.flatMap Round.ops).foldl step s := by
  induction rs generalizing s with
  | nil => rfl
  | cons r t ih =>
    rw [List.flatMap_cons, List.foldl_append, ← round_post_eq]
    exact ih (r.post s)

/-- arrivals for other flows and a clock advance leave `k`'s record, `k`'s queue item and the
    timeouts alone -/
theorem round_pre_facts (r : Round) (s : State) (h : Sched s) (k : Nat) (it : Item)
    (hno : ∀ x ∈ r.recs, x.key ≠ k) (hit : it ∈ s.pq.toList) (hk : it.key = k) :
    Sched (r.pre s) ∧ (r.pre s).find k = s.find k ∧ it ∈ (r.pre s).pq.toList ∧
    (r.pre s).now = s.now + r.d ∧ (r.pre s).activeT = s.activeT ∧ (r.pre s).inactiveT = s.inactiveT := by
  unfold Round.pre
  show Sched (List.foldl ingest s r.recs) ∧ (List.foldl ingest s r.recs).find k = s.find k ∧
    it ∈ (List.foldl ingest s r.recs).pq.toList ∧ (List.foldl ingest s r.recs).now + r.d = s.now + r.d ∧
    (List.foldl ingest s r.recs).activeT = s.activeT ∧ (List.foldl ingest s r.recs).inactiveT = s.inactiveT
  generalize r.recs = recs at hno
  induction recs generalizing s with
  | nil => exact ⟨h, rfl, hit, rfl, rfl, rfl⟩
  | cons x t ih =>
    have hx : x.key ≠ k := hno x List.mem_cons_self
    obtain ⟨g1, g2, g3, g4, g5, g6⟩ := ih (ingest s x) (sched_ingest s x h)
      (ingest_other_items s x h it hit (by rw [hk]; exact fun e => hx e.symm))
      (fun y hy => hno y (List.mem_cons_of_mem _ hy))
    refine ⟨g1, g2.trans (ingest_find_ne s x k (Ne.symm hx)), g3, ?_, g5.trans (ingest_activeT s x),
      g6.trans (ingest_inactiveT s x)⟩
    rw [ingest_now] at g4
    exact g4

/-- the induction behind `uncorrelated_flow_dropped_after_bounded_retries` -/
theorem drop_after_rounds (k : Nat) (rest : List Round) :
    ∀ (r0 : Round) (s : State) (a : AggRec) (it : Item), Sched s → s.find k = some a → a.ready = false →
    it ∈ s.pq.toList → it.key = k → a.retries + rest.length = Generated.cMaxRetries →
    (∀ r ∈ r0 :: rest, ∀ x ∈ r.recs, x.key ≠ k) →
    (it.active ≤ s.now + r0.d ∨ it.inactive ≤ s.now + r0.d) →
    (∀ r ∈ rest, s.activeT ≤ r.d ∨ s.inactiveT ≤ r.d) →
    (∀ o ∈ (runRounds s (r0 :: rest)).2, o.failed = false) →
    (runRounds s (r0 :: rest)).1.find k = none ∧
    (∀ o ∈ (runRounds s (r0 :: rest)).2, ∀ p ∈ o.callbacks, p.1 ≠ k) ∧
    (∀ j, j < (r0 :: rest).length →
      (runRounds s ((r0 :: rest).take j)).1.find k = some { a with retries := a.retries + j }) := by
  induction rest with
  | nil =>
    intro r0 s a it h hheld hnr hit hk hlen hno hdue0 _ hok
    obtain ⟨g1, g2, g3, g4, g5, g6⟩ := round_pre_facts r0 s h k it (hno r0 List.mem_cons_self) hit hk
    have hok0 : (r0.out s).failed = false := hok _ List.mem_cons_self
    obtain ⟨c1, c2, _⟩ := scan_retry (r0.pre s) (fun k => r0.fail.contains k) r0.resetAfter g1 k a it
      (g2.trans hheld) hnr g3 hk (by unfold Due; rw [g4]; exact hdue0) hok0
    refine ⟨c2 (by simp at hlen; omega), ?_, ?_⟩
    · intro o ho
      rw [show o = r0.out s from List.mem_singleton.mp ho]
      exact c1
    · intro j hj
      have : j = 0 := by simp at hj; exact hj
      subst this
      exact hheld
  | cons r1 rest ih =>
    intro r0 s a it h hheld hnr hit hk hlen hno hdue0 hdue hok
    obtain ⟨g1, g2, g3, g4, g5, g6⟩ := round_pre_facts r0 s h k it (hno r0 List.mem_cons_self) hit hk
    have hok0 : (r0.out s).failed = false := hok _ List.mem_cons_self
    have hlt : a.retries < Generated.cMaxRetries := by simp at hlen; omega
    obtain ⟨c1, _, c3⟩ := scan_retry (r0.pre s) (fun k => r0.fail.contains k) r0.resetAfter g1 k a it
      (g2.trans hheld) hnr g3 hk (by unfold Due; rw [g4]; exact hdue0) hok0
    obtain ⟨c3, c4⟩ := c3 hlt
    have hnow : (r0.post s).now = s.now + r0.d := (scan_now _ _ _ g1).trans g4
    have hA : (r0.post s).activeT = s.activeT := (scan_activeT _ _ _ g1).trans g5
    have hI : (r0.post s).inactiveT = s.inactiveT := (scan_inactiveT _ _ _ g1).trans g6
    obtain ⟨d1, d2, d3⟩ := ih r1 (r0.post s) { a with retries := a.retries + 1 } _
      (sched_scan _ _ _ g1) c3 hnr c4 rfl (by simp at hlen ⊢; omega)
      (fun r hr => hno r (List.mem_cons_of_mem _ hr))
      (by
        show (r0.pre s).now + (r0.pre s).activeT ≤ (r0.post s).now + r1.d ∨
          (r0.pre s).now + (r0.pre s).inactiveT ≤ (r0.post s).now + r1.d
        rw [hnow, g4, g5, g6]
        have := hdue r1 List.mem_cons_self
        omega)
      (fun r hr => by rw [hA, hI]; exact hdue r (List.mem_cons_of_mem _ hr))
      (fun o ho => hok o (List.mem_cons_of_mem _ ho))
    refine ⟨d1, ?_, ?_⟩
    · intro o ho
      rcases List.mem_cons.mp ho with e | ho
      · rw [e]; exact c1
      · exact d2 o ho
    · intro j hj
      cases j with
      | zero => exact hheld
      | succ j =>
        have := d3 j (by simp at hj ⊢; omega)
        rw [List.take_succ_cons]
        show (runRounds (r0.post s) (List.take j (r1 :: rest))).1.find k = _
        rw [this]
        have e : a.retries + 1 + j = a.retries + (j + 1) := by omega
        simp only [e]

/-- C07, "retried a bounded number of times and then dropped": let flow `k` be held and not ready,
    with retry counter `a.retries`, in a state satisfying the scheduling invariant of C06 (any other
    flows may be present). Then come `MaxRetries + 1 - a.retries` rounds `r0 :: rest`, in each of
    which records of OTHER flows arrive (no record for `k` arrives any more), the clock advances and
    an expiry scan runs, such that each scan runs when `k`'s item is due - the first advance reaches
    one of the two deadlines of `k`'s item, every later advance is at least one of the two timeouts,
    i.e. reaches the deadline the previous scan re-armed `k` with - and no scan is aborted by a
    failing callback. Then after the last round `k` is no longer held, none of the scans handed `k`
    to the callback, and after `j` of the rounds (`j` less than their number) `k` was still held,
    unchanged but for its retry counter `a.retries + j`. -/
theorem uncorrelated_flow_dropped_after_bounded_retries (s : State) (h : Sched s) (k : Nat) (a : AggRec)
    (hheld : s.find k = some a) (hnr : a.ready = false)
    (it : Item) (hit : it ∈ s.pq.toList) (hk : it.key = k)
    (r0 : Round) (rest : List Round)
    (hlen : (r0 :: rest).length = Generated.cMaxRetries + 1 - a.retries)
    (hno : ∀ r ∈ r0 :: rest, ∀ x ∈ r.recs, x.key ≠ k)
    (hdue0 : it.active ≤ s.now + r0.d ∨ it.inactive ≤ s.now + r0.d)
    (hdue : ∀ r ∈ rest, s.activeT ≤ r.d ∨ s.inactiveT ≤ r.d)
    (hok : ∀ o ∈ (runRounds s (r0 :: rest)).2, o.failed = false) :
    (runRounds s (r0 :: rest)).1.find k = none ∧
    (∀ o ∈ (runRounds s (r0 :: rest)).2, ∀ p ∈ o.callbacks, p.1 ≠ k) ∧
    (∀ j, j < (r0 :: rest).length →
      (runRounds s ((r0 :: rest).take j)).1.find k = some { a with retries := a.retries + j }) :=
  drop_after_rounds k rest r0 s a it h hheld hnr hit hk (by simp at hlen; omega) hno hdue0 hdue hok

theorem step_timeouts (s : State) (op : Op) (h : Sched s) :
    (step s op).activeT = s.activeT ∧ (step s op).inactiveT = s.inactiveT := by
  cases op with
  | record r => exact ⟨ingest_activeT s r, ingest_inactiveT s r⟩
  | adv d => exact ⟨rfl, rfl⟩
  | scan f ra => exact ⟨scan_activeT s _ ra h, scan_inactiveT s _ ra h⟩

theorem history_timeouts (ops : List Op) (s : State) (h : Sched s) :
    (ops.foldl step s).activeT = s.activeT ∧ (ops.foldl step s).inactiveT = s.inactiveT := by
  induction ops generalizing s with
  | nil => exact ⟨rfl, rfl⟩
  | cons op ops ih =>
    obtain ⟨h1, h2⟩ := ih _ (sched_step s op h)
    obtain ⟨h3, h4⟩ := step_timeouts s op h
    exact ⟨h1.trans h3, h2.trans h4⟩

/-- the same for a reachable state, as one history: after ANY history `ops` (from the initial state
    with timeouts `aT`, `iT`) that leaves flow `k` held and not ready, the continuation by
    `MaxRetries + 1 - a.retries` rounds as above (no record for `k`, each scan when `k`'s item is due,
    no scan aborted) ends in a state that no longer holds `k`, and no scan of the continuation handed
    `k` to the callback -/
theorem reachable_uncorrelated_flow_dropped (aT iT : Nat) (ops : List Op) (k : Nat) (a : AggRec) (it : Item)
    (r0 : Round) (rest : List Round) :
    let s := ops.foldl step { activeT := aT, inactiveT := iT }
    s.find k = some a → a.ready = false → it ∈ s.pq.toList → it.key = k →
    (r0 :: rest).length = Generated.cMaxRetries + 1 - a.retries →
    (∀ r ∈ r0 :: rest, ∀ x ∈ r.recs, x.key ≠ k) →
    (it.active ≤ s.now + r0.d ∨ it.inactive ≤ s.now + r0.d) →
    (∀ r ∈ rest, aT ≤ r.d ∨ iT ≤ r.d) →
    (∀ o ∈ (runRounds s (r0 :: rest)).2, o.failed = false) →
    ((ops ++ (r0 :: rest).flatMap Round.ops).foldl step { activeT := aT, inactiveT := iT }).find k = none ∧
    (∀ o ∈ (runRounds s (r0 :: rest)).2, ∀ p ∈ o.callbacks, p.1 ≠ k) := by
  intro s hheld hnr hit hk hlen hno hdue0 hdue hok
  obtain ⟨hA, hI⟩ := history_timeouts ops _ (sched_init aT iT)
  obtain ⟨h1, h2, _⟩ := uncorrelated_flow_dropped_after_bounded_retries s (sched_reachable aT iT ops) k a
    hheld hnr it hit hk r0 rest hlen hno hdue0
    (fun r hr => by
      show (ops.foldl step _).activeT ≤ r.d ∨ (ops.foldl step _).inactiveT ≤ r.d
      rw [hA, hI]; exact hdue r hr) hok
  refine ⟨?_, h2⟩
  rw [List.foldl_append, ← runRounds_eq_history]
  exact h1

/-! ### Non-vacuity: a source-node record of an inter-node flow that is never correlated -/
/-- advance to the (re-armed) active deadline, scan with a callback that never fails -/
def retryRound : Round := { recs := [], d := 100, fail := [], resetAfter := false }

/-- the record arrives at t = 0 (active timeout 100, inactive timeout 250); then MaxRetries + 1 times
    the clock advances to the flow's deadline and the scan runs: the flow is held, not ready, with
    retry counter 0, 1, ..., MaxRetries before these scans, gone (and its queue item with it) after
    the last one, and no scan invokes the callback -/
example :
    let s0 := ingest { activeT := 100, inactiveT := 250 } rS
    let rs := List.replicate (Generated.cMaxRetries + 1) retryRound
    (List.range (Generated.cMaxRetries + 1)).map
        (fun j => ((runRounds s0 (rs.take j)).1.find 1).map fun a => (a.ready, a.retries)) =
      (List.range (Generated.cMaxRetries + 1)).map (fun j => some (false, j)) ∧
    (List.range (Generated.cMaxRetries + 1)).map
        (fun j => (runRounds s0 (rs.take j)).1.pq.toList.map fun it => (it.key, it.active, it.inactive)) =
      (List.range (Generated.cMaxRetries + 1)).map (fun j => [(1, 100 * j + 100, 100 * j + 250)]) ∧
    (runRounds s0 rs).1.find 1 = none ∧ (runRounds s0 rs).1.flows.length = 0 ∧ (runRounds s0 rs).1.pq.size = 0 ∧
    (runRounds s0 rs).2.map (fun o => (o.callbacks.length, o.failed)) =
      List.replicate (Generated.cMaxRetries + 1) (0, false) ∧
    (runRounds s0 rs).1.now = 100 * (Generated.cMaxRetries + 1) := by decide

/-- ... whereas the destination-node record arriving in time makes the flow ready, and the next scan
    exports it (one callback, the flow is kept: active expiry) -/
example :
    let s0 := ingest (ingest { activeT := 100, inactiveT := 250 } rS) { rS with corr := cD }
    ((s0.find 1).map fun a => (a.ready, a.retries)) = some (true, 0) ∧
    ((runRounds s0 [retryRound]).2.map fun o => o.callbacks.map fun p => (p.1, p.2.ready, p.2.corrFilled)) =
      [[(1, true, true)]] := by decide


/-! ## The bound holds whatever arrives in between

  A record that does not complete the correlation (the same node reporting the flow again) neither resets
  the retry counter nor postpones the active deadline: the next scan treats the flow exactly as it would
  have without that record. This is the model-side reading of the rule `Spec.C07.Tracker.onScan` judges
  the implementation by (a waiting flow found due by MaxRetries + 1 complete scans is gone). -/

/-- after a record that leaves the flow waiting, the flow is held with the SAME retry counter, is still
    not ready, and its queue item keeps its active deadline -/
theorem rereport_keeps_counter_and_active_deadline (s : State) (h : Sched s) (r : InRec) (a : AggRec) (it : Item)
    (hheld : s.find r.key = some a)
    (hit : it ∈ s.pq.toList) (hk : it.key = r.key) :
    (ingest s r).find r.key = some (update r a) ∧ (update r a).retries = a.retries ∧
    (∃ it' ∈ (ingest s r).pq.toList, it'.key = r.key ∧ it'.active = it.active) ∧ (ingest s r).now = s.now := by
  refine ⟨?_, update_retries r a, ⟨_, ingest_existing_deadlines s r h it hit hk, hk, rfl⟩, ingest_now s r⟩
  rw [AggLin.ingest_find_same, hheld]; rfl

/-- ... so a scan that follows such a record (and is not aborted by a failing callback) never exports the
    flow, and drops it exactly when its counter - the one it had BEFORE the record - had reached MaxRetries -/
theorem rereport_does_not_postpone_the_drop (s : State) (h : Sched s) (r : InRec) (a : AggRec) (it : Item)
    (hheld : s.find r.key = some a) (hnr : (update r a).ready = false)
    (hit : it ∈ s.pq.toList) (hk : it.key = r.key) (hdue : it.active ≤ s.now)
    (fail : Nat → Bool) (ra : Bool) (hok : (scan (ingest s r) fail ra).2.failed = false) :
    (∀ p ∈ (scan (ingest s r) fail ra).2.callbacks, p.1 ≠ r.key) ∧
    ((scan (ingest s r) fail ra).1.find r.key = none ↔ Generated.cMaxRetries ≤ a.retries) := by
  obtain ⟨hf, hret, ⟨it', hit', hk', hact⟩, hnow⟩ := rereport_keeps_counter_and_active_deadline s h r a it hheld hit hk
  have hs' := sched_ingest s r h
  have hd : it'.active ≤ (ingest s r).now ∨ it'.inactive ≤ (ingest s r).now := Or.inl (by rw [hact, hnow]; exact hdue)
  obtain ⟨h1, h2, -⟩ := unready_due_flow_retried_or_dropped (ingest s r) fail ra hs' r.key (update r a) hf hnr it' hit' hk' hd hok
  exact ⟨h1, by rw [hret] at h2; exact h2⟩
/-- non-vacuity: the source node reports an inter-node flow and, 100 ms later (the active deadline), reports it again:
    the flow still waits, its item is due, the scan is not aborted -/
example :
    let s0 : State := { ingest { activeT := 100, inactiveT := 250 } rS with now := 100 }
    (∃ a, s0.find rS.key = some a ∧ (update rS a).ready = false ∧ a.retries = 0) ∧
    (∃ it ∈ s0.pq.toList, it.key = rS.key ∧ it.active ≤ s0.now) ∧
    (scan (ingest s0 rS) (fun _ => false) false).2.failed = false ∧
    ((scan (ingest s0 rS) (fun _ => false) false).1.find rS.key).map (·.retries) = some 1 := by
  decide

end Ipfix.C07
