/-
  C07 - Inter-node correlation: withheld until both sides seen, merged field-complete.
  (That the expiry callback is only ever invoked on ready flows, and the retry / drop bookkeeping of
  the scan, are `callback_due_ready` and the scan theorems of C06.)
-/
import IpfixModel.Model.Agg
import IpfixModel.Spec.C07
namespace Ipfix.C07
open Agg

/-- decision logic stated outright: correlation is required exactly for inter-node flows that were
    neither dropped / rejected at egress nor rejected at ingress -/
theorem needs_correlation_iff (ft : Nat) (c : List CorrV) :
    corrRequired ft c = true ↔ ft = 2 ∧ corrNum c iEgress ≠ 2 ∧ corrNum c iEgress ≠ 3 ∧ corrNum c iIngress ≠ 3 := by
  have h1 : Generated.cFlowTypeInterNode = 2 := rfl
  have h2 : Generated.cNetworkPolicyRuleActionDrop = 2 := rfl
  have h3 : Generated.cNetworkPolicyRuleActionReject = 3 := rfl
  simp [corrRequired, h1, h2, h3]
  constructor
  · rintro ⟨⟨a, b, c⟩, d⟩; exact ⟨a, b, c, d⟩
  · rintro ⟨a, b, c, d⟩; exact ⟨⟨a, b, c⟩, d⟩

/-- intra-node and to-external flows, and inter-node flows denied at egress or rejected at ingress,
    are ready at once -/
theorem ready_at_once (r : InRec) (h : corrRequired r.flowType r.corr = false) : (create r).ready = true := by
  simp [create, h]

/-- a flow that needs correlation starts withheld -/
theorem withheld_at_first (r : InRec) (h : corrRequired r.flowType r.corr = true) :
    (create r).ready = false ∧ (create r).corrFilled = false ∧ (create r).corr = r.corr := by
  simp [create, h]

/-- the statistics update never touches readiness or the correlate fields -/
theorem aggregate_keeps (r : InRec) (a : AggRec) (fs fd : Bool) :
    (aggregate r a fs fd).ready = a.ready ∧ (aggregate r a fs fd).corr = a.corr ∧
    (aggregate r a fs fd).corrFilled = a.corrFilled ∧ (aggregate r a fs fd).retries = a.retries := by
  simp [aggregate]

/-- one more record: the flow becomes ready exactly when it already was, or the record is the first
    one from the other node -/
theorem update_ready (r : InRec) (a : AggRec) :
    (update r a).ready = (a.ready || (corrRequired r.flowType r.corr && !sameNode r.corr a.corr)) := by
  unfold update
  by_cases hc : corrRequired r.flowType r.corr = true
  · simp only [hc, if_true]
    by_cases hr : a.ready = true <;> by_cases hs : sameNode r.corr a.corr = true <;>
      split <;> simp [(aggregate_keeps r _ _ _).1, hr, hs]
  · have hc' : corrRequired r.flowType r.corr = false := by simpa using hc
    simp [hc', (aggregate_keeps r a true true).1]

/-- while a flow is withheld its correlate fields are those of its first record -/
theorem update_corr_unready (r : InRec) (a : AggRec) (h : (update r a).ready = false) :
    (update r a).corr = a.corr := by
  have hr := update_ready r a
  rw [h] at hr
  unfold update
  by_cases hc : corrRequired r.flowType r.corr = true
  · simp only [hc, if_true]
    by_cases har : a.ready = true
    · simp [har] at hr
    · have har' : a.ready = false := by simpa using har
      by_cases hs : sameNode r.corr a.corr = true
      · split <;> simp [(aggregate_keeps r _ _ _).2.1, har', hs]
      · have hs' : sameNode r.corr a.corr = false := by simpa using hs
        simp [har', hc, hs'] at hr
  · have hc' : corrRequired r.flowType r.corr = false := by simpa using hc
    simp [hc', (aggregate_keeps r a true true).2.1]

/-- a record reported by exactly one of the two nodes -/
def Proper (c : List CorrV) : Prop := fromSrc c ≠ fromDst c

theorem sameNode_proper (a b : List CorrV) (ha : Proper a) (hb : Proper b) :
    sameNode a b = (fromSrc a == fromSrc b) := by
  unfold Proper at ha hb
  unfold sameNode
  cases h1 : fromSrc a <;> cases h2 : fromDst a <;> cases h3 : fromSrc b <;> cases h4 : fromDst b <;> simp_all

/-- the flow after its first record `r1` and the further records `rs` -/
def flowAfter (r1 : InRec) (rs : List InRec) : AggRec := rs.foldl (fun a r => update r a) (create r1)

/-- C07: a flow that needs correlation is withheld until records from BOTH the source and the
    destination node have been received, whichever arrives first and however many arrive -/
theorem withheld_until_both (r1 : InRec) (rs : List InRec)
    (h1 : corrRequired r1.flowType r1.corr = true) (hp1 : Proper r1.corr)
    (hall : ∀ r ∈ rs, corrRequired r.flowType r.corr = true ∧ Proper r.corr) :
    (flowAfter r1 rs).ready = true ↔ ∃ r ∈ rs, fromSrc r.corr ≠ fromSrc r1.corr := by
  unfold flowAfter
  -- invariant: ready ↔ some record so far came from the other node; while withheld, corr = r1.corr
  have key : ∀ (rs : List InRec) (a : AggRec) (seen : Prop),
      (∀ r ∈ rs, corrRequired r.flowType r.corr = true ∧ Proper r.corr) →
      (a.ready = true ↔ seen) → (a.ready = false → a.corr = r1.corr) →
      ((rs.foldl (fun a r => update r a) a).ready = true ↔ (seen ∨ ∃ r ∈ rs, fromSrc r.corr ≠ fromSrc r1.corr)) := by
    intro rs
    induction rs with
    | nil => intro a seen _ h _; simpa using h
    | cons r t ih =>
      intro a seen hall hs hc
      obtain ⟨hcr, hpr⟩ := hall r (by simp)
      simp only [List.foldl_cons]
      have hu := update_ready r a
      rw [ih (update r a) (seen ∨ fromSrc r.corr ≠ fromSrc r1.corr) (fun x hx => hall x (by simp [hx])) ?_ ?_]
      · simp only [List.mem_cons, exists_eq_or_imp]
        constructor
        · rintro ((h | h) | h)
          · exact Or.inl h
          · exact Or.inr (Or.inl h)
          · exact Or.inr (Or.inr h)
        · rintro (h | h | h)
          · exact Or.inl (Or.inl h)
          · exact Or.inl (Or.inr h)
          · exact Or.inr h
      · rw [hu, hcr]
        by_cases har : a.ready = true
        · simp [har, hs.mp har]
        · have har' : a.ready = false := by simpa using har
          have hcorr := hc har'
          rw [hcorr, sameNode_proper r.corr r1.corr hpr hp1]
          have hns : ¬ seen := fun h => har (hs.mpr h)
          simp [har', hns]
      · intro hur
        rw [update_corr_unready r a hur]
        apply hc
        rw [hu] at hur
        simpa using (Bool.or_eq_false_iff.mp hur).1
  have := key rs (create r1) False hall (by simp [(withheld_at_first r1 h1).1]) (fun _ => (withheld_at_first r1 h1).2.2)
  simpa using this

/-- C07: the merged record carries every correlate field that is non-empty on either side, taken
    from one of the two sides, and is marked filled -/
theorem merged_complete (inc ex : List CorrV) (hlen : inc.length = ex.length) (i : Nat) (hi : i < inc.length) :
    (correlate inc ex)[i]? = some (if (inc[i]'hi).isEmpty then ex[i]'(hlen ▸ hi) else inc[i]'hi) ∧
    ((!(inc[i]'hi).isEmpty || !(ex[i]'(hlen ▸ hi)).isEmpty) →
      ∃ v, (correlate inc ex)[i]? = some v ∧ !v.isEmpty ∧ (v = inc[i]'hi ∨ v = ex[i]'(hlen ▸ hi))) := by
  have h1 : (correlate inc ex)[i]? = some (if (inc[i]'hi).isEmpty then ex[i]'(hlen ▸ hi) else inc[i]'hi) := by
    unfold correlate
    rw [List.getElem?_zipWith]
    simp [List.getElem?_eq_getElem hi, List.getElem?_eq_getElem (hlen ▸ hi : i < ex.length)]
  refine ⟨h1, ?_⟩
  intro hne
  refine ⟨_, h1, ?_⟩
  by_cases he : (inc[i]'hi).isEmpty = true
  · simp [he] at hne ⊢; exact hne
  · simp [he]

/-- the correlating update marks the record filled and ready -/
theorem correlating_update_fills (r : InRec) (a : AggRec) (hc : corrRequired r.flowType r.corr = true)
    (hr : a.ready = false) (hs : sameNode r.corr a.corr = false) :
    (update r a).ready = true ∧ (update r a).corrFilled = true ∧ (update r a).corr = correlate r.corr a.corr := by
  unfold update
  simp only [hc, if_true, hr, hs, Bool.not_false, Bool.and_self]
  split <;> simp [(aggregate_keeps r _ _ _)]

/-! ## Non-vacuity -/
def cS : List CorrV := [.str [1], .str [], .str [], .str [], .str [], .str [], .ip4 [0,0,0,0], .num 0, .num 0, .num 0, .num 0, .ip6 zero16]
def cD : List CorrV := [.str [], .str [], .str [], .str [2], .str [], .str [], .ip4 [10,0,0,1], .num 443, .num 0, .num 0, .num 0, .ip6 zero16]
example : Proper cS ∧ Proper cD ∧ corrRequired 2 cS = true ∧ fromSrc cS ≠ fromSrc cD := by
  refine ⟨?_, ?_, ?_, ?_⟩ <;> (try unfold Proper) <;> decide
example : correlate cD cS = [.str [1], .str [], .str [], .str [2], .str [], .str [], .ip4 [10,0,0,1], .num 443, .num 0, .num 0, .num 0, .ip6 zero16] := by decide

end Ipfix.C07
