/-
  C15 - Information-element value codec: exact round trip and length accounting.
  Property theorems only; helper lemmas live in Lemmas/IE.lean.
-/
import IpfixModel.Lemmas.IE
import IpfixModel.Lemmas.RecordBuf
import IpfixModel.Spec.C15
namespace Ipfix.C15

/-! ## Tie lemmas: the hand-written model agrees with the regenerated facts -/

/-- the data-type numbering used by the model is the one in pkg/entities/ie.go -/
theorem tie_dataType_codes :
    DataType.all.map DataType.code =
      [0, 1, 2, 3, 4, 5, 6, 7, 8, 9, 10, 11, 12, 13, 14, 15, 16, 17, 18, 19, 20, 21, 22, 255] := by decide

/-- every fixed-width type's entry in `InfoElementLength` is the width the codec reads and writes -/
theorem tie_tableLen_width :
    ∀ t ∈ DataType.all, ∀ w, t.width = some w → t.tableLen = w := by decide

/-- variable-length types are marked 65535 in `InfoElementLength` -/
theorem tie_variable_types :
    DataType.octetArray.tableLen = VariableLength ∧ DataType.string.tableLen = VariableLength ∧
    VariableLength = 65535 := by decide

/-! ## Length accounting -/

/-- the bytes written for an element are exactly its reported length -/
theorem encode_length {ie : IE} {v : Value} {bs : Bytes} (h : encodeElem ie v = some bs) :
    bs.length = elemLength ie v := by
  obtain ⟨name, id, ty, ent, len⟩ := ie
  cases ty <;> cases v <;> simp [encodeElem, elemLength, DataType.width] at h ⊢
  case octetArray.bytes b =>
    by_cases hfix : len < 65535
    · simp [hfix] at h ⊢
      obtain ⟨hl, rfl⟩ := h; exact hl
    · simp [hfix] at h ⊢; exact encodeVar_length h
  case string.bytes b => exact encodeVar_length h
  case boolean.bool b => obtain ⟨rfl, rfl⟩ := h; simp
  case macAddress.bytes b => obtain ⟨⟨rfl, h6⟩, rfl⟩ := h; exact h6
  case ipv4Address.bytes b => obtain ⟨rfl, h⟩ := h; exact to4_length h
  case ipv6Address.bytes b => obtain ⟨rfl, h⟩ := h; exact to16_length h
  all_goals (obtain ⟨⟨rfl, _⟩, rfl⟩ := h; simp)

/-! ## Round trip -/

set_option hygiene false in
macro "num_case" : tactic => `(tactic| (
  obtain ⟨⟨rfl, hn⟩, rfl⟩ := h
  rw [decodeField_fixed _ _ _ (by simp) (by simp)]
  simp [decodeElem, DataType.width, canon]
  exact unbe_be _ _ (by simpa using hn)))

/-- Encoding an element and reading it back the way the collector does (length prefix, bounds
    check, per-type decode) yields the same value (IP addresses in canonical length), consumes
    exactly the bytes written, and leaves whatever follows untouched. -/
theorem decode_encode {ie : IE} {v : Value} {bs : Bytes} (rest : Bytes)
    (hwf : ie.WF) (h : encodeElem ie v = some bs) :
    decodeField ie (bs ++ rest) = .ok (canon ie v, rest) := by
  obtain ⟨name, id, ty, ent, len⟩ := ie
  cases ty <;> cases v <;> simp [encodeElem, DataType.width, IE.WF] at h hwf ⊢
  any_goals num_case
  case octetArray.bytes b =>
    by_cases hfix : len < 65535
    · simp [hfix] at h
      obtain ⟨hlen, rfl⟩ := h
      rw [decodeField_fixed _ _ _ (by simp; omega) (by simp [hlen])]
      simp [decodeElem, canon]
    · have hl : len = 65535 := by omega
      subst hl
      simp at h
      rw [decodeField_var _ b _ _ (by simp) h]; simp [decodeElem, canon]
  case boolean.bool b =>
    obtain ⟨rfl, rfl⟩ := h
    cases b <;> simp [decodeField, readFieldLength, decodeElem, canon]
  case macAddress.bytes b =>
    obtain ⟨⟨rfl, h6⟩, rfl⟩ := h
    rw [decodeField_fixed _ _ _ (by simp) (by simp [h6])]; simp [decodeElem, canon]
  case string.bytes b =>
    subst hwf
    rw [decodeField_var _ b _ _ (by simp) h]; simp [decodeElem, canon]
  case ipv4Address.bytes b =>
    obtain ⟨rfl, h⟩ := h
    rw [decodeField_fixed _ _ _ (by simp) (by simp [to4_length h])]; simp [decodeElem, canon, h]
  case ipv6Address.bytes b =>
    obtain ⟨rfl, h⟩ := h
    rw [decodeField_fixed _ _ _ (by simp) (by simp [to16_length h])]; simp [decodeElem, canon, h]


/-- RFC 7011 section 7 allows the three-octet length form (255, then the length as 16 bits) for ANY length, short values
    included; only this library's own encoder never uses it below 255. The collector's field reader accepts it for every
    length up to 65535 and delivers the same value as for the canonical form, consuming exactly prefix + payload. -/
theorem long_length_form_accepted (ie : IE) (b rest : Bytes) (hl : ie.len = VariableLength) (hb : b.length ≤ 65535) :
    decodeField ie ((255 : UInt8) :: (be 2 b.length ++ b ++ rest)) = (decodeElem ie b >>= fun v => .ok (v, rest)) := by
  have h1 : (UInt8.ofNat (b.length / 256 % 256)).toNat = b.length / 256 := by
    rw [u8_ofNat_toNat_lt _ (by omega)]; omega
  have h2 : (UInt8.ofNat (b.length % 256)).toNat = b.length % 256 := u8_ofNat_toNat_lt _ (by omega)
  have hsum : b.length / 256 * 256 + b.length % 256 = b.length := by omega
  have h255 : (255 : UInt8).toNat = 255 := rfl
  have hnot : ¬ (b.length + rest.length < b.length) := by omega
  simp [decodeField, readFieldLength, hl, be_two, h1, h2, hsum, h255, hnot]

/-- ... and so a short value decodes the same in either form (non-vacuity: "hi" as 02 68 69 and as ff 00 02 68 69) -/
example : decodeField ⟨"sourcePodName", 101, .string, 56506, 65535⟩ [2, 104, 105, 7] =
    decodeField ⟨"sourcePodName", 101, .string, 56506, 65535⟩ [255, 0, 2, 104, 105, 7] := by decide

/-! ## Wire formats stated outright -/

/-- booleans are 1 (true) / 2 (false), RFC 7011 section 6.1.5 -/
theorem bool_wire (ie : IE) (b : Bool) (h : ie.ty = .boolean) (hl : ie.len = 1) :
    encodeElem ie (.bool b) = some [if b then 1 else 2] := by
  obtain ⟨name, id, ty, ent, len⟩ := ie
  simp at h hl; subst h hl; simp [encodeElem]

/-- integers (signed ones given as two's-complement patterns), floats (IEEE bit patterns, so NaN
    payloads, signed zeros and denormals survive) and dateTime counters are written big-endian
    at the natural width of the type -/
theorem num_wire (ie : IE) (n w : Nat) (hw : ie.ty.width = some w)
    (hnum : ie.ty ∉ [DataType.boolean, .macAddress, .ipv4Address, .ipv6Address])
    (hl : ie.len = w) (hn : n < 256 ^ w) :
    encodeElem ie (.num n) = some (be w n) := by
  obtain ⟨name, id, ty, ent, len⟩ := ie
  cases ty <;> simp [DataType.width] at hw hnum <;> subst hw <;> simp at hl <;> subst hl <;>
    simp [encodeElem, DataType.width] <;> simpa using hn

/-- a signed integer `i` of width `w` goes out as the big-endian two's complement of `i` -/
theorem int_wire (ie : IE) (i : Int) (w : Nat) (hw : ie.ty.width = some w)
    (hs : ie.ty ∈ [DataType.signed8, .signed16, .signed32, .signed64]) (hl : ie.len = w) :
    encodeElem ie (.num (twos w i)) = some (be w (twos w i)) ∧ ofTwos w (twos w i) % (256 ^ w : Nat) = i % (256 ^ w : Nat) := by
  have hpos : (0 : Int) < ((256 ^ w : Nat) : Int) := by
    have : 0 < 256 ^ w := Nat.pow_pos (by decide)
    omega
  have hlt : twos w i < 256 ^ w := by
    unfold twos
    have h2 := Int.emod_lt_of_pos i hpos
    have h3 := Int.emod_nonneg i (by omega : ((256 ^ w : Nat) : Int) ≠ 0)
    omega
  refine ⟨num_wire ie _ w hw ?_ hl hlt, ?_⟩
  · intro hmem
    simp at hs hmem
    rcases hs with h | h | h | h <;> rw [h] at hmem <;> simp at hmem
  · unfold ofTwos twos
    have h3 := Int.emod_nonneg i (by omega : ((256 ^ w : Nat) : Int) ≠ 0)
    have hcast : (((i % ((256 ^ w : Nat) : Int)).toNat : Nat) : Int) = i % ((256 ^ w : Nat) : Int) := Int.toNat_of_nonneg h3
    split
    · rw [hcast]; exact Int.emod_emod_of_dvd i (Int.dvd_refl _)
    · rw [hcast, Int.sub_emod, Int.emod_self, Int.sub_zero, Int.emod_emod_of_dvd _ (Int.dvd_refl _),
        Int.emod_emod_of_dvd _ (Int.dvd_refl _)]

/-- addresses: 6 raw bytes for a MAC, the 4-byte form for IPv4, the 16-byte form for IPv6 -/
theorem addr_wire (ie : IE) (b : Bytes) :
    (ie.ty = .macAddress → ie.len = 6 → b.length = 6 → encodeElem ie (.bytes b) = some b) ∧
    (ie.ty = .ipv4Address → ie.len = 4 → b.length = 4 → encodeElem ie (.bytes b) = some b) ∧
    (ie.ty = .ipv6Address → ie.len = 16 → b.length = 16 → encodeElem ie (.bytes b) = some b) := by
  obtain ⟨name, id, ty, ent, len⟩ := ie
  refine ⟨?_, ?_, ?_⟩ <;> (intro h1 h2 h3; simp at h1 h2; subst h1 h2; simp [encodeElem, to4, to16, h3])

/-- variable-length prefix: one byte below 255, `0xFF` + 2 bytes from 255 to 65535, error above -/
theorem varlen_prefix (b : Bytes) :
    (b.length < 255 → encodeVar b = some (UInt8.ofNat b.length :: b)) ∧
    (255 ≤ b.length → b.length ≤ 65535 → encodeVar b = some (255 :: (be 2 b.length ++ b))) ∧
    (65535 < b.length → encodeVar b = none) := by
  unfold encodeVar
  refine ⟨?_, ?_, ?_⟩
  · intro h; simp [h]
  · intro h1 h2; simp [h2, show ¬ b.length < 255 by omega]
  · intro h; simp [show ¬ b.length < 255 by omega, show ¬ b.length ≤ 65535 by omega]

/-- reported length, bytes written and the decoder's consumption coincide for every value -/
theorem three_way_agreement {ie : IE} {v : Value} {bs : Bytes} (rest : Bytes)
    (hwf : ie.WF) (h : encodeElem ie v = some bs) :
    bs.length = elemLength ie v ∧
    ∃ v', decodeField ie (bs ++ rest) = .ok (v', rest) :=
  ⟨encode_length h, _, decode_encode rest hwf h⟩

/-- the types the library does not support are errors on both sides, for every value -/
theorem unsupported_types (ie : IE) (v : Value) (bs : Bytes)
    (h : ie.ty ∈ [DataType.dateTimeMicroseconds, .dateTimeNanoseconds, .basicList, .subTemplateList,
                  .subTemplateMultiList, .invalid]) :
    encodeElem ie v = none ∧ decodeElem ie bs = .err ∧ zeroValue ie = .err := by
  obtain ⟨name, id, ty, ent, len⟩ := ie
  simp at h
  rcases h with h | h | h | h | h | h <;> subst h <;> cases v <;>
    simp [encodeElem, decodeElem, zeroValue]

/-- an ill-typed value (wrong address family or length, MAC that is not 6 bytes, fixed-length
    octet array of the wrong length, over-long string) is not encodable -/
theorem ill_typed_rejected (ie : IE) (b : Bytes) :
    (ie.ty = .macAddress → b.length ≠ 6 → encodeElem ie (.bytes b) = none) ∧
    (ie.ty = .ipv4Address → to4 b = none → encodeElem ie (.bytes b) = none) ∧
    (ie.ty = .ipv6Address → to16 b = none → encodeElem ie (.bytes b) = none) ∧
    (ie.ty = .octetArray → ie.len < VariableLength → b.length ≠ ie.len → encodeElem ie (.bytes b) = none) ∧
    (ie.ty = .string → 65535 < b.length → encodeElem ie (.bytes b) = none) := by
  obtain ⟨name, id, ty, ent, len⟩ := ie
  refine ⟨?_, ?_, ?_, ?_, ?_⟩
  · intro h1 h2; simp at h1; subst h1; simp [encodeElem, h2]
  · intro h1 h2; simp at h1; subst h1; simp [encodeElem, h2]
  · intro h1 h2; simp at h1; subst h1; simp [encodeElem, h2]
  · intro h1 h2 h3; simp at h1 h2; subst h1; simp [encodeElem, h2]; exact h3
  · intro h1 h2; simp at h1; subst h1
    simp [encodeElem, encodeVar, show ¬ b.length < 255 by omega, show ¬ b.length ≤ 65535 by omega]

/-! ## The model's own observation satisfies the predicate evaluated on the implementation -/

/-- an element that can be encoded at all occupies at least one byte -/
theorem encodable_nonempty {ie : IE} {v : Value} {bs : Bytes} (hwf : ie.WF) (h : encodeElem ie v = some bs) :
    0 < ie.minLen ∧ ie.minLen ≤ bs.length := by
  have hl := encode_length h
  obtain ⟨name, id, ty, ent, len⟩ := ie
  cases ty <;> cases v <;> simp [encodeElem, DataType.width, IE.WF] at h hwf <;>
    simp [IE.minLen, elemLength, varLen] at hl ⊢ <;> (try subst hwf) <;> (try simp at hl ⊢) <;> (try omega)
  case octetArray.bytes b =>
    by_cases h1 : len < 65535 <;> by_cases h2 : b.length < 255 <;> by_cases h3 : len = 65535 <;> simp [h1, h2, h3] at hl ⊢ <;> omega
  case string.bytes b =>
    by_cases h2 : b.length < 255 <;> simp [h2] at hl <;> omega

/-- what the `ie rt` operation of the Lean driver computes for a well-typed value: the element's
    bytes, its reported length, and exactly one record holding the (canonical) value -/
theorem rt_model {ie : IE} {v : Value} {bs : Bytes} (hwf : ie.WF) (h : encodeElem ie v = some bs) :
    decodeRecords .keep [ie] bs = .ok [[canon ie v]] := by
  obtain ⟨hpos, hle⟩ := encodable_nonempty hwf h
  have hmin : minRecordLen [ie] = ie.minLen := by simp [minRecordLen]
  have hd : decodeRecord .keep [ie] bs = .ok ([canon ie v], []) := by
    have := decode_encode [] hwf h
    simp only [List.append_nil] at this
    simp [decodeRecord, this]
  unfold decodeRecords
  rw [if_neg (by omega)]
  cases hb : bs.length with
  | zero => omega
  | succ n =>
    simp only [decodeRecordsFuel, hmin]
    rw [if_neg (by omega), hd]
    simp only [Outcome.bind_ok]
    unfold decodeRecordsFuel
    simp [hmin, hpos]

/-- ... and that observation satisfies `holdsRT` -/
theorem model_holdsRT {ie : IE} {v : Value} {bs : Bytes} (hwf : ie.WF) (h : encodeElem ie v = some bs) :
    holdsRT ie v [] (.ok bs (elemLength ie v) [[canon ie v]]) = true := by
  have hwt : WellTyped ie v := ⟨hwf, by simp [h]⟩
  simp [holdsRT, hwt, encode_length h]

/-! ## Non-vacuity: the hypotheses are satisfiable, with boundary values -/

def ieU16 : IE := ⟨"sourceTransportPort", 7, .unsigned16, 0, 2⟩
def ieStr : IE := ⟨"sourcePodName", 101, .string, 56506, 65535⟩
def ieV4 : IE := ⟨"sourceIPv4Address", 8, .ipv4Address, 0, 4⟩

example : ieU16.WF ∧ encodeElem ieU16 (.num 65535) = some [255, 255] := by decide
example : ieStr.WF ∧ encodeElem ieStr (.bytes [104, 105]) = some [2, 104, 105] := by decide
example (b : Bytes) (h : b.length = 255) : encodeVar b = some (255 :: (be 2 255 ++ b)) := by
  have := (varlen_prefix b).2.1 (by omega) (by omega); rwa [h] at this
example : ieV4.WF ∧ encodeElem ieV4 (.bytes (v4InV6Prefix ++ [10, 0, 0, 1])) = some [10, 0, 0, 1] := by decide
example : twos 2 (-2) = 65534 ∧ ofTwos 2 65534 = -2 := by decide

/-! ## The exact model of `dataRecord.GetBuffer()` (Model/RecordBuf.lean)

`recordBuf` follows the code for ALL element lists (an element that fails is logged and skipped,
a long MAC value spills into its successors, a declared length above the type's width leaves
zeros); it is tied to the code by the differential run of `ie recbuf` (gen/c15.py). The theorems
below connect it to the specification encoder `encodeRecord`. -/

/-- check (2) of `encodeInfoElementValueToBuff` in the model (`DataType.needWidth`) is the
    regenerated table `InfoElementLength`: its entry where that is a width, nothing to check
    where it is `VariableLength` -/
theorem tie_needWidth :
    ∀ t ∈ DataType.all,
      (t.tableLen ≠ VariableLength → t.needWidth = t.tableLen) ∧
      (t.tableLen = VariableLength → t.needWidth = 0) := by decide

/-- "the bytes written are exactly the reported length", for ALL element lists: whatever the
    values and the declared lengths, `GetBuffer` returns `GetRecordLength()` bytes -/
theorem recordBuf_length (es : List Elem) : (recordBuf es).length = recordLength es :=
  recordBuf_length' es

/-- On everything the specification encoder accepts, the exact model of the code writes exactly
    those bytes - so every theorem about `encodeRecord` (round trip `decode_encode`, wire layout
    C02) is a theorem about what `GetBuffer` returns. No well-formedness hypothesis on the
    elements is needed: `encodeElem` itself refuses a fixed-width element that does not declare
    its natural width, and a string is variable-length whatever it declares, in the code as in
    the specification. -/
theorem recordBuf_eq_encodeRecord (es : List Elem) (bs : Bytes) (h : encodeRecord es = some bs) :
    recordBuf es = bs :=
  recordBuf_eq_encodeRecord' es bs h

/-- element by element: an element the specification encoder accepts is written by the code as
    specified, at whatever position of whatever buffer with room for it (`pre` = what precedes,
    `rest` = the room from the element's index on; what follows the element is kept) -/
theorem encodeAt_eq_encodeElem {ie : IE} {v : Value} {b : Bytes} (h : encodeElem ie v = some b)
    (pre rest : Bytes) (hr : b.length ≤ rest.length) :
    encodeAt ie v (pre ++ rest) pre.length = some (pre ++ b ++ rest.drop b.length) :=
  encodeAt_of_encodeElem h pre rest hr

/-- the exact model of `GetBuffer` satisfies the whole-record predicate the implementation's `recbuf` /
    `recbufx` observations are judged by: length bookkeeping for EVERY element list (ill-typed values and odd
    declared lengths included), the specified bytes wherever the specification encoder accepts the record -/
theorem model_holdsRecBuf (es : List Elem) :
    holdsRecBuf es (.buf (recordLength es) (recordBuf es)) = true := by
  have hl := recordBuf_length es
  cases h : encodeRecord es with
  | none => simp [holdsRecBuf, h, hl]
  | some want =>
    have he := recordBuf_eq_encodeRecord es want h
    have hw : want.length = recordLength es := by rw [← he]; exact hl
    simp [holdsRecBuf, h, he, hw]

def ieMac : IE := ⟨"sourceMacAddress", 56, .macAddress, 0, 6⟩

def rec3 : List Elem :=
  [(ieV4, .bytes [10, 0, 0, 1]), (ieU16, .num 443), (ieStr, .bytes [104, 105])]

/-- `recordBuf_eq_encodeRecord` on a concrete record: address, port, pod name -/
example : encodeRecord rec3 = some [10, 0, 0, 1, 1, 187, 2, 104, 105] ∧
    recordBuf rec3 = [10, 0, 0, 1, 1, 187, 2, 104, 105] := by decide

/-- a spill: an 8-byte value in the 6-byte MAC element. The specification encoder refuses the
    record; the code reports 6 + 2 bytes, `copy` moves all 8 bytes of the value, and the
    unsigned16 behind the MAC element then overwrites the two spilled bytes ... -/
example : encodeRecord [(ieMac, .bytes [1, 2, 3, 4, 5, 6, 7, 8]), (ieU16, .num 0xAABB)] = none ∧
    recordBuf [(ieMac, .bytes [1, 2, 3, 4, 5, 6, 7, 8]), (ieU16, .num 0xAABB)]
      = [1, 2, 3, 4, 5, 6, 0xAA, 0xBB] := by decide

/-- ... unless the element behind it fails too (an IPv4 element without address): then the
    spilled bytes 7, 8 stay in ITS field and go out on the wire -/
example :
    recordBuf [(ieMac, .bytes [1, 2, 3, 4, 5, 6, 7, 8]), (ieV4, .bytes []), (ieU16, .num 0xAABB)]
      = [1, 2, 3, 4, 5, 6, 7, 8, 0, 0, 0xAA, 0xBB] := by decide

/-- a user-made unsigned16 element declaring 4 bytes: the value goes to the FIRST two bytes, the
    other two stay zero (a reader taking the 4 bytes as one big-endian number sees 443 * 65536);
    declaring 1 byte: refused by check (2), the byte stays zero -/
example :
    recordBuf [(⟨"u16in4", 1, .unsigned16, 55555, 4⟩, .num 443), (ieU16, .num 80)] = [1, 187, 0, 0, 0, 80] ∧
    recordBuf [(⟨"u16in1", 2, .unsigned16, 55555, 1⟩, .num 443), (ieU16, .num 80)] = [0, 0, 80] := by decide

end Ipfix.C15
