/-
  Bytes: Go []byte / string as `List UInt8`; encoding/binary big-endian put/get.
  Modelled, not verified: encoding/binary.BigEndian.{PutUintN, UintN} are assumed to be
  `be N/8` / `unbe` on the first N/8 bytes.
-/
namespace Ipfix

abbrev Bytes := List UInt8

/-- `be n v`: the `n`-byte big-endian representation of `v mod 256^n`. -/
def be : Nat → Nat → Bytes
  | 0, _ => []
  | n+1, v => be n (v / 256) ++ [UInt8.ofNat (v % 256)]

/-- big-endian value of a byte string -/
def unbe (bs : Bytes) : Nat := bs.foldl (fun acc b => acc * 256 + b.toNat) 0

@[simp] theorem be_length (n v : Nat) : (be n v).length = n := by
  induction n generalizing v with
  | zero => simp [be]
  | succ n ih => simp [be, ih]

theorem unbe_append_singleton (bs : Bytes) (b : UInt8) : unbe (bs ++ [b]) = unbe bs * 256 + b.toNat := by
  simp [unbe, List.foldl_append]

theorem unbe_be (n v : Nat) (h : v < 256 ^ n) : unbe (be n v) = v := by
  induction n generalizing v with
  | zero => simp [be, unbe] at *; omega
  | succ n ih =>
    simp only [be, unbe_append_singleton]
    have h1 : v / 256 < 256 ^ n := by
      rw [Nat.pow_succ] at h
      exact Nat.div_lt_of_lt_mul (by omega)
    rw [ih _ h1]
    have : (UInt8.ofNat (v % 256)).toNat = v % 256 := by
      simp [UInt8.toNat_ofNat']
    rw [this]; omega

theorem List.snoc_induction {α : Type} {P : List α → Prop} (nil : P [])
    (snoc : ∀ l a, P l → P (l ++ [a])) : ∀ l, P l := by
  intro l
  have : ∀ r : List α, P r.reverse := by
    intro r
    induction r with
    | nil => simpa using nil
    | cons a r ih => simpa using snoc _ a ih
  simpa using this l.reverse

theorem unbe_lt (bs : Bytes) : unbe bs < 256 ^ bs.length := by
  induction bs using List.snoc_induction with
  | nil => simp [unbe]
  | snoc bs b ih =>
    rw [unbe_append_singleton]
    simp [Nat.pow_succ]
    have := b.toNat_lt
    omega

theorem be_unbe (bs : Bytes) : be bs.length (unbe bs) = bs := by
  induction bs using List.snoc_induction with
  | nil => simp [be]
  | snoc bs b ih =>
    have hb := b.toNat_lt
    simp only [List.length_append, List.length_singleton, be, unbe_append_singleton]
    have h1 : (unbe bs * 256 + b.toNat) / 256 = unbe bs := by omega
    have h2 : (unbe bs * 256 + b.toNat) % 256 = b.toNat := by omega
    rw [h1, h2, ih]
    simp

/-- `be` only depends on `v mod 256^n` -/
theorem be_mod (n v : Nat) : be n (v % 256 ^ n) = be n v := by
  induction n generalizing v with
  | zero => simp [be]
  | succ n ih =>
    simp only [be]
    have h1 : v % 256 ^ (n+1) / 256 = (v / 256) % 256 ^ n := by
      rw [Nat.pow_succ, Nat.mul_comm, Nat.mod_mul_right_div_self]
    have h2 : v % 256 ^ (n+1) % 256 = v % 256 := by
      rw [Nat.pow_succ]
      exact Nat.mod_mul_left_mod v (256 ^ n) 256
    rw [h1, h2, ih]

/-- hex rendering used by the line protocol (lower case, two digits per byte) -/
def hexDigit (n : Nat) : Char :=
  if n < 10 then Char.ofNat (48 + n) else Char.ofNat (87 + n)

def toHex (bs : Bytes) : String :=
  String.ofList (bs.flatMap fun b => [hexDigit (b.toNat / 16), hexDigit (b.toNat % 16)])

def hexVal (c : Char) : Option Nat :=
  if '0' ≤ c ∧ c ≤ '9' then some (c.toNat - 48)
  else if 'a' ≤ c ∧ c ≤ 'f' then some (c.toNat - 87)
  else if 'A' ≤ c ∧ c ≤ 'F' then some (c.toNat - 55)
  else none

def fromHexChars : List Char → Option Bytes
  | [] => some []
  | [_] => none
  | a :: b :: rest => do
    let x ← hexVal a
    let y ← hexVal b
    let r ← fromHexChars rest
    pure (UInt8.ofNat (x * 16 + y) :: r)

/-- `-` denotes the empty byte string in the line protocol -/
def fromHex (s : String) : Option Bytes :=
  if s == "-" then some [] else fromHexChars s.toList

def hexOrDash (bs : Bytes) : String := if bs.isEmpty then "-" else toHex bs

end Ipfix
