/-
  The TCP reader of the collecting process: pkg/collector/tcp.go handleTCPClient (the reader
  goroutine) and pkg/collector/process.go getMessageLength.

      reader := bufio.NewReader(conn)
      for {
          length, err := getMessageLength(reader)     // reader.Peek(4); uint16 at offset 2
          if err != nil { return }                     // EOF / short read: the goroutine ends
          buff := make([]byte, length)
          _, err = io.ReadFull(reader, buff)           // exactly `length` bytes, however they arrive
          if err != nil { return }
          message, err := cp.decodePacket(bytes.NewBuffer(buff), address)
          if err != nil { return }                     // deferred conn.Close() runs
      }

  Modelled, not verified: TCP as a reliable byte stream cut into arbitrary segments;
  bufio.Reader.Peek(4) = "wait until 4 bytes are buffered, do not consume them"; io.ReadFull =
  "wait until `length` bytes are buffered, consume exactly those" (a length field of 0..3
  consumes fewer bytes than were peeked - the model does the same: `take n` / `drop n`).

  The model is the reader run to quiescence after every segment: `feed s chunk` appends the
  segment to the connection's buffer and takes complete frames off its front until the buffer
  holds no complete frame (the real goroutine is then blocked in Peek or ReadFull) or a frame
  does not decode (the goroutine returns: the connection is closed and the buffered bytes are
  never looked at again).

  The decoder is a parameter. It returns its new state even when it fails, because the real
  decodePacket can change the template store before failing (an invalid template set deletes
  the older template) and that store is shared by all connections of the collecting process.
  The decoder comes with the fact that it rejects anything shorter than the 4 bytes that hold
  the length field (decodePacket needs 20); this is what makes the reader consume at least
  4 bytes per delivered message, i.e. terminate.

  Core-only.
-/
import IpfixModel.Model.Collector
namespace Ipfix.Framer

/-- getMessageLength: the uint16 at offset 2 of the 4 peeked bytes; `none` = fewer than 4 bytes
    are buffered (Peek blocks) -/
def peekLen (b : Bytes) : Option Nat :=
  match b with
  | _ :: _ :: hi :: lo :: _ => some (hi.toNat * 256 + lo.toNat)
  | _ => none

/-- a message decoder with state: `run st frame = (st', some m)` delivers `m`,
    `(st', none)` is a decoding error -/
structure Decoder (σ μ : Type) where
  run : σ → Bytes → σ × Option μ
  short : ∀ st b, b.length < 4 → (run st b).2 = none

/-- one connection as seen by its reader goroutine, together with the decoder state -/
structure FState (σ μ : Type) where
  st     : σ            -- decoder state (template store; shared by all connections)
  buf    : Bytes        -- bytes received on this connection, not yet consumed
  closed : Bool         -- the reader goroutine has returned (conn.Close() has run)
  out    : List μ       -- messages delivered so far, in order

variable {σ μ : Type}

def FState.init (st : σ) : FState σ μ := { st := st, buf := [], closed := false, out := [] }

/-- the reader loop run until it blocks or returns; `fuel` bounds the iterations (each one
    that continues consumes at least 4 bytes; `feed` supplies enough) -/
def drain (dec : Decoder σ μ) : Nat → FState σ μ → FState σ μ
  | 0, s => s
  | fuel+1, s =>
    if s.closed then s else
    match peekLen s.buf with
    | none => s
    | some n =>
      if n ≤ s.buf.length then
        match dec.run s.st (s.buf.take n) with
        | (st', none) => { s with st := st', closed := true, buf := [] }
        | (st', some m) => drain dec fuel { s with st := st', buf := s.buf.drop n, out := s.out ++ [m] }
      else s

/-- a segment arrives: bytes written to a closed connection are lost -/
def app (s : FState σ μ) (c : Bytes) : FState σ μ :=
  if s.closed then s else { s with buf := s.buf ++ c }

/-- a segment arrives and the reader runs until it blocks again or returns -/
def feed (dec : Decoder σ μ) (s : FState σ μ) (chunk : Bytes) : FState σ μ :=
  drain dec ((s.buf ++ chunk).length + 1) (app s chunk)

/-- the peer closes its end: Peek / ReadFull fail with EOF, the reader returns. (After `feed`
    the buffer holds no complete frame, so nothing more is delivered.) -/
def eof (s : FState σ μ) : FState σ μ := { s with closed := true, buf := [] }

/-! ## several connections of one collecting process -/

/-- what is private to a connection: its bufio.Reader and whether its goroutine has returned -/
structure Conn where
  buf : Bytes := []
  closed : Bool := false
  deriving Repr, DecidableEq

/-- the collecting process: one decoder state, any number of connections -/
structure Sys (σ : Type) where
  st : σ
  conns : Nat → Option Conn := fun _ => none

def Sys.open (sys : Sys σ) (c : Nat) : Sys σ :=
  { sys with conns := fun x => if x = c then some {} else sys.conns x }

/-- the single-connection view of connection state `cn` under decoder state `st` -/
def view (st : σ) (cn : Conn) : FState σ μ := { st := st, buf := cn.buf, closed := cn.closed, out := [] }

/-- a segment arrives on connection `c`: the new system and the messages delivered because of it -/
def feedConn (dec : Decoder σ μ) (sys : Sys σ) (c : Nat) (chunk : Bytes) : Sys σ × List μ :=
  match sys.conns c with
  | none => (sys, [])
  | some cn =>
    let f := feed dec (view sys.st cn) chunk
    ({ st := f.st, conns := fun x => if x = c then some { buf := f.buf, closed := f.closed } else sys.conns x }, f.out)

def eofConn (sys : Sys σ) (c : Nat) : Sys σ :=
  match sys.conns c with
  | none => sys
  | some _ => { sys with conns := fun x => if x = c then some { buf := [], closed := true } else sys.conns x }

/-! ## instantiation with the collector's decoder -/

theorem decodePacket_short (lookup : Nat → Nat → Option IE) (mode : Mode) (s : CState) (b : Bytes)
    (h : b.length < 20) : decodePacket lookup mode s b = (s, .err) := by
  simp [decodePacket, parseHeader, h]

/-- decodePacket as the reader sees it: an error (the model's `panic` / `diverge` outcomes are
    ruled out for the repaired decoder by property C03) ends the connection -/
def ipfixRun (lookup : Nat → Nat → Option IE) (mode : Mode) (s : CState) (b : Bytes) : CState × Option Msg :=
  match decodePacket lookup mode s b with
  | (s', .ok m) => (s', some m)
  | (s', _) => (s', none)

def ipfixDecoder (lookup : Nat → Nat → Option IE) (mode : Mode) : Decoder CState Msg where
  run := ipfixRun lookup mode
  short := by
    intro st b h
    simp [ipfixRun, decodePacket_short lookup mode st b (by omega)]

end Ipfix.Framer
