/-
  Mux - the collector as a multiplexer (property C12). Core Lean only.

  What is modelled (pkg/collector/process.go, tcp.go, udp.go):

  * every connection (TCP/TLS: one accepted socket; UDP: one remote address) is served by ONE sequential
    reader: it reads the next complete message from its peer, decodes it (`decodePacket`), and then
    executes `cp.messageChan <- message`. `messageChan` is UNBUFFERED: the send is a rendezvous with the
    consumer of `GetMsgChan()`. Between "read" and "handed over" the reader does nothing else, so a
    reader holds AT MOST ONE message (`hand`); it reads the next one only after the hand-over;
  * the peer's byte stream / datagram sequence is the list `pending c` (what the peer has sent and the
    reader has not read yet). Over UDP a datagram may be lost before the reader sees it (`drop`); nothing
    is ever duplicated;
  * `live` is the client map `cp.clients`: a handler inserts its connection when it starts (`accept`) and
    deletes it, deferred, when it finishes (`close`) - after its reader is done, hence never while a
    message is in hand;
  * `Stop()` closes `stopChan` and waits (`cp.wg.Wait()`) for every handler and reader. A reader blocked on
    the rendezvous is released only by the consumer taking the message ("provided the consumer keeps
    draining"), so `stop` - the moment `Stop()` RETURNS - is enabled only when no message is in hand;
    all handlers have run their deferred deletes by then (`live = []`), and nothing moves afterwards.

  The scheduler is the list of `Choice`s: ANY list is a schedule; a choice that is not enabled in the
  current state is a no-op (the goroutine is not runnable / the event cannot happen). The theorems of
  Props/C12 quantify over all such lists, without a bound.

  Not modelled (observed at run time instead): the goroutines themselves (leaks), sockets, latency, data
  races on the fields behind these lists - the latter are covered by the extracted lock discipline.
-/
namespace Ipfix.Mux

abbrev ConnId := Nat
abbrev Msg := Nat

/-- per-connection queues as an association list; a missing key is the empty queue -/
def getL : List (ConnId × List Msg) → ConnId → List Msg
  | [], _ => []
  | (k, v) :: r, c => if k = c then v else getL r c

/-- replace the queue of `c` (first occurrence), inserting the key when absent -/
def setL : List (ConnId × List Msg) → ConnId → List Msg → List (ConnId × List Msg)
  | [], c, v => [(c, v)]
  | (k, x) :: r, c, v => if k = c then (k, v) :: r else (k, x) :: setL r c v

/-- the messages of connection `c` in a log, in log order -/
def proj (log : List (ConnId × Msg)) (c : ConnId) : List Msg :=
  (log.filter (fun p => p.1 == c)).map (·.2)

structure State where
  /-- sent by the peer, not yet read by the connection's reader -/
  pending   : List (ConnId × List Msg)
  /-- read and decoded, the reader is blocked in `cp.messageChan <- message` (at most one per connection) -/
  hand      : List (ConnId × List Msg) := []
  /-- log: every message a reader has accepted (read completely and decoded) -/
  accepted  : List (ConnId × Msg) := []
  /-- log: what the consumer of `GetMsgChan()` has received, in the order it received it -/
  delivered : List (ConnId × Msg) := []
  /-- the client map `cp.clients` (GetNumConnToCollector = its length) -/
  live      : List ConnId := []
  /-- log: handlers that have started -/
  started   : List ConnId := []
  /-- log: handlers that have finished -/
  done      : List ConnId := []
  /-- `Stop()` has returned -/
  stopped   : Bool := false
deriving Repr, DecidableEq

inductive Choice where
  /-- the accept loop / the UDP reader starts a handler for connection `c` -/
  | accept (c : ConnId)
  /-- the reader of `c` reads and decodes the next message of its peer -/
  | read (c : ConnId)
  /-- rendezvous: the consumer receives the message the reader of `c` holds -/
  | push (c : ConnId)
  /-- UDP only: the next datagram of `c` is lost before the collector reads it -/
  | drop (c : ConnId)
  /-- the peer of `c` has disconnected (or sent garbage / half a message): reader and handler finish -/
  | close (c : ConnId)
  /-- `Stop()` returns -/
  | stop
deriving Repr, DecidableEq

def init (conns : List (ConnId × List Msg)) : State := { pending := conns }

/-- no reader is blocked on the channel -/
def handsEmpty (s : State) : Bool := s.hand.all (fun p => p.2.isEmpty)

def step (udp : Bool) (s : State) (ch : Choice) : State :=
  if s.stopped then s else
  match ch with
  | .accept c =>
    if c ∈ s.started then s
    else { s with live := c :: s.live, started := c :: s.started }
  | .read c =>
    if c ∈ s.live ∧ getL s.hand c = [] then
      match getL s.pending c with
      | m :: rest => { s with pending := setL s.pending c rest, hand := setL s.hand c [m],
                              accepted := s.accepted ++ [(c, m)] }
      | [] => s
    else s
  | .push c =>
    match getL s.hand c with
    | m :: rest => { s with hand := setL s.hand c rest, delivered := s.delivered ++ [(c, m)] }
    | [] => s
  | .drop c =>
    if udp then
      match getL s.pending c with
      | _ :: rest => { s with pending := setL s.pending c rest }
      | [] => s
    else s
  | .close c =>
    if c ∈ s.live ∧ getL s.hand c = [] then { s with live := s.live.erase c, done := c :: s.done }
    else s
  | .stop =>
    if handsEmpty s then { s with stopped := true, done := s.live ++ s.done, live := [] }
    else s

/-- run a schedule -/
def run (udp : Bool) (s : State) (sched : List Choice) : State := sched.foldl (step udp) s

def deliveredOf (s : State) (c : ConnId) : List Msg := proj s.delivered c
def acceptedOf (s : State) (c : ConnId) : List Msg := proj s.accepted c

/-- every message of every connection has been read and handed over -/
def quiescent (s : State) : Bool :=
  s.pending.all (fun p => p.2.isEmpty) && handsEmpty s

/-- the canonical fair schedule used by the driver: accept everybody, then `rounds` times
    read+push for every connection in turn, then everybody closes, then stop -/
def roundRobin (conns : List ConnId) (rounds : Nat) : List Choice :=
  conns.map .accept ++
  (List.replicate rounds (conns.flatMap fun c => [Choice.read c, .push c])).flatten ++
  conns.map .close ++ [.stop]

end Ipfix.Mux
