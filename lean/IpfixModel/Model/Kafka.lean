/-
  Kafka publication (property C19). Core Lean only.

  Transliteration of
    pkg/kafka/producer/kafka.go                     PublishIPFIXMessages, SendFlowMessage
    pkg/kafka/producer/convertor/test/flowtypeN.go  ConvertIPFIXMsgToFlowMsgs, addAllFieldsToFlowTypeN
    pkg/kafka/consumer/consumer.go                  DecodeAndPrintMsg
  and a model of the fragment of the proto3 wire format the two shipped schemas use
  (google.golang.org/protobuf: proto.Marshal / proto.Unmarshal of a message whose fields are all
  singular uint32 / uint64 / string without presence).

  Regenerated facts (Generated/Proto.lean, tools/protofacts): struct-tag field numbers and kinds of
  FlowType1/FlowType2, the header assignments, and the element-name -> field switch. The schemas
  below are *defined from* those tables.

  Modelled, not verified (tied by the correspondence run on every check):
  * proto.Marshal of such a message = the populated (non-zero / non-empty) fields in field-number
    order, each as tag varint + varint | length-delimited bytes; it FAILS when a string field is not
    valid UTF-8 (`protoEncode = none`), SendFlowMessage then logs and returns without sending;
  * proto.Unmarshal = `protoDecode` (wire parser + typing against the schema; unknown fields and
    wire-type mismatches are kept aside, invalid UTF-8 in a string field is an error);
  * net.IP.String (`ipString`), utf8.Valid (`validUTF8`), Go channels deliver in order.

  Domain: `Msg.wellTyped`. An element whose NAME the convertor's switch knows must carry the Go
  type its getter reads (e.g. "sourceTransportPort" an Unsigned16); otherwise the Go code panics
  ("accessing value of wrong data type"). Outside that domain the model leaves the field unset and
  is not claimed to describe the code (the driver reports `panic` there, as the harness does).
-/
import IpfixModel.Model.IE
import IpfixModel.Generated.Proto

namespace Ipfix.Kafka

/-! ## varints (protowire.AppendVarint / ConsumeVarint, uint64) -/

/-- little-endian base-128, at most `fuel` bytes -/
def encodeVarintAux : Nat → Nat → Bytes
  | 0, _ => []
  | f+1, n =>
    if n < 128 then [UInt8.ofNat n]
    else UInt8.ofNat (128 + n % 128) :: encodeVarintAux f (n / 128)

/-- protowire.AppendVarint for a uint64 (at most 10 bytes; only meaningful for `n < 2^64`) -/
def encodeVarint (n : Nat) : Bytes := encodeVarintAux 10 n

/-- fuel (bytes that may still be read), weight of the next 7-bit group, value so far -/
def decodeVarintAux : Nat → Nat → Nat → Bytes → Option (Nat × Bytes)
  | 0, _, _, _ => none
  | _+1, _, _, [] => none
  | f+1, w, acc, b :: r =>
    if b.toNat < 128 then
      -- the tenth byte may only contribute bit 63
      if f = 0 ∧ 2 ≤ b.toNat then none else some (acc + b.toNat * w, r)
    else decodeVarintAux f (w * 128) (acc + (b.toNat - 128) * w) r

/-- protowire.ConsumeVarint: value and remaining bytes; `none` = truncated or overflowing 64 bits.
    Over-long (non-minimal) encodings are accepted, as the library does. -/
def decodeVarint (b : Bytes) : Option (Nat × Bytes) := decodeVarintAux 10 1 0 b

/-! ## utf8.Valid -/

def isCont (b : UInt8) : Bool := 0x80 ≤ b.toNat && b.toNat ≤ 0xBF
def inRange (lo hi : Nat) (b : UInt8) : Bool := lo ≤ b.toNat && b.toNat ≤ hi

/-- unicode/utf8.Valid (RFC 3629: no over-long forms, no surrogates, nothing above U+10FFFF) -/
def validUTF8 : Bytes → Bool
  | [] => true
  | b0 :: r =>
    if b0.toNat < 0x80 then validUTF8 r
    else if inRange 0xC2 0xDF b0 then
      match r with
      | b1 :: r1 => isCont b1 && validUTF8 r1
      | _ => false
    else if inRange 0xE0 0xEF b0 then
      match r with
      | b1 :: b2 :: r2 =>
        (if b0.toNat = 0xE0 then inRange 0xA0 0xBF b1
         else if b0.toNat = 0xED then inRange 0x80 0x9F b1 else isCont b1)
        && isCont b2 && validUTF8 r2
      | _ => false
    else if inRange 0xF0 0xF4 b0 then
      match r with
      | b1 :: b2 :: b3 :: r3 =>
        (if b0.toNat = 0xF0 then inRange 0x90 0xBF b1
         else if b0.toNat = 0xF4 then inRange 0x80 0x8F b1 else isCont b1)
        && isCont b2 && isCont b3 && validUTF8 r3
      | _ => false
    else false

/-! ## net.IP.String -/

def ascii (s : String) : Bytes := s.toList.map fun c => UInt8.ofNat c.toNat

def digitB (d : Nat) : UInt8 := UInt8.ofNat (48 + d % 10)
def hexB (d : Nat) : UInt8 := if d % 16 < 10 then UInt8.ofNat (48 + d % 16) else UInt8.ofNat (87 + d % 16)

/-- decimal rendering of a byte -/
def dec8 (n : Nat) : Bytes :=
  if n < 10 then [digitB n]
  else if n < 100 then [digitB (n / 10), digitB n]
  else [digitB (n / 100), digitB (n / 10), digitB n]

/-- lower-case hex rendering of a 16-bit group without leading zeros -/
def hex16 (n : Nat) : Bytes :=
  if n < 0x10 then [hexB n]
  else if n < 0x100 then [hexB (n / 0x10), hexB n]
  else if n < 0x1000 then [hexB (n / 0x100), hexB (n / 0x10), hexB n]
  else [hexB (n / 0x1000), hexB (n / 0x100), hexB (n / 0x10), hexB n]

def hexBytes (b : Bytes) : Bytes := b.flatMap fun x => [hexB (x.toNat / 16), hexB x.toNat]

def joinWith (sep : UInt8) : List Bytes → Bytes
  | [] => []
  | [x] => x
  | x :: y :: r => x ++ sep :: joinWith sep (y :: r)

def groups16 : Bytes → List Nat
  | a :: b :: r => (a.toNat * 256 + b.toNat) :: groups16 r
  | _ => []

def zeroRun : List Nat → Nat
  | 0 :: r => zeroRun r + 1
  | _ => 0

/-- netip.Addr.appendTo6: the first longest run of at least two zero groups, as (start, length);
    length 0 = none -/
def bestRunAux : Nat → List Nat → Nat × Nat → Nat × Nat
  | _, [], best => best
  | i, x :: r, best =>
    let l := zeroRun (x :: r)
    bestRunAux (i + 1) r (if 2 ≤ l ∧ best.2 < l then (i, l) else best)

def v6String (g : List Nat) : Bytes :=
  let (s, l) := bestRunAux 0 g (0, 0)
  if l = 0 then joinWith 58 (g.map hex16)
  else joinWith 58 ((g.take s).map hex16) ++ [58, 58] ++ joinWith 58 ((g.drop (s + l)).map hex16)

/-- net.IP.String() (Go 1.23: "<nil>", "?hex" for odd lengths, dotted quad for 4-byte and
    v4-in-v6 addresses, RFC 5952 text otherwise) -/
def ipString (ip : Bytes) : Bytes :=
  if ip.length = 0 then ascii "<nil>"
  else if ip.length ≠ 4 ∧ ip.length ≠ 16 then 63 :: hexBytes ip
  else match to4 ip with
    | some p4 => joinWith 46 (p4.map fun b => dec8 b.toNat)
    | none => v6String (groups16 ip)

/-! ## the proto3 fragment -/

inductive Kind where
  | u32 | u64 | str
  deriving DecidableEq, Repr, Inhabited

structure Field where
  name : String
  num : Nat
  kind : Kind
  deriving DecidableEq, Repr, Inhabited

/-- a field value: `num` for uint32/uint64, `str` for string (Go strings are byte strings) -/
inductive PVal where
  | num (n : Nat)
  | str (b : Bytes)
  deriving DecidableEq, Repr, Inhabited

/-- the Go struct as the list of assignments made to it, most recent first (unassigned = zero) -/
abbrev Flow := List (Nat × PVal)
/-- the populated fields of a message in wire order -/
abbrev Canon := List (Nat × PVal)

def PVal.isDefault : PVal → Bool
  | .num n => n == 0
  | .str b => b.isEmpty

/-- what the struct field `fd` holds: the last value assigned, at the field's Go type -/
def Flow.get (f : Flow) (fd : Field) : PVal :=
  match f.lookup fd.num, fd.kind with
  | some (.num n), .u32 => .num (n % 2 ^ 32)
  | some (.num n), .u64 => .num (n % 2 ^ 64)
  | some (.str b), .str => .str b
  | _, .str => .str []
  | _, _ => .num 0

def insertByNum (fd : Field) : List Field → List Field
  | [] => [fd]
  | x :: r => if fd.num ≤ x.num then fd :: x :: r else x :: insertByNum fd r

/-- the generated marshaller walks the fields in field-number order -/
def wireOrder (fs : List Field) : List Field := fs.foldr insertByNum []

/-- populated fields in the order of `fs` -/
def normalise (fs : List Field) (f : Flow) : Canon :=
  fs.filterMap fun fd => let v := f.get fd; if v.isDefault then none else some (fd.num, v)

def PVal.wireType : PVal → Nat
  | .num _ => 0
  | .str _ => 2

def encodeField (num : Nat) (v : PVal) : Bytes :=
  encodeVarint (num * 8 + v.wireType) ++
    match v with
    | .num n => encodeVarint n
    | .str b => encodeVarint b.length ++ b

def encodeCanon (c : Canon) : Bytes := c.flatMap fun nv => encodeField nv.1 nv.2

/-- the decidable guard of C19's partial statement: every string field is valid UTF-8 -/
def stringsValid (c : Canon) : Bool :=
  c.all fun nv => match nv.2 with | .str b => validUTF8 b | .num _ => true

/-- proto.Marshal: `none` = error (a string field is not valid UTF-8) -/
def protoEncode (fs : List Field) (f : Flow) : Option Bytes :=
  let c := normalise (wireOrder fs) f
  if stringsValid c then some (encodeCanon c) else none

/-- one field of the wire format -/
inductive Raw where
  | varint (n : Nat)
  | bytes (b : Bytes)
  | fixed64 (b : Bytes)
  | fixed32 (b : Bytes)
  deriving DecidableEq, Repr

/-- tag + value of one field; the remaining input. Groups (wire types 3, 4) and the undefined wire
    types 6, 7 are errors (no shipped schema has groups). -/
def decodeRawField (b : Bytes) : Option (Nat × Raw × Bytes) :=
  match decodeVarint b with
  | none => none
  | some (tag, r) =>
    let num := tag / 8
    if num < 1 ∨ 2 ^ 29 ≤ num then none
    else match tag % 8 with
      | 0 => match decodeVarint r with
        | some (n, r') => some (num, .varint n, r')
        | none => none
      | 1 => if r.length < 8 then none else some (num, .fixed64 (r.take 8), r.drop 8)
      | 2 => match decodeVarint r with
        | some (n, r') => if r'.length < n then none else some (num, .bytes (r'.take n), r'.drop n)
        | none => none
      | 5 => if r.length < 4 then none else some (num, .fixed32 (r.take 4), r.drop 4)
      | _ => none

theorem decodeVarintAux_length {f w acc : Nat} {b r : Bytes} {n : Nat}
    (h : decodeVarintAux f w acc b = some (n, r)) : r.length < b.length := by
  induction f generalizing w acc b with
  | zero => simp [decodeVarintAux] at h
  | succ f ih =>
    cases b with
    | nil => simp [decodeVarintAux] at h
    | cons x xs =>
      simp only [decodeVarintAux] at h
      split at h
      · split at h
        · cases h
        · simp at h; obtain ⟨_, rfl⟩ := h; simp
      · have := ih h; simp; omega

theorem decodeVarint_length {b r : Bytes} {n : Nat} (h : decodeVarint b = some (n, r)) :
    r.length < b.length := decodeVarintAux_length h

theorem decodeRawField_length {b r : Bytes} {num : Nat} {v : Raw}
    (h : decodeRawField b = some (num, v, r)) : r.length < b.length := by
  unfold decodeRawField at h
  split at h
  · cases h
  · rename_i tag r0 htag
    have h0 := decodeVarint_length htag
    simp only at h
    split at h
    · cases h
    · split at h
      · split at h
        · rename_i n r' hv
          have := decodeVarint_length hv
          simp at h; obtain ⟨_, _, rfl⟩ := h; omega
        · cases h
      · split at h
        · cases h
        · simp at h; obtain ⟨_, _, rfl⟩ := h; simp; omega
      · split at h
        · rename_i n r' hv
          have := decodeVarint_length hv
          split at h
          · cases h
          · simp at h; obtain ⟨_, _, rfl⟩ := h; simp; omega
        · cases h
      · split at h
        · cases h
        · simp at h; obtain ⟨_, _, rfl⟩ := h; simp; omega
      · cases h

/-- the wire format as a list of (field number, raw value), in wire order -/
def parseWire (b : Bytes) : Option (List (Nat × Raw)) :=
  if b.isEmpty then some []
  else match h : decodeRawField b with
    | none => none
    | some (num, v, r) =>
      have : r.length < b.length := decodeRawField_length h
      match parseWire r with
      | some l => some ((num, v) :: l)
      | none => none
termination_by b.length

/-- typing of one wire field against the message type: `none` = error, `some none` = not a field
    of the message at that wire type (kept as an unknown field), `some (some _)` = value stored -/
def typeField (fs : List Field) (num : Nat) (v : Raw) : Option (Option (Nat × PVal)) :=
  match fs.find? (fun fd => fd.num == num) with
  | none => some none
  | some fd =>
    match fd.kind, v with
    | .u32, .varint n => some (some (num, .num (n % 2 ^ 32)))
    | .u64, .varint n => some (some (num, .num n))
    | .str, .bytes b => if validUTF8 b then some (some (num, .str b)) else none
    | _, _ => some none

def typeFields (fs : List Field) : List (Nat × Raw) → Option (List (Nat × PVal) × List (Nat × Raw))
  | [] => some ([], [])
  | (num, v) :: r =>
    match typeField fs num v, typeFields fs r with
    | some (some x), some (k, u) => some (x :: k, u)
    | some none, some (k, u) => some (k, (num, v) :: u)
    | _, _ => none

/-- proto.Unmarshal into a fresh message: the field assignments in wire order (a later one
    overrides an earlier one of the same number) and the unknown fields; `none` = error -/
def protoDecodeFull (fs : List Field) (b : Bytes) : Option (List (Nat × PVal) × List (Nat × Raw)) :=
  match parseWire b with
  | none => none
  | some raws => typeFields fs raws

def protoDecode (fs : List Field) (b : Bytes) : Option Canon := (protoDecodeFull fs b).map (·.1)

def PVal.toRaw : PVal → Raw
  | .num n => .varint n
  | .str b => .bytes b

/-- well-formed message type: field numbers are valid (1 .. 2^29-1) and unambiguous - the field
    found by number has the kind of the field looked for (decidable; holds for both shipped
    schemas, Props/C19 `tie_schema_shape`) -/
def fieldsOK (fs : List Field) : Bool :=
  fs.all fun fd => decide (1 ≤ fd.num) && decide (fd.num < 2 ^ 29) &&
    ((fs.find? fun x => x.num == fd.num).map (·.kind) == some fd.kind)

/-- every string is shorter than 2^64 bytes (in Go `len` is an int; the length prefix is a uint64 varint) -/
def sizesOK (c : Canon) : Bool :=
  c.all fun nv => match nv.2 with | .str b => decide (b.length < 2 ^ 64) | .num _ => true

/-- the struct a sequence of assignments in wire order leaves behind -/
def toFlow (c : List (Nat × PVal)) : Flow := c.reverse

/-! ## framing (SendFlowMessage with kafkaDelimitMsgWithLen) -/

/-- `binary.BigEndian.PutUint32(b, uint32(len(bytes)))` followed by the bytes -/
def frame (b : Bytes) : Bytes := be 4 b.length ++ b

/-- split a payload whose 4-byte prefix is the real length of what follows -/
def unframe (p : Bytes) : Option Bytes :=
  if 4 ≤ p.length ∧ unbe (p.take 4) = (p.drop 4).length then some (p.drop 4) else none

/-! ## IPFIX messages and the convertor -/

structure Hdr where
  exportTime : Nat
  seqNum : Nat
  obsDomain : Nat
  exportAddr : Bytes
  deriving DecidableEq, Repr, Inhabited

abbrev Record := List (IE × Value)

structure Msg where
  hdr : Hdr
  isData : Bool          -- set type Data (true) or Template (false)
  records : List Record
  deriving Repr, Inhabited

structure Schema where
  fields : List Field                      -- struct order
  hdr : List (String × String)             -- (Go field, getter of *entities.Message)
  map : List (String × String × String)    -- element name -> (Go field, getter of the element)
  deriving DecidableEq, Repr, Inhabited

def kindOfCode : Nat → Kind
  | 0 => .u32
  | 1 => .u64
  | _ => .str

def mkFields (l : List (String × Nat × Nat)) : List Field :=
  l.map fun x => { name := x.1, num := x.2.1, kind := kindOfCode x.2.2 }

def flowType1 : Schema :=
  { fields := mkFields Generated.flowType1Fields, hdr := Generated.flowType1Hdr, map := Generated.flowType1Map }
def flowType2 : Schema :=
  { fields := mkFields Generated.flowType2Fields, hdr := Generated.flowType2Hdr, map := Generated.flowType2Map }

/-- the message getters used by ConvertIPFIXMsgToFlowMsgs -/
def hdrVal (h : Hdr) (getter : String) : Option PVal :=
  if getter == "GetExportTime" then some (.num h.exportTime)
  else if getter == "GetSequenceNum" then some (.num h.seqNum)
  else if getter == "GetObsDomainID" then some (.num h.obsDomain)
  else if getter == "GetExportAddress" then some (.str h.exportAddr)
  else none

/-- the element getters used by addAllFieldsToFlowTypeN; `none` = the typed element has no such
    value (the Go getter panics) -/
def elemVal (getter : String) (e : IE × Value) : Option PVal :=
  match e.2 with
  | .num n =>
    if getter == "GetUnsigned8Value" then
      (if e.1.ty = .unsigned8 ∧ n < 2 ^ 8 then some (.num n) else none)
    else if getter == "GetUnsigned16Value" then
      (if e.1.ty = .unsigned16 ∧ n < 2 ^ 16 then some (.num n) else none)
    else if getter == "GetUnsigned32Value" then
      (if (e.1.ty = .unsigned32 ∨ e.1.ty = .dateTimeSeconds) ∧ n < 2 ^ 32 then some (.num n) else none)
    else if getter == "GetUnsigned64Value" then
      (if (e.1.ty = .unsigned64 ∨ e.1.ty = .dateTimeMilliseconds) ∧ n < 2 ^ 64 then some (.num n) else none)
    else none
  | .bytes b =>
    if getter == "GetStringValue" then (if e.1.ty = .string then some (.str b) else none)
    else if getter == "GetIPAddressValue.String" then
      (if e.1.ty = .ipv4Address ∨ e.1.ty = .ipv6Address then some (.str (ipString b)) else none)
    else none
  | .bool _ => none

def Schema.field? (S : Schema) (goField : String) : Option Field := S.fields.find? fun fd => fd.name == goField

/-- `flowMsg.<goField> = v` -/
def assign (S : Schema) (f : Flow) (goField : String) (v : PVal) : Flow :=
  match S.field? goField with
  | some fd => (fd.num, v) :: f
  | none => f

/-- one iteration of the loop of addAllFieldsToFlowTypeN (`default:` only warns) -/
def applyElem (S : Schema) (f : Flow) (e : IE × Value) : Flow :=
  match S.map.lookup e.1.name with
  | none => f
  | some (goField, getter) =>
    match elemVal getter e with
    | some v => assign S f goField v
    | none => f

def applyHdr (S : Schema) (h : Hdr) (f : Flow) (a : String × String) : Flow :=
  match hdrVal h a.2 with
  | some v => assign S f a.1 v
  | none => f

/-- convertRecordToFlowMsg: the proto message built for one record of a message -/
def fieldsOf (S : Schema) (h : Hdr) (r : Record) : Flow :=
  r.foldl (applyElem S) (S.hdr.foldl (applyHdr S h) [])

def elemWellTyped (S : Schema) (e : IE × Value) : Bool :=
  match S.map.lookup e.1.name with
  | none => true
  | some (_, getter) => (elemVal getter e).isSome

def Msg.wellTyped (S : Schema) (m : Msg) : Bool :=
  !m.isData || m.records.all fun r => r.all (elemWellTyped S)

/-! ## the producer -/

/-- SendFlowMessage(convert(record), true): the Kafka message value, `none` = nothing is sent -/
def payloadOf (S : Schema) (h : Hdr) (r : Record) : Option Bytes :=
  (protoEncode S.fields (fieldsOf S h r)).map frame

/-- one iteration of PublishIPFIXMessages: a template message publishes nothing, a data message one
    payload per record in record order (minus the records proto.Marshal refuses) -/
def publishMsg (S : Schema) (m : Msg) : List Bytes :=
  if m.isData then m.records.filterMap (payloadOf S m.hdr) else []

/-- PublishIPFIXMessages over everything received on the channel -/
def publish (S : Schema) (msgs : List Msg) : List Bytes := msgs.flatMap (publishMsg S)

/-- the data records of a stream with their message headers, in order -/
def dataRecords (msgs : List Msg) : List (Hdr × Record) :=
  msgs.flatMap fun m => if m.isData then m.records.map fun r => (m.hdr, r) else []

/-- the guard: every string field of the record's proto message is valid UTF-8 -/
def recordValid (S : Schema) (hr : Hdr × Record) : Bool :=
  stringsValid (normalise (wireOrder S.fields) (fieldsOf S hr.1 hr.2))

/-- the protobuf bytes of a data record whose strings are valid -/
def bodyOf (S : Schema) (hr : Hdr × Record) : Bytes :=
  encodeCanon (normalise (wireOrder S.fields) (fieldsOf S hr.1 hr.2))

/-- the protobuf bytes fit the 4-byte length prefix (`uint32(len(bytes))` does not wrap) -/
def recordFits (S : Schema) (hr : Hdr × Record) : Bool := decide ((bodyOf S hr).length < 2 ^ 32)

/-! ## the consumer -/

/-- DecodeAndPrintMsg with MsgDelimitWithLen: `value[4:]` (panics on a shorter value), then
    proto.Unmarshal; the prefix is not looked at -/
def consumerDecode (S : Schema) (p : Bytes) : Outcome Canon :=
  if p.length < 4 then .panic
  else match protoDecode S.fields (p.drop 4) with
    | some c => .ok c
    | none => .err

end Ipfix.Kafka
