/-
  Atomic objects and linearizability - generic, core Lean only (property C13).

  Part 1 (executions).  An execution of a shared object is a list of events over operation ids:
      inv i op   operation i is invoked with argument `op`            (the call starts)
      step i     operation i takes effect                             (its critical section)
      res i out  operation i responds with `out`                      (the call returns)
  `exec spec c evs` runs the machine in which every operation's WHOLE effect is its single `step`:
  at `step i` the sequential specification `spec : σ → Op → σ × Out` is applied to the shared state
  and the response is fixed; `res i out` must return exactly that response. `exec` succeeds
  (`some`) exactly on the well-formed executions of this machine: an id is invoked at most once,
  a step needs a pending invocation, a response needs a step, and the response is the computed
  one. The machine records, as ghost state, the sequential history `lin` in step order.

  Part 2 (checker).  A recorded history is a list of COMPLETED operations with an invoke stamp and
  a response stamp taken from one monotonic counter (`HEvent`). `linearizable spec init fin hist`
  searches (Wing & Gong) for a total order of the operations that (a) respects real time - an
  operation whose response stamp is smaller than another's invoke stamp comes first -, (b) run
  sequentially from `init` reproduces every response and (c) ends in a state accepted by `fin`
  (the final observation, `fun _ => true` if none). Branches are pruned at the first response
  mismatch. Meant for small histories (≤ 8 operations: at most 8! orders).
-/
namespace Ipfix.Atomic

universe u v w

inductive Event (Op : Type u) (Out : Type v) where
  | inv (i : Nat) (op : Op)
  | step (i : Nat)
  | res (i : Nat) (out : Out)
  deriving Repr, DecidableEq

/-- one entry of a sequential history: operation id, argument, response -/
structure Entry (Op : Type u) (Out : Type v) where
  id : Nat
  op : Op
  out : Out
  deriving Repr, DecidableEq

structure Cfg (σ : Type w) (Op : Type u) (Out : Type v) where
  state : σ
  /-- ids invoked so far -/
  seen : List Nat := []
  /-- invoked, not yet taken effect -/
  pending : List (Nat × Op) := []
  /-- taken effect, not yet responded: the response that will be returned -/
  done : List (Nat × Out) := []
  /-- ghost: the operations in the order of their steps -/
  lin : List (Entry Op Out) := []

variable {σ : Type w} {Op : Type u} {Out : Type v}

def Cfg.init (s : σ) : Cfg σ Op Out := { state := s }

def lookup {α : Type u} (i : Nat) : List (Nat × α) → Option α
  | [] => none
  | (j, a) :: l => if j = i then some a else lookup i l

def remove {α : Type u} (i : Nat) (l : List (Nat × α)) : List (Nat × α) := l.filter (fun p => p.1 != i)

/-- one event of the atomic machine; `none` = the event is not possible here -/
def stepEvent [DecidableEq Out] (spec : σ → Op → σ × Out) (c : Cfg σ Op Out) : Event Op Out → Option (Cfg σ Op Out)
  | .inv i op =>
    if i ∈ c.seen then none
    else some { c with seen := i :: c.seen, pending := (i, op) :: c.pending }
  | .step i =>
    match lookup i c.pending with
    | none => none
    | some op =>
      let r := spec c.state op
      some { c with state := r.1, pending := remove i c.pending, done := (i, r.2) :: c.done,
                    lin := c.lin ++ [{ id := i, op := op, out := r.2 }] }
  | .res i out =>
    match lookup i c.done with
    | none => none
    | some o => if o = out then some { c with done := remove i c.done } else none

/-- run an execution; `some c` iff it is a well-formed execution of the atomic machine -/
def exec [DecidableEq Out] (spec : σ → Op → σ × Out) (c : Cfg σ Op Out) : List (Event Op Out) → Option (Cfg σ Op Out)
  | [] => some c
  | e :: es =>
    match stepEvent spec c e with
    | none => none
    | some c' => exec spec c' es

/-- the ids in the order of their `step` events -/
def stepOrder : List (Event Op Out) → List Nat
  | [] => []
  | .step i :: es => i :: stepOrder es
  | _ :: es => stepOrder es

/-- sequential execution: run the operations one after the other, collecting the responses -/
def seqRun (spec : σ → Op → σ × Out) (s : σ) : List (Nat × Op) → σ × List (Entry Op Out)
  | [] => (s, [])
  | (i, op) :: l =>
    let r := spec s op
    let t := seqRun spec r.1 l
    (t.1, { id := i, op := op, out := r.2 } :: t.2)

/-- `a` comes strictly before `b` in the list -/
def Before (l : List Nat) (a b : Nat) : Prop := ∃ p q, l = p ++ q ∧ a ∈ p ∧ b ∉ p ∧ b ∈ q

/-- real-time precedence in an execution: `a` has responded before `b` is invoked -/
def Precedes (evs : List (Event Op Out)) (a b : Nat) : Prop :=
  ∃ l1 l2 l3 o op, evs = l1 ++ Event.res a o :: l2 ++ Event.inv b op :: l3

/-! ## Part 2: recorded histories and the checker -/

/-- a completed operation of a recorded history -/
structure HEvent (Op : Type u) (Out : Type v) where
  id : Nat
  thread : Nat := 0
  op : Op
  out : Out
  /-- invoke stamp -/
  inv : Nat
  /-- response stamp -/
  res : Nat
  deriving Repr

/-- every way of taking one element out of a list: (element, rest) -/
def picks {α : Type u} : List α → List (α × List α)
  | [] => []
  | x :: xs => (x, xs) :: (picks xs).map (fun p => (p.1, x :: p.2))

/-- `x` may be linearized next: no other remaining operation responded before `x` was invoked -/
def minimal (x : HEvent Op Out) (rest : List (HEvent Op Out)) : Bool := rest.all (fun y => !(y.res < x.inv))

def search [BEq Out] (spec : σ → Op → σ × Out) (fin : σ → Bool) : Nat → σ → List (HEvent Op Out) → Bool
  | _, s, [] => fin s
  | 0, _, _ :: _ => false
  | fuel + 1, s, x :: xs =>
    (picks (x :: xs)).any fun p =>
      minimal p.1 p.2 &&
        (let r := spec s p.1.op
         r.2 == p.1.out && search spec fin fuel r.1 p.2)

/-- is the recorded history linearizable w.r.t. the sequential specification, with a final state
    accepted by `fin`? -/
def linearizable [BEq Out] (spec : σ → Op → σ × Out) (init : σ) (fin : σ → Bool) (hist : List (HEvent Op Out)) : Bool :=
  search spec fin hist.length init hist

/-- the order is consistent with real time: nobody placed later had responded before an earlier one was invoked -/
def RealTime : List (HEvent Op Out) → Prop
  | [] => True
  | x :: l => (∀ y ∈ l, ¬ y.res < x.inv) ∧ RealTime l

/-- the sequential run of `l` from `s` reproduces every recorded response and ends in `s'` -/
def Legal [BEq Out] (spec : σ → Op → σ × Out) : σ → List (HEvent Op Out) → σ → Prop
  | s, [], s' => s' = s
  | s, x :: l, s' => ((spec s x.op).2 == x.out) = true ∧ Legal spec (spec s x.op).1 l s'

/-- same search, but returns the witness order (ids) - used by the driver for diagnostics -/
def searchOrder [BEq Out] (spec : σ → Op → σ × Out) (fin : σ → Bool) : Nat → σ → List (HEvent Op Out) → Option (List Nat)
  | _, s, [] => if fin s then some [] else none
  | 0, _, _ :: _ => none
  | fuel + 1, s, x :: xs =>
    (picks (x :: xs)).findSome? fun p =>
      if minimal p.1 p.2 then
        let r := spec s p.1.op
        if r.2 == p.1.out then (searchOrder spec fin fuel r.1 p.2).map (p.1.id :: ·) else none
      else none

end Ipfix.Atomic
