/-
  The standalone collector's in-memory record store and its two HTTP handlers.
  Transliteration of cmd/collector/collector.go: addIPFIXMessage (rendering of a decoded message
  into an entry + the bounded append), flowRecordHandler (GET /records?count=&format=),
  resetRecordHandler (POST /reset), maxFlowRecords.

  Conventions
  * an entry is a Lean `String`; Go strings are byte strings, so the model covers exactly the
    messages whose string-typed values (and element names) are valid UTF-8 (`utf8OrLatin1`
    is total, but only the UTF-8 branch corresponds to the code);
  * `render` is the concatenation of `renderLines`; the theorems talk about lines;
  * `time.Unix(t, 0)` is rendered for `time.Local = time.UTC` (the harness sets it):
    `2006-01-02 15:04:05 +0000 UTC`, proleptic Gregorian calendar, t < 2^32;
  * `net.IP.String()` is modelled in full (4-byte, 16-byte incl. v4-mapped and RFC 5952 `::`
    compression, `<nil>`, `?hex` for other lengths), `net.HardwareAddr.String()` for any length,
    `%v` of a `[]byte` as `[1 2 3]`;
  * NOT modelled: `%v` of float32/float64 (Go's shortest round-trip formatting). `fmtValue`
    prints the bit pattern for them; generators leave float elements out of data records and
    `Spec.C20` does not demand anything of float fields;
  * a value whose carrier does not match the element's type makes the Go getter panic; the model
    prints `!ill-typed` (never generated);
  * modelled, not verified: net/http routing of method / query parameters to the handler
    (`r.Method`, `r.URL.Query().Get`), `http.Error` (= status + message + "\n"),
    `strconv.Atoi` (`atoi`), `encoding/json` string escaping with HTML escaping (`jsonString`).
    The Go store is `nil` before the first reset (JSON `null`); every session starts with a
    reset, so the model starts from the empty, non-nil slice.
-/
import IpfixModel.Model.IE
import IpfixModel.Generated.Consts

namespace Ipfix

/-- the last `n` elements of a list -/
def takeLast {α : Type} (n : Nat) (l : List α) : List α := l.drop (l.length - n)

/-- `flowRecords` -/
structure Store where
  items : List String
  deriving Repr, DecidableEq

namespace Store

/-- `maxFlowRecords`, regenerated from the source on every run -/
def cap : Nat := Generated.cmaxFlowRecords

def empty : Store := ⟨[]⟩

/-! ## Rendering (`addIPFIXMessage`, first half) -/

def pad2 (n : Nat) : String := if n < 10 then "0" ++ toString n else toString n
def pad4 (n : Nat) : String :=
  if n < 10 then "000" ++ toString n else if n < 100 then "00" ++ toString n
  else if n < 1000 then "0" ++ toString n else toString n

/-- (year, month, day) of the day `days` after 1970-01-01 (proleptic Gregorian) -/
def civil (days : Nat) : Nat × Nat × Nat :=
  let z := days + 719468
  let era := z / 146097
  let doe := z % 146097
  let yoe := (doe - doe / 1460 + doe / 36524 - doe / 146096) / 365
  let doy := doe - (365 * yoe + yoe / 4 - yoe / 100)
  let mp := (5 * doy + 2) / 153
  let d := doy - (153 * mp + 2) / 5 + 1
  let m := if mp < 10 then mp + 3 else mp - 9
  let y := yoe + era * 400 + (if m ≤ 2 then 1 else 0)
  (y, m, d)

/-- `time.Unix(t, 0).String()` with `time.Local = time.UTC` -/
def timeString (t : Nat) : String :=
  let (y, m, d) := civil (t / 86400)
  let s := t % 86400
  pad4 y ++ "-" ++ pad2 m ++ "-" ++ pad2 d ++ " " ++ pad2 (s / 3600) ++ ":" ++ pad2 (s % 3600 / 60) ++ ":" ++
    pad2 (s % 60) ++ " +0000 UTC"

def hexNat (n : Nat) : String := String.ofList (Nat.toDigits 16 n)
def hex2 (b : UInt8) : String := String.ofList [hexDigit (b.toNat / 16), hexDigit (b.toNat % 16)]

/-- `%v` of a `[]byte` -/
def octetsString (b : Bytes) : String := "[" ++ " ".intercalate (b.map fun x => toString x.toNat) ++ "]"

/-- `net.HardwareAddr.String()` -/
def macString (b : Bytes) : String := ":".intercalate (b.map hex2)

def ipv4String (b : Bytes) : String := ".".intercalate (b.map fun x => toString x.toNat)

def groups16 : Bytes → List Nat
  | a :: b :: r => (a.toNat * 256 + b.toNat) :: groups16 r
  | _ => []

def zeroRun : List Nat → Nat
  | 0 :: r => zeroRun r + 1
  | _ => 0

/-- the scan of `netip.Addr.appendTo6`: leftmost longest run of at least two zero groups,
    as (start, length); length 0 = none -/
def bestRun : Nat → List Nat → Nat × Nat → Nat × Nat
  | _, [], best => best
  | i, g :: r, best =>
    let l := zeroRun (g :: r)
    bestRun (i + 1) r (if l ≥ 2 ∧ l > best.2 then (i, l) else best)

def ipv6String (b : Bytes) : String :=
  let gs := groups16 b
  let (st, len) := bestRun 0 gs (0, 0)
  if len = 0 then ":".intercalate (gs.map hexNat)
  else ":".intercalate ((gs.take st).map hexNat) ++ "::" ++ ":".intercalate ((gs.drop (st + len)).map hexNat)

/-- `net.IP.String()` -/
def ipString (b : Bytes) : String :=
  if b.length = 0 then "<nil>"
  else if b.length ≠ 4 ∧ b.length ≠ 16 then "?" ++ toHex b
  else match to4 b with
    | some p => ipv4String p
    | none => ipv6String b

def latin1 (b : Bytes) : String := String.ofList (b.map fun x => Char.ofNat x.toNat)

/-- a Go string as a Lean string: its UTF-8 decoding (the model's domain); total by falling back
    to Latin-1 for byte strings that are not UTF-8 (outside the domain) -/
def utf8OrLatin1 (b : Bytes) : String := (String.fromUTF8? b.toByteArray).getD (latin1 b)

def errMicroNano : String := "API does not support micro and nano seconds types yet"
def errInvalid : String := "API supports only valid information elements with datatypes given in RFC7011"

/-- what `%v` prints for the value in the `switch elem.DataType` of addIPFIXMessage -/
def fmtValue (ie : IE) (v : Value) : String :=
  match ie.ty, v with
  | .octetArray, .bytes b => octetsString b
  | .unsigned8, .num n | .unsigned16, .num n | .unsigned32, .num n | .unsigned64, .num n
  | .dateTimeSeconds, .num n | .dateTimeMilliseconds, .num n => toString n
  | .signed8, .num n => toString (ofTwos 1 n)
  | .signed16, .num n => toString (ofTwos 2 n)
  | .signed32, .num n => toString (ofTwos 4 n)
  | .signed64, .num n => toString (ofTwos 8 n)
  | .float32, .num n => "!float32bits:" ++ toString n
  | .float64, .num n => "!float64bits:" ++ toString n
  | .boolean, .bool b => if b then "true" else "false"
  | .macAddress, .bytes b => macString b
  | .ipv4Address, .bytes b | .ipv6Address, .bytes b => ipString b
  | .string, .bytes b => utf8OrLatin1 b
  | .dateTimeMicroseconds, _ | .dateTimeNanoseconds, _ => errMicroNano
  | .basicList, _ | .subTemplateList, _ | .subTemplateMultiList, _ | .invalid, _ => errInvalid
  | _, _ => "!ill-typed"

/-- a decoded message as addIPFIXMessage sees it: header fields and the records of its one set -/
structure Msg where
  version : Nat
  length : Nat
  exportTime : Nat
  seq : Nat
  domain : Nat
  isTemplate : Bool
  records : List (List (IE × Value))
  deriving Repr

/-- one field line of a data record: `    %s: %v \n` -/
def fieldLine (ie : IE) (v : Value) : String := "    " ++ ie.name ++ ": " ++ fmtValue ie v ++ " \n"

/-- one field line of a template record -/
def tplLine (ie : IE) : String :=
  "    " ++ ie.name ++ ": len=" ++ toString ie.len ++ " (enterprise ID = " ++ toString ie.ent ++ ") \n"

def recHeader (isTemplate : Bool) (i : Nat) : String :=
  if isTemplate then "  TEMPLATE RECORD-" ++ toString i ++ ":\n" else "  DATA RECORD-" ++ toString i ++ ":\n"

def elemLine (isTemplate : Bool) (f : IE × Value) : String :=
  if isTemplate then tplLine f.1 else fieldLine f.1 f.2

/-- the record loop, `i` is the record index printed in the header -/
def recLines (isTemplate : Bool) : Nat → List (List (IE × Value)) → List String
  | _, [] => []
  | i, r :: rs => recHeader isTemplate i :: (r.map (elemLine isTemplate) ++ recLines isTemplate (i + 1) rs)

def headerLines (m : Msg) : List String :=
  [ "\nIPFIX-HDR:\n",
    "  version: " ++ toString m.version ++ ",  Message Length: " ++ toString m.length ++ "\n",
    "  Exported Time: " ++ toString m.exportTime ++ " (" ++ timeString m.exportTime ++ ")\n",
    "  Sequence No.: " ++ toString m.seq ++ ",  Observation Domain ID: " ++ toString m.domain ++ "\n",
    if m.isTemplate then "TEMPLATE SET:\n" else "DATA SET:\n" ]

def renderLines (m : Msg) : List String := headerLines m ++ recLines m.isTemplate 0 m.records

/-- the entry text: `buf.String()` -/
def render (m : Msg) : String := String.join (renderLines m)

/-! ## The bounded append (`addIPFIXMessage`, second half) -/

/-- `if len(flowRecords) >= maxFlowRecords { flowRecords = flowRecords[1:] }; append` -/
def add (s : Store) (e : String) : Store :=
  if s.items.length ≥ cap then ⟨s.items.drop 1 ++ [e]⟩ else ⟨s.items ++ [e]⟩

def reset (_ : Store) : Store := ⟨[]⟩

/-! ## GET /records -/

inductive Fmt where
  | json | text
  deriving DecidableEq, Repr

def digitsVal : List Char → Option Nat
  | [] => none
  | cs => cs.foldlM (fun acc c => if '0' ≤ c ∧ c ≤ '9' then some (acc * 10 + (c.toNat - 48)) else none) 0

/-- `strconv.Atoi` on a 64-bit platform: optional sign, at least one decimal digit, nothing else,
    value within int64 -/
def atoi (s : String) : Option Int :=
  let (neg, ds) := match s.toList with
    | '+' :: r => (false, r)
    | '-' :: r => (true, r)
    | r => (false, r)
  match digitsVal ds with
  | none => none
  | some n =>
    if neg then (if n ≤ 2 ^ 63 then some (-(n : Int)) else none)
    else (if n < 2 ^ 63 then some (n : Int) else none)

/-- the `count` query parameter: `none` = refused, `some none` = everything (absent or empty),
    `some (some n)` = the last n -/
def countArg : Option String → Option (Option Nat)
  | none => some none
  | some s =>
    if s = "" then some none
    else match atoi s with
      | some i => if i < 0 then none else some (some i.toNat)
      | none => none

/-- the `format` query parameter -/
def formatArg : Option String → Option Fmt
  | none => some .json
  | some s => if s = "" ∨ s = "json" then some .json else if s = "text" then some .text else none

/-- the entries a valid query returns: `flowRecords[len(flowRecords)-count:]` after clamping -/
def query (s : Store) (count : Option Nat) : List String :=
  let c := match count with
    | none => s.items.length
    | some n => if n > s.items.length then s.items.length else n
  s.items.drop (s.items.length - c)

def hex4 (n : Nat) : String :=
  String.ofList [hexDigit (n / 4096 % 16), hexDigit (n / 256 % 16), hexDigit (n / 16 % 16), hexDigit (n % 16)]

/-- encoding/json `appendString` with escapeHTML = true, on a valid UTF-8 string -/
def jsonChar (c : Char) : String :=
  if c = '\\' then "\\\\" else if c = '"' then "\\\""
  else if c.toNat = 8 then "\\b" else if c.toNat = 12 then "\\f"
  else if c = '\n' then "\\n" else if c = '\r' then "\\r" else if c = '\t' then "\\t"
  else if c.toNat < 32 ∨ c = '<' ∨ c = '>' ∨ c = '&' then "\\u" ++ hex4 c.toNat
  else if c.toNat = 0x2028 ∨ c.toNat = 0x2029 then "\\u" ++ hex4 c.toNat
  else String.singleton c

def jsonString (s : String) : String := "\"" ++ String.join (s.toList.map jsonChar) ++ "\""

/-- `json.Marshal(&jsonResponse{FlowRecords: records})` for a non-nil slice -/
def jsonBody (l : List String) : String := "{\"flowRecords\":[" ++ ",".intercalate (l.map jsonString) ++ "]}"

def textSeparator : String := String.ofList (List.replicate 80 '=')

def textBody (l : List String) : String := String.join (l.map (· ++ textSeparator))

def encode : Fmt → List String → String
  | .json, l => jsonBody l
  | .text, l => textBody l

structure Resp where
  status : Nat
  body : String
  deriving DecidableEq, Repr

def refuseMethod : Resp := ⟨405, "Invalid request method\n"⟩
def refuseCount : Resp := ⟨400, "Invalid count query parameter\n"⟩
def refuseFormat : Resp := ⟨400, "Invalid format query parameter\n"⟩

/-- `flowRecordHandler` -/
def handleRecords (s : Store) (method : String) (count format : Option String) : Resp :=
  if method ≠ "GET" then refuseMethod
  else match countArg count with
    | none => refuseCount
    | some c =>
      match formatArg format with
      | none => refuseFormat
      | some f => ⟨200, encode f (s.query c)⟩

/-- `resetRecordHandler` -/
def handleReset (s : Store) (method : String) : Store × Resp :=
  if method = "POST" then (s.reset, ⟨200, "Flow records successfully reset"⟩) else (s, refuseMethod)

/-! ## Operation sequences -/

inductive Op where
  | add (m : Msg)
  | records (method : String) (count format : Option String)
  | reset (method : String)
  deriving Repr

/-- what one operation lets an observer see: after an arrival the number of entries held and the
    newest entry; for a request the status and the body -/
inductive Obs where
  | added (len : Nat) (entry : String)
  | resp (status : Nat) (body : String)
  | other
  deriving Repr, DecidableEq

def step (s : Store) : Op → Store × Obs
  | .add m => let s' := s.add (render m); (s', .added s'.items.length (render m))
  | .records method c f => let r := s.handleRecords method c f; (s, .resp r.status r.body)
  | .reset method => let (s', r) := s.handleReset method; (s', .resp r.status r.body)

/-- final store after a sequence of operations -/
def exec (s : Store) : List Op → Store
  | [] => s
  | op :: ops => exec (s.step op).1 ops

/-- the observations of a sequence of operations -/
def run (s : Store) : List Op → List Obs
  | [] => []
  | op :: ops => (s.step op).2 :: run (s.step op).1 ops

/-- entries of the messages that arrived since the last successful reset (`acc` = those before
    the sequence starts), in arrival order -/
def arrivals (acc : List String) : List Op → List String
  | [] => acc
  | .add m :: ops => arrivals (acc ++ [render m]) ops
  | .reset method :: ops => arrivals (if method = "POST" then [] else acc) ops
  | .records _ _ _ :: ops => arrivals acc ops

end Store
end Ipfix
