/-
  UDP template lifetime: pkg/collector/process.go addTemplate / deleteTemplate /
  deleteTemplateWithConds and the expiry callback, with the timers of pkg/collector/clock.go as
  explicit events (property C10). Core-only, executable.

  What is modelled (one collecting process, protocol "udp", template TTL = `ttl` clock units):

    tpl k        a valid template set for key k = (observation domain, template id):
                 addTemplate. No template stored under k: a NEW template object (fresh `oid`) is
                 stored, expiry := now + ttl, and `clock.AfterFunc(ttl, callback)` creates and arms
                 the object's timer (the callback closure captures the KEY). A template stored
                 under k ("refresh"): the SAME object is kept, expiry := now + ttl, and
                 `expiryTimer.Reset(ttl)` (re)arms its timer with deadline now + ttl.
    badTpl k     a template set for k whose field list fails after the id was read:
                 deleteTemplate (unconditional): if stored, `expiryTimer.Stop()` + delete.
    data k       a data set for k: accepted iff a template is stored under k (getTemplateIEs).
    advance d    the clock moves forward by d.
    fire o       the runtime starts the callback of the armed timer of object o whose deadline has
                 passed: the timer becomes unarmed and a pending callback is created.
    cbReadNow c  pending callback c executes `now := cp.clock.Now()`.
    cbFinish c   pending callback c executes deleteTemplateWithConds(dom, id, cond): takes the lock,
                 looks the template up BY KEY; if one is stored and `!expiryTime.After(now)` for the
                 `now` the callback read: Stop() its timer and delete it; otherwise nothing.

  Timer contract assumed (time.AfterFunc / Timer.Stop / Timer.Reset as documented by Go):
  AfterFunc(d,f) arms a timer with deadline now+d; some time after the deadline the runtime starts f
  in its own goroutine and from that moment the timer is unarmed; Stop() unarms an armed timer and
  does nothing to an f already started; Reset(d) (re)arms with deadline now+d whether or not the
  timer was armed, an f already started keeps running.

  Events that are not enabled (fire of an unarmed / undue timer, cbReadNow of an unknown callback or
  one that has read already, cbFinish of an unknown callback or before it read the clock) leave the
  state unchanged and report `disabled`.

  `Tpl.refreshed` is a GHOST field (the time of the most recent (re)transmission of the stored
  template); no decision of `step` reads it.
-/
import IpfixModel.Generated.Consts
namespace Ipfix.Timers

/-- (observation domain id, template id) -/
abbrev Key := Nat × Nat

structure Tpl where
  oid : Nat
  expiry : Nat
  refreshed : Nat
  deriving DecidableEq, Repr, Inhabited

structure Armed where
  oid : Nat
  key : Key
  deadline : Nat
  deriving DecidableEq, Repr, Inhabited

structure Cb where
  cid : Nat
  oid : Nat
  key : Key
  nowRead : Option Nat
  deriving DecidableEq, Repr, Inhabited

structure TState where
  now : Nat
  tpls : List (Key × Tpl)
  armed : List Armed
  pending : List Cb
  nextOid : Nat
  nextCid : Nat
  ttl : Nat
  deriving DecidableEq, Repr, Inhabited

inductive Event where
  | tpl (k : Key)
  | badTpl (k : Key)
  | data (k : Key)
  | advance (d : Nat)
  | fire (o : Nat)
  | cbReadNow (c : Nat)
  | cbFinish (c : Nat)
  deriving DecidableEq, Repr, Inhabited

inductive Res where
  | created      -- tpl: new template object + AfterFunc
  | refreshed    -- tpl: same object, Reset
  | invalidated  -- badTpl (decode error reported; template deleted if there was one)
  | accepted     -- data
  | rejected     -- data
  | advanced
  | fired
  | read (r : Nat)
  | finished (deleted : Bool)
  | disabled
  deriving DecidableEq, Repr, Inhabited

/-- what an observer sees after an event -/
structure Obs where
  res : Res
  now : Nat
  keys : List Key
  armed : List Armed
  pending : List Cb
  deriving DecidableEq, Repr, Inhabited

/-- initCollectingProcess: a UDP collector configured with TemplateTTL = 0 uses the protocol's default lifetime
    (`entities.TemplateTTL`, regenerated from the source as `Generated.cTemplateTTL`) -/
def effectiveTTL (configured : Nat) : Nat := if configured = 0 then Generated.cTemplateTTL else configured

def init (ttl : Nat) : TState :=
  { now := 0, tpls := [], armed := [], pending := [], nextOid := 0, nextCid := 0, ttl := ttl }

def TState.find (s : TState) (k : Key) : Option (Key × Tpl) := s.tpls.find? (fun p => p.1 == k)

def TState.stored (s : TState) (k : Key) : Bool := (s.find k).isSome

/-- Stop() the object's timer and delete the template stored under k -/
def TState.delete (s : TState) (k : Key) (t : Tpl) : TState :=
  { s with tpls := s.tpls.filter (fun p => p.1 != k), armed := s.armed.filter (fun a => a.oid != t.oid) }

def markRead (c now : Nat) (p : Cb) : Cb :=
  if p.cid == c && p.nowRead.isNone then { p with nowRead := some now } else p

def next (s : TState) : Event → TState × Res
  | .tpl k =>
    match s.find k with
    | none =>
      ({ s with tpls := (k, { oid := s.nextOid, expiry := s.now + s.ttl, refreshed := s.now }) :: s.tpls,
                armed := { oid := s.nextOid, key := k, deadline := s.now + s.ttl } :: s.armed,
                nextOid := s.nextOid + 1 }, .created)
    | some p =>
      ({ s with tpls := (k, { oid := p.2.oid, expiry := s.now + s.ttl, refreshed := s.now }) :: s.tpls.filter (fun q => q.1 != k),
                armed := { oid := p.2.oid, key := k, deadline := s.now + s.ttl } :: s.armed.filter (fun a => a.oid != p.2.oid) },
       .refreshed)
  | .badTpl k =>
    match s.find k with
    | none => (s, .invalidated)
    | some p => (s.delete k p.2, .invalidated)
  | .data k => (s, if s.stored k then .accepted else .rejected)
  | .advance d => ({ s with now := s.now + d }, .advanced)
  | .fire o =>
    match s.armed.find? (fun a => a.oid == o) with
    | none => (s, .disabled)
    | some a =>
      if a.deadline ≤ s.now then
        ({ s with armed := s.armed.filter (fun b => b.oid != o),
                  pending := { cid := s.nextCid, oid := o, key := a.key, nowRead := none } :: s.pending,
                  nextCid := s.nextCid + 1 }, .fired)
      else (s, .disabled)
  | .cbReadNow c =>
    match s.pending.find? (fun p => p.cid == c && p.nowRead.isNone) with
    | none => (s, .disabled)
    | some _ => ({ s with pending := s.pending.map (markRead c s.now) }, .read s.now)
  | .cbFinish c =>
    match s.pending.find? (fun p => p.cid == c) with
    | none => (s, .disabled)
    | some cb =>
      match cb.nowRead with
      | none => (s, .disabled)
      | some r =>
        let s' := { s with pending := s.pending.filter (fun p => p.cid != c) }
        match s.find cb.key with
        | none => (s', .finished false)
        | some p =>
          if p.2.expiry ≤ r then (s'.delete cb.key p.2, .finished true)
          else (s', .finished false)

def observe (s : TState) (r : Res) : Obs :=
  { res := r, now := s.now, keys := s.tpls.map (·.1), armed := s.armed, pending := s.pending }

def step (s : TState) (e : Event) : TState × Obs :=
  ((next s e).1, observe (next s e).1 (next s e).2)

def run (ttl : Nat) (es : List Event) : TState := es.foldl (fun s e => (step s e).1) (init ttl)

/-- the observations of a whole history, oldest first -/
def trace (s : TState) : List Event → List (Event × Obs)
  | [] => []
  | e :: es => (e, (step s e).2) :: trace (step s e).1 es

end Ipfix.Timers
