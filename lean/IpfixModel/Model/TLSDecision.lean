/-
  TLSDecision (property C18): which sessions the exporter completes and which messages the collector
  delivers, as a function of the TLS / DTLS configuration the code builds and of the peer.

  * The CONFIGURATIONS are not written down here: they are read off `Generated.TLS` (tools/tlsfacts,
    regenerated from /repo on every run): `libTLSClient`, `libDTLSClient`, `libTLSServer`,
    `libDTLSServer`, and the Dial/Listen call on each path (`exporterDial`, `collectorListen`).
    When a literal this model looks for is not found, the configuration falls back to the
    INSECURE one (verification skipped, no client authentication), so that the theorems of
    Props/C18 break instead of silently talking about a configuration the code no longer builds.
  * The LIBRARY SEMANTICS are assumed, not verified (they are observed over the whole matrix by the
    correspondence run):
      crypto/tls client: the handshake completes iff a common protocol version >= both MinVersions
        exists and (unless InsecureSkipVerify) the server certificate chains to RootCAs, `now` is
        within its validity period and it is valid for the expected name: `ServerName` if set, else
        the host part of the dialled address; an IP literal is matched against the IP SANs, anything
        else against the DNS SANs (the Common Name is never consulted; wildcards are not modelled -
        no certificate of the matrix has one). RootCAs == nil means the system roots, which hold none
        of the CAs of the matrix.
      crypto/tls server: ClientAuth = NoClientCert: no CertificateRequest; RequestClientCert: a
        certificate is asked for but never verified; RequireAnyClientCert: one must be presented;
        VerifyClientCertIfGiven: a presented one must chain to ClientCAs and be within validity;
        RequireAndVerifyClientCert: one must be presented and verify. A crypto/tls client presents
        its certificate only when one was asked for and, when the request names acceptable CAs, only
        if its issuer is among them (otherwise it answers with an empty certificate list).
        In TLS 1.3 the client's handshake returns before the server has looked at the client
        certificate: a rejected client completes `tls.Dial` and finds out on a later read/write; up
        to TLS 1.2 the client's handshake fails.
      pion/dtls v2 client: as the crypto/tls client (DTLS 1.2 only), EXCEPT that the name check
        uses `ServerName` only: an IP literal is cleared (conn.go: "Do not allow the use of an IP
        address literal as an SNI value") and an empty name means `x509.VerifyOptions.DNSName = ""`,
        i.e. NO name or address check at all; the dialled address is never consulted.
        `Config.VerifyPeerCertificate`, when set, is called after that verification (flight5handler.go;
        also with InsecureSkipVerify) and its error fails the handshake: it can only refuse more.
      the exporter's own hook (since 90a2eb6): `leaf.VerifyHostname(expectedName)` on the first
        certificate the server presented, x509 semantics as above (IP literal against the IP SANs,
        anything else against the DNS SANs, no Common Name; the empty name matches nothing). WHETHER
        the hook is installed, for which `ServerName`s and which name it verifies is read off the
        regenerated facts (`Generated.TLS.hooks`, `dtlsHookOf`): a hook this model does not recognise
        counts as NO hook, i.e. as the behaviour before the repair (D11).
      pion/dtls v2 server: client certificates are verified only for ClientAuth >=
        VerifyClientCertIfGiven.
  Core Lean only.
-/
import IpfixModel.Generated.TLS
namespace Ipfix.TLS
open Generated.TLS

/-! ## Finite enumerations (the quantifier of C18 is a finite matrix) -/

/-- a type with a complete list of its values; makes `∀ a, p a` decidable -/
class Enum (α : Type) where
  all : List α
  complete : ∀ a : α, a ∈ all

instance instDecidableForallEnum {α : Type} [Enum α] (p : α → Prop) [DecidablePred p] : Decidable (∀ a, p a) :=
  if h : (Enum.all (α := α)).all (fun a => decide (p a)) = true then
    isTrue (fun a => by
      have h' := List.all_eq_true.mp h a (Enum.complete a)
      exact of_decide_eq_true h')
  else
    isFalse (fun hp => h (List.all_eq_true.mpr fun a _ => decide_eq_true (hp a)))

instance : Enum Bool := ⟨[false, true], by intro a; cases a <;> simp⟩

/-! ## Certificates and names -/

inductive Issuer where
  | trustedCA   -- the CA the endpoint under test is configured with
  | otherCA     -- another CA
  | self        -- self-signed leaf
  deriving DecidableEq, Repr

/-- a host as the libraries classify it (`net.ParseIP`) -/
inductive Name where
  | dns (s : String)
  | ip (s : String)
  deriving DecidableEq, Repr

structure PeerCert where
  issuer : Issuer
  notBefore : Nat
  notAfter : Nat
  dnsNames : List String
  ipAddrs : List String
  deriving DecidableEq, Repr

def withinValidity (c : PeerCert) (now : Nat) : Bool := decide (c.notBefore ≤ now) && decide (now ≤ c.notAfter)

def nameMatches (n : Name) (c : PeerCert) : Bool :=
  match n with
  | .dns s => c.dnsNames.contains s
  | .ip s => c.ipAddrs.contains s

/-! ## Configurations -/

/-- protocol versions: 10 = TLS 1.0, 11 = TLS 1.1, 12 = TLS 1.2 (and DTLS 1.2), 13 = TLS 1.3 -/
abbrev Version := Nat

inductive Lib where
  | cryptoTLS
  | pionDTLS
  deriving DecidableEq, Repr

/-- a name check of the peer's leaf certificate done by the caller of the library in a
    `VerifyPeerCertificate` hook: for which kinds of `ServerName` the hook is installed, and whether an
    empty `ServerName` is replaced by the dialled host (otherwise the empty name is verified, which no
    certificate is valid for) -/
structure NameHook where
  onUnset : Bool        -- installed when ServerName == ""
  onIP : Bool           -- installed when ServerName is an IP literal
  onDNS : Bool          -- installed when ServerName is any other name
  hostFallback : Bool   -- ServerName == "" => the host of the dialled address is verified
  deriving DecidableEq, Repr

def noHook : NameHook := { onUnset := false, onIP := false, onDNS := false, hostFallback := false }

structure ClientCfg where
  rootsSet : Bool           -- RootCAs set (to the configured CA)
  skipVerify : Bool         -- InsecureSkipVerify
  serverNamePassed : Bool   -- ServerName := the caller's ServerName
  minVersion : Version
  maxVersion : Version
  sendsCert : Bool          -- Certificates set
  extendedMasterSecret : Bool
  nameHook : NameHook       -- the caller's own name check (pion/dtls client only; crypto/tls configs of the code set none)
  deriving DecidableEq, Repr

inductive ClientAuth where
  | noClientCert | request | requireAny | verifyIfGiven | requireAndVerify
  deriving DecidableEq, Repr

structure ServerCfg where
  hasCert : Bool
  clientAuth : ClientAuth
  clientCAsSet : Bool
  minVersion : Version
  maxVersion : Version
  deriving DecidableEq, Repr

/-- what a configuration is taken to be when the code no longer has the shape this model reads -/
def insecureClient : ClientCfg :=
  { rootsSet := false, skipVerify := true, serverNamePassed := false, minVersion := 0, maxVersion := 13,
    sendsCert := false, extendedMasterSecret := false, nameHook := noHook }

def insecureServer : ServerCfg :=
  { hasCert := true, clientAuth := .noClientCert, clientCAsSet := false, minVersion := 0, maxVersion := 13 }

/-! ### ... read off the regenerated facts -/

def field (l : ConfigLit) (k : String) : Option String := (l.fields.find? (fun p => p.1 == k)).map (·.2)

def pick (fn kind cond : String) : Option ConfigLit :=
  configLits.find? fun l => l.func == fn && l.kind == kind && l.conds.contains cond

def parseVersion (s : String) : Option Version :=
  if s == "tls.VersionTLS13" then some 13
  else if s == "tls.VersionTLS12" then some 12
  else if s == "tls.VersionTLS11" then some 11
  else if s == "tls.VersionTLS10" then some 10
  else if s == "tls.VersionSSL30" then some 9
  else none

def parseClientAuth (s : String) : ClientAuth :=
  if s == "tls.RequireAndVerifyClientCert" || s == "dtls.RequireAndVerifyClientCert" then .requireAndVerify
  else if s == "tls.VerifyClientCertIfGiven" || s == "dtls.VerifyClientCertIfGiven" then .verifyIfGiven
  else if s == "tls.RequireAnyClientCert" || s == "dtls.RequireAnyClientCert" then .requireAny
  else if s == "tls.RequestClientCert" || s == "dtls.RequestClientCert" then .request
  else .noClientCert

/-- assignments to a security-relevant field after construction that could WEAKEN a configuration: all of
    them except those to `VerifyPeerCertificate`, which both stacks call in addition to their own
    verification (an assigned hook can only refuse more; what it is taken to check is `dtlsHookOf`) -/
def weakeningAssignments : List (String × String × String × String) :=
  fieldAssignments.filter fun a => !".VerifyPeerCertificate".toList.isSuffixOf a.2.2.1.toList

/-- a config is taken to skip verification if its literal says so (anything but the literal `false`),
    or if ANY security-relevant field other than a `VerifyPeerCertificate` hook is assigned after
    construction anywhere in the three files -/
def litSkipsVerify (l : ConfigLit) : Bool :=
  (match field l "InsecureSkipVerify" with
   | some v => v != "false"
   | none => false) || !weakeningAssignments.isEmpty

/-- crypto/tls: MinVersion unset means TLS 1.2 (client: Go >= 1.18, server: Go >= 1.22), MaxVersion unset means TLS 1.3;
    a value this model cannot read counts as "no lower bound" -/
def minVersionOf (l : ConfigLit) : Version :=
  match field l "MinVersion" with
  | none => 12
  | some v => (parseVersion v).getD 0

def maxVersionOf (l : ConfigLit) : Version :=
  match field l "MaxVersion" with
  | none => 13
  | some v => (parseVersion v).getD 13

def tlsClientOfLit (l : ConfigLit) (serverNameExpr : String) : ClientCfg :=
  { rootsSet := (field l "RootCAs").isSome
    skipVerify := litSkipsVerify l
    serverNamePassed := field l "ServerName" == some serverNameExpr
    minVersion := minVersionOf l
    maxVersion := maxVersionOf l
    sendsCert := (field l "Certificates").isSome
    extendedMasterSecret := true     -- crypto/tls always negotiates it when the peer supports it
    nameHook := noHook }

def serverOfLit (l : ConfigLit) (dtls : Bool) : ServerCfg :=
  { hasCert := (field l "Certificates").isSome
    clientAuth := match field l "ClientAuth" with
      | none => .noClientCert
      | some v => parseClientAuth v
    clientCAsSet := (field l "ClientCAs").isSome
    minVersion := if dtls then 12 else minVersionOf l
    maxVersion := if dtls then 12 else maxVersionOf l }

/-- exporter over TCP: `createClientConfig`, the branch without / with a client certificate -/
def libTLSClient (hasClientCert : Bool) : ClientCfg :=
  match pick "createClientConfig" "tls.Config" (if hasClientCert then "!(config.CertData == nil)" else "config.CertData == nil") with
  | some l => tlsClientOfLit l "config.ServerName"
  | none => insecureClient

/-! ### The exporter's name-check hook on the DTLS path -/

/-- the one hook body this model understands: the leaf certificate is parsed from the first raw
    certificate and `VerifyHostname(expectedName)` is its verdict (any other text = not recognised) -/
def nameCheckBody : String :=
  "func(rawCerts [][]byte, _ [][]*x509.Certificate) error { if len(rawCerts) == 0 { return fmt.Errorf(\"the server did not present a certificate\") } leaf, err := x509.ParseCertificate(rawCerts[0]) if err != nil { return err } return leaf.VerifyHostname(expectedName) }"

/-- the conditions on `ServerName` this model can evaluate: (holds when unset, when an IP literal, when another name) -/
def serverNameConds : List (String × Bool × Bool × Bool) :=
  [("tlsConfig.ServerName == \"\" || net.ParseIP(tlsConfig.ServerName) != nil", true, true, false),
   ("net.ParseIP(tlsConfig.ServerName) != nil || tlsConfig.ServerName == \"\"", true, true, false),
   ("tlsConfig.ServerName == \"\"", true, false, false),
   ("net.ParseIP(tlsConfig.ServerName) != nil", false, true, false),
   ("net.ParseIP(tlsConfig.ServerName) == nil", true, false, true),
   ("tlsConfig.ServerName != \"\"", false, true, true)]

/-- a path condition the hook sits under beyond those of the config literal; one this model cannot read is never satisfied -/
def condHolds (c : String) : Bool × Bool × Bool := (serverNameConds.lookup c).getD (false, false, false)

/-- which name `expectedName` holds when the hook runs, from the assignments that reach it:
    `some true`: ServerName, replaced by the host of CollectorAddress when empty; `some false`: ServerName as it is -/
def expectedNameOf (defs : List LocalDef) : Option Bool :=
  let ds := defs.filter (·.lhs == "expectedName")
  if ds.map (·.rhs) == ["tlsConfig.ServerName", "host"] &&
      ds.all (fun d => d.rhs != "host" || d.conds.contains "expectedName == \"\"") &&
      (defs.filter (·.lhs == "host, _, err")).map (·.rhs) == ["net.SplitHostPort(input.CollectorAddress)"] then some true
  else if ds.map (·.rhs) == ["tlsConfig.ServerName"] then some false
  else none

/-- the name check the DTLS exporter adds to the `dtls.Config` literal `l`, as a function of the extracted
    hooks and field assignments. It is recognised only if: `config.VerifyPeerCertificate` is assigned exactly
    once in `InitExportingProcess`, on the DTLS path, with `nameCheckBody`; `config` there is the `dtls.Config`
    literal and `tlsConfig` the caller's `TLSClientConfig`; and `expectedName` is defined in one of the two
    ways `expectedNameOf` knows. Anything else counts as NO hook. -/
def dtlsHookOf (hs : List Hook) (assigns : List (String × String × String × String)) (l : ConfigLit) : NameHook :=
  let mine := assigns.filter fun a => a.2.1 == "InitExportingProcess" && a.2.2.1 == "config.VerifyPeerCertificate"
  match hs.filter (fun h => h.func == "InitExportingProcess" && h.lhs == "config.VerifyPeerCertificate") with
  | [h] =>
    if mine.map (·.2.2.2) == [h.body] && h.body == nameCheckBody && l.conds.all h.conds.contains &&
        (h.defs.filter (·.lhs == "config")).map (fun d => "&dtls.Config{".toList.isPrefixOf d.rhs.toList) == [true] &&
        (h.defs.filter (·.lhs == "tlsConfig")).map (·.rhs) == ["input.TLSClientConfig"] then
      match expectedNameOf h.defs with
      | none => noHook
      | some fb =>
        let extra := (h.conds.filter fun c => !l.conds.contains c).map condHolds
        { onUnset := extra.all (·.1), onIP := extra.all (·.2.1), onDNS := extra.all (·.2.2), hostFallback := fb }
    else noHook
  | _ => noHook

/-- exporter over UDP: the `dtls.Config` literal of `InitExportingProcess` (pion: DTLS 1.2 only) plus the
    name-check hook assigned to it -/
def libDTLSClient : ClientCfg :=
  match pick "InitExportingProcess" "dtls.Config" "input.CollectorProtocol == \"udp\"" with
  | some l =>
    { rootsSet := (field l "RootCAs").isSome
      skipVerify := litSkipsVerify l
      serverNamePassed := field l "ServerName" == some "tlsConfig.ServerName"
      minVersion := 12
      maxVersion := 12
      sendsCert := (field l "Certificates").isSome
      extendedMasterSecret := field l "ExtendedMasterSecret" == some "dtls.RequireExtendedMasterSecret"
      nameHook := dtlsHookOf hooks fieldAssignments l }
  | none => insecureClient

/-- collector over TCP: `createServerConfig`, the branch without / with a client CA -/
def libTLSServer (caGiven : Bool) : ServerCfg :=
  match pick "createServerConfig" "tls.Config" (if caGiven then "!(cp.caCert == nil)" else "cp.caCert == nil") with
  | some l => serverOfLit l false
  | none => insecureServer

/-- collector over UDP: the `dtls.Config` literal of `startUDPServer` (whatever `caCert` is) -/
def libDTLSServer : ServerCfg :=
  match pick "startUDPServer" "dtls.Config" "cp.isEncrypted" with
  | some l => serverOfLit l true
  | none => insecureServer

/-! ### Which Dial / Listen is on the path -/

def isDialOrListen (callee : String) : Bool :=
  ["tls.Dial", "tls.DialWithDialer", "tls.Client", "tls.Listen", "tls.NewListener", "tls.Server",
   "dtls.Dial", "dtls.DialWithContext", "dtls.Client", "dtls.Listen", "dtls.NewListener", "dtls.Server",
   "net.Dial", "net.DialTimeout", "net.DialTCP", "net.DialUDP", "net.Listen", "net.ListenTCP", "net.ListenUDP",
   "net.ListenPacket"].contains callee

def isEncryptedCallee (callee : String) : Bool :=
  ["tls.Dial", "tls.DialWithDialer", "tls.Client", "tls.Listen", "tls.NewListener", "tls.Server",
   "dtls.Dial", "dtls.DialWithContext", "dtls.Client", "dtls.Listen", "dtls.NewListener", "dtls.Server"].contains callee

/-- a path condition is feasible under an assignment of the atoms we know about unless one of its
    conjuncts is assigned false (conjuncts we know nothing about, e.g. `!(err != nil)`, are satisfiable) -/
def feasible (env : List (String × Bool)) (conds : List String) : Bool :=
  conds.all fun c => (env.find? (fun p => p.1 == c)).map (·.2) != some false

def exporterEnv (secure : Bool) (proto : String) : List (String × Bool) :=
  [("input.TLSClientConfig != nil", secure), ("!(input.TLSClientConfig != nil)", !secure),
   ("input.TLSClientConfig == nil", !secure), ("!(input.TLSClientConfig == nil)", secure),
   ("input.CollectorProtocol == \"tcp\"", proto == "tcp"), ("!(input.CollectorProtocol == \"tcp\")", proto != "tcp"),
   ("input.CollectorProtocol == \"udp\"", proto == "udp"), ("!(input.CollectorProtocol == \"udp\")", proto != "udp")]

def collectorEnv (encrypted : Bool) : List (String × Bool) :=
  [("cp.isEncrypted", encrypted), ("!(cp.isEncrypted)", !encrypted),
   ("!cp.isEncrypted", !encrypted), ("!(!cp.isEncrypted)", encrypted)]

/-- the Dial calls `InitExportingProcess` can reach with / without `TLSClientConfig`, for a protocol -/
def exporterDial (secure : Bool) (proto : String) : List String :=
  (calls.filter fun c => c.func == "InitExportingProcess" && isDialOrListen c.callee &&
    feasible (exporterEnv secure proto) c.conds).map (·.callee)

/-- the Listen calls of `startTCPServer` / `startUDPServer` reachable with `isEncrypted` set / unset
    (`CollectingProcess.Start` dispatches on the protocol; that dispatch is not extracted) -/
def collectorListen (encrypted : Bool) (proto : String) : List String :=
  (calls.filter fun c => c.func == (if proto == "tcp" then "startTCPServer" else "startUDPServer") &&
    isDialOrListen c.callee && feasible (collectorEnv encrypted) c.conds).map (·.callee)

/-- with security settings present, every transport call on the path is an encrypted one (and there is one) -/
def exporterEncrypts (proto : String) : Bool :=
  let d := exporterDial true proto
  !d.isEmpty && d.all isEncryptedCallee

def collectorEncrypts (proto : String) : Bool :=
  let d := collectorListen true proto
  !d.isEmpty && d.all isEncryptedCallee

/-! ## Library semantics (assumed; see the header) -/

def chainsTo (rootsSet : Bool) (c : PeerCert) : Bool := rootsSet && c.issuer == .trustedCA

/-- crypto/tls: `ServerName` if the config passes it on and it is set, else the dialled host -/
def tlsExpectedName (cfg : ClientCfg) (serverName : Option Name) (host : Name) : Name :=
  if cfg.serverNamePassed then serverName.getD host else host

def cryptoTLSVerifiesServer (cfg : ClientCfg) (serverName : Option Name) (host : Name) (cert : PeerCert) (now : Nat) : Bool :=
  cfg.skipVerify ||
    (chainsTo cfg.rootsSet cert && withinValidity cert now && nameMatches (tlsExpectedName cfg serverName host) cert)

/-- pion/dtls: the name verified against, if any: a non-IP `ServerName` only -/
def pionCheckedName (cfg : ClientCfg) (serverName : Option Name) : Option Name :=
  if cfg.serverNamePassed then
    match serverName with
    | some (.dns s) => some (.dns s)
    | _ => none
  else none

/-- pion's own verification (`verifyServerCert`) -/
def pionOwnVerification (cfg : ClientCfg) (serverName : Option Name) (cert : PeerCert) (now : Nat) : Bool :=
  cfg.skipVerify ||
    (chainsTo cfg.rootsSet cert && withinValidity cert now &&
      match pionCheckedName cfg serverName with
      | none => true
      | some n => nameMatches n cert)

def NameHook.installedFor (h : NameHook) : Option Name → Bool
  | none => h.onUnset
  | some (.ip _) => h.onIP
  | some (.dns _) => h.onDNS

/-- the caller's `VerifyPeerCertificate` hook: where it is installed, `leaf.VerifyHostname(expectedName)` must succeed -/
def hookVerifiesName (h : NameHook) (serverName : Option Name) (host : Name) (cert : PeerCert) : Bool :=
  !h.installedFor serverName ||
    match serverName with
    | some n => nameMatches n cert
    | none => h.hostFallback && nameMatches host cert

/-- the pion client accepts the server iff its own verification passes AND the hook, where installed, does -/
def pionVerifiesServer (cfg : ClientCfg) (serverName : Option Name) (host : Name) (cert : PeerCert) (now : Nat) : Bool :=
  pionOwnVerification cfg serverName cert now && hookVerifiesName cfg.nameHook serverName host cert

def verifiesServer (lib : Lib) (cfg : ClientCfg) (serverName : Option Name) (host : Name) (cert : PeerCert) (now : Nat) : Bool :=
  match lib with
  | .cryptoTLS => cryptoTLSVerifiesServer cfg serverName host cert now
  | .pionDTLS => pionVerifiesServer cfg serverName host cert now

/-- the certificate the client puts on the wire -/
def presented (client : ClientCfg) (clientCert : Option PeerCert) (srv : ServerCfg) : Option PeerCert :=
  if srv.clientAuth == .noClientCert || !client.sendsCert then none
  else match clientCert with
    | none => none
    | some c => if srv.clientCAsSet && c.issuer != .trustedCA then none else some c

def verifiesClient (srv : ServerCfg) (c : PeerCert) (now : Nat) : Bool :=
  srv.clientCAsSet && c.issuer == .trustedCA && withinValidity c now

def serverAcceptsClient (srv : ServerCfg) (p : Option PeerCert) (now : Nat) : Bool :=
  match srv.clientAuth with
  | .noClientCert => true
  | .request => true
  | .requireAny => p.isSome
  | .verifyIfGiven =>
    match p with
    | none => true
    | some c => verifiesClient srv c now
  | .requireAndVerify =>
    match p with
    | none => false
    | some c => verifiesClient srv c now

/-- highest version both sides support, if both MinVersions allow it -/
def negotiate (c : ClientCfg) (s : ServerCfg) : Option Version :=
  let v := min c.maxVersion s.maxVersion
  if c.minVersion ≤ v && s.minVersion ≤ v then some v else none

/-! ## The matrix -/

inductive Transport where
  | tls | dtls
  deriving DecidableEq, Repr

inductive ServerCertKind where
  | trusted | otherCA | selfSigned | expired | notYet | wrongSAN | noSAN
  deriving DecidableEq, Repr

/-- `ExporterTLSClientConfig.ServerName`: unset, a DNS name / IP address the trusted certificate is valid
    for, a DNS name / IP address it is not valid for -/
inductive ServerNameKind where
  | unset | dns | ip | badDns | badIp
  deriving DecidableEq, Repr

inductive ClientCertKind where
  | none | trusted | otherCA | expired
  deriving DecidableEq, Repr

/-- who is on the other side. `real`: exporter and collector are both the library. `srvNN`: the
    exporter talks to a raw crypto/tls server with MaxVersion 1.1/1.2/1.3 (MinVersion 1.0) that has
    the cell's server certificate and, iff the client CA is set, RequireAndVerifyClientCert.
    `cliNN`: the collector is dialled by a raw crypto/tls client with MaxVersion NN (MinVersion 1.0)
    that verifies the server like the exporter would and has the cell's client certificate.
    `plainSrv`: the exporter (with security settings) dials an unencrypted listener. `plainCli`: an
    exporter WITHOUT security settings sends to the encrypted collector. `rawPlainCli`: a plain
    socket writes an IPFIX message to the encrypted collector. -/
inductive Peer where
  | real | srv11 | srv12 | srv13 | cli11 | cli12 | cli13 | plainSrv | plainCli | rawPlainCli
  deriving DecidableEq, Repr

structure Cell where
  transport : Transport
  serverCert : ServerCertKind
  serverName : ServerNameKind
  clientCert : ClientCertKind
  clientCA : Bool
  peer : Peer
  deriving DecidableEq, Repr

instance : Enum Transport := ⟨[.tls, .dtls], by intro a; cases a <;> simp⟩
instance : Enum ServerCertKind :=
  ⟨[.trusted, .otherCA, .selfSigned, .expired, .notYet, .wrongSAN, .noSAN], by intro a; cases a <;> simp⟩
instance : Enum ServerNameKind := ⟨[.unset, .dns, .ip, .badDns, .badIp], by intro a; cases a <;> simp⟩
instance : Enum ClientCertKind := ⟨[.none, .trusted, .otherCA, .expired], by intro a; cases a <;> simp⟩
instance : Enum Peer :=
  ⟨[.real, .srv11, .srv12, .srv13, .cli11, .cli12, .cli13, .plainSrv, .plainCli, .rawPlainCli], by intro a; cases a <;> simp⟩

/-- the time of the run, and the validity windows of the minted certificates around it -/
def now : Nat := 1000

def goodSANs (i : Issuer) (nb na : Nat) : PeerCert :=
  { issuer := i, notBefore := nb, notAfter := na, dnsNames := ["localhost"], ipAddrs := ["127.0.0.1"] }

def serverCertOf : ServerCertKind → PeerCert
  | .trusted => goodSANs .trustedCA 900 2000
  | .otherCA => goodSANs .otherCA 900 2000
  | .selfSigned => goodSANs .self 900 2000
  | .expired => goodSANs .trustedCA 100 500
  | .notYet => goodSANs .trustedCA 1500 2000
  | .wrongSAN => { issuer := .trustedCA, notBefore := 900, notAfter := 2000, dnsNames := ["other.example"], ipAddrs := ["10.9.9.9"] }
  | .noSAN => { issuer := .trustedCA, notBefore := 900, notAfter := 2000, dnsNames := [], ipAddrs := [] }

def clientCertOf : ClientCertKind → Option PeerCert
  | .none => none
  | .trusted => some { issuer := .trustedCA, notBefore := 900, notAfter := 2000, dnsNames := [], ipAddrs := [] }
  | .otherCA => some { issuer := .otherCA, notBefore := 900, notAfter := 2000, dnsNames := [], ipAddrs := [] }
  | .expired => some { issuer := .trustedCA, notBefore := 100, notAfter := 500, dnsNames := [], ipAddrs := [] }

def serverNameOf : ServerNameKind → Option Name
  | .unset => none
  | .dns => some (.dns "localhost")
  | .ip => some (.ip "127.0.0.1")
  | .badDns => some (.dns "wrong.example")
  | .badIp => some (.ip "10.1.1.1")

/-- every endpoint listens on / is dialled at 127.0.0.1:<port> -/
def dialHost : Name := .ip "127.0.0.1"

def Peer.isRawServer : Peer → Bool
  | .srv11 | .srv12 | .srv13 => true
  | _ => false

def Peer.isRawClient : Peer → Bool
  | .cli11 | .cli12 | .cli13 => true
  | _ => false

/-- MaxVersion of a raw peer (the library side has none configured: 1.3) -/
def Peer.maxVersion : Peer → Version
  | .srv11 | .cli11 => 11
  | .srv12 | .cli12 => 12
  | _ => 13

/-- pion/dtls speaks DTLS 1.2 only and there is no second DTLS stack to stand in as a raw peer:
    the raw-peer columns exist for `tls` only -/
def Cell.valid (c : Cell) : Bool :=
  c.transport == .tls || !(c.peer.isRawServer || c.peer.isRawClient)

/-- the exporter of the cell is the library's (`InitExportingProcess` with `TLSClientConfig`) -/
def Cell.exporterUnderTest (c : Cell) : Bool :=
  c.peer == .real || c.peer.isRawServer || c.peer == .plainSrv

/-- the collector of the cell is the library's (`IsEncrypted = true`) -/
def Cell.collectorUnderTest (c : Cell) : Bool :=
  c.peer == .real || c.peer.isRawClient || c.peer == .plainCli || c.peer == .rawPlainCli

def Transport.proto : Transport → String
  | .tls => "tcp"
  | .dtls => "udp"

/-- the configurations the library builds, bundled as plain data (so that proofs can replace them
    by their literal values once, through the tie lemma `tie_libCfgs`) -/
structure LibCfgs where
  tlsClientNoCert : ClientCfg
  tlsClientCert : ClientCfg
  dtlsClient : ClientCfg
  tlsServerNoCA : ServerCfg
  tlsServerCA : ServerCfg
  dtlsServer : ServerCfg
  exporterEncryptsTCP : Bool
  exporterEncryptsUDP : Bool
  collectorEncryptsTCP : Bool
  collectorEncryptsUDP : Bool
  deriving DecidableEq, Repr

def LibCfgs.tlsClient (L : LibCfgs) (hasCert : Bool) : ClientCfg := if hasCert then L.tlsClientCert else L.tlsClientNoCert
def LibCfgs.tlsServer (L : LibCfgs) (caGiven : Bool) : ServerCfg := if caGiven then L.tlsServerCA else L.tlsServerNoCA
def LibCfgs.exporterEncrypts (L : LibCfgs) : Transport → Bool
  | .tls => L.exporterEncryptsTCP
  | .dtls => L.exporterEncryptsUDP
def LibCfgs.collectorEncrypts (L : LibCfgs) : Transport → Bool
  | .tls => L.collectorEncryptsTCP
  | .dtls => L.collectorEncryptsUDP

def libCfgs : LibCfgs :=
  { tlsClientNoCert := libTLSClient false, tlsClientCert := libTLSClient true, dtlsClient := libDTLSClient
    tlsServerNoCA := libTLSServer false, tlsServerCA := libTLSServer true, dtlsServer := libDTLSServer
    exporterEncryptsTCP := exporterEncrypts "tcp", exporterEncryptsUDP := exporterEncrypts "udp"
    collectorEncryptsTCP := collectorEncrypts "tcp", collectorEncryptsUDP := collectorEncrypts "udp" }

def rawClient (maxV : Version) (hasCert : Bool) : ClientCfg :=
  { rootsSet := true, skipVerify := false, serverNamePassed := true, minVersion := 10, maxVersion := maxV,
    sendsCert := hasCert, extendedMasterSecret := true, nameHook := noHook }

def rawServer (maxV : Version) (caGiven : Bool) : ServerCfg :=
  { hasCert := true, clientAuth := if caGiven then .requireAndVerify else .noClientCert, clientCAsSet := caGiven,
    minVersion := 10, maxVersion := maxV }

/-- the client side of the cell; `none` = it speaks plaintext -/
def clientSide (L : LibCfgs) (c : Cell) : Option (Lib × ClientCfg) :=
  if c.peer.isRawClient then some (.cryptoTLS, rawClient c.peer.maxVersion (c.clientCert != .none))
  else if c.peer == .plainCli || c.peer == .rawPlainCli then none
  else if !L.exporterEncrypts c.transport then none
  else match c.transport with
    | .tls => some (.cryptoTLS, L.tlsClient (c.clientCert != .none))
    | .dtls => some (.pionDTLS, L.dtlsClient)

/-- the server side of the cell; `none` = it speaks plaintext -/
def serverSide (L : LibCfgs) (c : Cell) : Option ServerCfg :=
  if c.peer.isRawServer then some (rawServer c.peer.maxVersion c.clientCA)
  else if c.peer == .plainSrv then none
  else if !L.collectorEncrypts c.transport then none
  else match c.transport with
    | .tls => some (L.tlsServer c.clientCA)
    | .dtls => some L.dtlsServer

/-- what the run of one cell shows: did the client's initialisation (Dial + handshake) succeed, was
    the one template message sent afterwards delivered by the server side, and the protocol version
    as seen by a raw peer whose handshake completed -/
structure Outcome where
  initOk : Bool
  delivered : Bool
  version : Option Version
  deriving DecidableEq, Repr

def Outcome.failed : Outcome := { initOk := false, delivered := false, version := none }

def sessionWith (L : LibCfgs) (c : Cell) : Outcome :=
  match clientSide L c, serverSide L c with
  | none, none => { initOk := true, delivered := true, version := none }
  | none, some _ => { initOk := true, delivered := false, version := none }   -- a plain Dial succeeds; nothing it sends is a handshake
  | some _, none => .failed                                                    -- nobody answers the ClientHello
  | some (lib, cl), some sv =>
    match negotiate cl sv with
    | none => .failed
    | some v =>
      if !sv.hasCert then .failed
      else if !verifiesServer lib cl (serverNameOf c.serverName) dialHost (serverCertOf c.serverCert) now then .failed
      else if serverAcceptsClient sv (presented cl (clientCertOf c.clientCert) sv) now then
        { initOk := true, delivered := true, version := if c.peer.isRawServer || c.peer.isRawClient then some v else none }
      else if lib == .cryptoTLS && 13 ≤ v then
        -- TLS 1.3: the client's handshake is over before the server rejects its certificate
        { initOk := true, delivered := false, version := if c.peer.isRawClient then some v else none }
      else .failed

/-- the model's outcome for a cell, with the configurations the code builds NOW -/
def session (c : Cell) : Outcome := sessionWith libCfgs c

/-- the configurations of the code with the DTLS exporter's name-check hook taken away (what `libCfgs` is when
    the facts hold no recognisable hook: `dtlsHookOf [] [] l = noHook`), i.e. the tree before 90a2eb6 -/
def LibCfgs.withoutDTLSHook (L : LibCfgs) : LibCfgs := { L with dtlsClient := { L.dtlsClient with nameHook := noHook } }

/-! ## Two exporters of ONE process, one after the other, towards the SAME collector

  The collector (one listener for the whole sequence, hence one set of session-ticket keys / one session
  store) has a certificate issued by `ca1` for localhost / 127.0.0.1. Exporter A is created with its own
  trust settings, sends a message and is closed; then exporter B is created in the same process with ITS
  trust settings. The configurations the code builds (`libCfgs`, tied by `tie_config_fields_all_interpreted`
  to literals that carry no session cache / session store) share NOTHING between two exporters, so the model
  has no state to carry from A to B: each outcome is `sessionWith` of that exporter's own configuration.
  An implementation that lets B resume A's session (crypto/tls re-checks only expiry and host name of the
  cached leaf, pion/dtls nothing at all) shows `init-ok` for B where this model - and C18 - say `init-err`. -/

/-- which CA of the run an exporter's `CAData` holds; the collector's certificate is issued by `ca1` -/
inductive TrustKind where
  | ca1 | ca2
  deriving DecidableEq, Repr

instance : Enum TrustKind := ⟨[.ca1, .ca2], by intro a; cases a <;> simp⟩

/-- the trust settings of one exporter: `CAData` and `ServerName` (no client certificate) -/
structure ExporterTrust where
  ca : TrustKind
  serverName : ServerNameKind
  deriving DecidableEq, Repr

structure Resume where
  transport : Transport
  peer : Peer
  first : ExporterTrust
  second : ExporterTrust
  deriving DecidableEq, Repr

/-- the collector's certificate as the cell vocabulary describes it from the point of view of an exporter
    configured with `ca`: issued by the CA it trusts, or by another one -/
def certSeenBy : TrustKind → ServerCertKind
  | .ca1 => .trusted
  | .ca2 => .otherCA

/-- the cell one exporter of the sequence is in, taken on its own -/
def Resume.cell (r : Resume) (e : ExporterTrust) : Cell :=
  { transport := r.transport, serverCert := certSeenBy e.ca, serverName := e.serverName, clientCert := .none,
    clientCA := false, peer := r.peer }

/-- TLS: the library collector (TLS 1.3) or a raw crypto/tls server with MaxVersion 1.2 / 1.3 (session tickets).
    DTLS: a raw pion/dtls server with a `SessionStore` (`srv12`; DTLS 1.2) - the library's DTLS collector accepts
    one connection only and sets no `SessionStore`, so it can neither serve two exporters nor resume. -/
def Resume.valid (r : Resume) : Bool :=
  match r.transport with
  | .tls => r.peer == .real || r.peer == .srv12 || r.peer == .srv13
  | .dtls => r.peer == .srv12

/-- the version a raw peer reports exists for crypto/tls peers only -/
def Resume.obsVersion (r : Resume) (o : Outcome) : Outcome :=
  if r.transport == .dtls then { o with version := none } else o

/-- outcome of exporter A and of exporter B: two independent sessions -/
def resumeWith (L : LibCfgs) (r : Resume) : Outcome × Outcome :=
  (r.obsVersion (sessionWith L (r.cell r.first)), r.obsVersion (sessionWith L (r.cell r.second)))

def resume (r : Resume) : Outcome × Outcome := resumeWith libCfgs r

end Ipfix.TLS
