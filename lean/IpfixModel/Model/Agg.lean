/-
  The flow-aggregation process: pkg/intermediate/aggregate.go (addOrUpdateRecordInMap,
  correlateRecords, aggregateRecords, addFieldsForStatsAggregation,
  addFieldsForThroughputCalculation, ResetStatAndThroughputElementsInRecord,
  ForAllExpiredFlowRecordsDo, GetExpiryFromExpirePriorityQueue) with the expiry queue of
  priorityqueue.go on the container/heap model (Model/Heap.lean).

  Fixed configuration (the one the harness passes, Antrea's): correlate fields
    [sourcePodName, sourcePodNamespace, sourceNodeName, destinationPodName, destinationPodNamespace,
     destinationNodeName, destinationClusterIPv4, destinationServicePort,
     ingressNetworkPolicyRuleAction, egressNetworkPolicyRuleAction, ingressNetworkPolicyRulePriority,
     destinationClusterIPv6];
  a record need not carry every correlate field (the two nodes of a flow may export with different
  templates): a field the record lacks is `CorrV.absent`;
  stats elements [packetTotalCount, packetDeltaCount, octetTotalCount, octetDeltaCount] and their
  reverse twins; non-stats elements [flowEndSeconds, flowEndReason, tcpState] and, in the sessions
  the harness creates with `http`, httpVals (the JSON merge fillHttpVals, modelled for a restricted
  value language: see `fillHttp`). The ORDER in which the configuration lists its elements carries
  no meaning (fields are found by name; the aligned statistics lists by a common index), so the
  model has no such notion: the harness's `cfg<n>` sessions, which permute the lists, are judged
  against the same model.
  A flow key is a number here (the harness maps it to a five-tuple); what a key IS - getFlowKeyFromRecord over a
  record's elements, and that it distinguishes exactly the five-tuples - is Model/FlowKey.lean; times are virtual
  milliseconds (the overlay replaces time.Now() by a clock the harness sets).
  Arithmetic is uint64 / uint32 exactly as in the code.
-/
import IpfixModel.Model.Heap
import IpfixModel.Model.IE
namespace Ipfix.Agg

def u64 : Nat := 18446744073709551616
def u32 : Nat := 4294967296

/-- a correlate-field value; `absent` = the record has no such element (GetInfoElementWithValue
    reports `exist = false`) -/
inductive CorrV where
  | str (b : Bytes)
  | num (n : Nat)
  | ip4 (b : Bytes)
  | ip6 (b : Bytes)
  | absent
  deriving DecidableEq, Repr, Inhabited

def CorrV.isAbsent : CorrV → Bool
  | .absent => true
  | _ => false

def zero16 : Bytes := List.replicate 16 0

/-- "empty" in the sense of correlateRecords: "", 0, 0.0.0.0, :: - and a field the record lacks.
    The value of an IPv4 element is the net.IP the caller built the element with, in its 4-byte or
    in its 16-byte form (net.IPv4zero, net.ParseIP("10.0.0.1"): what in-process callers hand over);
    the code asks `val.To4().String() == "0.0.0.0"` (`to4` = net.IP.To4, Model/IE.lean), so both forms
    of 0.0.0.0 are empty (a value which is no IPv4 address at all prints as "<nil>": not empty). The VALUE stays the
    byte string it is: the merge stores the incoming element's value object, a dump shows it. -/
def CorrV.isEmpty : CorrV → Bool
  | .str b => b.isEmpty
  | .num n => n == 0
  | .ip4 b => to4 b == some [0, 0, 0, 0]
  | .ip6 b => b == zero16
  | .absent => true

/-- positions in the correlate-field vector -/
def iSrcPod : Nat := 0
def iDstPod : Nat := 3
def iIngress : Nat := 8
def iEgress : Nat := 9

/-- the string / number the code reads of field `i`; an absent field reads as "" / 0: isRecordFromSrc /
    isRecordFromDst treat an absent pod name like an empty one (an absent sourcePodName: not from
    the source node; an absent destinationPodName: counts as empty), isCorrelationRequired does not
    consult an absent rule action (like action 0) -/
def corrStr (c : List CorrV) (i : Nat) : Bytes := match c[i]? with | some (.str b) => b | _ => []
def corrNum (c : List CorrV) (i : Nat) : Nat := match c[i]? with | some (.num n) => n | _ => 0

/-- which stats positions are delta counters (name contains "Delta") -/
def isDelta (i : Nat) : Bool := i % 2 == 1
def iOctetTotal : Nat := 2
def iRevOctetTotal : Nat := 6
def nStats : Nat := 8

/-- an incoming data record (what the aggregation reads of it) -/
structure InRec where
  key : Nat
  flowType : Nat
  corr : List CorrV
  start : Nat
  end_ : Nat
  endReason : Nat
  tcpState : Bytes
  stats : List Nat
  /-- the value of the record's httpVals element; `none` = the record has no such element (the
      sessions in which httpVals is not configured) -/
  httpVals : Option Bytes := none
  deriving Repr, DecidableEq, Inhabited

/-- the aggregated flow record -/
structure AggRec where
  flowType : Nat
  corr : List CorrV
  start : Nat
  end_ : Nat
  endReason : Nat
  tcpState : Bytes
  stats : List Nat
  srcStats : List Nat
  dstStats : List Nat
  endSrc : Nat
  endDst : Nat
  thr : List Nat
  thrSrc : List Nat
  thrDst : List Nat
  ready : Bool
  retries : Nat
  corrFilled : Bool
  httpVals : Option Bytes := none
  deriving Repr, DecidableEq, Inhabited

def fromSrc (c : List CorrV) : Bool := !(corrStr c iSrcPod).isEmpty && (corrStr c iDstPod).isEmpty
def fromDst (c : List CorrV) : Bool := !(corrStr c iDstPod).isEmpty && (corrStr c iSrcPod).isEmpty
def sameNode (a b : List CorrV) : Bool := (fromSrc a && fromSrc b) || (fromDst a && fromDst b)

/-- isCorrelationRequired -/
def corrRequired (flowType : Nat) (c : List CorrV) : Bool :=
  flowType == Generated.cFlowTypeInterNode &&
  !(corrNum c iEgress == Generated.cNetworkPolicyRuleActionDrop || corrNum c iEgress == Generated.cNetworkPolicyRuleActionReject) &&
  !(corrNum c iIngress == Generated.cNetworkPolicyRuleActionReject)

/-- correlateRecords on one field: a field the incoming record lacks is skipped; a field the stored
    record lacks is taken over from the incoming record (the element is appended, whatever its
    value); otherwise a non-empty incoming value overwrites the stored one -/
def mergeV (i e : CorrV) : CorrV :=
  if i = .absent then e else if e = .absent then i else if i.isEmpty then e else i

/-- correlateRecords -/
def correlate (incoming existing : List CorrV) : List CorrV :=
  List.zipWith mergeV incoming existing

def zeros (n : Nat) : List Nat := List.replicate n 0

/-- the record created for a new flow: addFieldsForStatsAggregation +
    addFieldsForThroughputCalculation -/
def create (r : InRec) : AggRec :=
  let cr := corrRequired r.flowType r.corr
  let fillSrc := if cr then fromSrc r.corr else true
  let fillDst := if cr then !fromSrc r.corr else true
  let t0 := if r.end_ > r.start then (r.stats.getD iOctetTotal 0 * 8 % u64) / (r.end_ - r.start) else 0
  let t1 := if r.end_ > r.start then (r.stats.getD iRevOctetTotal 0 * 8 % u64) / (r.end_ - r.start) else 0
  { flowType := r.flowType, corr := r.corr, start := r.start, end_ := r.end_, endReason := r.endReason,
    tcpState := r.tcpState, stats := r.stats,
    srcStats := if fillSrc then r.stats else zeros r.stats.length,
    dstStats := if fillDst then r.stats else zeros r.stats.length,
    endSrc := if fillSrc then r.end_ else 0, endDst := if fillDst then r.end_ else 0,
    thr := [t0, t1], thrSrc := if fillSrc then [t0, t1] else [0, 0], thrDst := if fillDst then [t0, t1] else [0, 0],
    ready := !cr, retries := 0,
    corrFilled := if cr then false else r.flowType != Generated.cFlowTypeInterNode,
    httpVals := r.httpVals }

/-- per-node stats update: totals take the incoming value, deltas accumulate (uint64) -/
def updNode (node incoming : List Nat) : List Nat :=
  (List.range incoming.length).map fun i =>
    if isDelta i then (incoming.getD i 0 + node.getD i 0) % u64 else incoming.getD i 0

/-- the fields aggregateRecords may change -/
structure Nums where
  end_ : Nat
  endReason : Nat
  tcpState : Bytes
  stats : List Nat
  srcStats : List Nat
  dstStats : List Nat
  endSrc : Nat
  endDst : Nat
  thr : List Nat
  thrSrc : List Nat
  thrDst : List Nat
  deriving Repr, DecidableEq, Inhabited

def AggRec.nums (a : AggRec) : Nums :=
  { end_ := a.end_, endReason := a.endReason, tcpState := a.tcpState, stats := a.stats, srcStats := a.srcStats,
    dstStats := a.dstStats, endSrc := a.endSrc, endDst := a.endDst, thr := a.thr, thrSrc := a.thrSrc, thrDst := a.thrDst }

/-- aggregateRecords, on the fields it may change -/
def aggNums (r : InRec) (a : Nums) (fillSrc fillDst : Bool) : Nums :=
  let isLatest := r.end_ ≥ a.end_
  let end1 := if isLatest then r.end_ else a.end_
  -- updateFlowEndSecondsFromNodes
  let prevS := if a.endSrc == 0 then r.start else a.endSrc
  let prevD := if a.endDst == 0 then r.start else a.endDst
  let endSrc' := if fillSrc then r.end_ else a.endSrc
  let endDst' := if fillDst then r.end_ else a.endDst
  let prev := if fillDst then prevD else if fillSrc then prevS else 0
  if r.end_ ≤ prev then { a with end_ := end1, endSrc := endSrc', endDst := endDst' }
  else
    let diff := r.end_ - prev
    let reason := if a.endReason != Generated.cEndOfFlowReason then r.endReason else a.endReason
    let tcp := if isLatest then r.tcpState else a.tcpState
    let src' := if fillSrc then updNode a.srcStats r.stats else a.srcStats
    let dst' := if fillDst then updNode a.dstStats r.stats else a.dstStats
    -- octet-total growth (uint64 wrap-around), the destination branch is evaluated last
    let growth (i : Nat) : Nat :=
      if fillDst then (r.stats.getD i 0 + u64 - a.dstStats.getD i 0) % u64
      else if fillSrc then (r.stats.getD i 0 + u64 - a.srcStats.getD i 0) % u64 else 0
    let common := (List.range r.stats.length).map fun i =>
      if isLatest then
        if isDelta i then (if fillDst then dst'.getD i 0 else if fillSrc then src'.getD i 0 else a.stats.getD i 0)
        else (if a.stats.getD i 0 < r.stats.getD i 0 then r.stats.getD i 0 else a.stats.getD i 0)
      else a.stats.getD i 0
    let t0 := (growth iOctetTotal * 8 % u64) / diff
    let t1 := (growth iRevOctetTotal * 8 % u64) / diff
    { end_ := end1, endReason := reason, tcpState := tcp, stats := common, srcStats := src', dstStats := dst',
      endSrc := endSrc', endDst := endDst',
      thr := if isLatest then [t0, t1] else a.thr,
      thrSrc := if fillSrc then [t0, t1] else a.thrSrc, thrDst := if fillDst then [t0, t1] else a.thrDst }

/-! ### httpVals: fillHttpVals for a restricted value language

  The value of the string element httpVals is, by convention, a JSON object {"<transaction id>":"<text>", ...}.
  fillHttpVals unmarshals the incoming and the stored value into two map[int32]string (the empty
  string counts as the empty map), copies the STORED entries over the incoming ones (the stored
  text of a transaction id wins) and marshals the result: encoding/json writes the keys as decimal
  strings SORTED AS STRINGS. When either value does not parse, the incoming value replaces the
  stored one as it is.
  Modelled value language: the empty string; objects without white space whose keys are decimal
  numbers of at most 9 digits without sign or leading zero and whose texts are ASCII letters and
  digits; everything else counts as "does not parse" (for text that IS JSON in a form outside
  this language - white space, escapes, signed keys - the model is not valid; the generators
  stay inside the language). -/

abbrev HttpMap := List (Nat × Bytes)

def isDigit8 (c : UInt8) : Bool := 48 ≤ c && c ≤ 57
def isAlnum8 (c : UInt8) : Bool := isDigit8 c || (65 ≤ c && c ≤ 90) || (97 ≤ c && c ≤ 122)

def httpKey (ds : Bytes) : Option Nat :=
  if ds.isEmpty || ds.length > 9 || !ds.all isDigit8 || (ds.length > 1 && ds.head? == some 48) then none
  else some (ds.foldl (fun n c => n * 10 + (c.toNat - 48)) 0)

/-- `"<letters and digits>"` at the head: the text and what follows it -/
def httpQuoted : Bytes → Option (Bytes × Bytes)
  | 34 :: t => match t.dropWhile isAlnum8 with
    | 34 :: r => some (t.takeWhile isAlnum8, r)
    | _ => none
  | _ => none

/-- map assignment m[k] = v -/
def HttpMap.put (m : HttpMap) (k : Nat) (v : Bytes) : HttpMap := m.filter (·.1 != k) ++ [(k, v)]

/-- the entries `"k":"v"` up to the closing brace, which ends the value (a repeated key: the last one wins) -/
def httpEntries : Nat → Bytes → HttpMap → Option HttpMap
  | 0, _, _ => none
  | fuel + 1, b, acc =>
    match httpQuoted b with
    | some (k, 58 :: r) =>
      match httpKey k, httpQuoted r with
      | some k, some (v, [125]) => some (acc.put k v)
      | some k, some (v, 44 :: r') => httpEntries fuel r' (acc.put k v)
      | _, _ => none
    | _ => none

/-- json.Unmarshal into a map[int32]string, preceded by fillHttpVals's test for the empty string -/
def parseHttp (b : Bytes) : Option HttpMap :=
  match b with
  | [] => some []
  | [123, 125] => some []
  | 123 :: t => httpEntries t.length t []
  | _ => none

def bytesLt : Bytes → Bytes → Bool
  | [], [] => false
  | [], _ :: _ => true
  | _ :: _, [] => false
  | a :: s, b :: t => a < b || (a == b && bytesLt s t)

def decimal (n : Nat) : Bytes := (Nat.toDigits 10 n).map fun c => c.toNat.toUInt8

def insertByKey (p : Bytes × Bytes) : List (Bytes × Bytes) → List (Bytes × Bytes)
  | [] => [p]
  | q :: t => if bytesLt p.1 q.1 then p :: q :: t else q :: insertByKey p t

/-- json.Marshal of the map: `{"k":"v",...}`, the keys as decimal strings in string order -/
def marshalHttp (m : HttpMap) : Bytes :=
  let es := (m.map fun p => (decimal p.1, p.2)).foldl (fun l p => insertByKey p l) []
  [123] ++ ([44] : Bytes).intercalate (es.map fun p => [34] ++ p.1 ++ [34, 58, 34] ++ p.2 ++ [34]) ++ [125]

/-- fillHttpVals and what aggregateRecords does with its answer -/
def fillHttp (incoming existing : Bytes) : Bytes :=
  match parseHttp incoming, parseHttp existing with
  | some i, some e => marshalHttp (e.foldl (fun m p => m.put p.1 p.2) i)
  | _, _ => incoming

/-- the end time of the reporting node's previous record (the flow's start for its first one) as
    aggregateRecords computes it: a record which is not later is skipped once the end times are written
    (the `r.end_ ≤ prev` of `aggNums`) - the non-stats elements, httpVals among them, are not looked at -/
def prevEnd (r : InRec) (a : AggRec) (fillSrc fillDst : Bool) : Nat :=
  let prevS := if a.endSrc == 0 then r.start else a.endSrc
  let prevD := if a.endDst == 0 then r.start else a.endDst
  if fillDst then prevD else if fillSrc then prevS else 0

/-- aggregateRecords -/
def aggregate (r : InRec) (a : AggRec) (fillSrc fillDst : Bool) : AggRec :=
  let n := aggNums r a.nums fillSrc fillDst
  { a with end_ := n.end_, endReason := n.endReason, tcpState := n.tcpState, stats := n.stats, srcStats := n.srcStats,
           dstStats := n.dstStats, endSrc := n.endSrc, endDst := n.endDst, thr := n.thr, thrSrc := n.thrSrc, thrDst := n.thrDst,
           httpVals := match r.httpVals, a.httpVals with
             | some i, some e => if r.end_ ≤ prevEnd r a fillSrc fillDst then some e else some (fillHttp i e)
             | _, _ => a.httpVals }

/-- ResetStatAndThroughputElementsInRecord -/
def resetStats (a : AggRec) : AggRec :=
  let clr (l : List Nat) : List Nat := (List.range l.length).map fun i => if isDelta i then 0 else l.getD i 0
  { a with stats := clr a.stats, srcStats := clr a.srcStats, dstStats := clr a.dstStats,
           thr := [0, 0], thrSrc := [0, 0], thrDst := [0, 0] }

/-- the update of an existing flow in addOrUpdateRecordInMap (correlation, then aggregation) -/
def update (r : InRec) (a : AggRec) : AggRec :=
  if corrRequired r.flowType r.corr then
    let a1 := if !a.ready && !sameNode r.corr a.corr
      then { a with corr := correlate r.corr a.corr, ready := true, corrFilled := true } else a
    if fromSrc r.corr then aggregate r a1 true false else aggregate r a1 false true
  else aggregate r a true true

/-! ## The process: flow map + expiry queue -/

structure Item where
  key : Nat
  active : Nat
  inactive : Nat
  deriving Repr, DecidableEq, Inhabited

/-- minExpireTime: strict Before -/
def Item.deadline (it : Item) : Nat := if it.active < it.inactive then it.active else it.inactive

structure State where
  flows : List (Nat × AggRec) := []
  pq : Array Item := #[]
  activeT : Nat := 0
  inactiveT : Nat := 0
  now : Nat := 0
  deriving Repr

def State.find (s : State) (k : Nat) : Option AggRec := (s.flows.find? (·.1 == k)).map (·.2)
def State.set (s : State) (k : Nat) (a : AggRec) : State :=
  if s.flows.any (·.1 == k) then { s with flows := s.flows.map fun p => if p.1 == k then (k, a) else p }
  else { s with flows := s.flows ++ [(k, a)] }
def State.del (s : State) (k : Nat) : State := { s with flows := s.flows.filter (·.1 != k) }

/-- addOrUpdateRecordInMap -/
def ingest (s : State) (r : InRec) : State :=
  match s.find r.key with
  | some a =>
    let s1 := s.set r.key (update r a)
    -- expirePriorityQueue.Update: keep the active deadline, push back the inactive one, heap.Fix
    match s1.pq.toList.findIdx? (·.key == r.key) with
    | some i =>
      let it := s1.pq[i]!
      { s1 with pq := Heap.fix Item.deadline (s1.pq.setIfInBounds i { it with inactive := s.now + s.inactiveT }) i }
    | none => s1     -- a held flow without a queue item: the Go code would call heap.Fix(-1) and panic
  | none =>
    let s1 := s.set r.key (create r)
    { s1 with pq := Heap.push Item.deadline s1.pq { key := r.key, active := s.now + s.activeT, inactive := s.now + s.inactiveT } }

structure ScanOut where
  callbacks : List (Nat × AggRec) := []
  failed : Bool := false
  deriving Repr

/-- the loop of ForAllExpiredFlowRecordsDo; `fail k` tells whether the callback fails on key k;
    `resetAfter` = the callback resets the statistics after exporting (as the IPFIX mediator does) -/
def scanLoop (fail : Nat → Bool) (resetAfter : Bool) : Nat → State → List Item → ScanOut → State × List Item × ScanOut
  | 0, s, tp, o => (s, tp, o)
  | fuel+1, s, tp, o =>
    if s.pq.size = 0 then (s, tp, o)
    else
      let top := s.pq[0]!
      if top.active > s.now ∧ top.inactive > s.now then (s, tp, o)
      else
        match Heap.pop Item.deadline s.pq with
        | none => (s, tp, o)
        | some (it, pq') =>
          let s := { s with pq := pq' }
          match s.find it.key with
          | none => scanLoop fail resetAfter fuel s tp o      -- cannot happen under the invariant
          | some a =>
            if !a.ready then
              let a' := { a with retries := a.retries + 1 }
              if a'.retries > Generated.cMaxRetries then scanLoop fail resetAfter fuel (s.del it.key) tp o
              else scanLoop fail resetAfter fuel (s.set it.key a')
                     (tp ++ [{ it with active := s.now + s.activeT, inactive := s.now + s.inactiveT }]) o
            else if fail it.key then (s, tp ++ [it], { o with callbacks := o.callbacks ++ [(it.key, a)], failed := true })
            else
              let o := { o with callbacks := o.callbacks ++ [(it.key, a)] }
              let s := if resetAfter then s.set it.key (resetStats a) else s
              if it.inactive ≤ s.now then scanLoop fail resetAfter fuel (s.del it.key) tp o
              else scanLoop fail resetAfter fuel s (tp ++ [{ it with active := s.now + s.activeT }]) o

/-- ForAllExpiredFlowRecordsDo: the loop, then (deferred) the pushes -/
def scan (s : State) (fail : Nat → Bool) (resetAfter : Bool) : State × ScanOut :=
  let (s1, tp, o) := scanLoop fail resetAfter (s.pq.size + 1) s [] {}
  ({ s1 with pq := tp.foldl (fun q it => Heap.push Item.deadline q it) s1.pq }, o)

/-- GetExpiryFromExpirePriorityQueue, in virtual milliseconds -/
def nextExpiry (s : State) : Nat :=
  let minExp := Generated.cMinExpiryTime / 1000000
  if s.pq.size > 0 then
    let d := s.pq[0]!.deadline
    if minExp + d < s.now then minExp else minExp + d - s.now
  else if s.activeT < s.inactiveT then s.activeT else s.inactiveT

end Ipfix.Agg
