/-
  The exporting process as an EVENT system (property C14): pkg/exporter/process.go
  InitExportingProcess (the two background goroutines), SendSet / createAndSendIPFIXMsg,
  sendRefreshedTemplates, checkConnToCollector, CloseConnToCollector / closeConnToCollector.

  State = the sequential exporter model `ExpState` (Model/Exporter.lean) + what the lifecycle adds:
  the elements of every recorded template (templatesMap[id].elements), the refresher's local list of
  template sets still to be sent, the `isClosed` flag, how often `close(stopCh)` was executed, whether
  the collector closed its side, and `wire`: the argument of every `conn.Write` that succeeded, in
  order. One `Write` = one element of `wire`: over UDP one datagram, over TCP one contiguous run of
  the byte stream.

  Events are the atomic steps the goroutines are made of; an arbitrary `List Event` is an arbitrary
  interleaving (the scheduler is the list):
    appSend       the application goroutine calls SendSet
    refreshTick   UDP refresher: ticker fired; under templateMutex one MakeTemplateSet per recorded
                  template, in Go map iteration order (= ANY order: the event carries a priority
                  function and the list is sorted by it)
    refreshStep   UDP refresher: SendSet of the next of those sets - the same send path as appSend;
                  application sends may come between two refreshSteps of one refresh
    connCheck     TCP checker: ticker fired; 1-byte read; `eof` = the read returned io.EOF
    peerClose     the collector closes its side of the connection
    close         CloseConnToCollector (from any goroutine)

  Modelled, not verified: net.Conn.Write on an open socket writes the whole slice (a Write error on a
  socket this process has not closed is outside the model); a Write on a closed connection fails and
  writes nothing; io.EOF is only ever read after the peer closed; time.Ticker, goroutine scheduling,
  wg.Wait and memory visibility are the runtime's (observed under the race detector, not modelled).
-/
import IpfixModel.Model.Exporter
namespace Ipfix.Life

inductive Proto where
  | udp | tcp
  deriving DecidableEq, Repr, Inhabited

structure LState where
  proto : Proto := .udp
  exp : ExpState := {}
  /-- templatesMap[id].elements, in order of first recording -/
  tpls : List (Nat × List IE) := []
  /-- the refresher's `templateSets` not yet handed to SendSet -/
  pending : List SetB := []
  closed : Bool := false
  /-- how many times `close(ep.stopCh)` ran (a second one panics in Go) -/
  stopCloses : Nat := 0
  peerClosed : Bool := false
  wire : List Bytes := []
  deriving Repr

def LState.init (proto : Proto) (dom : Nat) : LState := { proto := proto, exp := { dom := dom } }

/-- updateTemplate: the first definition of an id wins -/
def regTpl (tpls : List (Nat × List IE)) (id : Nat) (ies : List IE) : List (Nat × List IE) :=
  if tpls.any (·.1 == id) then tpls else tpls ++ [(id, ies)]

/-- SendSet after a transmitted template set: every record's (id, ordered element list) -/
def recordTemplates (tpls : List (Nat × List IE)) (s : SetB) : List (Nat × List IE) :=
  s.recs.foldl (fun acc r => regTpl acc r.tid (r.elems.map (·.1))) tpls

/-- closeConnToCollector: guarded by `isClosed.Swap(true)`; closes stopCh and the connection; the
    background goroutine selects on stopCh and returns (its local work list is gone) -/
def LState.doClose (st : LState) : LState :=
  if st.closed then st
  else { st with closed := true, stopCloses := st.stopCloses + 1, pending := [] }

/-- SendSet: the sequential exporter model up to the Write; the Write succeeds iff the connection has
    not been closed by this process. On a closed connection nothing is written and no template is
    recorded, but the counter has already moved (as for any failed send, C08 failed_send_bumps_seq). -/
def LState.send (st : LState) (time : Nat) (s : SetB) : LState × SendResult :=
  let r := st.exp.sendBuilt time s
  if st.closed then ({ st with exp := { st.exp with seq := r.1.seq } }, .err)
  else
    match r.2 with
    | .ok n w =>
      ({ st with exp := r.1, tpls := if s.ty = .template then recordTemplates st.tpls s else st.tpls,
                 wire := st.wire ++ [w] }, .ok n w)
    | .err => ({ st with exp := r.1 }, .err)

/-- DecodeAndCreateInfoElementWithValue(ie, nil) for every element of a recorded template -/
def zeroElems : List IE → Option (List Elem)
  | [] => some []
  | ie :: t =>
    match zeroValue ie, zeroElems t with
    | .ok v, some es => some ((ie, v) :: es)
    | _, _ => none

/-- entities.MakeTemplateSet: NewSet, PrepareSet(Template, id), AddRecord(zero-valued elements, id) -/
def makeTemplateSet (tid : Nat) (ies : List IE) : Option SetB :=
  match zeroElems ies with
  | none => none
  | some es => (SetB.new.prepare .template tid).bind (·.addRecord es tid)

def buildAll : List (Nat × List IE) → Option (List SetB)
  | [] => some []
  | p :: rest =>
    match makeTemplateSet p.1 p.2, buildAll rest with
    | some s, some ss => some (s :: ss)
    | _, _ => none

def insertBy (prio : Nat → Nat) (x : Nat × List IE) : List (Nat × List IE) → List (Nat × List IE)
  | [] => [x]
  | y :: t => if prio x.1 ≤ prio y.1 then x :: y :: t else y :: insertBy prio x t

/-- the order in which one refresh visits the templates: Go map iteration = unspecified; here: sorted by an
    arbitrary priority of the template ids (insertion sort; every order of distinct ids is some priority) -/
def refreshOrder (prio : Nat → Nat) (tpls : List (Nat × List IE)) : List (Nat × List IE) :=
  tpls.foldr (insertBy prio) []

/-- sendRefreshedTemplates, first half: build every set; an error closes the process -/
def LState.refreshTick (st : LState) (prio : Nat → Nat) : LState :=
  if st.proto = .udp ∧ st.closed = false ∧ st.pending = [] then
    match buildAll (refreshOrder prio st.tpls) with
    | none => st.doClose
    | some sets => { st with pending := sets }
  else st

/-- sendRefreshedTemplates, second half, one iteration: SendSet of the next set; an error closes -/
def LState.refreshStep (st : LState) (time : Nat) : LState :=
  match st.pending with
  | [] => st
  | s :: rest =>
    if st.closed then { st with pending := [] }
    else
      let r := st.send time s
      match r.2 with
      | .ok _ _ => { r.1 with pending := rest }
      | .err => r.1.doClose

inductive Event where
  | appSend (time : Nat) (s : SetB)
  | refreshTick (prio : Nat → Nat)
  | refreshStep (time : Nat)
  | connCheck (eof : Bool)
  | peerClose
  | close

/-- one step; the output is the result SendSet returned to the application -/
def step (st : LState) : Event → LState × Option SendResult
  | .appSend time s => let r := st.send time s; (r.1, some r.2)
  | .refreshTick prio => (st.refreshTick prio, none)
  | .refreshStep time => (st.refreshStep time, none)
  | .connCheck eof => (if st.proto = .tcp ∧ eof = true ∧ st.peerClosed = true then st.doClose else st, none)
  | .peerClose => ({ st with peerClosed := true }, none)
  | .close => (st.doClose, none)

def run : LState → List Event → LState × List (Option SendResult)
  | st, [] => (st, [])
  | st, e :: rest =>
    let r := step st e
    let rr := run r.1 rest
    (rr.1, r.2 :: rr.2)

def runS (st : LState) (evs : List Event) : LState := (run st evs).1

/-- one whole refresh with nothing in between: the tick and one step per queued set -/
def refreshAll (st : LState) (prio : Nat → Nat) (times : List Nat) : LState :=
  runS st (.refreshTick prio :: times.map .refreshStep)

end Ipfix.Life
