/-
  The information-element registry, from the regenerated table (Generated.registryByID is what
  registerInfoElement builds: tools/gofacts emulates the duplicate-name rule and the reverse
  elements; the harness cross-checks the table against registry.GetInfoElementFromID for every
  (enterprise, id) at run time).
-/
import IpfixModel.Model.IE
import IpfixModel.Generated.Registry
namespace Ipfix

def registry : List IE :=
  Generated.registryByID.map fun (ent, id, ty, len, name) =>
    { name := name, id := id, ty := DataType.ofCode ty, ent := ent, len := len }

/-- registry.GetInfoElementFromID -/
def lookupIE (ent id : Nat) : Option IE :=
  registry.find? fun ie => ie.ent == ent && ie.id == id

/-- the enterprises for which LoadRegistry creates a table -/
def knownEnterprise (ent : Nat) : Bool :=
  ent == Generated.cIANAEnterpriseID || ent == Generated.cIANAReversedEnterpriseID ||
    ent == Generated.cAntreaEnterpriseID

end Ipfix
