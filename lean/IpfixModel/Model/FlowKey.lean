/-
  The flow key of a data record: pkg/intermediate/aggregate.go, getFlowKeyFromRecord.

  The code walks the fixed list
    [sourceTransportPort, destinationTransportPort, protocolIdentifier,
     sourceIPv4Address, destinationIPv4Address, sourceIPv6Address, destinationIPv6Address]
  and looks every name up in the record (`GetInfoElementWithValue`): the two ports and the protocol
  must exist (else an error); an IPv4 address that exists is taken (`net.IP.String()` of the
  element's value) and remembered as "filled"; an IPv6 address is consulted only when the IPv4
  address of the same side was not there, and must then exist (else an error). The second result
  says whether BOTH IPv4 addresses were there.

  `keyLoop` is that walk, name by name, over a mutable (key, srcFilled, dstFilled); `flowKey` is its
  closed form (Lemmas: `keyLoop_eq_flowKey`).

  Modelled, not verified: `net.IP.String()`. The FlowKey holds the two addresses as TEXTS. What the
  model keeps of a text is the class of byte strings that print alike (`IPText`): no bytes at all
  ("<nil>"), a length that is neither 4 nor 16 ("?" + hex), an IPv4 address - the 4-byte form and the
  16-byte form ::ffff:a.b.c.d print the same dotted quad - , any other 16 bytes (the IPv6 text).
  Assumed of Go: texts of different classes / different members differ (dotted quads, RFC 5952 texts,
  "?"-prefixed hex and "<nil>" are pairwise distinct and each is injective). The harness reports a
  key's two texts by these classes (it parses them back), so the assumption is exercised on every
  run, not proved.
-/
import IpfixModel.Model.IE
namespace Ipfix.FlowKey

/-- what `net.IP.String()` keeps of an address value -/
inductive IPText where
  /-- the zero FlowKey's "" (never the result of a successful call; the walk's initial value) -/
  | unset
  | nil
  | bad (b : Bytes)
  | v4 (b : Bytes)
  | v6 (b : Bytes)
  deriving DecidableEq, Repr, Inhabited

def ipText (b : Bytes) : IPText :=
  if b.length = 0 then .nil
  else if b.length ≠ 4 ∧ b.length ≠ 16 then .bad b
  else match to4 b with
    | some p => .v4 p
    | none => .v6 b

/-- what the walk reads of a record: the value of each of the seven elements, `none` = the record
    has no such element -/
structure KeyRec where
  sport : Option Nat
  dport : Option Nat
  proto : Option Nat
  src4 : Option Bytes
  dst4 : Option Bytes
  src6 : Option Bytes
  dst6 : Option Bytes
  deriving DecidableEq, Repr, Inhabited

/-- intermediate.FlowKey -/
structure Key where
  src : IPText := .unset
  dst : IPText := .unset
  proto : Nat := 0
  sport : Nat := 0
  dport : Nat := 0
  deriving DecidableEq, Repr, Inhabited

inductive Name where
  | sport | dport | proto | src4 | dst4 | src6 | dst6
  deriving DecidableEq, Repr

def elementList : List Name := [.sport, .dport, .proto, .src4, .dst4, .src6, .dst6]

structure Walk where
  key : Key := {}
  srcFilled : Bool := false
  dstFilled : Bool := false
  deriving DecidableEq, Repr

/-- one iteration of the `for _, name := range elementList` loop; `none` = `return nil, false, err` -/
def stepName (r : KeyRec) (w : Walk) : Name → Option Walk
  | .sport => r.sport.map fun v => { w with key := { w.key with sport := v } }
  | .dport => r.dport.map fun v => { w with key := { w.key with dport := v } }
  | .proto => r.proto.map fun v => { w with key := { w.key with proto := v } }
  | .src4 => match r.src4 with
    | none => some w
    | some a => some { w with srcFilled := true, key := { w.key with src := ipText a } }
  | .dst4 => match r.dst4 with
    | none => some w
    | some a => some { w with dstFilled := true, key := { w.key with dst := ipText a } }
  | .src6 => if w.srcFilled then some w else r.src6.map fun a => { w with key := { w.key with src := ipText a } }
  | .dst6 => if w.dstFilled then some w else r.dst6.map fun a => { w with key := { w.key with dst := ipText a } }

def keyLoop (r : KeyRec) : Option (Key × Bool) :=
  (elementList.foldlM (stepName r) {}).map fun w => (w.key, w.srcFilled && w.dstFilled)

/-- the address the key takes for one side: the IPv4 element's when the record has one, else the
    IPv6 element's -/
def sideAddr (a4 a6 : Option Bytes) : Option Bytes := match a4 with | some a => some a | none => a6

/-- closed form of the walk -/
def flowKey (r : KeyRec) : Option (Key × Bool) :=
  match r.sport, r.dport, r.proto, sideAddr r.src4 r.src6, sideAddr r.dst4 r.dst6 with
  | some sp, some dp, some pr, some s, some d =>
    some ({ src := ipText s, dst := ipText d, proto := pr, sport := sp, dport := dp }, r.src4.isSome && r.dst4.isSome)
  | _, _, _, _, _ => none

/-- the 5-tuple a record denotes, addresses up to their byte form: what the property calls "the same 5-tuple" -/
def sameTuple (a b : KeyRec) : Bool :=
  a.sport == b.sport && a.dport == b.dport && a.proto == b.proto &&
  (sideAddr a.src4 a.src6).map ipText == (sideAddr b.src4 b.src6).map ipText &&
  (sideAddr a.dst4 a.dst6).map ipText == (sideAddr b.dst4 b.dst6).map ipText

end Ipfix.FlowKey
