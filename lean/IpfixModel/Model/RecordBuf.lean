/-
  The EXACT model of `dataRecord.GetBuffer()` (pkg/entities/record.go) for an encoding data
  record, i.e. of the loop over `encodeInfoElementValueToBuff` (pkg/entities/ie.go) with the
  reported lengths `GetLength()` (pkg/entities/ie_value.go).

  `encodeRecord` (Model/Builder.lean) is the SPECIFICATION encoder: it refuses a record as soon
  as one value is not encodable for its element. The code does not: `GetBuffer` only LOGS the
  error of an element, leaves that element's bytes as they are, and goes on. `recordBuf` below
  is that behaviour, defined for ALL element lists - ill-typed values (wrong address family, MAC
  address that is not 6 bytes, fixed-length octet array of the wrong length) and user-made
  elements whose declared length does not fit their type included. It is tied to the code by the
  differential run of the operation `ie recbuf` (gen/c15.py), and to `encodeRecord` by the
  theorems `recordBuf_length` and `recordBuf_eq_encodeRecord` (Lemmas/RecordBuf.lean, stated in
  Props/C15.lean).

  What is a Go element here: `Elem = IE × Value`, the carrier (the Go struct type) being the one
  the typed constructor for `ie.ty` builds (`NewUnsigned8InfoElement` for an unsigned8 element,
  ...). A pair whose value kind does not fit the type (a byte string in an unsigned8 element)
  has no counterpart built that way - in Go, `GetUnsigned8Value()` of a foreign carrier panics;
  the model writes nothing for such a pair (it is total, and the length theorem covers it, but
  no correspondence is claimed). Numbers are bit patterns; `be w n` keeps `n mod 256^w`, which is
  what a Go `uintN` can hold in the first place.
-/
import IpfixModel.Model.Builder
namespace Ipfix

/-- Go's `copy(buf[idx:], bs)`: overwrite `buf` from position `idx` on with `bs`, CUT at the end
    of `buf` (`copy` moves `min(len(dst), len(src))` bytes); the buffer never grows. Nothing
    happens for `idx ≥ len(buf)` (Go would panic on the slice expression for `idx > len(buf)`;
    the check (1) of `encodeAt` excludes that). -/
def writeAt (buf : Bytes) (idx : Nat) (bs : Bytes) : Bytes :=
  buf.take idx ++ bs.take (buf.length - idx) ++ buf.drop (idx + bs.length)

/-- `InfoElementLength[t]` where it is a width, 0 where it is `VariableLength` (octetArray,
    string, the list types) or missing (`InvalidDataType` is 0 in the table, an unknown type code
    is the map's zero value): what check (2) of `encodeInfoElementValueToBuff` compares the
    reported length with. Tied to the regenerated table by `C15.tie_needWidth`. -/
def DataType.needWidth : DataType → Nat
  | .unsigned8 | .signed8 | .boolean => 1
  | .unsigned16 | .signed16 => 2
  | .unsigned32 | .signed32 | .float32 | .dateTimeSeconds | .ipv4Address => 4
  | .unsigned64 | .signed64 | .float64 | .dateTimeMilliseconds
  | .dateTimeMicroseconds | .dateTimeNanoseconds => 8
  | .macAddress => 6
  | .ipv6Address => 16
  | .octetArray | .string | .basicList | .subTemplateList | .subTemplateMultiList | .invalid => 0

/-- The `switch element.GetDataType()` of `encodeInfoElementValueToBuff` (ie.go): the bytes the
    element hands to `copy` / `PutUintNN` at its index, `none` where the code returns an error.
    * OctetArray, declared length < 65535: error unless `len(v)` is the declared length, else `v`;
      declared length 65535, and String whatever it declares: the variable-length encoding
      (1-byte prefix below 255, `0xFF` + 2 bytes up to 65535, error above);
    * integers, floats, dateTimeSeconds/Milliseconds: big-endian at the FULL width of the type,
      whatever the element declares (bytes beyond the width are not touched);
    * Boolean: 1 / 2;
    * MacAddress: `copy(buffer[index:], value)` - the value as it is, of ANY length: the declared
      length plays no role, `writeAt` cuts only at the end of the record's buffer;
    * Ipv4Address / Ipv6Address: `To4()` / `To16()`, error if nil;
    * everything else (dateTimeMicro/Nanoseconds, list types, invalid): error. -/
def rawWrite (ie : IE) (v : Value) : Option Bytes :=
  match ie.ty, v with
  | .octetArray, .bytes b =>
      if ie.len < VariableLength then (if b.length = ie.len then some b else none)
      else encodeVar b
  | .string, .bytes b => encodeVar b
  | .boolean, .bool b => some [if b then 1 else 2]
  | .macAddress, .bytes b => some b
  | .ipv4Address, .bytes b => to4 b
  | .ipv6Address, .bytes b => to16 b
  | t, .num n =>
      match t with
      | .unsigned8 | .unsigned16 | .unsigned32 | .unsigned64
      | .signed8 | .signed16 | .signed32 | .signed64
      | .float32 | .float64 | .dateTimeSeconds | .dateTimeMilliseconds =>
          match t.width with
          | some w => some (be w n)
          | none => none
      | _ => none
  | _, _ => none

/-- `encodeInfoElementValueToBuff(element, buf, idx)`: the buffer afterwards, `none` = error
    (the buffer is then unchanged - every error is returned before the first write).
    (1) `index+GetLength() > len(buffer)`: error;
    (2) the type has a width in `InfoElementLength` and `GetLength()` is below it: error
        (this is what keeps `PutUintNN` from writing past the field or panicking at the end of
        the buffer: after (1) and (2) at least `width` bytes are available at `idx`);
    (3) the per-type switch, `rawWrite`, written with `copy` semantics. -/
def encodeAt (ie : IE) (v : Value) (buf : Bytes) (idx : Nat) : Option Bytes :=
  if idx + elemLength ie v > buf.length then none
  else if elemLength ie v < ie.ty.needWidth then none
  else (rawWrite ie v).map (writeAt buf idx)

/-- the loop of `GetBuffer`: `err != nil` is logged and the loop goes on with the buffer as it
    is; `index += element.GetLength()` either way -/
def recordBufFrom (buf : Bytes) : Nat → List Elem → Bytes
  | _, [] => buf
  | idx, (ie, v) :: t => recordBufFrom ((encodeAt ie v buf idx).getD buf) (idx + elemLength ie v) t

/-- `dataRecord.GetBuffer()` of an encoding record holding `es` (built by `AddRecord`,
    `AddRecordWithExtraElements` or `AddRecordV2` - all three only sum up `GetLength()`):
    `make([]byte, d.len)` with `d.len` the sum of the reported lengths, then the loop from index 0.
    (For `d.len = 0` the code returns the nil buffer it has - the empty byte string as well.) -/
def recordBuf (es : List Elem) : Bytes :=
  recordBufFrom (List.replicate (recordLength es) 0) 0 es

end Ipfix
