/-
  The exporting process: pkg/exporter/process.go SendSet, dataRecSanityCheck, updateTemplate,
  createAndSendIPFIXMsg (IPFIX path; the JSON path is not modelled).
  Modelled, not verified: net.Conn.Write writes the whole slice or fails; time.Now().Unix() is a
  parameter; sync/atomic on the sequence number (uint32 wrap-around = mod 2^32).
-/
import IpfixModel.Model.Builder
namespace Ipfix

structure TplInfo where
  fieldCount : Nat
  minLen : Nat
  deriving Repr, DecidableEq

structure ExpState where
  seq : Nat := 0
  dom : Nat := 0
  templates : List (Nat × TplInfo) := []
  deriving Repr, DecidableEq

def ExpState.template (st : ExpState) (id : Nat) : Option TplInfo :=
  (st.templates.find? (·.1 == id)).map (·.2)

/-- updateTemplate: the first definition of an id wins -/
def ExpState.register (st : ExpState) (id : Nat) (t : TplInfo) : ExpState :=
  match st.template id with
  | some _ => st
  | none => { st with templates := st.templates ++ [(id, t)] }

/-- the set handed to SendSet, as the application built it -/
structure SetDesc where
  ty : SetType
  setId : Nat
  recs : List (Nat × List Elem)
  deriving Repr, DecidableEq

/-- building the set with one of the add paths: 0/1 = AddRecord(WithExtraElements), 2 = AddRecordV2 -/
def SetDesc.build (d : SetDesc) (v2 : Bool) : Option SetB :=
  match d.ty with
  | .undefined => some SetB.new.reset
  | ty =>
    match SetB.new.prepare ty d.setId with
    | none => none
    | some s0 =>
      d.recs.foldl (fun acc r => acc.bind fun s => if v2 then s.addRecordV2 r.2 r.1 else s.addRecord r.2 r.1) (some s0)

inductive SendResult where
  | ok (n : Nat) (wire : Bytes)
  | err
  deriving Repr, DecidableEq

/-- the Set ID in the set header (first two bytes) -/
def SetB.setId (s : SetB) : Nat := unbe (s.header.take 2)

/-- dataRecSanityCheck -/
def ExpState.sane (st : ExpState) (r : Rec) : Bool :=
  match st.template r.tid with
  | none => false
  | some t => r.fieldCount == t.fieldCount && !(r.bytes.length < t.minLen)

/-- SendSet on a built set -/
def ExpState.sendBuilt (st : ExpState) (time : Nat) (s : SetB) : ExpState × SendResult :=
  match s.ty with
  | .undefined => (st, .err)
  | ty =>
    if ty = .data ∧ !(s.recs.all fun r => r.tid == s.setId && st.sane r) then (st, .err)
    else
      let s := s.updateLen
      let seq' := if ty = .data then (st.seq + s.recs.length) % 4294967296 else st.seq
      let st1 := { st with seq := seq' }
      match createMsg s st.dom seq' time with
      | none => (st1, .err)      -- note: the counter has already been advanced
      | some w =>
        let st2 :=
          if ty = .template then
            s.recs.foldl (fun acc r => acc.register r.tid
              { fieldCount := r.elems.length, minLen := minDataRecLen (r.elems.map (·.1)) }) st1
          else st1
        (st2, .ok w.length w)

end Ipfix
