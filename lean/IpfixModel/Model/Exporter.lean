/-
  The exporting process: pkg/exporter/process.go SendSet, dataRecSanityCheck, updateTemplate,
  createAndSendIPFIXMsg (IPFIX path: `sendBuilt`; with the outcome of the Write: `sendBuiltW`), and the
  decisions of the JSON path (`sendBuiltJ`; the JSON text itself is not modelled).
  Modelled, not verified: net.Conn.Write writes the whole slice, fails, or is short (`WriteOutcome`;
  `sendBuilt` = every Write succeeds); time.Now().Unix() is a
  parameter; sync/atomic on the sequence number (uint32 wrap-around = mod 2^32).
-/
import IpfixModel.Model.Builder
namespace Ipfix

structure TplInfo where
  fieldCount : Nat
  minLen : Nat
  deriving Repr, DecidableEq

structure ExpState where
  seq : Nat := 0
  dom : Nat := 0
  templates : List (Nat × TplInfo) := []
  deriving Repr, DecidableEq

def ExpState.template (st : ExpState) (id : Nat) : Option TplInfo :=
  (st.templates.find? (·.1 == id)).map (·.2)

/-- updateTemplate: the first definition of an id wins -/
def ExpState.register (st : ExpState) (id : Nat) (t : TplInfo) : ExpState :=
  match st.template id with
  | some _ => st
  | none => { st with templates := st.templates ++ [(id, t)] }

/-- the set handed to SendSet, as the application built it -/
structure SetDesc where
  ty : SetType
  setId : Nat
  recs : List (Nat × List Elem)
  deriving Repr, DecidableEq

/-- building the set with one of the add paths: 0/1 = AddRecord(WithExtraElements), 2 = AddRecordV2 -/
def SetDesc.build (d : SetDesc) (v2 : Bool) : Option SetB :=
  match d.ty with
  | .undefined => some SetB.new.reset
  | ty =>
    match SetB.new.prepare ty d.setId with
    | none => none
    | some s0 =>
      d.recs.foldl (fun acc r => acc.bind fun s => if v2 then s.addRecordV2 r.2 r.1 else s.addRecord r.2 r.1) (some s0)

inductive SendResult where
  | ok (n : Nat) (wire : Bytes)
  | err
  deriving Repr, DecidableEq

/-- the Set ID in the set header (first two bytes) -/
def SetB.setId (s : SetB) : Nat := unbe (s.header.take 2)

/-- dataRecSanityCheck -/
def ExpState.sane (st : ExpState) (r : Rec) : Bool :=
  match st.template r.tid with
  | none => false
  | some t => r.fieldCount == t.fieldCount && !(r.bytes.length < t.minLen)

/-- SendSet on a built set -/
def ExpState.sendBuilt (st : ExpState) (time : Nat) (s : SetB) : ExpState × SendResult :=
  match s.ty with
  | .undefined => (st, .err)
  | ty =>
    if ty = .data ∧ !(s.recs.all fun r => r.tid == s.setId && st.sane r) then (st, .err)
    else
      let s := s.updateLen
      let seq' := if ty = .data then (st.seq + s.recs.length) % 4294967296 else st.seq
      let st1 := { st with seq := seq' }
      match createMsg s st.dom seq' time with
      | none => (st1, .err)      -- note: the counter has already been advanced
      | some w =>
        let st2 :=
          if ty = .template then
            s.recs.foldl (fun acc r => acc.register r.tid
              { fieldCount := r.elems.length, minLen := minDataRecLen (r.elems.map (·.1)) }) st1
          else st1
        (st2, .ok w.length w)

/-! ## Write outcomes

  `net.Conn.Write(b)` returns `(n, err)`. The three shapes createAndSendIPFIXMsg tells apart:
  `ok` = `(len b, nil)`; `fail` = `(_, err)` with `err ≠ nil` (nothing reached the peer: the connections
  of the correspondence runs write nothing on a failing Write); `short k` = `(k, nil)`: `k` bytes went
  out and no error was reported (the io.Writer contract gives `k ≤ len b`; `k = len b` is `ok`). -/

inductive WriteOutcome where
  | ok
  | fail
  | short (k : Nat)
  deriving Repr, DecidableEq

/-- `err == nil && bytesSent == len(bytesSlice)` for a message of `len` bytes -/
def WriteOutcome.complete (w : WriteOutcome) (len : Nat) : Bool :=
  match w with
  | .ok => true
  | .fail => false
  | .short k => k == len

/-- SendSet on a built set, the single `Write` of the IPFIX path having the outcome `w`.
    The code, in order: set type, sanity of every record of a data set, UpdateLenInHeader, the
    sequence counter of a data set is advanced (atomic.AddUint32) BEFORE the message is built and
    written, CreateIPFIXMsg, Write. A Write that fails, or that is short ("could not send the complete
    message on the connection"), makes createAndSendIPFIXMsg and SendSet return an error: the
    templates of a template set are NOT recorded (updateTemplate runs only after a nil error), and
    the counter keeps the advance it already got. -/
def ExpState.sendBuiltW (st : ExpState) (time : Nat) (s : SetB) (w : WriteOutcome) : ExpState × SendResult :=
  match s.ty with
  | .undefined => (st, .err)
  | ty =>
    if ty = .data ∧ !(s.recs.all fun r => r.tid == s.setId && st.sane r) then (st, .err)
    else
      let s := s.updateLen
      let seq' := if ty = .data then (st.seq + s.recs.length) % 4294967296 else st.seq
      let st1 := { st with seq := seq' }
      match createMsg s st.dom seq' time with
      | none => (st1, .err)      -- no Write is attempted
      | some m =>
        if w.complete m.length then
          let st2 :=
            if ty = .template then
              s.recs.foldl (fun acc r => acc.register r.tid
                { fieldCount := r.elems.length, minLen := minDataRecLen (r.elems.map (·.1)) }) st1
            else st1
          (st2, .ok m.length m)
        else (st1, .err)         -- the Write failed or was short: nothing recorded, counter already advanced

/-- does SendSet get as far as calling `Write` (type, sanity and size checks passed)? -/
def ExpState.reachesWrite (st : ExpState) (time : Nat) (s : SetB) : Bool :=
  match (st.sendBuilt time s).2 with
  | .ok _ _ => true
  | .err => false

/-- the bytes that reach the connection during SendSet under the outcome `w`: the whole message,
    nothing, or its first `k` bytes; nothing at all when SendSet does not get to the Write -/
def ExpState.wroteW (st : ExpState) (time : Nat) (s : SetB) (w : WriteOutcome) : Bytes :=
  match (st.sendBuilt time s).2 with
  | .ok _ m =>
    match w with
    | .ok => m
    | .fail => []
    | .short k => m.take k
  | .err => []

/-! ## JSON mode (ExporterInput.SendJSONRecord): the DECISIONS of SendSet

  In JSON mode SendSet runs the same set-type and sanity checks, then createAndSendJSONMsg for a data
  set: one `Write` per record, of a JSON text that is not modelled (only the number of writes is).
  A template set writes nothing and is recorded. The sequence counter is never touched. -/

/-- the data types createAndSendJSONMsg has a case for (octetArray has none: `default:` error; the
    micro/nanosecond types are refused explicitly; the structured types have none) -/
def jsonSupported : DataType → Bool
  | .octetArray | .dateTimeMicroseconds | .dateTimeNanoseconds
  | .basicList | .subTemplateList | .subTemplateMultiList | .invalid => false
  | _ => true

/-- values encoding/json refuses: a float that is NaN or ±Inf (UnsupportedValueError), a net.IP whose
    length is not 0, 4 or 16 (MarshalText: AddrError) -/
def jsonValueOK (e : Elem) : Bool :=
  match e.1.ty, e.2 with
  | .float32, .num n => (n / 8388608) % 256 != 255
  | .float64, .num n => (n / 4503599627370496) % 2048 != 2047
  | .ipv4Address, .bytes b => b.length == 0 || b.length == 4 || b.length == 16
  | .ipv6Address, .bytes b => b.length == 0 || b.length == 4 || b.length == 16
  | _, _ => true

/-- the JSON object is a map keyed by element NAME: of several elements with one name the last one's
    value is what gets encoded -/
def jsonLastOfName : List Elem → List Elem
  | [] => []
  | e :: t => if t.any (fun e' => e'.1.name == e.1.name) then jsonLastOfName t else e :: jsonLastOfName t

/-- a record createAndSendJSONMsg renders and writes: every element's type has a case (the switch runs
    over all elements), and every value that ends up in the map can be encoded -/
def jsonRecOK (r : Rec) : Bool :=
  (r.elems.all fun e => jsonSupported e.1.ty) && (jsonLastOfName r.elems).all jsonValueOK

/-- records written before the first one that cannot be rendered -/
def jsonWrites : List Rec → Nat
  | [] => 0
  | r :: t => if jsonRecOK r then jsonWrites t + 1 else 0

inductive SendResultJ where
  /-- nil error after `writes` calls of Write (one per record) -/
  | ok (writes : Nat)
  /-- an error after `writes` calls of Write -/
  | err (writes : Nat)
  deriving Repr, DecidableEq

/-- the refusals of SendSet that precede every Write, in both modes: Undefined set type; a data set
    with a record whose template id is not the Set ID, or that fails dataRecSanityCheck (unknown
    template, field count, shorter than the template's minimum length) -/
def ExpState.refuses (st : ExpState) (s : SetB) : Bool :=
  match s.ty with
  | .undefined => true
  | .data => !(s.recs.all fun r => r.tid == s.setId && st.sane r)
  | _ => false

/-- SendSet on a built set in JSON mode -/
def ExpState.sendBuiltJ (st : ExpState) (s : SetB) : ExpState × SendResultJ :=
  match s.ty with
  | .undefined => (st, .err 0)
  | .data =>
    if !(s.recs.all fun r => r.tid == s.setId && st.sane r) then (st, .err 0)
    else if s.recs.all jsonRecOK then (st, .ok s.recs.length)
    else (st, .err (jsonWrites s.recs))
  | .template =>
    (s.recs.foldl (fun acc r => acc.register r.tid
      { fieldCount := r.elems.length, minLen := minDataRecLen (r.elems.map (·.1)) }) st, .ok 0)
  | .other => (st, .ok 0)

/-- JSON mode with the outcome `w` of the FIRST Write (the later ones succeed): a failing Write ends
    the call with an error; a short one goes unnoticed (createAndSendJSONMsg adds up the counts and
    never compares them with the lengths) -/
def ExpState.sendBuiltJW (st : ExpState) (s : SetB) (w : WriteOutcome) : ExpState × SendResultJ :=
  match w, st.sendBuiltJ s with
  | .fail, (st', .ok (_ + 1)) => (st', .err 0)
  | .fail, (st', .err (_ + 1)) => (st', .err 0)
  | _, r => r

/-- number of `Write` calls SendSet makes in JSON mode when all of them succeed -/
def ExpState.writesJ (st : ExpState) (s : SetB) : Nat :=
  match (st.sendBuiltJ s).2 with
  | .ok n => n
  | .err n => n

end Ipfix
