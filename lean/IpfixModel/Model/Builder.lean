/-
  Set and record builders: pkg/entities/set.go, pkg/entities/record.go, and the serializer
  pkg/exporter/msg.go (CreateIPFIXMsg).

  A record is modelled by what is observable of it: template id, field count, its element list and
  its buffer. Values are immutable in the model (Go lets a caller mutate an element after adding
  it; the cached data-record buffer then goes stale - outside every property here).
  `encodeRecord` is `none` when some value is not encodable: the real data record still gets
  built (GetBuffer logs the error and leaves zero bytes) - finding D5, see Model/IE.lean.
-/
import IpfixModel.Model.IE
namespace Ipfix

abbrev Elem := IE × Value

/-- ContentType: Template = 0, Data = 1, Undefined = 255, anything else is accepted by PrepareSet
    but by no add function -/
inductive SetType where
  | template | data | undefined | other
  deriving DecidableEq, Repr, Inhabited

/-- field specifier of a template record: id (with the enterprise bit), length, enterprise number -/
def fieldSpec (ie : IE) : Bytes :=
  if ie.ent ≠ 0 then be 2 (ie.id % 65536 + (if ie.id % 65536 < 32768 then 32768 else 0)) ++ be 2 ie.len ++ be 4 ie.ent
  else be 2 ie.id ++ be 2 ie.len

/-- buffer of a template record: id, field count, one specifier per element -/
def templateRecordBytes (tid : Nat) (ies : List IE) : Bytes :=
  be 2 tid ++ be 2 ies.length ++ (ies.map fieldSpec).flatten

/-- minimum data record length kept for the exporter's sanity check (uint16 arithmetic) -/
def minDataRecLen (ies : List IE) : Nat := ((ies.map IE.minLen).sum) % 65536

/-- buffer of a data record: the elements' encodings in order -/
def encodeRecord : List Elem → Option Bytes
  | [] => some []
  | (ie, v) :: t =>
    match encodeElem ie v, encodeRecord t with
    | some b, some bs => some (b ++ bs)
    | _, _ => none

def recordLength (es : List Elem) : Nat := (es.map fun e => elemLength e.1 e.2).sum

/-- IsValueEmpty(): what a template record accepts as element value -/
def valueEmpty : Value → Bool
  | .num n => n == 0
  | .bool b => !b
  | .bytes b => b.isEmpty

/-- the float elements compare their value with 0, and Go's `-0.0 == 0` holds: the value whose bits
    are only the sign bit is empty too -/
def negZero : DataType → Value → Bool
  | .float32, .num n => n == 2147483648
  | .float64, .num n => n == 9223372036854775808
  | _, _ => false

def elemEmpty (e : Elem) : Bool := valueEmpty e.2 || negZero e.1.ty e.2

structure Rec where
  isTemplate : Bool
  tid : Nat
  fieldCount : Nat
  elems : List Elem
  bytes : Bytes
  deriving Repr, DecidableEq

def Rec.length (r : Rec) : Nat := r.bytes.length

structure SetB where
  header : Bytes := [0, 0, 0, 0]
  ty : SetType := .template      -- NewSet leaves the zero value, which is Template
  recs : List Rec := []
  length : Nat := 4
  deriving Repr, DecidableEq

def SetB.new : SetB := {}

/-- PrepareSet -/
def SetB.prepare (s : SetB) (ty : SetType) (id : Nat) : Option SetB :=
  match ty with
  | .undefined => none
  | .template => some { s with ty := ty, header := be 2 Generated.cTemplateSetID ++ s.header.drop 2 }
  | .data => some { s with ty := ty, header := be 2 id ++ s.header.drop 2 }
  | .other => some { s with ty := ty }

/-- ResetSet -/
def SetB.reset (_s : SetB) : SetB := { header := [0, 0, 0, 0], ty := .undefined, recs := [], length := 4 }

/-- UpdateLenInHeader -/
def SetB.updateLen (s : SetB) : SetB := { s with header := s.header.take 2 ++ be 2 s.length }

/-- the record AddRecordWithExtraElements builds element by element (dataRecord.AddInfoElement /
    templateRecord.AddInfoElement): state = (elements so far, buffer so far) -/
def addElemData (acc : Option (List Elem × Bytes)) (e : Elem) : Option (List Elem × Bytes) :=
  match acc, encodeElem e.1 e.2 with
  | some (es, bs), some b => some (es ++ [e], bs ++ b)
  | _, _ => none

def addElemTemplate (acc : Option (List Elem × Bytes)) (e : Elem) : Option (List Elem × Bytes) :=
  match acc with
  | some (es, bs) => if elemEmpty e then some (es ++ [e], bs ++ fieldSpec e.1) else none
  | none => none

/-- AddRecord / AddRecordWithExtraElements (the spare capacity does not show) -/
def SetB.addRecord (s : SetB) (elems : List Elem) (tid : Nat) : Option SetB :=
  match s.ty with
  | .data =>
    match elems.foldl addElemData (some ([], [])) with
    | some (es, bs) =>
      let r : Rec := { isTemplate := false, tid := tid, fieldCount := es.length, elems := es, bytes := bs }
      some { s with recs := s.recs ++ [r], length := s.length + r.length }
    | none => none
  | .template =>
    match elems.foldl addElemTemplate (some ([], be 2 tid ++ be 2 elems.length)) with
    | some (es, bs) =>
      let r : Rec := { isTemplate := true, tid := tid, fieldCount := elems.length, elems := es, bytes := bs }
      some { s with recs := s.recs ++ [r], length := s.length + r.length }
    | none => none
  | _ => none

/-- AddRecordV2: the record is built from the whole slice at once
    (NewDataRecordFromElements / NewTemplateRecordFromElements; no empty-value check) -/
def SetB.addRecordV2 (s : SetB) (elems : List Elem) (tid : Nat) : Option SetB :=
  match s.ty with
  | .data =>
    match encodeRecord elems with
    | some bs =>
      let r : Rec := { isTemplate := false, tid := tid, fieldCount := elems.length, elems := elems, bytes := bs }
      some { s with recs := s.recs ++ [r], length := s.length + r.length }
    | none => none
  | .template =>
    let r : Rec := { isTemplate := true, tid := tid, fieldCount := elems.length, elems := elems,
                     bytes := templateRecordBytes tid (elems.map (·.1)) }
    some { s with recs := s.recs ++ [r], length := s.length + r.length }
  | _ => none

/-- what CreateIPFIXMsg copies out for the set: header buffer, then each record's buffer -/
def SetB.serialize (s : SetB) : Bytes := s.header ++ (s.recs.map (·.bytes)).flatten

/-- the 16-byte message header -/
def msgHeader (len time seq dom : Nat) : Bytes := be 2 10 ++ be 2 len ++ be 4 time ++ be 4 seq ++ be 4 dom

/-- CreateIPFIXMsg: `none` when the message would exceed MaxSocketMsgSize -/
def createMsg (s : SetB) (dom seq time : Nat) : Option Bytes :=
  if Generated.cMsgHeaderLength + s.length > Generated.cMaxSocketMsgSize then none
  else some (msgHeader (Generated.cMsgHeaderLength + s.length) time seq dom ++ s.serialize)

end Ipfix
