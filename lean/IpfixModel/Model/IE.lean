/-
  Information elements and the value codec.
  Transliteration of pkg/entities/ie.go (encodeInfoElementValueToBuff,
  DecodeAndCreateInfoElementWithValue), pkg/entities/ie_value.go (GetLength) and
  pkg/collector/process.go (getFieldLength + the bounds check of decodeDataSet).

  Conventions
  * a Go value is `Value.num` (unsigned integers, signed integers as their two's-complement
    bit pattern, floats as their IEEE bit pattern, dateTime counters), `Value.bool`, or
    `Value.bytes` (octet arrays, strings, MAC addresses, net.IP - all are byte strings in Go);
  * `encodeElem` returns `none` where the value cannot be encoded for the element. The code
    returns an error there for some cases and silently writes something else for others
    (known finding D5); the model is the behaviour property C09 demands, and the
    correspondence harness reports the difference.
-/
import IpfixModel.Model.Bytes
import IpfixModel.Generated.Consts

namespace Ipfix

inductive Outcome (α : Type) where
  | ok (a : α)
  | err
  | panic
  | diverge
  deriving Repr, DecidableEq

namespace Outcome
@[inline] def bind {α β : Type} (x : Outcome α) (f : α → Outcome β) : Outcome β :=
  match x with
  | ok a => f a
  | err => err
  | panic => panic
  | diverge => diverge
instance : Monad Outcome where
  pure := ok
  bind := bind
def isOk {α} : Outcome α → Bool | ok _ => true | _ => false
@[simp] theorem bind_ok {α β} (a : α) (f : α → Outcome β) : (ok a >>= f) = f a := rfl
@[simp] theorem bind_err {α β} (f : α → Outcome β) : ((err : Outcome α) >>= f) = err := rfl
@[simp] theorem bind_panic {α β} (f : α → Outcome β) : ((panic : Outcome α) >>= f) = panic := rfl
@[simp] theorem bind_diverge {α β} (f : α → Outcome β) : ((diverge : Outcome α) >>= f) = diverge := rfl
@[simp] theorem pure_eq {α} (a : α) : (pure a : Outcome α) = ok a := rfl
end Outcome

inductive DataType where
  | octetArray | unsigned8 | unsigned16 | unsigned32 | unsigned64
  | signed8 | signed16 | signed32 | signed64 | float32 | float64
  | boolean | macAddress | string | dateTimeSeconds | dateTimeMilliseconds
  | dateTimeMicroseconds | dateTimeNanoseconds | ipv4Address | ipv6Address
  | basicList | subTemplateList | subTemplateMultiList | invalid
  deriving DecidableEq, Repr, Inhabited

namespace DataType
def all : List DataType :=
  [octetArray, unsigned8, unsigned16, unsigned32, unsigned64, signed8, signed16, signed32, signed64,
   float32, float64, boolean, macAddress, string, dateTimeSeconds, dateTimeMilliseconds,
   dateTimeMicroseconds, dateTimeNanoseconds, ipv4Address, ipv6Address, basicList, subTemplateList,
   subTemplateMultiList, invalid]

def goName : DataType → String
  | octetArray => "OctetArray" | unsigned8 => "Unsigned8" | unsigned16 => "Unsigned16"
  | unsigned32 => "Unsigned32" | unsigned64 => "Unsigned64" | signed8 => "Signed8"
  | signed16 => "Signed16" | signed32 => "Signed32" | signed64 => "Signed64"
  | float32 => "Float32" | float64 => "Float64" | boolean => "Boolean"
  | macAddress => "MacAddress" | string => "String" | dateTimeSeconds => "DateTimeSeconds"
  | dateTimeMilliseconds => "DateTimeMilliseconds" | dateTimeMicroseconds => "DateTimeMicroseconds"
  | dateTimeNanoseconds => "DateTimeNanoseconds" | ipv4Address => "Ipv4Address"
  | ipv6Address => "Ipv6Address" | basicList => "BasicList" | subTemplateList => "SubTemplateList"
  | subTemplateMultiList => "SubTemplateMultiList" | invalid => "InvalidDataType"

/-- numeric value of the Go constant, from the regenerated table -/
def code (t : DataType) : Nat := (Generated.dataTypes.lookup t.goName).getD 255

/-- Go's `IEDataType(n)`: any value without a `case` behaves like InvalidDataType (`default:`) -/
def ofCode (n : Nat) : DataType := (all.find? (fun t => t.code == n)).getD invalid

/-- bytes written / read by the per-type `binary.BigEndian` call or `copy` in the codec -/
def width : DataType → Option Nat
  | unsigned8 | signed8 | boolean => some 1
  | unsigned16 | signed16 => some 2
  | unsigned32 | signed32 | float32 | dateTimeSeconds => some 4
  | unsigned64 | signed64 | float64 | dateTimeMilliseconds => some 8
  | macAddress => some 6
  | ipv4Address => some 4
  | ipv6Address => some 16
  | _ => none

/-- entities.InfoElementLength[t], from the regenerated table -/
def tableLen (t : DataType) : Nat := (Generated.infoElementLength.lookup t.code).getD 0
end DataType

structure IE where
  name : String
  id   : Nat
  ty   : DataType
  ent  : Nat
  len  : Nat
  deriving DecidableEq, Repr, Inhabited

def VariableLength : Nat := Generated.cVariableLength

inductive Value where
  | num (n : Nat)
  | bool (b : Bool)
  | bytes (b : Bytes)
  deriving DecidableEq, Repr, Inhabited

/-- two's complement bit pattern of an integer at width `w` bytes -/
def twos (w : Nat) (i : Int) : Nat := (i % (256 ^ w : Nat)).toNat
/-- the integer denoted by a two's complement bit pattern -/
def ofTwos (w : Nat) (n : Nat) : Int := if 2 * n < 256 ^ w then (n : Int) else (n : Int) - (256 ^ w : Nat)

/-- reported length of a variable-length value of `n` bytes (prefix included) -/
def varLen (n : Nat) : Nat := if n < 255 then n + 1 else n + 3

/-- the variable-length prefix -/
def varPrefix (n : Nat) : Bytes := if n < 255 then [UInt8.ofNat n] else UInt8.ofNat 255 :: be 2 n

/-- `InfoElementWithValue.GetLength()` -/
def elemLength (ie : IE) (v : Value) : Nat :=
  match ie.ty, v with
  | .octetArray, .bytes b => if ie.len < VariableLength then ie.len else varLen b.length
  | .string, .bytes b => varLen b.length
  | _, _ => ie.len

def v4InV6Prefix : Bytes := [0, 0, 0, 0, 0, 0, 0, 0, 0, 0, 0xff, 0xff]

/-- net.IP.To4 -/
def to4 (ip : Bytes) : Option Bytes :=
  if ip.length = 4 then some ip
  else if ip.length = 16 ∧ ip.take 12 = v4InV6Prefix then some (ip.drop 12)
  else none

/-- net.IP.To16 -/
def to16 (ip : Bytes) : Option Bytes :=
  if ip.length = 4 then some (v4InV6Prefix ++ ip)
  else if ip.length = 16 then some ip
  else none

def encodeVar (b : Bytes) : Option Bytes :=
  if b.length < 255 then some (UInt8.ofNat b.length :: b)
  else if b.length ≤ 65535 then some (UInt8.ofNat 255 :: (be 2 b.length ++ b))
  else none

/-- `encodeInfoElementValueToBuff`: the bytes written for one element, `none` = not encodable. -/
def encodeElem (ie : IE) (v : Value) : Option Bytes :=
  match ie.ty, v with
  | .octetArray, .bytes b =>
      if ie.len < VariableLength then (if b.length = ie.len then some b else none)
      else encodeVar b
  | .string, .bytes b => encodeVar b     -- whatever length the element declares: StringInfoElement ignores it
  | .boolean, .bool b => if ie.len = 1 then some [if b then 1 else 2] else none
  | .macAddress, .bytes b => if ie.len = 6 ∧ b.length = 6 then some b else none
  | .ipv4Address, .bytes b => if ie.len = 4 then to4 b else none
  | .ipv6Address, .bytes b => if ie.len = 16 then to16 b else none
  | t, .num n =>
      match t with
      | .unsigned8 | .unsigned16 | .unsigned32 | .unsigned64
      | .signed8 | .signed16 | .signed32 | .signed64
      | .float32 | .float64 | .dateTimeSeconds | .dateTimeMilliseconds =>
          match t.width with
          | some w => if ie.len = w ∧ n < 256 ^ w then some (be w n) else none
          | none => none
      | _ => none
  | _, _ => none

/-- `DecodeAndCreateInfoElementWithValue(ie, bs)` for a non-nil slice `bs`. -/
def decodeElem (ie : IE) (bs : Bytes) : Outcome Value :=
  match ie.ty with
  | .octetArray | .string | .macAddress | .ipv4Address | .ipv6Address => .ok (.bytes bs)
  | .boolean =>
      match bs with
      | [] => .panic
      | b :: _ => .ok (.bool (b == 1))
  | .dateTimeMicroseconds | .dateTimeNanoseconds
  | .basicList | .subTemplateList | .subTemplateMultiList | .invalid => .err
  | t =>
      match t.width with
      | some w => if bs.length < w then .panic else .ok (.num (unbe (bs.take w)))
      | none => .err

/-- `DecodeAndCreateInfoElementWithValue(ie, nil)`: the zero value used in template records;
    fails exactly for the types the codec does not support. -/
def zeroValue (ie : IE) : Outcome Value :=
  match ie.ty with
  | .octetArray | .string | .macAddress | .ipv4Address | .ipv6Address => .ok (.bytes [])
  | .boolean => .ok (.bool false)
  | .dateTimeMicroseconds | .dateTimeNanoseconds
  | .basicList | .subTemplateList | .subTemplateMultiList | .invalid => .err
  | _ => .ok (.num 0)

/-- `getFieldLength` (for variable-length elements) or the template length: the number of value
    bytes and the buffer after the prefix. -/
def readFieldLength (ie : IE) (buf : Bytes) : Outcome (Nat × Bytes) :=
  if ie.len = VariableLength then
    match buf with
    | [] => .err
    | l :: r =>
      if l.toNat < 255 then .ok (l.toNat, r)
      else match r with
        | hi :: lo :: r' => .ok (hi.toNat * 256 + lo.toNat, r')
        | _ => .err
  else .ok (ie.len, buf)

/-- one field of a data record as `decodeDataSet` consumes it: value and remaining buffer -/
def decodeField (ie : IE) (buf : Bytes) : Outcome (Value × Bytes) :=
  readFieldLength ie buf >>= fun (n, r) =>
    if r.length < n then .err
    else decodeElem ie (r.take n) >>= fun v => .ok (v, r.drop n)

/-- what a template contributes to the minimum data record length -/
def IE.minLen (ie : IE) : Nat := if ie.len = VariableLength then 1 else ie.len

/-- an element as the registry defines them: fixed-width types carry their natural width,
    strings are variable-length; octet arrays may be fixed or variable. -/
def IE.WF (ie : IE) : Prop :=
  match ie.ty with
  | .octetArray => 0 < ie.len ∧ ie.len ≤ VariableLength
  | .string => ie.len = VariableLength
  | t => match t.width with
    | some w => ie.len = w
    | none => True

instance (ie : IE) : Decidable ie.WF := by
  unfold IE.WF; cases ie.ty <;> simp only [DataType.width] <;> infer_instance

/-- a value the element can carry (what the typed constructors `NewXInfoElement` accept and
    the encoder can represent). -/
def WellTyped (ie : IE) (v : Value) : Prop := ie.WF ∧ (encodeElem ie v).isSome

instance (ie : IE) (v : Value) : Decidable (WellTyped ie v) := by unfold WellTyped; infer_instance

end Ipfix
