/-
  container/heap on a slice, exactly as the Go standard library implements it (heap.Push, heap.Pop,
  heap.Fix with their `up` / `down` sift loops), over `Array α` with a key function; `Less(i, j)` is
  `key a[i] < key a[j]` (pkg/intermediate/priorityqueue.go: strict `Before` on the smaller of the
  two deadlines). The loops are structurally recursive on a fuel argument that the callers set
  to the array size (each iteration moves strictly up resp. down the tree).
-/
namespace Ipfix.Heap

variable {α : Type} [Inhabited α]

/-- heap.up -/
def up (key : α → Nat) : Nat → Array α → Nat → Array α
  | 0, a, _ => a
  | fuel+1, a, j =>
    if j = 0 then a
    else
      let i := (j - 1) / 2
      if key a[j]! < key a[i]! then up key fuel (a.swapIfInBounds i j) i else a

/-- heap.down on the prefix of length `n`; returns the array and the final position -/
def down (key : α → Nat) : Nat → Array α → Nat → Nat → Array α × Nat
  | 0, a, i, _ => (a, i)
  | fuel+1, a, i, n =>
    let j1 := 2 * i + 1
    if j1 ≥ n then (a, i)
    else
      let j := if j1 + 1 < n ∧ key a[j1 + 1]! < key a[j1]! then j1 + 1 else j1
      if key a[j]! < key a[i]! then down key fuel (a.swapIfInBounds i j) j n else (a, i)

/-- heap.Push -/
def push (key : α → Nat) (a : Array α) (x : α) : Array α :=
  up key (a.size + 1) (a.push x) a.size

/-- heap.Pop: the popped element and the remaining heap (`none` on an empty heap, where Go panics) -/
def pop (key : α → Nat) (a : Array α) : Option (α × Array α) :=
  if a.size = 0 then none
  else
    let n := a.size - 1
    let a1 := a.swapIfInBounds 0 n
    let a2 := (down key (n + 1) a1 0 n).1
    some (a2[n]!, a2.pop)

/-- heap.Fix -/
def fix (key : α → Nat) (a : Array α) (i : Nat) : Array α :=
  let r := down key (a.size + 1) a i a.size
  if r.2 > i then r.1 else up key (a.size + 1) a i

/-- the heap invariant container/heap maintains -/
def Ordered (key : α → Nat) (a : Array α) : Prop :=
  ∀ j, 0 < j → j < a.size → key a[(j - 1) / 2]! ≤ key a[j]!

end Ipfix.Heap
