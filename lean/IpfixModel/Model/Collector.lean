/-
  The collecting process's decoder: pkg/collector/process.go decodePacket, decodeTemplateSet,
  decodeDataSet, addTemplate / deleteTemplate / getTemplateIEs (template lifetime timers are
  modelled separately in Model/Timers.lean).

  Modelled, not verified: bytes.Buffer (Next n = take/drop, ReadByte), util.Decode =
  encoding/binary.Read (fails when fewer bytes are left than requested; a short read
  consumes what is left - irrelevant here because every failure aborts the packet),
  Go maps as association lists keyed by (observation domain, template id).
-/
import IpfixModel.Model.IE
namespace Ipfix

inductive Mode where
  | strict | keep | drop
  deriving DecidableEq, Repr, Inhabited

abbrev Template := List IE

def minRecordLen (tpl : Template) : Nat := (tpl.map IE.minLen).sum

/-- one data record: every template field in order; in drop mode nameless (unknown) elements are
    consumed but not delivered. -/
def decodeRecord (mode : Mode) : Template → Bytes → Outcome (List Value × Bytes)
  | [], b => .ok ([], b)
  | ie :: t, b =>
    decodeField ie b >>= fun (v, r) =>
    decodeRecord mode t r >>= fun (vs, r') =>
    if mode = .drop ∧ ie.name = "" then .ok (vs, r') else .ok (v :: vs, r')

/-- the record loop of decodeDataSet: `for dataBuffer.Len() >= minRecordLen`; `fuel` bounds the
    number of iterations (running out of fuel is the `diverge` outcome). -/
def decodeRecordsFuel (mode : Mode) (tpl : Template) : Nat → Bytes → Outcome (List (List Value))
  | 0, _ => .diverge
  | fuel+1, b =>
    if b.length < minRecordLen tpl then .ok []
    else
      decodeRecord mode tpl b >>= fun (r, rest) =>
      decodeRecordsFuel mode tpl fuel rest >>= fun rs =>
      .ok (r :: rs)

/-- decodeDataSet once the template is known -/
def decodeRecords (mode : Mode) (tpl : Template) (body : Bytes) : Outcome (List (List Value)) :=
  if minRecordLen tpl = 0 then .err
  else decodeRecordsFuel mode tpl (body.length + 1) body

/-- one field specifier of a template record (the closure `decodeField` of decodeTemplateSet);
    `lookup` is registry.GetInfoElementFromID. -/
def decodeSpecifier (lookup : Nat → Nat → Option IE) (mode : Mode) (b : Bytes) : Outcome (IE × Bytes) :=
  match b with
  | i0 :: i1 :: l0 :: l1 :: r =>
    let elen := l0.toNat * 256 + l1.toNat
    if i0.toNat / 128 = 1 then
      match r with
      | e0 :: e1 :: e2 :: e3 :: r' =>
        let ent := unbe [e0, e1, e2, e3]
        let id := (i0.toNat % 128) * 256 + i1.toNat
        match lookup ent id with
        | some ie => (zeroValue ie) >>= fun _ => .ok (ie, r')
        | none =>
          if mode = .strict then .err
          else if elen = 0 then .err
          else .ok ({ name := "", id := id, ty := .octetArray, ent := ent, len := elen }, r')
      | _ => .err
    else
      let id := i0.toNat * 256 + i1.toNat
      match lookup 0 id with
      | some ie => (zeroValue ie) >>= fun _ => .ok (ie, r)
      | none =>
        if mode = .strict then .err
        else if elen = 0 then .err
        else .ok ({ name := "", id := id, ty := .octetArray, ent := 0, len := elen }, r)
  | _ => .err

def decodeSpecifiers (lookup : Nat → Nat → Option IE) (mode : Mode) : Nat → Bytes → Outcome (List IE)
  | 0, _ => .ok []
  | n+1, b =>
    decodeSpecifier lookup mode b >>= fun (ie, r) =>
    decodeSpecifiers lookup mode n r >>= fun ies => .ok (ie :: ies)

abbrev TKey := Nat × Nat   -- (observation domain, template id)

structure CState where
  templates : List (TKey × Template) := []
  deriving Repr

def CState.lookup (s : CState) (k : TKey) : Option Template :=
  (s.templates.find? (fun p => p.1 == k)).map (·.2)

def CState.erase (s : CState) (k : TKey) : CState :=
  { s with templates := s.templates.filter (fun p => p.1 != k) }

def CState.insert (s : CState) (k : TKey) (t : Template) : CState :=
  { templates := (k, t) :: (s.erase k).templates }

structure Header where
  version : Nat
  length : Nat
  exportTime : Nat
  seq : Nat
  dom : Nat
  setID : Nat
  setLen : Nat
  deriving Repr, DecidableEq

/-- the 20 bytes decodePacket reads first: message header + set header -/
def parseHeader (b : Bytes) : Option (Header × Bytes) :=
  if b.length < 20 then none
  else some ({ version := unbe (b.take 2), length := unbe ((b.drop 2).take 2),
               exportTime := unbe ((b.drop 4).take 4), seq := unbe ((b.drop 8).take 4),
               dom := unbe ((b.drop 12).take 4), setID := unbe ((b.drop 16).take 2),
               setLen := unbe ((b.drop 18).take 2) }, b.drop 20)

inductive Decoded where
  | template (id : Nat) (fields : List IE)
  | data (id : Nat) (records : List (List Value))
  deriving Repr, DecidableEq

structure Msg where
  hdr : Header
  body : Decoded
  deriving Repr, DecidableEq

/-- decodeTemplateSet: returns the new state too (a failing template may erase an older one) -/
def decodeTemplateSet (lookup : Nat → Nat → Option IE) (mode : Mode) (s : CState) (dom : Nat)
    (body : Bytes) : CState × Outcome Decoded :=
  match body with
  | t0 :: t1 :: c0 :: c1 :: r =>
    let tid := t0.toNat * 256 + t1.toNat
    let cnt := c0.toNat * 256 + c1.toNat
    match decodeSpecifiers lookup mode cnt r with
    | .ok ies => (s.insert (dom, tid) ies, .ok (.template tid ies))
    | .err => (s.erase (dom, tid), .err)
    | .panic => (s, .panic)
    | .diverge => (s, .diverge)
  | _ => (s, .err)     -- id and field count are read in one call: nothing is erased (finding D13)

def decodeDataSet (mode : Mode) (s : CState) (dom tid : Nat) (body : Bytes) : Outcome Decoded :=
  match s.lookup (dom, tid) with
  | none => .err
  | some tpl => decodeRecords mode tpl body >>= fun recs => .ok (.data tid recs)

/-- decodePacket -/
def decodePacket (lookup : Nat → Nat → Option IE) (mode : Mode) (s : CState) (pkt : Bytes) :
    CState × Outcome Msg :=
  match parseHeader pkt with
  | none => (s, .err)
  | some (h, body) =>
    if h.version ≠ 10 then (s, .err)
    else if h.setID = Generated.cTemplateSetID then
      ((decodeTemplateSet lookup mode s h.dom body).1,
       (decodeTemplateSet lookup mode s h.dom body).2 >>= fun d => .ok { hdr := h, body := d })
    else
      (s, decodeDataSet mode s h.dom h.setID body >>= fun d => .ok { hdr := h, body := d })

end Ipfix
