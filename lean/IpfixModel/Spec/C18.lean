/-
  C18: what the property DEMANDS of every cell of the matrix, independent of what the TLS stacks and
  the configurations of the code happen to do (definitions only; this file never looks at
  `Generated.TLS`, `libCfgs` or the assumed library semantics - only at the vocabulary of the matrix:
  cells, the minted certificates, `nameMatches`, `withinValidity`).

    "With TLS configured an exporter completes a session only with a collector whose certificate
     chains to the configured CA, is within its validity period and matches the expected name or
     address, at TLS 1.2 or later; a collector configured with a client CA delivers messages only
     from exporters presenting a certificate issued by that CA. With DTLS the exporter likewise
     refuses servers it cannot verify, and no configuration with security settings present results
     in messages being accepted from, or sent over, an unencrypted session."

  `holdsOn cell obs` is evaluated by the driver on the IMPLEMENTATION's observation of every cell, and
  Props/C18 proves it for the model's own outcome on every cell of the matrix.
-/
import IpfixModel.Model.TLSDecision
namespace Ipfix.C18
open Ipfix.TLS

/-- the name or address the exporter's user expects the collector to have: `ServerName` when set,
    otherwise the host of the address that is dialled -/
def expectedName (c : Cell) : Name := (serverNameOf c.serverName).getD dialHost

def serverChains (c : Cell) : Bool := (serverCertOf c.serverCert).issuer == .trustedCA
def serverInValidity (c : Cell) : Bool := withinValidity (serverCertOf c.serverCert) now
def serverNameOK (c : Cell) : Bool := nameMatches (expectedName c) (serverCertOf c.serverCert)

/-- the peer of the exporter offers an encrypted session at all -/
def serverEncrypted (c : Cell) : Bool := c.peer != .plainSrv

/-- the highest version the exporter's peer can do (DTLS: 1.2) -/
def peerVersionOK (c : Cell) : Bool := c.transport == .dtls || decide (12 ≤ c.peer.maxVersion)

/-- the exporter MAY complete a session in this cell -/
def sessionAllowed (c : Cell) : Bool :=
  serverEncrypted c && serverChains c && serverInValidity c && serverNameOK c && peerVersionOK c

/-- the client of the collector speaks TLS / DTLS at all -/
def clientEncrypted (c : Cell) : Bool := !(c.peer == .plainCli || c.peer == .rawPlainCli)

/-- the client presents a certificate issued by the configured client CA (and usable now) -/
def clientAuthentic (c : Cell) : Bool :=
  match clientCertOf c.clientCert with
  | none => false
  | some cc => cc.issuer == .trustedCA && withinValidity cc now

/-- the collector MAY deliver a message received in this cell. Client authentication is demanded for
    "a collector configured with a client CA", which exists for TLS over TCP only: the DTLS listener
    ignores `CACert` and the exporter documents DTLS client authentication as unsupported. -/
def deliveryAllowed (c : Cell) : Bool :=
  clientEncrypted c && (!(c.transport == .tls && c.clientCA) || clientAuthentic c)

/-- the cells of the former finding D11 (repaired in /repo by 90a2eb6; no longer treated specially by
    `holdsOn`): DTLS exporter, `ServerName` unset or an IP literal, the server's certificate is issued
    by the configured CA and within validity but NOT valid for the expected name / address. Kept as
    vocabulary for `Props/C18.dtls_name_check_restored` and `d11_without_hook`. -/
def formerD11 (c : Cell) : Bool :=
  c.transport == .dtls && (c.peer == .real) &&
  (c.serverName == .unset || c.serverName == .ip || c.serverName == .badIp) &&
  serverChains c && serverInValidity c && !serverNameOK c

/-- observation of one cell (implementation's or model's) -/
structure Obs where
  initOk : Bool
  delivered : Bool
  version : Option Version
  deriving DecidableEq, Repr

def obsOf (o : Outcome) : Obs := { initOk := o.initOk, delivered := o.delivered, version := o.version }

inductive Verdict where
  | holds
  | fails (why : String)
  | na
  deriving DecidableEq, Repr

/-- the first demand a completed session violates -/
def sessionDefect (c : Cell) (o : Obs) : Option String :=
  if !serverEncrypted c then some "plaintext-session-completed"
  else if !serverChains c then some "untrusted-chain"
  else if !serverInValidity c then some "outside-validity"
  else if !serverNameOK c then some "name-mismatch"
  else if !peerVersionOK c then some "version-below-1.2"
  else match o.version with
    | some v => if v < 12 then some "version-below-1.2" else none
    | none => none

def deliveryDefect (c : Cell) : Option String :=
  if !clientEncrypted c then some "plaintext-accepted"
  else if c.transport == .tls && c.clientCA && !clientAuthentic c then some "client-not-authenticated"
  else none

/-- C18 on one cell. Safety only ("only with", "only from"): a session that does not come about is
    never a failure of C18 (that valid peers DO get through is part of the correspondence with the
    model, not of the property). -/
def holdsOn (c : Cell) (o : Obs) : Verdict :=
  if !c.valid then .na
  else if !o.initOk && o.delivered then .fails "malformed-observation"
  else
    match (if c.exporterUnderTest && o.initOk then sessionDefect c o else none) with
    | some why => .fails why
    | none =>
      -- a message that reaches an unencrypted peer of an exporter with security settings
      if c.peer == .plainSrv && o.delivered then .fails "plaintext-sent"
      else match (if c.collectorUnderTest && o.delivered then deliveryDefect c else none) with
        | some why => .fails why
        | none => .holds

/-- the demand a session completed by ONE exporter violates, judged from that exporter's own cell -/
def exporterDefect (c : Cell) (o : Obs) : Option String := if o.initOk then sessionDefect c o else none

/-- C18 on two exporters created one after the other in one process towards the same collector
    (`Ipfix.TLS.Resume`): EVERY session has to be authenticated on its own - against the CA and the name the
    exporter that completes it is configured with. What an earlier exporter of the process was configured with,
    and whether it got through, gives the later one no licence: the verdict on B never looks at A's
    configuration or observation. Safety only, as `holdsOn`. -/
def holdsOnResume (r : Resume) (a b : Obs) : Verdict :=
  if !r.valid then .na
  else if (!a.initOk && a.delivered) || (!b.initOk && b.delivered) then .fails "malformed-observation"
  else
    match exporterDefect (r.cell r.first) a with
    | some why => .fails ("first-session-" ++ why)
    | none =>
      match exporterDefect (r.cell r.second) b with
      | some why => .fails ("second-session-" ++ why)
      | none => .holds

end Ipfix.C18
