/-
  C10 - UDP template lifetime under all timer schedules. Definitions only (no proofs):

    * `Inv`        the inductive invariant of Model/Timers.lean (DESIGN.md, C10: (a), (b), (c) plus
                   the ghost/time facts), as a decidable predicate; `invB` is its Bool checker;
    * `lastRefresh`, `noBadSince`, `clock`   functions of the event history alone;
    * `StepOK` / `TraceOK`   the executable trace predicates (`noEarlyDropAt`, `usableAt`, `goneAt`,
                   `ObsInv`, ...) that the driver evaluates on the IMPLEMENTATION's observations and that
                   Props/C10.lean proves for every trace of the model.

  Histories are kept newest-first (`e :: older`).
-/
import IpfixModel.Model.Timers
namespace Ipfix.C10
open Ipfix.Timers

/-! ## the invariant -/

/-- callback c has not read the clock yet, or read a time at or after x -/
def readAtOrAfter (c : Cb) (x : Nat) : Prop :=
  match c.nowRead with
  | none => True
  | some r => x ≤ r

instance (c : Cb) (x : Nat) : Decidable (readAtOrAfter c x) := by
  unfold readAtOrAfter; split <;> infer_instance

/-- callback c would still delete template t when it finishes: it has not read the clock yet, or
    it read a time at or after t's expiry -/
def eff (c : Cb) (t : Tpl) : Prop := readAtOrAfter c t.expiry

instance (c : Cb) (t : Tpl) : Decidable (eff c t) := by
  unfold eff; infer_instance

/-- `nowRead`, if any, is not in the future -/
def readInPast (c : Cb) (now : Nat) : Prop :=
  match c.nowRead with
  | none => True
  | some r => r ≤ now

instance (c : Cb) (now : Nat) : Decidable (readInPast c now) := by
  unfold readInPast; split <;> infer_instance

structure Inv (s : TState) : Prop where
  /-- (c) the template store is a map: keys are unique -/
  keys : s.tpls.Pairwise (fun p q => p.1 ≠ q.1)
  /-- (c) object ids of stored templates are unique ... -/
  oids : s.tpls.Pairwise (fun p q => p.2.oid ≠ q.2.oid)
  /-- (c) ... and below the allocation counter -/
  oidLt : ∀ p ∈ s.tpls, p.2.oid < s.nextOid
  /-- at most one armed entry per timer object -/
  armedU : s.armed.Pairwise (fun a b => a.oid ≠ b.oid)
  /-- (b) an armed timer belongs to a stored template object (removed templates have no armed
      timer), is the timer of the key it was created for, and its deadline is that template's expiry -/
  armedOwner : ∀ a ∈ s.armed, ∃ p ∈ s.tpls, p.1 = a.key ∧ p.2.oid = a.oid ∧ p.2.expiry = a.deadline
  /-- (a) every stored template has its timer armed, or is past its expiry with an effective
      callback of its own timer in flight -/
  pendingExpiry : ∀ p ∈ s.tpls, (∃ a ∈ s.armed, a.oid = p.2.oid) ∨
      (p.2.expiry ≤ s.now ∧ ∃ c ∈ s.pending, c.oid = p.2.oid ∧ eff c p.2)
  /-- (c) owner: the key captured by a callback of a stored object's timer is that object's key -/
  cbKey : ∀ c ∈ s.pending, ∀ p ∈ s.tpls, p.2.oid = c.oid → p.1 = c.key
  cbU : s.pending.Pairwise (fun c d => c.cid ≠ d.cid)
  cbLt : ∀ c ∈ s.pending, c.cid < s.nextCid ∧ c.oid < s.nextOid
  /-- ghost: expiry = most recent (re)transmission + ttl, which is not in the future -/
  ghost : ∀ p ∈ s.tpls, p.2.expiry = p.2.refreshed + s.ttl ∧ p.2.refreshed ≤ s.now
  cbPast : ∀ c ∈ s.pending, readInPast c s.now

def InvConj (s : TState) : Prop :=
  s.tpls.Pairwise (fun p q => p.1 ≠ q.1) ∧
  s.tpls.Pairwise (fun p q => p.2.oid ≠ q.2.oid) ∧
  (∀ p ∈ s.tpls, p.2.oid < s.nextOid) ∧
  s.armed.Pairwise (fun a b => a.oid ≠ b.oid) ∧
  (∀ a ∈ s.armed, ∃ p ∈ s.tpls, p.1 = a.key ∧ p.2.oid = a.oid ∧ p.2.expiry = a.deadline) ∧
  (∀ p ∈ s.tpls, (∃ a ∈ s.armed, a.oid = p.2.oid) ∨
      (p.2.expiry ≤ s.now ∧ ∃ c ∈ s.pending, c.oid = p.2.oid ∧ eff c p.2)) ∧
  (∀ c ∈ s.pending, ∀ p ∈ s.tpls, p.2.oid = c.oid → p.1 = c.key) ∧
  s.pending.Pairwise (fun c d => c.cid ≠ d.cid) ∧
  (∀ c ∈ s.pending, c.cid < s.nextCid ∧ c.oid < s.nextOid) ∧
  (∀ p ∈ s.tpls, p.2.expiry = p.2.refreshed + s.ttl ∧ p.2.refreshed ≤ s.now) ∧
  (∀ c ∈ s.pending, readInPast c s.now)

instance (s : TState) : Decidable (InvConj s) := by unfold InvConj; infer_instance

instance (s : TState) : Decidable (Inv s) :=
  decidable_of_iff (InvConj s)
    ⟨fun ⟨a, b, c, d, e, f, g, h, i, j, k⟩ => ⟨a, b, c, d, e, f, g, h, i, j, k⟩,
     fun h => ⟨h.keys, h.oids, h.oidLt, h.armedU, h.armedOwner, h.pendingExpiry, h.cbKey, h.cbU, h.cbLt, h.ghost, h.cbPast⟩⟩

/-- Bool checker of the invariant (evaluated by the driver on every model state it reaches) -/
def invB (s : TState) : Bool := decide (Inv s)

/-- reachable states of the model -/
def Reachable (s : TState) : Prop := ∃ ttl es, s = run ttl es

/-! ## functions of the history (newest event first) -/

def clockRev : List Event → Nat
  | [] => 0
  | .advance d :: older => clockRev older + d
  | _ :: older => clockRev older

/-- the time of the most recent `tpl k` event -/
def lastRefreshRev (k : Key) : List Event → Option Nat
  | [] => none
  | .tpl k' :: older => if k' = k then some (clockRev older) else lastRefreshRev k older
  | _ :: older => lastRefreshRev k older

/-- no `badTpl k` since the most recent `tpl k` -/
def noBadSinceRev (k : Key) : List Event → Bool
  | [] => true
  | .tpl k' :: older => if k' = k then true else noBadSinceRev k older
  | .badTpl k' :: older => if k' = k then false else noBadSinceRev k older
  | _ :: older => noBadSinceRev k older

def keysOfRev : List Event → List Key
  | [] => []
  | .tpl k :: older => k :: keysOfRev older
  | _ :: older => keysOfRev older

/-- oldest-first versions -/
def clock (es : List Event) : Nat := clockRev es.reverse
def lastRefresh (es : List Event) (k : Key) : Option Nat := lastRefreshRev k es.reverse
def noBadSince (es : List Event) (k : Key) : Bool := noBadSinceRev k es.reverse

/-- "the template for k is within its lifetime": it was (re)transmitted at r, not invalidated since,
    and fewer than ttl time units have passed -/
def withinTTL (ttl : Nat) (hist : List Event) (k : Key) (now : Nat) : Prop :=
  match lastRefreshRev k hist with
  | none => False
  | some r => noBadSinceRev k hist = true ∧ now < r + ttl

instance (ttl : Nat) (hist : List Event) (k : Key) (now : Nat) : Decidable (withinTTL ttl hist k now) := by
  unfold withinTTL; split <;> infer_instance

/-! ## trace predicates on observations (implementation or model) -/

def initObs : Obs := { res := .advanced, now := 0, keys := [], armed := [], pending := [] }

/-- no template is dropped early: a key that disappears was invalidated by this very event, or its
    lifetime (measured from its most recent (re)transmission) has fully elapsed -/
def lifetimeOver (ttl : Nat) (hist : List Event) (k : Key) (now : Nat) : Prop :=
  match lastRefreshRev k hist with
  | none => False
  | some r => r + ttl ≤ now

instance (ttl : Nat) (hist : List Event) (k : Key) (now : Nat) : Decidable (lifetimeOver ttl hist k now) := by
  unfold lifetimeOver; split <;> infer_instance

def noEarlyDropAt (ttl : Nat) (hist : List Event) (before : Obs) (e : Event) (after : Obs) : Prop :=
  ∀ k ∈ before.keys, k ∉ after.keys → e = .badTpl k ∨ lifetimeOver ttl hist k before.now

instance (ttl : Nat) (hist : List Event) (before : Obs) (e : Event) (after : Obs) :
    Decidable (noEarlyDropAt ttl hist before e after) := by
  unfold noEarlyDropAt; infer_instance

/-- within its lifetime a template is stored (hence data for it is accepted) -/
def usableAt (ttl : Nat) (hist' : List Event) (after : Obs) : Prop :=
  ∀ k ∈ keysOfRev hist', withinTTL ttl hist' k after.now → k ∈ after.keys

instance (ttl : Nat) (hist' : List Event) (after : Obs) : Decidable (usableAt ttl hist' after) := by
  unfold usableAt; infer_instance

/-- the callback that read a time at or after the expiry has finished => the template is gone -/
def goneCb (ttl : Nat) (hist : List Event) (after : Obs) (cb : Cb) : Prop :=
  match cb.nowRead, lastRefreshRev cb.key hist with
  | some r, some lr => lr + ttl ≤ r → cb.key ∉ after.keys
  | _, _ => True

instance (ttl : Nat) (hist : List Event) (after : Obs) (cb : Cb) : Decidable (goneCb ttl hist after cb) := by
  unfold goneCb; split <;> infer_instance

def goneAt (ttl : Nat) (hist : List Event) (before : Obs) (e : Event) (after : Obs) : Prop :=
  match e with
  | .cbFinish c => ∀ cb ∈ before.pending, cb.cid = c → goneCb ttl hist after cb
  | _ => True

instance (ttl : Nat) (hist : List Event) (before : Obs) (e : Event) (after : Obs) :
    Decidable (goneAt ttl hist before e after) := by
  unfold goneAt; split <;> infer_instance

/-- data is accepted iff a template is stored under its key; it changes nothing -/
def dataAt (before : Obs) (e : Event) (after : Obs) : Prop :=
  match e with
  | .data k => (after.res = .accepted ∧ k ∈ before.keys ∨ after.res = .rejected ∧ k ∉ before.keys)
  | _ => True

instance (before : Obs) (e : Event) (after : Obs) : Decidable (dataAt before e after) := by
  unfold dataAt; split <;> infer_instance

/-- stored key k has an expiry pending: its own timer armed with deadline = last refresh + ttl, or
    it is past that time and a callback for k is in flight that has not read the clock yet or read
    a time at or after it -/
def expiryPendingAt (o : Obs) (k : Key) (x : Nat) : Prop :=
  (∃ a ∈ o.armed, a.key = k ∧ a.deadline = x) ∨
  (x ≤ o.now ∧ ∃ c ∈ o.pending, c.key = k ∧ readAtOrAfter c x)

instance (o : Obs) (k : Key) (x : Nat) : Decidable (expiryPendingAt o k x) := by
  unfold expiryPendingAt; infer_instance

def expiryPendingObs (ttl : Nat) (hist' : List Event) (o : Obs) (k : Key) : Prop :=
  match lastRefreshRev k hist' with
  | none => False
  | some lr => expiryPendingAt o k (lr + ttl)

instance (ttl : Nat) (hist' : List Event) (o : Obs) (k : Key) : Decidable (expiryPendingObs ttl hist' o k) := by
  unfold expiryPendingObs; split <;> infer_instance

/-- the observable projection of `Inv` -/
structure ObsInv (ttl : Nat) (hist' : List Event) (o : Obs) : Prop where
  keysNodup : o.keys.Pairwise (· ≠ ·)
  storedPending : ∀ k ∈ o.keys, expiryPendingObs ttl hist' o k
  armedStored : ∀ a ∈ o.armed, a.key ∈ o.keys
  armedOids : o.armed.Pairwise (fun a b => a.oid ≠ b.oid)
  armedKeys : o.armed.Pairwise (fun a b => a.key ≠ b.key)
  cbPast : ∀ c ∈ o.pending, readInPast c o.now
  clockOK : o.now = clockRev hist'

inductive Why where
  | keysNodup | storedPending | armedStored | armedOids | armedKeys | cbPast | clockOK
  | noEarlyDrop | usable | gone | data
  deriving DecidableEq, Repr

def Why.name : Why → String
  | .keysNodup => "stored-keys-not-distinct"
  | .storedPending => "stored-template-without-pending-expiry"
  | .armedStored => "armed-timer-of-removed-template"
  | .armedOids => "timer-armed-twice"
  | .armedKeys => "two-armed-timers-for-one-key"
  | .cbPast => "callback-read-future-time"
  | .clockOK => "clock-mismatch"
  | .noEarlyDrop => "dropped-early"
  | .usable => "not-usable-within-ttl"
  | .gone => "outlived-lifetime-after-timer-ran"
  | .data => "data-acceptance-differs-from-stored"

/-- everything demanded of one observed step -/
structure StepOK (ttl : Nat) (hist : List Event) (before : Obs) (e : Event) (after : Obs) : Prop where
  inv : ObsInv ttl (e :: hist) after
  noEarlyDrop : noEarlyDropAt ttl hist before e after
  usable : usableAt ttl (e :: hist) after
  gone : goneAt ttl hist before e after
  data : dataAt before e after

/-- every demand with its outcome, in the order they are reported -/
def checks (ttl : Nat) (hist : List Event) (before : Obs) (e : Event) (after : Obs) : List (Why × Bool) :=
  [ (.keysNodup, decide (after.keys.Pairwise (· ≠ ·))),
    (.clockOK, decide (after.now = clockRev (e :: hist))),
    (.noEarlyDrop, decide (noEarlyDropAt ttl hist before e after)),
    (.usable, decide (usableAt ttl (e :: hist) after)),
    (.gone, decide (goneAt ttl hist before e after)),
    (.data, decide (dataAt before e after)),
    (.armedStored, decide (∀ a ∈ after.armed, a.key ∈ after.keys)),
    (.armedOids, decide (after.armed.Pairwise (fun a b => a.oid ≠ b.oid))),
    (.armedKeys, decide (after.armed.Pairwise (fun a b => a.key ≠ b.key))),
    (.storedPending, decide (∀ k ∈ after.keys, expiryPendingObs ttl (e :: hist) after k)),
    (.cbPast, decide (∀ c ∈ after.pending, readInPast c after.now)) ]

/-- first demand that fails, if any (this is what `chk` prints) -/
def verdict (ttl : Nat) (hist : List Event) (before : Obs) (e : Event) (after : Obs) : Option Why :=
  ((checks ttl hist before e after).find? (fun c => !c.2)).map (·.1)

/-- a whole observed trace, oldest first, from the history `hist` / observation `before` -/
def TraceOKFrom (ttl : Nat) : List Event → Obs → List (Event × Obs) → Prop
  | _, _, [] => True
  | hist, before, (e, after) :: rest => StepOK ttl hist before e after ∧ TraceOKFrom ttl (e :: hist) after rest

def TraceOK (ttl : Nat) (tr : List (Event × Obs)) : Prop := TraceOKFrom ttl [] initObs tr

end Ipfix.C10
