/-
  Specification side of the exporter properties C02, C08, C09 (definitions only):
  an independent RFC 7011 message parser applied to the bytes the implementation wrote, and a
  tracker of what has been transmitted so far.
-/
import IpfixModel.Model.Collector
import IpfixModel.Model.Exporter
import IpfixModel.Spec.C15
namespace Ipfix.ExpSpec

structure WireMsg where
  version : Nat
  length : Nat
  time : Nat
  seq : Nat
  dom : Nat
  setId : Nat
  setLen : Nat
  body : Bytes
  deriving Repr

def u16 (b : Bytes) : Nat := match b with | a :: c :: _ => a.toNat * 256 + c.toNat | _ => 0
def u32 (b : Bytes) : Nat := match b with | a :: c :: d :: e :: _ => ((a.toNat * 256 + c.toNat) * 256 + d.toNat) * 256 + e.toNat | _ => 0

/-- RFC 7011 section 3.1 message header + 3.3.2 set header; exactly one set is expected -/
def parseMessage (w : Bytes) : Option WireMsg :=
  if w.length < 20 then none
  else some { version := u16 w, length := u16 (w.drop 2), time := u32 (w.drop 4), seq := u32 (w.drop 8),
              dom := u32 (w.drop 12), setId := u16 (w.drop 16), setLen := u16 (w.drop 18), body := w.drop 20 }

/-- field specifier: (element id, field length, enterprise number if the enterprise bit is set) -/
abbrev Spec := Nat × Nat × Option Nat

def parseSpecs : Nat → Bytes → Option (List Spec × Bytes)
  | 0, b => some ([], b)
  | n+1, i0 :: i1 :: l0 :: l1 :: r =>
    if i0.toNat ≥ 128 then
      match r with
      | e0 :: e1 :: e2 :: e3 :: r' =>
        (parseSpecs n r').map fun (t, rest) =>
          (((i0.toNat - 128) * 256 + i1.toNat, l0.toNat * 256 + l1.toNat, some (u32 [e0, e1, e2, e3])) :: t, rest)
      | _ => none
    else (parseSpecs n r).map fun (t, rest) => ((i0.toNat * 256 + i1.toNat, l0.toNat * 256 + l1.toNat, none) :: t, rest)
  | _+1, _ => none

/-- all template records of a template set body (fuel = body length) -/
def parseTemplateRecords : Nat → Bytes → Option (List (Nat × List Spec))
  | _, [] => some []
  | 0, _ => none
  | f+1, b =>
    match b with
    | t0 :: t1 :: c0 :: c1 :: r =>
      match parseSpecs (c0.toNat * 256 + c1.toNat) r with
      | some (specs, rest) => (parseTemplateRecords f rest).map fun t => (t0.toNat * 256 + t1.toNat, specs) :: t
      | none => none
    | _ => none

def expectedSpec (ie : IE) : Spec := (ie.id, ie.len, if ie.ent ≠ 0 then some ie.ent else none)

/-- what has been transmitted on this exporting process so far -/
structure Tracker where
  dom : Nat := 0
  /-- number of data records in data messages transmitted so far, modulo 2^32 (+ the start value) -/
  seq : Nat := 0
  /-- every template transmitted so far, most recent first -/
  sent : List (Nat × List IE) := []
  /-- the session runs in JSON mode (`exp new <dom> json`) -/
  json : Bool := false
  /-- the outcome the connection was told to give to its next Write (`exp failnext`), not yet used up -/
  pending : Option WriteOutcome := none
  deriving Repr

inductive Obs where
  | ok (n : Nat) (wire : List Bytes) (timeOK : Bool)
  | err (wire : List Bytes)
  | builderr
  | other
  deriving Repr

def allWellTyped (recs : List (Nat × List Elem)) : Bool :=
  recs.all fun r => r.2.all fun e => decide (WellTyped e.1 e.2)

/-- C02 on one transmitted message: header, single set, records as the independent parser sees them -/
def wireVerdict (t : Tracker) (d : SetDesc) (w : Bytes) : String :=
  match parseMessage w with
  | none => "c02:short-message"
  | some m =>
    if m.version ≠ 10 then "c02:version"
    else if m.length ≠ w.length then "c02:header-length"
    else if m.dom ≠ t.dom then "c02:domain"
    else if m.setLen ≠ w.length - 16 then "c02:set-length"
    else match d.ty with
      | .template =>
        if m.setId ≠ 2 then "c02:template-set-id"
        else match parseTemplateRecords m.body.length m.body with
          | none => "c02:template-records-unparsable"
          | some recs =>
            if recs == d.recs.map (fun r => (r.1, r.2.map (fun e => expectedSpec e.1))) then "ok"
            else "c02:template-records"
      | .data =>
        if m.setId ≠ d.setId then "c02:data-set-id"
        else
          -- the template in force for the collector: the most recent one sent with the set's id
          match t.sent.find? (·.1 == d.setId) with
          | none => "c09:data-for-unsent-template"
          | some (_, ies) =>
            if !(d.recs.all fun r => r.2.length == ies.length) then "c09:field-count"
            else match decodeRecords .keep ies m.body with
              | .ok vals =>
                if vals == d.recs.map (fun r => r.2.map (fun e => C15.canon e.1 e.2)) then "ok"
                else "c09:values-altered"
              | _ => "c02:data-records-unparsable"
      | _ => "c02:unexpected-set-type"

/-- verdict for one `exp send` operation, and the tracker afterwards -/
def sendVerdict (t : Tracker) (d : SetDesc) (o : Obs) : Tracker × String :=
  match o with
  | .builderr => (t, "holds")
  | .other => (t, "fails obs")
  | .err wire => if wire.isEmpty then (t, "holds") else (t, "fails c09:error-but-bytes-written")
  | .ok n wire timeOK =>
    match wire with
    | [w] =>
      let t' : Tracker :=
        match d.ty with
        | .data => { t with seq := (t.seq + d.recs.length) % 4294967296 }
        | .template => { t with sent := (d.recs.map fun r => (r.1, r.2.map (·.1))).reverse ++ t.sent }
        | _ => t
      if n ≠ w.length then (t', "fails c08:byte-count")
      else if w.length > 65535 then (t', "fails c09:oversize")
      else if !timeOK then (t', "fails c08:export-time")
      else if d.ty = .data ∧ !(allWellTyped d.recs) then (t', "fails c09:ill-typed-value-transmitted")
      else
        let v := wireVerdict t d w
        if v ≠ "ok" then (t', "fails " ++ v)
        else match parseMessage w with
          | some m => if m.seq ≠ t'.seq then (t', s!"fails c08:sequence expected {t'.seq} got {m.seq}") else (t', "holds")
          | none => (t', "fails c02:short-message")
    | _ => (t, "fails c08:not-exactly-one-message")

/-- the templates a refresh must re-send: every id transmitted so far once, with its FIRST definition
    (`sent` is most recent first; updateTemplate keeps the first definition of an id) -/
def refreshExpected (t : Tracker) : List (Nat × List IE) :=
  t.sent.reverse.foldl (fun acc p => if acc.any (·.1 == p.1) then acc else acc ++ [p]) []

/-- the template id a message announces (first record of its set), for matching messages to templates -/
def announcedTid (w : Bytes) : Option Nat :=
  match parseMessage w with
  | some m => match m.body with
    | a :: b :: _ => some (a.toNat * 256 + b.toNat)
    | _ => none
  | none => none

/-- C02 / C08 on one pass of the template refresher (UDP): exactly one message per template
    transmitted so far, each a well-formed template message (independent parser: version, lengths,
    domain, set id 2, the template's specifiers) stamped with the unchanged sequence number -/
def refreshVerdict (t : Tracker) (wires : List Bytes) (timeOK : Bool) : String :=
  let exp := refreshExpected t
  if wires.length ≠ exp.length then s!"fails c02:refresh-count expected {exp.length} got {wires.length}"
  else if !timeOK then "fails c08:export-time"
  else
    let bad := exp.filterMap fun p =>
      match wires.filter (fun w => announcedTid w == some p.1) with
      | [w] =>
        let d : SetDesc := { ty := .template, setId := p.1, recs := [(p.1, p.2.map fun ie => (ie, Value.num 0))] }
        let v := wireVerdict t d w
        if v ≠ "ok" then some s!"{v} (template {p.1})"
        else match parseMessage w with
          | some m => if m.seq ≠ t.seq then some s!"c08:sequence expected {t.seq} got {m.seq}" else none
          | none => some "c02:short-message"
      | _ => some s!"c02:refresh-not-exactly-one-message-for-template {p.1}"
    match bad with
    | [] => "holds"
    | b :: _ => "fails " ++ b

/-! ## Sends whose Write was made to fail, and JSON mode (C09) -/

/-- why C09 demands that SendSet refuses the set (returns an error, writes nothing) - judged on what
    was handed to SendSet and on what was SENT before (a template counts as sent only when its
    SendSet reported success): Undefined set type; a record for another template than the set's;
    no template with the set's id sent; a record without that template's field count -/
def refusalReason (t : Tracker) (d : SetDesc) : Option String :=
  match d.ty with
  | .undefined => some "c09:undefined-set-type"
  | .data =>
    if d.recs.any (fun r => r.1 != d.setId) then some "c09:set-id-mismatch"
    else match t.sent.find? (·.1 == d.setId) with
      | none => some "c09:data-for-unsent-template"
      | some (_, ies) =>
        if !(d.recs.all fun r => r.2.length == ies.length) then some "c09:field-count" else none
  | _ => none

def refusalExpected (t : Tracker) (d : SetDesc) : Bool := (refusalReason t d).isSome

/-- verdict for one `exp send` in IPFIX mode; `injected` = the connection reports that it gave the
    pending `failnext` outcome to a Write of this call. A Write that failed must leave nothing on the
    wire, a short one at most its `k` bytes (one write); either way the send must be an error, and the
    tracker does NOT count a template as sent (`sendVerdict` adds it only on a reported success), so a
    data set for it that is transmitted later is `c09:data-for-unsent-template`. -/
def sendVerdictW (t : Tracker) (d : SetDesc) (o : Obs) (injected : Bool) : Tracker × String :=
  if !injected then sendVerdict t d o
  else
    let t0 := { t with pending := none }
    match t.pending with
    | none => (t0, "fails obs:injected-without-failnext")
    | some .ok => sendVerdict t0 d o
    | some .fail =>
      match o with
      | .err wire => if wire.isEmpty then (t0, "holds") else (t0, "fails c09:error-but-bytes-written")
      | .ok _ _ _ => (t0, "fails c09:success-reported-for-failed-write")
      | _ => (t0, "fails obs")
    | some (.short k) =>
      match o with
      | .err wire =>
        match wire with
        | [] => (t0, if k = 0 then "holds" else "fails c09:short-write-lost")
        | [w] => (t0, if w.length = k then "holds" else "fails c09:error-but-bytes-written")
        | _ => (t0, "fails c09:error-but-bytes-written")
      | .ok _ wire _ =>
        -- only a "short" write of the whole message (k ≥ its length: the connection wrote all of it) is a
        -- success; a shorter one that is reported as success fails `sendVerdict` (header length ≠ bytes written)
        match wire with
        | [w] => if w.length ≤ k then sendVerdict t0 d o else (t0, "fails c09:success-reported-for-short-write")
        | _ => (t0, "fails c09:success-reported-for-short-write")
      | _ => (t0, "fails obs")

/-- what a JSON-mode send shows: writes made and whether SendSet returned an error (the text is not judged) -/
inductive ObsJ where
  | ok (writes : Nat)
  | err (writes : Nat)
  | builderr
  | other
  deriving Repr

/-- verdict for one `exp send` of a JSON session: the refusal demand of C09 exactly as in IPFIX mode
    (`refusalReason`); the wire-format demands (C02, C08) do not apply. A template set writes nothing
    and counts as sent once SendSet reported success. -/
def sendVerdictJ (t : Tracker) (d : SetDesc) (o : ObsJ) (injected : Bool) : Tracker × String :=
  let t0 := if injected then { t with pending := none } else t
  match o with
  | .builderr => (t0, "holds")
  | .other => (t0, "fails obs")
  | .err n =>
    if n = 0 then (t0, "holds")
    else match refusalReason t d with
      | some r => (t0, "fails " ++ r ++ " error-but-bytes-written")
      | none => (t0, "holds")
  | .ok n =>
    match d.ty with
    | .template =>
      let t' := { t0 with sent := (d.recs.map fun r => (r.1, r.2.map (·.1))).reverse ++ t0.sent }
      if n ≠ 0 then (t', "fails c09:json-template-written") else (t', "holds")
    | .data =>
      if n = 0 then (t0, "holds")
      else match refusalReason t d with
        | some r => (t0, "fails " ++ r)
        | none => if n ≠ d.recs.length then (t0, "fails c09:json-write-count") else (t0, "holds")
    | _ => if n = 0 then (t0, "holds") else (t0, "fails c09:undefined-set-type")

end Ipfix.ExpSpec
