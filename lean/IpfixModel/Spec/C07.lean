/-
  C07: correlation specification evaluated on the implementation's observations (definitions only).
  Per flow key the tracker remembers the first record (which creates the flow), whether the flow
  needs correlation, and the first record from the other node (which correlates it).
-/
import IpfixModel.Model.Agg
namespace Ipfix.C07
open Agg

structure FlowInfo where
  key : Nat
  needs : Bool
  first : List CorrV
  firstFromSrc : Bool
  other : Option (List CorrV) := none
  flowType : Nat
  /-- an upper bound on the flow's active deadline: creation time, or the time of the last scan, + the active timeout -/
  deadlineUB : Nat := 0
  /-- the number of complete scans that found the flow certainly due (scan time >= `deadlineUB`) and still waiting -/
  dueScans : Nat := 0
  deriving Repr, Inhabited

structure Tracker where
  flows : List FlowInfo := []
  /-- the virtual clock (`agg adv`) and the active timeout of the session (`agg new`) -/
  now : Nat := 0
  activeT : Nat := 0
  /-- the session left the specification's domain (a record whose template lacks elements, `omit=`):
      nothing is judged until the next session starts -/
  off : Bool := false
  deriving Repr, Inhabited

def Tracker.find (t : Tracker) (k : Nat) : Option FlowInfo := t.flows.find? (·.key == k)

/-- a record arrives -/
def Tracker.onRecord (t : Tracker) (r : InRec) : Tracker :=
  match t.find r.key with
  | none =>
    let f : FlowInfo := { key := r.key, needs := corrRequired r.flowType r.corr, first := r.corr,
                          firstFromSrc := fromSrc r.corr, flowType := r.flowType, deadlineUB := t.now + t.activeT }
    { t with flows := t.flows ++ [f] }
  | some f =>
    -- the first record from the other node of a flow that waits for correlation correlates it
    if f.needs && f.other.isNone && corrRequired r.flowType r.corr && !sameNode r.corr f.first then
      { t with flows := t.flows.map fun g => if g.key == r.key then { g with other := some r.corr } else g }
    else t

/-- "retried a bounded number of times and then dropped": an expiry scan at time `now`. `complete` = no callback can
    fail in it, so every due item is examined. A flow that still waits for its other node and is CERTAINLY due (its active
    deadline is at most `deadlineUB`) has been examined once more; the scan after the last retry must drop it - the
    tracker forgets it, and a record shown for it later (with no arrival in between) is an `unknown-flow`. Whatever the
    scan did to a waiting flow, its active deadline is at most now + the active timeout afterwards. -/
def Tracker.onScan (t : Tracker) (complete : Bool) : Tracker :=
  { t with flows := t.flows.filterMap fun f =>
      if f.needs && f.other.isNone then
        if complete && f.deadlineUB ≤ t.now then
          if f.dueScans + 1 > Generated.cMaxRetries then none
          else some { f with dueScans := f.dueScans + 1, deadlineUB := t.now + t.activeT }
        else some { f with deadlineUB := t.now + t.activeT }
      else some f }

def Tracker.drop (t : Tracker) (k : Nat) : Tracker := { t with flows := t.flows.filter (·.key != k) }

/-- what an exported / dumped aggregated record shows -/
structure Shown where
  key : Nat
  corr : List CorrV
  ready : Bool
  filled : Bool
  deriving Repr

/-- the property on one shown record: ready exactly when no correlation is needed or both sides
    were seen; when correlated, every correlate field that is non-empty on either side is non-empty
    in the merged record and comes from one of the two (a field a record lacks, `CorrV.absent`, counts
    as empty); the merged record carries a field exactly when one of the two records carries it, and
    every carried value is that of one of the two; `filled` as documented -/
def checkShown (t : Tracker) (s : Shown) : Option String :=
  match t.find s.key with
  | none => some "unknown-flow"
  | some f =>
    let expectReady := !f.needs || f.other.isSome
    if s.ready != expectReady then some (if s.ready then "ready-before-both-sides" else "withheld-although-complete")
    else
      let expectFilled := if f.needs then f.other.isSome else f.flowType != Generated.cFlowTypeInterNode
      if s.filled != expectFilled then some "filled-flag"
      else match f.other with
        | none => if s.corr == f.first then none else some "fields-changed-without-correlation"
        | some o =>
          let triples := (f.first.zip o).zip s.corr
          if triples.length != f.first.length then some "field-count"
          else if triples.any (fun p => (!(p.1.1.isEmpty) || !(p.1.2.isEmpty)) && (p.2.isEmpty || !(p.2 == p.1.1 || p.2 == p.1.2)))
          then some "merged-field-lost"
          else if triples.any (fun p => p.2.isAbsent != (p.1.1.isAbsent && p.1.2.isAbsent)) then some "merged-field-presence"
          else if triples.any (fun p => !(p.2 == p.1.1 || p.2 == p.1.2)) then some "merged-field-foreign"
          else none

end Ipfix.C07
