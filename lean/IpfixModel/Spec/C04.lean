/-
  C04: the declarative template bookkeeping the property states (definitions only).
  `decodePacketSpec` is `decodePacket` except that ANY template set whose template id is readable
  (body of at least 2 bytes) and which then fails to decode erases the older template with that id.
  The code differs exactly when the body ends after the id (2 or 3 bytes): finding D13.
-/
import IpfixModel.Model.Collector
namespace Ipfix.C04

def decodeTemplateSetSpec (lookup : Nat → Nat → Option IE) (mode : Mode) (s : CState) (dom : Nat)
    (body : Bytes) : CState × Outcome Decoded :=
  match body with
  | t0 :: t1 :: rest =>
    let tid := t0.toNat * 256 + t1.toNat
    match rest with
    | c0 :: c1 :: r =>
      let cnt := c0.toNat * 256 + c1.toNat
      match decodeSpecifiers lookup mode cnt r with
      | .ok ies => (s.insert (dom, tid) ies, .ok (.template tid ies))
      | .err => (s.erase (dom, tid), .err)
      | .panic => (s, .panic)
      | .diverge => (s, .diverge)
    | _ => (s.erase (dom, tid), .err)
  | _ => (s, .err)

def decodePacketSpec (lookup : Nat → Nat → Option IE) (mode : Mode) (s : CState) (pkt : Bytes) :
    CState × Outcome Msg :=
  match parseHeader pkt with
  | none => (s, .err)
  | some (h, body) =>
    if h.version ≠ 10 then (s, .err)
    else if h.setID = Generated.cTemplateSetID then
      ((decodeTemplateSetSpec lookup mode s h.dom body).1,
       (decodeTemplateSetSpec lookup mode s h.dom body).2 >>= fun d => .ok { hdr := h, body := d })
    else
      (s, decodeDataSet mode s h.dom h.setID body >>= fun d => .ok { hdr := h, body := d })

/-- the shape on which code and specification differ: a template set whose body has a readable id
    but no complete field count -/
def truncatedAfterId (pkt : Bytes) : Bool :=
  match parseHeader pkt with
  | none => false
  | some (h, body) => h.version = 10 ∧ h.setID = Generated.cTemplateSetID ∧ (body.length = 2 ∨ body.length = 3)

end Ipfix.C04

namespace Ipfix.C04

/-- what a packet means for the template store, independently of the store's current content -/
inductive TEvent where
  | valid (k : TKey) (t : Template)
  | bad (k : TKey)
  | other
  deriving Repr

/-- the event a template-set body stands for -/
def templateEvent (lookup : Nat → Nat → Option IE) (mode : Mode) (dom : Nat) (body : Bytes) : TEvent :=
  match body with
  | t0 :: t1 :: rest =>
    match rest with
    | c0 :: c1 :: r =>
      match decodeSpecifiers lookup mode (c0.toNat * 256 + c1.toNat) r with
      | .ok ies => .valid (dom, t0.toNat * 256 + t1.toNat) ies
      | .err => .bad (dom, t0.toNat * 256 + t1.toNat)
      | _ => .other
    | _ => .bad (dom, t0.toNat * 256 + t1.toNat)
  | _ => .other

def classify (lookup : Nat → Nat → Option IE) (mode : Mode) (pkt : Bytes) : TEvent :=
  match parseHeader pkt with
  | none => .other
  | some (h, body) =>
    if h.version ≠ 10 then .other
    else if h.setID = Generated.cTemplateSetID then templateEvent lookup mode h.dom body
    else .other

def TEvent.apply (s : CState) : TEvent → CState
  | .valid k t => s.insert k t
  | .bad k => s.erase k
  | .other => s

/-- the property's declarative reading: scanning the history from the most recent event, the
    first event for key `k` decides - a valid template is in force, a bad one means none is -/
def lastValid : List TEvent → TKey → Option Template
  | [], _ => none
  | .valid k t :: older, k' => if k = k' then some t else lastValid older k'
  | .bad k :: older, k' => if k = k' then none else lastValid older k'
  | .other :: older, k' => lastValid older k'

def runSpec (lookup : Nat → Nat → Option IE) (mode : Mode) (s : CState) (pkts : List Bytes) : CState :=
  pkts.foldl (fun s p => (decodePacketSpec lookup mode s p).1) s

def runCode (lookup : Nat → Nat → Option IE) (mode : Mode) (s : CState) (pkts : List Bytes) : CState :=
  pkts.foldl (fun s p => (decodePacket lookup mode s p).1) s

end Ipfix.C04
