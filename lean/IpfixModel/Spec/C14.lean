/-
  C14 - specification side (definitions only): executable predicates on what a REAL run of an
  exporting process showed: the datagrams / the byte stream a harness-owned listener received (with
  arrival times, all stamps and intervals in one unit - the driver passes microseconds), what every SendSet call returned and when, when the peer closed, when the
  Close calls started and had all returned, and what the runtime reported (panic, race detector,
  background goroutines left).

  The bytes are judged with the independent RFC 7011 parser of Spec/Exp.lean (`ExpSpec.parseMessage`,
  `parseTemplateRecords`, `sendVerdict`); nothing here mentions the exporter model - with ONE exception:
  whether a template the application sent can be rebuilt by the refresher (`unbuildable`) is DERIVED from the
  template's element types with the model's `Life.makeTemplateSet` (entities.MakeTemplateSet: one
  `zeroValue` per element), not taken from the scenario's `unrefreshable=` marker; marker and derivation
  must agree. A UDP session with such a template is judged by `udpUnrefreshable` (the first refresh that
  finds the template recorded cannot be built and closes the process), every other one by `udpOrdinary`.
-/
import IpfixModel.Spec.Exp
import IpfixModel.Model.Lifecycle
namespace Ipfix.C14
open ExpSpec

/-- exactly one whole message: version 10, the header's length field = the size of the datagram /
    frame, the configured observation domain, one set whose length field covers the rest -/
def wellFormed (dom : Nat) (w : Bytes) : Bool :=
  match parseMessage w with
  | none => false
  | some m => m.version == 10 && m.length == w.length && m.dom == dom && m.setLen == w.length - 16

/-- cut a byte stream into frames by the length field at offset 2 (fuel = stream length);
    the second component is what is left when no further whole frame can be cut -/
def splitFrames : Nat → Bytes → List Bytes × Bytes
  | 0, b => ([], b)
  | f+1, b =>
    if b.length < 20 then ([], b)
    else
      let l := u16 (b.drop 2)
      if l < 20 ∨ b.length < l then ([], b)
      else
        let r := splitFrames f (b.drop l)
        (b.take l :: r.1, r.2)

def framesOK (dom : Nat) (ws : List Bytes) : Bool := ws.all (wellFormed dom)

/-- the stream splits exactly into well-formed frames -/
def streamOK (dom : Nat) (stream : Bytes) : Bool :=
  let r := splitFrames stream.length stream
  r.2.isEmpty && framesOK dom r.1

structure Timed where
  t : Nat
  bytes : Bytes
  deriving Repr

/-- one SendSet call of the application goroutine -/
structure SendObs where
  tCall : Nat
  tRet : Nat
  ok : Bool
  n : Nat
  /-- the call had not returned when the harness' per-call watchdog (2 s) gave it up; `tRet` = when it gave up -/
  hung : Bool := false
  deriving Repr

/-- a SendSet call that never returned: the application is blocked inside the library -/
def anyHung (sends : List SendObs) : Bool := sends.any (·.hung)

/-- the CloseConnToCollector calls: when the first one started, when ALL had returned -/
structure CloseObs where
  start : Nat
  done : Nat
  calls : Nat
  returned : Nat
  deriving Repr

/-- what the runtime reported -/
structure Runtime where
  bgLeft : Nat      -- background goroutines of this exporter still alive 2 s after Close returned
  panic : Bool
  race : Bool
  deriving Repr

def runtimeVerdict (c : CloseObs) (r : Runtime) : String :=
  if r.panic then "fails panic"
  else if r.race then "fails data-race"
  else if c.returned ≠ c.calls then "fails close-did-not-return"
  else if r.bgLeft ≠ 0 then "fails background-goroutine-left"
  else "holds"

/-! ## Matching the wire against what the application sent -/

structure Walk where
  tr : Tracker
  /-- SendSet calls that returned success and whose message has not been seen yet -/
  todo : List (SetDesc × SendObs)
  /-- template id and arrival time of the application's own message defining it -/
  first : List (Nat × Nat) := []
  /-- (template id, arrival time) of every refresh message -/
  refreshes : List (Nat × Nat) := []
  seen : Nat := 0
  /-- values the counter had before the application's most recent messages, most recent first -/
  recent : List Nat := []

def dataRecs (d : SetDesc) : Nat := match d.ty with | .data => d.recs.length | _ => 0

/-- is `w` a refresh of a template transmitted earlier: one template record whose id and field
    specifiers are those of the most recent template sent with that id. The sequence number of a
    template message is the counter's value when the refresher read it, shortly before its Write: the
    application's own messages may overtake it in between (or the refresher's Write may overtake the
    application's), so the current value, the value after the application's NEXT message and the values
    before its last three messages are all accepted. -/
def refreshOf (wk : Walk) (w : Bytes) : Option Nat :=
  match parseMessage w with
  | none => none
  | some m =>
    if m.setId ≠ 2 then none
    else match parseTemplateRecords m.body.length m.body with
      | some [(tid, specs)] =>
        match wk.tr.sent.find? (·.1 == tid) with
        | some (_, ies) =>
          let next := match wk.todo with
            | (d, _) :: _ => (wk.tr.seq + dataRecs d) % 4294967296
            | [] => wk.tr.seq
          if specs == ies.map expectedSpec &&
              (m.seq == wk.tr.seq || m.seq == next || (wk.recent.take 3).contains m.seq) then some tid else none
        | none => none
      | _ => none

/-- one received message: either the next message of the application, intact (C02 / C08 / C09 verdict of
    Spec/Exp.lean: header, set, records, values, sequence number, byte count), or - if `allowRefresh` -
    a refresh; anything else is a failure -/
def walkStep (allowRefresh : Bool) (wk : Walk) (x : Timed) : Except String Walk :=
  let app : Option (Walk × String) :=
    match wk.todo with
    | (d, so) :: rest =>
      let r := sendVerdict wk.tr d (.ok so.n [x.bytes] true)
      if r.2 == "holds" then
        let first' := match d.ty with
          | .template => d.recs.foldl (fun acc rc => if acc.any (·.1 == rc.1) then acc else acc ++ [(rc.1, x.t)]) wk.first
          | _ => wk.first
        some ({ wk with tr := r.1, todo := rest, first := first', seen := wk.seen + 1, recent := wk.tr.seq :: wk.recent }, "")
      else some (wk, r.2)
    | [] => none
  match app with
  | some (wk', "") => .ok wk'
  | other =>
    let why := match other with
      | some (_, v) => v.replace "fails " ""
      | none => "no-send-left"
    if allowRefresh then
      match refreshOf wk x.bytes with
      | some tid => .ok { wk with refreshes := wk.refreshes ++ [(tid, x.t)], seen := wk.seen + 1 }
      | none => .error s!"unexpected-message #{wk.seen} ({why})"
    else .error s!"unexpected-message #{wk.seen} ({why})"

def walkAll (allowRefresh : Bool) : Walk → List Timed → Except String Walk
  | wk, [] => .ok wk
  | wk, x :: rest =>
    match walkStep allowRefresh wk x with
    | .ok wk' => walkAll allowRefresh wk' rest
    | .error e => .error e

def okSends (plan : List SetDesc) (sends : List SendObs) : List (SetDesc × SendObs) :=
  (plan.zip sends).filter (·.2.ok)

/-- a template first sent at `t0` is refreshed in every period: for each k >= 1 whose window closes before
    the Close call, a refresh arrives in (t0 + (k-1)P, t0 + (k+1)P + slack] - period k, or one period
    late (the ticker's phase relative to the send is arbitrary) -/
def refreshedEachPeriod (p slack closeStart t0 : Nat) (arrivals : List Nat) : Bool :=
  (List.range (closeStart / (max p 1) + 1)).all fun k0 =>
    let k := k0 + 1
    if t0 + (k + 1) * p + slack ≤ closeStart then
      arrivals.any fun r => decide (t0 + (k - 1) * p < r) && decide (r ≤ t0 + (k + 1) * p + slack)
    else true

/-- the SendSet results that do not depend on the transport: every call that returned before anybody
    closed anything succeeded; every call made after Close had returned failed -/
def sendResultsVerdict (sends : List SendObs) (openUntil : Nat) (c : CloseObs) : String :=
  if sends.any (fun s => decide (s.tRet < openUntil) && !s.ok) then "fails send-failed-while-open"
  else if sends.any (fun s => decide (c.done ≤ s.tCall) && s.ok) then "fails send-succeeded-after-close"
  else "holds"

/-! ## UDP -/

structure UdpObs where
  dom : Nat
  period : Nat
  slack : Nat
  grace : Nat
  plan : List SetDesc
  sends : List SendObs
  dgrams : List Timed
  close : CloseObs
  rt : Runtime
  /-- every set descriptor of the scenario (scheduled sends and tail), called or not -/
  scheduled : List SetDesc := []
  /-- the scenario's `unrefreshable=<tid>` marker -/
  unref : Option Nat := none
  /-- how much earlier than k * period (counted from the return of InitExportingProcess) the k-th tick may fire -/
  early : Nat := 0

/-- the verdict for a session all of whose templates can be refreshed -/
def udpOrdinary (o : UdpObs) : String :=
  let rv := runtimeVerdict o.close o.rt
  if rv ≠ "holds" then rv
  else if o.plan.length ≠ o.sends.length then "fails observation-shape"
  else match (o.dgrams.zipIdx.find? fun x => !wellFormed o.dom x.1.bytes) with
  | some (_, i) => s!"fails malformed-datagram #{i}"
  | none =>
    match walkAll true { tr := { dom := o.dom }, todo := okSends o.plan o.sends } o.dgrams with
    | .error e => "fails " ++ e
    | .ok wk =>
      if !wk.todo.isEmpty then "fails app-message-missing"
      else
        match wk.first.find? (fun f => !refreshedEachPeriod o.period o.slack o.close.start f.2
                                          ((wk.refreshes.filter (·.1 == f.1)).map (·.2))) with
        | some f => s!"fails template-not-refreshed {f.1}"
        | none =>
          if o.dgrams.any (fun d => decide (o.close.done + o.grace < d.t)) then "fails datagram-after-close"
          else sendResultsVerdict o.sends o.close.start o.close

/-! ### A template the refresher cannot rebuild

  `sendRefreshedTemplates` calls `entities.MakeTemplateSet` for every recorded template; that fails for a
  template with an element `DecodeAndCreateInfoElementWithValue(ie, nil)` refuses (dateTimeMicroseconds,
  dateTimeNanoseconds, the list types). SENDING such a template works: template records carry no values. The
  design of the code (and the event model: `Life.LState.refreshTick`, `buildAll ... = none => doClose`) is
  "a refresh that cannot be built closes the process": nothing is written, the refresher closes the connection
  and ends, and every later SendSet returns an error. -/

/-- the templates the scenario defines: (id, ordered elements), the first definition of an id wins (updateTemplate) -/
def planTemplates (descs : List SetDesc) : List (Nat × List IE) :=
  descs.foldl (fun acc d => match d.ty with
    | .template => d.recs.foldl (fun a r => Life.regTpl a r.1 (r.2.map (·.1))) acc
    | _ => acc) []

/-- ids of the templates among them that the model's MakeTemplateSet cannot rebuild -/
def unbuildable (descs : List SetDesc) : List Nat :=
  ((planTemplates descs).filter fun p => (Life.makeTemplateSet p.1 p.2).isNone).map (·.1)

/-- the verdict for a session in which the application sends template `u`, which cannot be rebuilt.
    Ticks fire at k * period after the ticker was made (just before InitExportingProcess returned): the k-th not
    earlier than k * period - early and - with its work - not later than k * period + slack.
    `su` = the SendSet call that transmitted (and recorded) `u`:
      kLo = the first tick that CAN find `u` recorded (k * period >= su.tCall): before it, less `early`, the
            process is open - every send that has returned by then succeeded, and the ordinary refresh rule holds
            for the windows that end by then;
      kHi = the first tick that MUST find it (k * period - early >= su.tRet): after it, plus `slack`, the
            process is closed - every send called from then on fails and reports 0 bytes, and no datagram
            arrives later than that + grace;
    no refresh message arrives later than su.tRet + slack (a refresh that started after `u` was recorded
    writes nothing); everything that does arrive is well-formed and is a message of the application, intact
    and in order, or a refresh; the runtime conditions (no panic, no race, Close returned, no goroutine
    left) are those of every session. -/
def udpUnrefreshable (o : UdpObs) (u : Nat) : String :=
  let rv := runtimeVerdict o.close o.rt
  if rv ≠ "holds" then rv
  else if o.plan.length ≠ o.sends.length then "fails observation-shape"
  else match (o.dgrams.zipIdx.find? fun x => !wellFormed o.dom x.1.bytes) with
  | some (_, i) => s!"fails malformed-datagram #{i}"
  | none =>
    match (o.plan.zip o.sends).find? (fun x => decide (x.1.ty = .template) && x.1.recs.any (·.1 == u)) with
    | none => "fails unrefreshable-template-not-sent"
    | some (_, su) =>
      if !su.ok then "fails send-failed-while-open"
      else
        let p := max o.period 1
        let kLo := max 1 ((su.tCall + p - 1) / p)
        let kHi := max 1 ((su.tRet + o.early + p - 1) / p)
        let openUntil := min (kLo * p - o.early) o.close.start
        let closedBy := min (kHi * p + o.slack) o.close.done
        match walkAll true { tr := { dom := o.dom }, todo := okSends o.plan o.sends } o.dgrams with
        | .error e => "fails " ++ e
        | .ok wk =>
          if !wk.todo.isEmpty then "fails app-message-missing"
          else
            match wk.first.find? (fun f => !refreshedEachPeriod o.period o.slack openUntil f.2
                                              ((wk.refreshes.filter (·.1 == f.1)).map (·.2))) with
            | some f => s!"fails template-not-refreshed {f.1}"
            | none =>
              if wk.refreshes.any (fun r => decide (su.tRet + o.slack < r.2)) then "fails refresh-after-unbuildable-template"
              else if o.dgrams.any (fun d => decide (closedBy + o.grace < d.t)) then "fails datagram-after-close"
              else if o.sends.any (fun s => decide (s.tRet < openUntil) && !s.ok) then "fails send-failed-while-open"
              -- evidence, no clock involved: once a send has failed the process is closed - no later send may succeed
              else if (o.sends.zipIdx.any fun x => !x.1.ok && decide (su.tRet ≤ x.1.tCall) &&
                        o.sends.zipIdx.any fun y => decide (x.2 < y.2) && decide (x.1.tRet ≤ y.1.tCall) && y.1.ok)
                then "fails send-succeeded-after-a-failed-send"
              -- time bound (a tick may be late on a loaded machine: three more slacks; a session failing here is run again alone)
              else if o.sends.any (fun s => decide (min (closedBy + 3 * o.slack) o.close.done ≤ s.tCall) && s.ok) then "fails send-succeeded-after-failed-refresh"
              else if o.sends.any (fun s => decide (closedBy ≤ s.tCall) && !s.ok && s.n != 0) then "fails failed-send-reports-bytes"
              else "holds"

def udpVerdict (o : UdpObs) : String :=
  if anyHung o.sends then "fails send-never-returned"
  else
    match o.unref, unbuildable o.scheduled with
    | none, [] => udpOrdinary o
    | some u, [u'] =>
      if u = u' then udpUnrefreshable o u
      else s!"fails unrefreshable-marker-mismatch (marker {u}, the model cannot rebuild {u'})"
    | none, us => s!"fails unrefreshable-marker-mismatch (no marker, the model cannot rebuild {us})"
    | some u, us => s!"fails unrefreshable-marker-mismatch (marker {u}, the model cannot rebuild {us})"

/-! ## TCP -/

inductive TcpMode where
  | full     -- the collector closes the connection while the application keeps sending
  | half     -- the collector shuts down its sending side only and keeps reading
  | idle     -- the collector closes the connection while the application pauses
  | cclose   -- nobody but the application closes: concurrent Close calls while sending
  deriving DecidableEq, Repr

structure TcpObs where
  dom : Nat
  check : Nat
  slack : Nat
  grace : Nat
  mode : TcpMode
  plan : List SetDesc
  sends : List SendObs
  chunks : List Timed
  peerClose : Option Nat
  /-- when the harness saw the exporter's end of stream (only where it keeps reading) -/
  readEnd : Option Nat
  close : CloseObs
  rt : Runtime

def tcpVerdict (o : TcpObs) : String :=
  let rv := runtimeVerdict o.close o.rt
  if anyHung o.sends then "fails send-never-returned"
  else if rv ≠ "holds" then rv
  else if o.plan.length ≠ o.sends.length then "fails observation-shape"
  else
    let stream := (o.chunks.map (·.bytes)).flatten
    let fr := splitFrames stream.length stream
    let cut := o.peerClose.isSome && (o.mode == .full || o.mode == .idle)
    if !fr.2.isEmpty && !cut then "fails stream-does-not-split-into-messages"
    else match (fr.1.zipIdx.find? fun x => !wellFormed o.dom x.1) with
    | some (_, i) => s!"fails malformed-frame #{i}"
    | none =>
      match walkAll false { tr := { dom := o.dom }, todo := okSends o.plan o.sends } (fr.1.map fun b => { t := 0, bytes := b }) with
      | .error e => "fails " ++ e
      | .ok wk =>
        -- messages the application was told were sent, and that the collector never got
        let lostBefore : Nat := match o.peerClose with
          | some tp => if cut then tp else 0
          | none => 0
        let lost := wk.todo.filter fun x => if cut then decide (x.2.tRet + o.grace < lostBefore) else true
        if !lost.isEmpty then "fails app-message-missing"
        else
          let detect : String := match o.peerClose with
            | none => "holds"
            | some tp =>
              if o.sends.any (fun s => decide (tp + o.check + o.slack ≤ s.tCall) && s.ok) then
                "fails send-succeeded-after-peer-close"
              else if o.mode == .half then
                match o.readEnd with
                | some te => if te ≤ tp + o.check + o.slack then "holds" else "fails peer-close-noticed-late"
                | none => "fails peer-close-not-noticed"
              else "holds"
          if detect ≠ "holds" then detect
          else if o.chunks.any (fun d => decide (o.close.done + o.grace < d.t)) then "fails bytes-after-close"
          else
            let openUntil := match o.peerClose with
              | some tp => min tp o.close.start
              | none => o.close.start
            sendResultsVerdict o.sends openUntil o.close

end Ipfix.C14
