/-
  C16: executable predicate on one `bld obs` observation of the implementation
  (definitions only): the bookkeeping invariants the property states.
-/
import IpfixModel.Model.Builder
namespace Ipfix.C16

structure RecObs where
  tid : Nat
  fieldCount : Nat
  length : Nat
  bytes : Bytes
  deriving Repr

structure SetObs where
  length : Nat
  header : Bytes
  recs : List RecObs
  /-- what CreateIPFIXMsg returned (none = error) -/
  msg : Option Bytes
  deriving Repr

/-- the set's reported length is 4 + the sum of its records' reported lengths; each record's buffer
    is exactly its reported length; the serialized message is the 16-byte header, the 4-byte set
    header and the record buffers - exactly 16 + length bytes - or an error iff that exceeds 65535 -/
def holdsObs (o : SetObs) : Bool :=
  o.length == 4 + (o.recs.map (·.length)).sum &&
  o.recs.all (fun r => r.bytes.length == r.length) &&
  o.header.length == 4 &&
  (match o.msg with
   | some m => m.length == 16 + o.length && m.drop 16 == o.header ++ (o.recs.map (·.bytes)).flatten
                && 16 + o.length ≤ 65535
   | none => 16 + o.length > 65535)

def SetB.toObs (s : SetB) : SetObs :=
  { length := s.length, header := s.header,
    recs := s.recs.map fun r => { tid := r.tid, fieldCount := r.fieldCount, length := r.length, bytes := r.bytes },
    msg := createMsg s 7 9 0 }

end Ipfix.C16
