/-
  C19: executable property predicate evaluated on the implementation's published payloads
  (definitions only; the theorem that the model's own output satisfies it is in Props/C19).

  The predicate does not trust the element-name -> field switch found in the source tree: "the
  record's field values" are fixed here by the hand-written reference mapping `refMap` / `refHdr`
  (IPFIX element name -> name of the proto field that must carry it). Field numbers and kinds are
  the schema's own (struct tags, regenerated). Props/C19 proves that the regenerated switch IS the
  reference mapping (`tie_*`), so a change of the switch breaks that theorem and makes this
  predicate fail on the implementation's payloads.
-/
import IpfixModel.Model.Kafka
namespace Ipfix.C19
open Ipfix.Kafka

/-- header of the IPFIX message -> proto field -/
def refHdr : List (String × String) := [
  ("TimeReceived", "GetExportTime"),
  ("SequenceNumber", "GetSequenceNum"),
  ("ObsDomainID", "GetObsDomainID"),
  ("ExportAddress", "GetExportAddress")]

/-- IPFIX element name -> (proto field, Go type the element carries [rendering]) for both shipped
    schemas -/
def refMap : List (String × String × String) := [
  ("flowStartSeconds", "TimeFlowStartInSecs", "GetUnsigned32Value"),
  ("flowEndSeconds", "TimeFlowEndInSecs", "GetUnsigned32Value"),
  ("sourceIPv4Address", "SrcIP", "GetIPAddressValue.String"),
  ("sourceIPv6Address", "SrcIP", "GetIPAddressValue.String"),
  ("destinationIPv4Address", "DstIP", "GetIPAddressValue.String"),
  ("destinationIPv6Address", "DstIP", "GetIPAddressValue.String"),
  ("sourceTransportPort", "SrcPort", "GetUnsigned16Value"),
  ("destinationTransportPort", "DstPort", "GetUnsigned16Value"),
  ("protocolIdentifier", "Proto", "GetUnsigned8Value"),
  ("packetTotalCount", "PacketsTotal", "GetUnsigned64Value"),
  ("octetTotalCount", "BytesTotal", "GetUnsigned64Value"),
  ("packetDeltaCount", "PacketsDelta", "GetUnsigned64Value"),
  ("octetDeltaCount", "BytesDelta", "GetUnsigned64Value"),
  ("reversePacketTotalCount", "ReversePacketsTotal", "GetUnsigned64Value"),
  ("reverseOctetTotalCount", "ReverseBytesTotal", "GetUnsigned64Value"),
  ("reversePacketDeltaCount", "ReversePacketsDelta", "GetUnsigned64Value"),
  ("reverseOctetDeltaCount", "ReverseBytesDelta", "GetUnsigned64Value"),
  ("sourcePodNamespace", "SrcPodNamespace", "GetStringValue"),
  ("sourcePodName", "SrcPodName", "GetStringValue"),
  ("sourceNodeName", "SrcNodeName", "GetStringValue"),
  ("destinationPodNamespace", "DstPodNamespace", "GetStringValue"),
  ("destinationPodName", "DstPodName", "GetStringValue"),
  ("destinationNodeName", "DstNodeName", "GetStringValue"),
  ("destinationClusterIPv4", "DstClusterIP", "GetIPAddressValue.String"),
  ("destinationClusterIPv6", "DstClusterIP", "GetIPAddressValue.String"),
  ("destinationServicePort", "DstServicePort", "GetUnsigned16Value"),
  ("destinationServicePortName", "DstServicePortName", "GetStringValue"),
  ("ingressNetworkPolicyName", "IngressPolicyName", "GetStringValue"),
  ("ingressNetworkPolicyNamespace", "IngressPolicyNamespace", "GetStringValue"),
  ("egressNetworkPolicyName", "EgressPolicyName", "GetStringValue"),
  ("egressNetworkPolicyNamespace", "EgressPolicyNamespace", "GetStringValue")]

/-- the schema with the reference mapping in place of the one read from the source tree -/
def refSchema (S : Schema) : Schema := { fields := S.fields, hdr := refHdr, map := refMap }

/-- one published Kafka message as observed: topic, value, and what the consumer made of it -/
structure Obs where
  topic : Bytes
  payload : Bytes
  accepted : Bool
  fields : Option Canon      -- what the consumer's proto message holds afterwards (by field number)
  deriving Repr, DecidableEq

/-- the populated proto fields C19 demands for one data record -/
def expectedOf (S : Schema) (hr : Hdr × Record) : Canon :=
  normalise (wireOrder S.fields) (fieldsOf (refSchema S) hr.1 hr.2)

inductive Verdict where
  | holds
  | na
  | fails (why : String) (index : Nat)
  deriving Repr, DecidableEq

/-- C19 for one payload: configured topic; 4-byte big-endian prefix = real length of the rest; the
    rest is protobuf that decodes (decoder independent of the model's encoder) to exactly the
    expected populated fields, canonically (field-number order, nothing unknown); the consumer
    accepted it and holds the same field values. -/
def checkOne (S : Schema) (topic : Bytes) (exp : Canon) (o : Obs) : Option String :=
  if o.topic ≠ topic then some "topic"
  else match unframe o.payload with
    | none => some "frame"
    | some body =>
      match protoDecodeFull S.fields body with
      | none => some "proto-decode"
      | some (c, unknown) =>
        if c ≠ exp ∨ !unknown.isEmpty then some "fields"
        else if !o.accepted then some "consumer-rejects"
        else if o.fields ≠ some exp then some "consumer-fields"
        else none

def checkAll (S : Schema) (topic : Bytes) : List Canon → List Obs → Nat → Verdict
  | [], [], _ => .holds
  | e :: es, o :: os, i =>
    match checkOne S topic e o with
    | some why => .fails why i
    | none => checkAll S topic es os (i + 1)
  | _, _, i => .fails "count" i

/-- C19 on a stream: exactly one payload per data record, in record order, none for template
    messages, each payload as `checkOne` demands. Streams outside the convertor's domain
    (`Msg.wellTyped`) are not judged. When the payloads are exactly those of the records whose
    string fields are valid UTF-8 and some record was left out for that reason, the failure is
    named `non-utf8-string-dropped` (the known finding D14) instead of `count`. -/
def holdsOn (S : Schema) (topic : Bytes) (msgs : List Msg) (obs : List Obs) : Verdict :=
  if !(msgs.all (Msg.wellTyped (refSchema S))) then .na
  else
    let drs := dataRecords msgs
    if obs.length = drs.length then checkAll S topic (drs.map (expectedOf S)) obs 0
    else
      let valid := drs.filter (recordValid (refSchema S))
      if valid.length < drs.length ∧ obs.length = valid.length ∧
          checkAll S topic (valid.map (expectedOf S)) obs 0 = .holds then
        .fails "non-utf8-string-dropped" valid.length
      else .fails "count" obs.length

/-- what the model publishes and its consumer recovers, in the shape of an observation -/
def obsOf (S : Schema) (topic : Bytes) (p : Bytes) : Obs :=
  { topic := topic, payload := p,
    accepted := (consumerDecode S p).isOk,
    fields := match consumerDecode S p with | .ok c => some c | _ => none }

def modelObs (S : Schema) (topic : Bytes) (msgs : List Msg) : List Obs :=
  (publish S msgs).map (obsOf S topic)

end Ipfix.C19
