/-
  C12: what the property DEMANDS of one run of a collector with many clients (definitions only, no
  proofs; imported by Props/C12 and by the driver).

    "With any number of concurrently connected exporters, every message accepted from a connection is
     delivered to the consumer exactly once over TCP/TLS (at most once over UDP), in the order that
     connection sent it, without data races, and over TCP/TLS the connection count returns to zero when
     clients disconnect. Stop returns promptly even with clients connected or mid-message, provided the
     consumer keeps draining, and afterwards no goroutine or listening socket of the process remains."

  The predicates are EXECUTABLE and are evaluated by the driver on what a real run delivered
  (`chk mux scenario ... | obs ...`). The queueing part (`isPerConnFIFO`, `replay`) is what Props/C12 proves
  of the model for every schedule; the rest of the bundle (`holdsOn`: connection count, Stop latency,
  goroutines, socket, race report) consists of RUNTIME FACTS the model cannot exhibit - they are observed
  by the harness (race detector, goroutine profile, re-bind of the port), not proved. PARTIAL.
-/
import IpfixModel.Model.Mux
import IpfixModel.Generated.LocksCollector
namespace Ipfix.C12
open Ipfix.Mux

/-- how strictly the delivered messages of a connection are tied to what it sent -/
inductive Mode where
  /-- TCP/TLS, the client disconnected by itself: exactly what it wrote completely -/
  | exact
  /-- TCP/TLS, the collector was stopped under the client: a prefix of what it wrote -/
  | pref
  /-- UDP: a sub-sequence of what it sent (loss before acceptance), nothing twice -/
  | subseq
deriving Repr, DecidableEq

def keys (a : List (ConnId × List Msg)) : List ConnId := a.map (·.1)

/-- executable: the list has no repeated element -/
def nodupB : List Msg → Bool
  | [] => true
  | x :: r => !r.contains x && nodupB r

/-- the delivered sub-sequence of ONE connection against what that connection sent / had accepted -/
def connOK (mode : Mode) (sent got : List Msg) : Bool :=
  match mode with
  | .exact => got == sent
  | .pref => got.isPrefixOf sent
  | .subseq => got.isSublist sent && nodupB got

/-- per-connection FIFO: every delivered message belongs to a known connection (nothing invented), and
    for every connection the delivered sub-sequence is, in order,
      exact  : equal to the accepted sequence,
      pref   : a prefix of it,
      subseq : a duplicate-free sub-sequence of the SENT sequence. -/
def isPerConnFIFO (mode : Mode) (accepted : List (ConnId × List Msg)) (delivered : List (ConnId × Msg)) : Bool :=
  delivered.all (fun p => (keys accepted).contains p.1) &&
  (keys accepted).all (fun c => connOK mode (getL accepted c) (proj delivered c))

/-- the consumer's view as a trace of the model: consume the delivered list pair by pair, each time
    taking the HEAD of that connection's queue; `none` if some delivery is not the head (reordered,
    duplicated, lost in the middle, invented). `some q` = the delivered list is an interleaving of
    prefixes of the queues and `q` is what is left of them. -/
def replay : List (ConnId × List Msg) → List (ConnId × Msg) → Option (List (ConnId × List Msg))
  | q, [] => some q
  | q, (c, m) :: r =>
    match getL q c with
    | x :: xs => if x = m then replay (setL q c xs) r else none
    | [] => none

/-! ## the scenario bundle -/

inductive Transport where
  | tcp | udp | tls
deriving Repr, DecidableEq

/-- what a client does after connecting and writing its `n` complete messages -/
inductive Behaviour where
  /-- closes the connection -/
  | close
  /-- writes the first half of one more message, then closes (abrupt close mid-message) -/
  | abrupt
  /-- stays connected, silent, until the collector has been stopped -/
  | idle
  /-- writes the first half of one more message and stays connected until the collector has been stopped -/
  | half
  /-- TLS: connects at TCP level, sends the first 3 bytes of a ClientHello and stays connected until the
      collector has been stopped (a stalled handshake must not block other exporters or Stop);
      on the other transports it behaves like `idle` -/
  | stall
deriving Repr, DecidableEq

structure Client where
  n : Nat
  beh : Behaviour
deriving Repr, DecidableEq

structure Scenario where
  transport : Transport
  seed : Nat
  /-- `some k`: `Stop()` is called while traffic is flowing, once k messages have been delivered -/
  stopMid : Option Nat
  clients : List Client
  /-- `0`: client i exports in its own observation domain i+1 and sends its template once (message 0).
      `r > 0`: ALL clients export in observation domain 1 with the same template id - ONE stored template in
      the collector - and every client sends the template again as every r-th of its messages (0, r, 2r, ...),
      so that template definitions by one exporter run concurrently with data decoding by the others. The
      harness tells the clients apart by the client number the messages carry (sequence-number field and
      first field of the data record) and reports deliveries as (i+1, number) as before. What is DEMANDED
      does not depend on this field: a re-sent template is one more numbered message of its connection, and
      over UDP a message that could not be decoded (no template has arrived yet) counts as lost. -/
  shared : Nat := 0
deriving Repr

/-- client i (0-based) is connection i+1 (its observation domain id, or - with a shared domain - the client
    number its messages carry); its messages are numbered 0 .. n-1 by the sequence-number field of the IPFIX
    header (0 = the template; with a shared domain every r-th is the template again) -/
def Scenario.sent (sc : Scenario) : List (ConnId × List Msg) :=
  (List.range sc.clients.length).zip sc.clients |>.map fun (i, cl) => (i + 1, List.range cl.n)

def Client.holds (c : Client) : Bool := c.beh == .idle || c.beh == .half || c.beh == .stall

/-- clients that are still connected when all the others have gone -/
def Scenario.holders (sc : Scenario) : Nat := (sc.clients.filter Client.holds).length

def Scenario.mode (sc : Scenario) : Mode :=
  match sc.transport with
  | .udp => .subseq
  | _ => if sc.stopMid.isSome then .pref else .exact

/-- what the harness observed of the REAL collector in one scenario -/
structure Obs where
  /-- (observation domain, sequence number) of every message received on GetMsgChan(), in order -/
  order : List (ConnId × Msg)
  /-- delivered messages whose record payload does not carry the (domain, sequence number) of its header -/
  badPayload : Nat
  /-- GetNumConnToCollector() once all closing clients have disconnected (polled up to 2 s) -/
  nconn : Nat
  /-- GetNumConnToCollector() after Stop() returned -/
  nconnStop : Nat
  /-- latency of Stop() in ms -/
  stopMs : Nat
  /-- messages received on GetMsgChan() after Stop() had returned -/
  afterStop : Nat
  /-- goroutines before InitCollectingProcess / after Stop and the harness's own goroutines ended (polled up to 2 s) -/
  g0 : Nat
  g1 : Nat
  /-- goroutines of pkg/collector still blocked (not merely exiting) at the moment Stop() returned -/
  grem : Nat
  /-- binding the collector's port again right after Stop() succeeded -/
  rebind : Bool
  /-- the re-bind failed AND this process still owns a socket on that port -/
  ownSock : Bool
  /-- the race detector wrote a report during the scenario -/
  race : Bool
deriving Repr

def stopBoundMs : Nat := 2000

inductive Verdict where
  | holds
  | fails (why : String)
deriving Repr, DecidableEq

/-- why the queueing part fails, most specific reason first (`none` = it holds) -/
def fifoWhyOn (mode : Mode) (sent : List (ConnId × List Msg)) (order : List (ConnId × Msg)) : Option String :=
  if !order.all (fun p => (keys sent).contains p.1 && (getL sent p.1).contains p.2) then some "invented-message"
  else if !(keys sent).all (fun c => nodupB (proj order c)) then some "duplicate-delivery"
  else if !(keys sent).all (fun c => (proj order c).isSublist (getL sent c)) then some "out-of-order"
  else if !isPerConnFIFO mode sent order then some "message-lost"
  else if mode != .subseq && (replay sent order).isNone then some "not-a-model-trace"
  else none

def fifoWhy (sc : Scenario) (o : Obs) : Option String := fifoWhyOn sc.mode sc.sent o.order

/-- the whole bundle -/
def holdsOn (sc : Scenario) (o : Obs) : Verdict :=
  if o.race then .fails "race"
  else if o.badPayload != 0 then .fails "payload-mismatch"
  else match fifoWhy sc o with
  | some why => .fails why
  | none =>
    if sc.transport != .udp && sc.stopMid.isNone && o.nconn != sc.holders then .fails "conn-count"
    else if o.nconnStop != 0 then .fails "conn-count-after-stop"
    else if o.stopMs > stopBoundMs then .fails "stop-latency"
    else if o.afterStop != 0 then .fails "delivered-after-stop"
    else if !o.rebind && o.ownSock then .fails "socket-remains"
    else if o.grem != 0 then .fails "goroutine-at-stop-return"
    else if o.g1 > o.g0 then .fails "goroutine-leak"
    else .holds

/-! ## lock discipline of CollectingProcess, over the table extracted by tools/lockfacts-collector -/

namespace Locks
open Generated.LocksCollector

/-- the lock that is certainly held at the access: taken in the unit itself, or held by every caller -/
def effHeld (a : Access) : Nat := max a.held a.entryHeld

/-- a write needs the exclusive lock, a read the shared or the exclusive one -/
def guarded (a : Access) : Bool := if a.write then effHeld a == 2 else decide (1 ≤ effHeld a)

/-- the access can happen in some goroutine at all -/
def fromRoot (a : Access) : Bool := !a.roots.isEmpty

/-- an unlocked READ that cannot race: its unit is reachable from ONE root only, and every write of that
    field anywhere is reachable from that same root only (the field is written by the goroutine that
    reads it; other goroutines only read it, under the lock). Assumes the root is not entered twice
    concurrently (Start is called once). -/
def ownerRead (a : Access) : Bool :=
  !a.write && a.roots.length == 1 &&
  accesses.all (fun b => !(b.field == a.field && b.write) || b.roots == a.roots)

def unguarded : List Access := accesses.filter (fun a => fromRoot a && !guarded a)

def showSite (a : Access) : String := s!"{a.file}:{a.line}:{a.unit}:{a.field}:{if a.write then "write" else "read"}"
end Locks

end Ipfix.C12
