/-
  C20: executable property predicate evaluated on a trace of (operation, observation) pairs of
  the standalone collector's store (definitions only; the theorem that the model's own trace
  satisfies it is in Props/C20).

  The predicate does not use the model's `render`: the entries are the ones the implementation
  itself showed when the messages arrived (`Obs.added`). It demands
  * after every arrival the store holds min(cap, arrivals since the last reset) entries
    (never more than the cap), and the new entry contains, for every field of every record, the
    line `    name: value \n` (template records: `    name: len=.. (enterprise ID = ..) \n`);
  * a valid GET /records answers 200 with exactly the encoding (JSON or text) of the last
    min(n, stored) entries of the window = the last `cap` arrivals since the last reset, in
    arrival order;
  * a wrong method, an invalid count or an invalid format is refused with a 4xx status (and, by
    the next query, changes nothing); POST /reset answers 2xx and empties the window.
  Float fields are not demanded (Go's `%v` of floats is not modelled); fields of types the
  library cannot decode (micro/nanosecond times, lists) never occur in a received message and
  are not demanded either.
-/
import IpfixModel.Model.Store
namespace Ipfix.C20
open Ipfix.Store

/-- does `p` occur in `s` as a contiguous piece? -/
def infixB : List Char → List Char → Bool
  | p, [] => p.isEmpty
  | p, c :: s => p.isPrefixOf (c :: s) || infixB p (s)

def occursIn (line entry : String) : Bool := infixB line.toList entry.toList

/-- types whose value the entry must show -/
def valueShown : DataType → Bool
  | .octetArray | .unsigned8 | .unsigned16 | .unsigned32 | .unsigned64
  | .signed8 | .signed16 | .signed32 | .signed64 | .boolean | .macAddress | .string
  | .dateTimeSeconds | .dateTimeMilliseconds | .ipv4Address | .ipv6Address => true
  | _ => false

/-- the line a field must appear as, if any -/
def demandedLine (isTemplate : Bool) (f : IE × Value) : Option String :=
  if isTemplate then some (tplLine f.1)
  else if valueShown f.1.ty then some (fieldLine f.1 f.2) else none

/-- name of the first field of the message that the entry does not show -/
def missingField (m : Msg) (entry : String) : Option String :=
  (m.records.flatten.find? fun f =>
    match demandedLine m.isTemplate f with
    | some l => !occursIn l entry
    | none => false).map fun f => f.1.name

/-! ## a linear-time evaluation of `missingField`, proved EQUAL to it

  `missingField m entry` looks every demanded line up in the whole entry, from its start: on a message of tens of
  thousands of fields (a legal 64 KB message renders to more than a mebibyte) that is quadratic. The implementation
  renders the fields in order, so one pass that looks each line up behind the previous one finds them all; when that
  pass fails (a field missing, or an order the specification does not demand) the specification's own search decides.
  `missingField_eq_fast` makes the compiled checker use the fast form (`@[csimp]`: a proved equation checked by the
  kernel, not `implemented_by`; it has to precede `verdict`, which is why the proof lives in this file; it is restated
  in Props/C20 as `chk_search_is_the_specified_one` for the axiom audit). -/

/-- what is left of `s` behind the first occurrence of `p` -/
def dropThrough (p : List Char) : List Char → Option (List Char)
  | [] => if p.isEmpty then some [] else none
  | c :: s => if p.isPrefixOf (c :: s) then some ((c :: s).drop p.length) else dropThrough p s

/-- is the field's demanded line missing from the entry? (the test `missingField` applies to every field) -/
def lineMissing (isTemplate : Bool) (entry : String) (f : IE × Value) : Bool :=
  match demandedLine isTemplate f with
  | some l => !occursIn l entry
  | none => false

/-- one pass: each field's line is looked up behind the previous one in what is left of the entry (`rest`); from
    the first field that is not found there on, the specification's own search over the whole entry decides -/
def scanFields (isTemplate : Bool) (entry : String) : List (IE × Value) → List Char → Option String
  | [], _ => none
  | f :: fs, rest =>
    match demandedLine isTemplate f with
    | none => scanFields isTemplate entry fs rest
    | some l =>
      match dropThrough l.toList rest with
      | some rest' => scanFields isTemplate entry fs rest'
      | none => ((f :: fs).find? (lineMissing isTemplate entry)).map fun f => f.1.name

def missingFieldFast (m : Msg) (entry : String) : Option String :=
  scanFields m.isTemplate entry m.records.flatten entry.toList

theorem dropThrough_spec (p : List Char) : ∀ (s rest : List Char), dropThrough p s = some rest →
    infixB p s = true ∧ ∃ pre, s = pre ++ rest := by
  intro s
  induction s with
  | nil =>
    intro rest h
    simp only [dropThrough] at h
    by_cases hp : p.isEmpty = true
    · simp only [hp, if_true, Option.some.injEq] at h
      subst h
      exact ⟨by simp [infixB, hp], [], rfl⟩
    · simp [hp] at h
  | cons c s ih =>
    intro rest h
    simp only [dropThrough] at h
    by_cases hp : p.isPrefixOf (c :: s) = true
    · simp only [hp, if_true, Option.some.injEq] at h
      refine ⟨by simp [infixB, hp], (c :: s).take p.length, ?_⟩
      rw [← h]; exact (List.take_append_drop _ _).symm
    · simp only [hp] at h
      obtain ⟨hi, pre, hs⟩ := ih rest (by simpa using h)
      exact ⟨by simp [infixB, hi], c :: pre, by simp [hs]⟩

theorem infixB_of_suffix (p : List Char) : ∀ (pre s : List Char), infixB p s = true → infixB p (pre ++ s) = true := by
  intro pre
  induction pre with
  | nil => intro s h; simpa using h
  | cons c pre ih => intro s h; simp [infixB, ih s h]

theorem missingField_eq_find (m : Msg) (entry : String) :
    missingField m entry = (m.records.flatten.find? (lineMissing m.isTemplate entry)).map fun f => f.1.name := rfl

theorem scanFields_eq (isT : Bool) (entry : String) : ∀ (fs : List (IE × Value)) (pre rest : List Char),
    entry.toList = pre ++ rest →
    scanFields isT entry fs rest = (fs.find? (lineMissing isT entry)).map fun f => f.1.name := by
  intro fs
  induction fs with
  | nil => intro pre rest _; simp [scanFields]
  | cons f fs ih =>
    intro pre rest he
    simp only [scanFields]
    cases hd : demandedLine isT f with
    | none =>
      have hm : lineMissing isT entry f = false := by simp [lineMissing, hd]
      simp only [List.find?_cons, hm]
      exact ih pre rest he
    | some l =>
      simp only
      cases hr : dropThrough l.toList rest with
      | none => rfl
      | some rest' =>
        simp only
        obtain ⟨hi, pre', hs⟩ := dropThrough_spec l.toList rest rest' hr
        have hocc : occursIn l entry = true := by
          simp only [occursIn, he]; exact infixB_of_suffix _ pre rest hi
        have hm : lineMissing isT entry f = false := by simp [lineMissing, hd, hocc]
        simp only [List.find?_cons, hm]
        exact ih (pre ++ pre') rest' (by rw [he, hs, List.append_assoc])

theorem missingFieldFast_eq (m : Msg) (entry : String) : missingFieldFast m entry = missingField m entry := by
  rw [missingField_eq_find]
  exact scanFields_eq m.isTemplate entry m.records.flatten [] entry.toList (by simp)

@[csimp] theorem missingField_eq_fast : @missingField = @missingFieldFast := by
  funext m entry
  exact (missingFieldFast_eq m entry).symm


/-- entries (as shown by the implementation) of the messages that arrived since the last reset,
    newest first -/
structure Tracker where
  rev : List String

def Tracker.init : Tracker := ⟨[]⟩

/-- arrivals since the last reset in arrival order -/
def Tracker.arrivals (t : Tracker) : List String := t.rev.reverse

/-- what the store must hold: the last `cap` arrivals, in arrival order
    (`= takeLast cap t.arrivals`, lemma `window_eq_takeLast`) -/
def Tracker.window (t : Tracker) : List String := (t.rev.take cap).reverse

/-- what a valid query must return -/
def Tracker.expected (t : Tracker) (count : Option Nat) : List String :=
  let w := t.window
  match count with
  | none => w
  | some n => takeLast (min n w.length) w

def is4xx (st : Nat) : Bool := st / 100 == 4
def is2xx (st : Nat) : Bool := st / 100 == 2

/-- `none` = the observation is what C20 demands in this state; `some why` otherwise -/
def verdict (t : Tracker) : Op → Obs → Option String
  | .add m, .added len e =>
    if len ≠ min cap (t.rev.length + 1) then some "add-len"
    else match missingField m e with
      | some name => some ("field-missing " ++ name)
      | none => none
  | .add _, _ => some "add-obs"
  | .records method c f, .resp st body =>
    if method ≠ "GET" then (if is4xx st then none else some "refuse-method")
    else match countArg c with
      | none => if is4xx st then none else some "refuse-count"
      | some n =>
        match formatArg f with
        | none => if is4xx st then none else some "refuse-format"
        | some fm =>
          if st ≠ 200 then some "query-status"
          else if body ≠ encode fm (t.expected n) then some "query-body"
          else none
  | .records _ _ _, _ => some "records-obs"
  | .reset method, .resp st _ =>
    if method = "POST" then (if is2xx st then none else some "reset-status")
    else (if is4xx st then none else some "refuse-method")
  | .reset _, _ => some "reset-obs"

/-- the tracker after the operation -/
def next (t : Tracker) : Op → Obs → Tracker
  | .add _, .added _ e => ⟨e :: t.rev⟩
  | .reset method, _ => if method = "POST" then ⟨[]⟩ else t
  | _, _ => t

def holdsStep (t : Tracker) (op : Op) (o : Obs) : Bool := (verdict t op o).isNone

/-- C20 on a trace that starts in tracker state `t` -/
def holdsFrom (t : Tracker) : List (Op × Obs) → Bool
  | [] => true
  | (op, o) :: rest => holdsStep t op o && holdsFrom (next t op o) rest

/-- C20 on a trace that starts with an empty store -/
def holdsTrace (tr : List (Op × Obs)) : Bool := holdsFrom Tracker.init tr

end Ipfix.C20
