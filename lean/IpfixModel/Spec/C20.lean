/-
  C20: executable property predicate evaluated on a trace of (operation, observation) pairs of
  the standalone collector's store (definitions only; the theorem that the model's own trace
  satisfies it is in Props/C20).

  The predicate does not use the model's `render`: the entries are the ones the implementation
  itself showed when the messages arrived (`Obs.added`). It demands
  * after every arrival the store holds min(cap, arrivals since the last reset) entries
    (never more than the cap), and the new entry contains, for every field of every record, the
    line `    name: value \n` (template records: `    name: len=.. (enterprise ID = ..) \n`);
  * a valid GET /records answers 200 with exactly the encoding (JSON or text) of the last
    min(n, stored) entries of the window = the last `cap` arrivals since the last reset, in
    arrival order;
  * a wrong method, an invalid count or an invalid format is refused with a 4xx status (and, by
    the next query, changes nothing); POST /reset answers 2xx and empties the window.
  Float fields are not demanded (Go's `%v` of floats is not modelled); fields of types the
  library cannot decode (micro/nanosecond times, lists) never occur in a received message and
  are not demanded either.
-/
import IpfixModel.Model.Store
namespace Ipfix.C20
open Ipfix.Store

/-- does `p` occur in `s` as a contiguous piece? -/
def infixB : List Char → List Char → Bool
  | p, [] => p.isEmpty
  | p, c :: s => p.isPrefixOf (c :: s) || infixB p (s)

def occursIn (line entry : String) : Bool := infixB line.toList entry.toList

/-- types whose value the entry must show -/
def valueShown : DataType → Bool
  | .octetArray | .unsigned8 | .unsigned16 | .unsigned32 | .unsigned64
  | .signed8 | .signed16 | .signed32 | .signed64 | .boolean | .macAddress | .string
  | .dateTimeSeconds | .dateTimeMilliseconds | .ipv4Address | .ipv6Address => true
  | _ => false

/-- the line a field must appear as, if any -/
def demandedLine (isTemplate : Bool) (f : IE × Value) : Option String :=
  if isTemplate then some (tplLine f.1)
  else if valueShown f.1.ty then some (fieldLine f.1 f.2) else none

/-- name of the first field of the message that the entry does not show -/
def missingField (m : Msg) (entry : String) : Option String :=
  (m.records.flatten.find? fun f =>
    match demandedLine m.isTemplate f with
    | some l => !occursIn l entry
    | none => false).map fun f => f.1.name

/-- entries (as shown by the implementation) of the messages that arrived since the last reset,
    newest first -/
structure Tracker where
  rev : List String

def Tracker.init : Tracker := ⟨[]⟩

/-- arrivals since the last reset in arrival order -/
def Tracker.arrivals (t : Tracker) : List String := t.rev.reverse

/-- what the store must hold: the last `cap` arrivals, in arrival order
    (`= takeLast cap t.arrivals`, lemma `window_eq_takeLast`) -/
def Tracker.window (t : Tracker) : List String := (t.rev.take cap).reverse

/-- what a valid query must return -/
def Tracker.expected (t : Tracker) (count : Option Nat) : List String :=
  let w := t.window
  match count with
  | none => w
  | some n => takeLast (min n w.length) w

def is4xx (st : Nat) : Bool := st / 100 == 4
def is2xx (st : Nat) : Bool := st / 100 == 2

/-- `none` = the observation is what C20 demands in this state; `some why` otherwise -/
def verdict (t : Tracker) : Op → Obs → Option String
  | .add m, .added len e =>
    if len ≠ min cap (t.rev.length + 1) then some "add-len"
    else match missingField m e with
      | some name => some ("field-missing " ++ name)
      | none => none
  | .add _, _ => some "add-obs"
  | .records method c f, .resp st body =>
    if method ≠ "GET" then (if is4xx st then none else some "refuse-method")
    else match countArg c with
      | none => if is4xx st then none else some "refuse-count"
      | some n =>
        match formatArg f with
        | none => if is4xx st then none else some "refuse-format"
        | some fm =>
          if st ≠ 200 then some "query-status"
          else if body ≠ encode fm (t.expected n) then some "query-body"
          else none
  | .records _ _ _, _ => some "records-obs"
  | .reset method, .resp st _ =>
    if method = "POST" then (if is2xx st then none else some "reset-status")
    else (if is4xx st then none else some "refuse-method")
  | .reset _, _ => some "reset-obs"

/-- the tracker after the operation -/
def next (t : Tracker) : Op → Obs → Tracker
  | .add _, .added _ e => ⟨e :: t.rev⟩
  | .reset method, _ => if method = "POST" then ⟨[]⟩ else t
  | _, _ => t

def holdsStep (t : Tracker) (op : Op) (o : Obs) : Bool := (verdict t op o).isNone

/-- C20 on a trace that starts in tracker state `t` -/
def holdsFrom (t : Tracker) : List (Op × Obs) → Bool
  | [] => true
  | (op, o) :: rest => holdsStep t op o && holdsFrom (next t op o) rest

/-- C20 on a trace that starts with an empty store -/
def holdsTrace (tr : List (Op × Obs)) : Bool := holdsFrom Tracker.init tr

end Ipfix.C20
