/-
  C11 - TCP framing independent of segmentation. Definitions only.

  The specification does not look at the incremental reader (buffer, peek, read-full): it splits
  the WHOLE byte stream a connection has received into length-prefixed frames (`frames`), hands
  them to the decoder in order until the first one that does not decode (`runFrames`), and says
  which messages a newly arrived segment must cause to be delivered: those of the frames the
  whole stream now contains beyond the frames it contained before (`expectSeg`).
  `verdict` compares that expectation with what the implementation reported.
-/
import IpfixModel.Model.Framer
namespace Ipfix.C11
open Ipfix.Framer

variable {σ μ : Type}

/-- RFC 7011 section 3.1 / 10.4.2.1 over a stream transport: messages are laid end to end, the
    16-bit Length field at offset 2 of each gives its total length in octets.
    `framesFuel fuel b` = (the complete frames at the front of `b`, what is left). A length
    field below 4 cannot be the length of a message that contains its own length field: such a
    frame is returned (no decoder accepts it) and ends the splitting. -/
def framesFuel : Nat → Bytes → List Bytes × Bytes
  | 0, b => ([], b)
  | fuel+1, b =>
    match peekLen b with
    | none => ([], b)
    | some n =>
      if n ≤ b.length then
        if n < 4 then ([b.take n], b.drop n)
        else ((b.take n) :: (framesFuel fuel (b.drop n)).1, (framesFuel fuel (b.drop n)).2)
      else ([], b)

/-- the complete frames of a whole byte stream, and the incomplete rest -/
def frames (b : Bytes) : List Bytes × Bytes := framesFuel (b.length + 1) b

/-- a well-formed frame: at least the 4 bytes up to the length field, and the length field is
    the frame's size -/
def WFFrame (f : Bytes) : Prop := peekLen f = some f.length

instance (f : Bytes) : Decidable (WFFrame f) := by unfold WFFrame; infer_instance

/-- frames go to the decoder in order; the first that does not decode ends the connection.
    Result: decoder state, delivered messages, closed? -/
def runFrames (dec : Decoder σ μ) : σ → List Bytes → σ × List μ × Bool
  | st, [] => (st, [], false)
  | st, f :: fs =>
    match dec.run st f with
    | (st', none) => (st', [], true)
    | (st', some m) => ((runFrames dec st' fs).1, m :: (runFrames dec st' fs).2.1, (runFrames dec st' fs).2.2)

/-- the specification's view of a connection: everything it received while open -/
structure SConn where
  stream : Bytes := []
  closed : Bool := false
  deriving Repr, DecidableEq

/-- the frames completed by a new segment: those of the whole stream with the segment, beyond
    those of the whole stream without it -/
def newFrames (stream chunk : Bytes) : List Bytes :=
  (frames (stream ++ chunk)).1.drop (frames stream).1.length

/-- what a segment arriving on connection `c` must cause, given the decoder state at that
    moment: (new decoder state, new connection view, messages delivered) -/
def expectSeg (dec : Decoder σ μ) (st : σ) (c : SConn) (chunk : Bytes) : σ × SConn × List μ :=
  if c.closed then (st, c, [])
  else
    ((runFrames dec st (newFrames c.stream chunk)).1,
     { stream := c.stream ++ chunk, closed := (runFrames dec st (newFrames c.stream chunk)).2.2 },
     (runFrames dec st (newFrames c.stream chunk)).2.1)

/-- the peer closes its end -/
def expectEof (c : SConn) : SConn := { c with closed := true }

/-- the specification's collecting process -/
structure SSys (σ : Type) where
  st : σ
  conns : Nat → Option SConn := fun _ => none

def SSys.open (s : SSys σ) (c : Nat) : SSys σ :=
  { s with conns := fun x => if x = c then some {} else s.conns x }

def SSys.seg (dec : Decoder σ μ) (s : SSys σ) (c : Nat) (chunk : Bytes) : SSys σ × List μ :=
  match s.conns c with
  | none => (s, [])
  | some cn =>
    ({ st := (expectSeg dec s.st cn chunk).1,
       conns := fun x => if x = c then some (expectSeg dec s.st cn chunk).2.1 else s.conns x },
     (expectSeg dec s.st cn chunk).2.2)

def SSys.eof (s : SSys σ) (c : Nat) : SSys σ :=
  match s.conns c with
  | none => s
  | some cn => { s with conns := fun x => if x = c then some (expectEof cn) else s.conns x }

/-- delivered messages are compared in rendered form (one token string per message) -/
inductive Verdict where
  | holds
  | lost        -- fewer messages than the stream contains (a strict prefix of the expectation)
  | extra       -- more messages than the stream contains (the expectation is a strict prefix)
  | wrong       -- a message the stream does not contain at that position
  deriving Repr, DecidableEq

def isStrictPrefix (a b : List String) : Bool := a.length < b.length && b.take a.length == a

def verdict (expected impl : List String) : Verdict :=
  if impl == expected then .holds
  else if isStrictPrefix impl expected then .lost
  else if isStrictPrefix expected impl then .extra
  else .wrong

/-- the executable property predicate for one segment -/
def holdsSeg (expected impl : List String) : Bool := verdict expected impl == .holds

/-- ... and for the connection state reported by the implementation -/
def holdsState (c : SConn) (implClosed : Bool) : Bool := c.closed == implClosed

end Ipfix.C11
