/-
  C03: an independent reading of RFC 7011 section 3.4 / 7 (data records, variable-length
  encoding, padding) and section 3.2 (field specifiers), written as relations on byte strings.
  Definitions only.
-/
import IpfixModel.Model.Collector
namespace Ipfix.C03

/-- `IsField ie s p`: `s` is the complete wire encoding of one field of element `ie`, and `p`
    is its payload: fixed-length elements occupy exactly `ie.len` bytes; variable-length ones
    carry a 1-byte length (< 255) or `0xFF` and a 2-byte length, followed by that many bytes. -/
def IsField (ie : IE) (s p : Bytes) : Prop :=
  if ie.len = VariableLength then
    (∃ l : UInt8, s = l :: p ∧ l.toNat < 255 ∧ p.length = l.toNat) ∨
    (∃ hi lo : UInt8, s = 255 :: hi :: lo :: p ∧ p.length = hi.toNat * 256 + lo.toNat)
  else s = p ∧ p.length = ie.len

/-- one record: the fields of the template, in order, each at its full width -/
inductive IsRecord : Template → List Bytes → List Bytes → Prop
  | nil : IsRecord [] [] []
  | cons {ie t s p ss ps} : IsField ie s p → IsRecord t ss ps → IsRecord (ie :: t) (s :: ss) (p :: ps)

/-- `Slices tpl body recs pad`: `body` is the concatenation of complete records (each given by the
    payloads of its fields) followed by `pad`, which is too short to hold another record -/
inductive Slices (tpl : Template) : Bytes → List (List Bytes) → Bytes → Prop
  | done {pad} : pad.length < minRecordLen tpl → Slices tpl pad [] pad
  | cons {ss ps rest recs pad} : IsRecord tpl ss ps → Slices tpl rest recs pad →
      Slices tpl (ss.flatten ++ rest) (ps :: recs) pad

/-- decoding the payloads of one record with the per-type decoder (keep / strict: every field;
    drop: nameless elements omitted) -/
def decodePayloads (mode : Mode) : Template → List Bytes → Outcome (List Value)
  | ie :: t, p :: ps =>
    decodeElem ie p >>= fun v =>
    decodePayloads mode t ps >>= fun vs =>
    if mode = .drop ∧ ie.name = "" then .ok vs else .ok (v :: vs)
  | _, _ => .ok []

/-- field specifiers as they appear on the wire: (element id, field length, enterprise number or 0) -/
def wireSpecs : Nat → Bytes → Option (List (Nat × Nat × Nat))
  | 0, _ => some []
  | n+1, i0 :: i1 :: l0 :: l1 :: r =>
    if i0.toNat ≥ 128 then
      match r with
      | e0 :: e1 :: e2 :: e3 :: r' =>
        (wireSpecs n r').map fun t =>
          ((i0.toNat - 128) * 256 + i1.toNat, l0.toNat * 256 + l1.toNat,
            ((e0.toNat * 256 + e1.toNat) * 256 + e2.toNat) * 256 + e3.toNat) :: t
      | _ => none
    else (wireSpecs n r).map fun t => (i0.toNat * 256 + i1.toNat, l0.toNat * 256 + l1.toNat, 0) :: t
  | _+1, _ => none

end Ipfix.C03
