/-
  C06: the declarative scheduling specification (definitions only), independent of the heap:
  the queue is a finite set of items (key, active deadline, inactive deadline) plus the
  readiness of the flow they point at. `checkRec` / `checkScan` / `checkSched` judge a transition
  between two snapshots of the IMPLEMENTATION.
-/
import IpfixModel.Generated.Consts
namespace Ipfix.C06

structure SItem where
  key : Nat
  active : Nat
  inactive : Nat
  ok : Bool          -- index = position and the item points at the flow held under its key
  ready : Bool
  retries : Nat
  deriving Repr, DecidableEq, Inhabited

structure Snap where
  held : List Nat
  queue : List SItem
  nflows : Nat
  deriving Repr, Inhabited

def SItem.deadline (it : SItem) : Nat := if it.active < it.inactive then it.active else it.inactive
def SItem.due (it : SItem) (now : Nat) : Bool := it.active ≤ now || it.inactive ≤ now

def sortKeys (l : List Nat) : List Nat := (l.toArray.qsort (· < ·)).toList

/-- no flow is stranded: held keys = queued keys, no key queued twice, every item consistent -/
def checkSched (s : Snap) : Option String :=
  if s.queue.any (fun it => !it.ok) then some "item-inconsistent"
  else if sortKeys s.held != sortKeys (s.queue.map (·.key)) then some "held-vs-queued"
  else if (sortKeys s.held).eraseDups.length != s.held.length then some "duplicate-key"
  else if s.nflows != s.held.length then some "nflows"
  else none

def findItem (q : List SItem) (k : Nat) : Option SItem := q.find? (·.key == k)

/-- a record for key `k` arrived at `now`: a new flow gets (now + A, now + I); an existing one keeps
    its active deadline and gets inactive := now + I; nothing else moves -/
def checkRec (pre post : Snap) (k now a i : Nat) : Option String :=
  let others := fun (q : List SItem) => (q.filter (·.key != k)).map fun it => (it.key, it.active, it.inactive)
  if sortKeys ((others pre.queue).map (·.1)) != sortKeys ((others post.queue).map (·.1)) then some "other-keys-changed"
  else if (others pre.queue).any (fun t => !(others post.queue).contains t) then some "other-deadlines-changed"
  else match findItem pre.queue k, findItem post.queue k with
    | none, some n => if n.active == now + a && n.inactive == now + i then none else some "new-flow-deadlines"
    | some o, some n => if n.active == o.active && n.inactive == now + i then none else some "refresh-deadlines"
    | _, none => some "flow-not-queued"

/-- nothing that touches the schedule happened between two snapshots: the clock advanced, a dump or the
    advertised expiry was asked for - or a record was REFUSED (AggregateMsgByFlowKey returned an error:
    the record's template lacks an element the aggregation is configured with). A refused record of a
    held flow does not count as a sign of life - no deadline moves, no item changes - and a record
    refused at the creation of a flow creates none: the same keys are held, the flow count is what it
    was, and every item has the deadlines, the readiness and the retry count it had -/
def checkIdle (pre post : Snap) : Option String :=
  if sortKeys pre.held != sortKeys post.held then some "held-keys-changed"
  else if pre.nflows != post.nflows then some "nflows-changed"
  else if pre.queue.length != post.queue.length then some "queue-length-changed"
  else match pre.queue.find? (fun it => findItem post.queue it.key != some it) with
    | some it => some s!"item-changed {it.key}"
    | none => none

/-- an expiry scan at `now`: `cbs` = keys handed to the callback in order, `failed` = the scan was
    aborted by the callback on the last of them -/
def checkScan (pre post : Snap) (now a i : Nat) (cbs : List Nat) (failed : Bool) : Option String :=
  let failKey : Option Nat := if failed then cbs.getLast? else none
  let failDeadline : Option Nat := failKey.bind fun k => (findItem pre.queue k).map (·.deadline)
  -- every callback is for a queued, due, ready flow, at most once, in non-decreasing deadline order
  let cbItems := cbs.filterMap (findItem pre.queue)
  if cbItems.length != cbs.length then some "callback-for-unqueued-flow"
  else if cbItems.any (fun it => !it.due now) then some "callback-before-deadline"
  else if cbItems.any (fun it => !it.ready) then some "callback-for-unready-flow"
  else if cbs.eraseDups.length != cbs.length then some "callback-twice"
  else if !(cbItems.zip (cbItems.drop 1)).all (fun p => p.1.deadline ≤ p.2.deadline) then some "callback-order"
  else
    let bad := pre.queue.filterMap fun it =>
      let after := findItem post.queue it.key
      let unchanged := after == some it
      let mayBeSkipped := match failDeadline with | some d => it.deadline ≥ d | none => false
      if !it.due now then (if unchanged then none else some s!"not-due-item-changed {it.key}")
      else if some it.key == failKey then (if unchanged then none else some s!"failed-callback-item-changed {it.key}")
      else if !it.ready then
        -- silently retried (re-armed) or dropped after MaxRetries
        let processed :=
          if it.retries + 1 > Generated.cMaxRetries then after.isNone
          else after == some { it with active := now + a, inactive := now + i, retries := it.retries + 1 }
        if processed || (mayBeSkipped && unchanged) then none else some s!"unready-item {it.key}"
      else if cbs.contains it.key then
        let processed := if it.inactive ≤ now then after.isNone else after == some { it with active := now + a }
        if processed then none else some s!"expired-item {it.key}"
      else if mayBeSkipped && unchanged then none
      else some s!"due-item-without-callback {it.key}"
    match bad with
    | b :: _ => some b
    | [] =>
      if post.queue.any (fun it => (findItem pre.queue it.key).isNone) then some "item-appeared"
      else if !failed && a > 0 && i > 0 && post.queue.any (fun it => it.due now) then some "due-item-left-after-complete-scan"
      else none

/-- the advertised time to the next expiry -/
def expectedExpiry (s : Snap) (now a i : Nat) : Nat :=
  let minExp := Generated.cMinExpiryTime / 1000000
  match s.queue.map (·.deadline) with
  | [] => if a < i then a else i
  | d :: ds =>
    let m := ds.foldl min d
    if minExp + m < now then minExp else minExp + m - now


inductive Pending where
  | none
  | record (k : Nat)
  | scan (cbs : List Nat) (failed : Bool)
  deriving Repr, Inhabited

/-- tracker over the implementation's observations -/
structure Tracker where
  now : Nat := 0
  a : Nat := 0
  i : Nat := 0
  last : Snap := { held := [], queue := [], nflows := 0 }
  pending : Pending := .none
  /-- the aggregation ACCEPTED a record whose template lacks elements (a flow created from it lacks them
      too, so complete records of that flow may be refused from now on): a refused record is no longer
      a failure by itself; it still must leave the schedule alone -/
  lax : Bool := false
  deriving Repr, Inhabited

end Ipfix.C06
