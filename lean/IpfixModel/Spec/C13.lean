/-
  C13 - the aggregation process is linearizable. Definitions only (imported by Props/C13.lean and
  by the driver Driver/MainLin.lean): the instantiation of Model/Atomic.lean with the sequential
  model of the aggregation process (Model/Agg.lean), the observation type, and the executable
  predicate `holdsHistory` that is evaluated on the histories recorded from the REAL
  AggregationProcess under concurrency.

  Operations = the public operations of pkg/intermediate/aggregate.go at the granularity at which
  the code takes a.mutex: ONE RECORD per ingest (AggregateMsgByFlowKey locks per record, not per
  message), one whole expiry scan (ForAllExpiredFlowRecordsDo, with the callback's verdict per key
  and whether it resets the statistics of what it exported), GetNumFlows,
  GetExpiryFromExpirePriorityQueue, ForAllRecordsDo (a dump of every held flow, sorted by key since
  Go's map iteration order is unspecified). The virtual clock does not move during a concurrent
  phase; it is part of the initial state.

  PARTIAL: what is proved (Props/C13.lean) is "atomic ⇒ linearizable" and the soundness of this
  checker; that sync.RWMutex makes the critical sections atomic and that there is no data race is
  observed (race detector + this predicate on recorded histories), not proved.
-/
import IpfixModel.Model.Atomic
import IpfixModel.Model.Agg
namespace Ipfix.C13
open Agg Atomic

inductive LOp where
  | ingest (r : InRec)
  | scan (fail : List Nat) (reset : Bool)
  | numFlows
  | getExpiry
  | dump
  deriving Repr, DecidableEq

inductive Obs where
  /-- the record was accepted -/
  | ack
  /-- the implementation returned an error (the model never does) -/
  | refused
  /-- the callback invocations of one scan, in order, and whether the scan was aborted -/
  | scanned (cbs : List (Nat × AggRec)) (failed : Bool)
  | num (n : Nat)
  /-- milliseconds -/
  | expiry (ms : Nat)
  /-- every held flow, sorted by key -/
  | dump (fs : List (Nat × AggRec))
  /-- an observation line that does not parse -/
  | other
  deriving Repr, DecidableEq

def insertByKey (p : Nat × AggRec) : List (Nat × AggRec) → List (Nat × AggRec)
  | [] => [p]
  | q :: l => if p.1 ≤ q.1 then p :: q :: l else q :: insertByKey p l

def sortFlows (l : List (Nat × AggRec)) : List (Nat × AggRec) := l.foldr insertByKey []

/-- the sequential specification: one public operation of the aggregation process -/
def spec (s : State) : LOp → State × Obs
  | .ingest r => (ingest s r, .ack)
  | .scan f ra =>
    let r := scan s (fun k => f.contains k) ra
    (r.1, .scanned r.2.callbacks r.2.failed)
  | .numFlows => (s, .num s.flows.length)
  | .getExpiry => (s, .expiry (nextExpiry s))
  | .dump => (s, .dump (sortFlows s.flows))

/-- the final observation of a run: the dump and the expiry queue as a set (sorted by key; the
    heap's array order depends on the order of independent operations) -/
structure Final where
  flows : List (Nat × AggRec)
  queue : List (Nat × Nat × Nat)
  deriving Repr, DecidableEq

def insertQ (p : Nat × Nat × Nat) : List (Nat × Nat × Nat) → List (Nat × Nat × Nat)
  | [] => [p]
  | q :: l => if p.1 ≤ q.1 then p :: q :: l else q :: insertQ p l

def finalOf (s : State) : Final :=
  { flows := sortFlows s.flows,
    queue := (s.pq.toList.map fun it => (it.key, it.active, it.inactive)).foldr insertQ [] }

/-- THE PREDICATE: the recorded history (completed operations with invoke/response stamps) has a
    real-time-consistent sequential order that reproduces every observed response from `init` and,
    if a final observation was taken after the concurrent phase, ends in exactly that state -/
def holdsHistory (init : State) (hist : List (HEvent LOp Obs)) (final : Option Final) : Bool :=
  linearizable spec init (fun s => match final with | none => true | some f => finalOf s == f) hist

/-- the witness order, for diagnostics -/
def witness (init : State) (hist : List (HEvent LOp Obs)) (final : Option Final) : Option (List Nat) :=
  searchOrder spec (fun s => match final with | none => true | some f => finalOf s == f) hist.length init hist

/-- no key is handed to the callback twice within one scan -/
def noDoubleExport (cbs : List (Nat × AggRec)) : Bool := (cbs.map (·.1)).eraseDups.length == cbs.length

/-- the state after a sequential order of operations -/
def runOps (s : State) (ops : List LOp) : State := ops.foldl (fun s op => (spec s op).1) s

def ingestsOf : List LOp → List InRec
  | [] => []
  | .ingest r :: l => r :: ingestsOf l
  | _ :: l => ingestsOf l

def noScan : List LOp → Bool
  | [] => true
  | .scan _ _ :: _ => false
  | _ :: l => noScan l

/-- the shared fields of AggregationProcess the lock table is about -/
def sharedFields : List String := ["flowKeyRecordMap", "expirePriorityQueue", "workerList"]

end Ipfix.C13
