/-
  C17: executable predicate on the implementation's observations for one (template, data) pair
  decoded under the three modes, and with the unknown fields cut out. Definitions only.
-/
import IpfixModel.Model.Collector
namespace Ipfix.C17

/-- what the decoder reported for one packet -/
inductive Obs where
  | tpl (id : Nat) (ies : List IE)
  | data (recs : List (List Value))
  | err
  | other
  deriving Repr, DecidableEq

def IE.known (ie : IE) : Bool := ie.name != ""

/-- keep exactly the values at the positions of known elements -/
def filterKnown : Template → List Value → List Value
  | ie :: t, v :: vs => if IE.known ie then v :: filterKnown t vs else filterKnown t vs
  | _, _ => []

structure CaseObs where
  strictTpl : Obs
  strictData : Obs
  keepTpl : Obs
  keepData : Obs
  dropTpl : Obs
  dropData : Obs
  strippedTpl : Obs
  strippedData : Obs

/-- `body` is the data set body; the template in force is whatever keep mode reported. -/
def holdsCase (body : Bytes) (o : CaseObs) : Bool × String :=
  match o.keepTpl with
  | .err =>
    -- the template is not acceptable even leniently (e.g. zero-length unknown element):
    -- every mode must refuse it and the data that follows
    if o.strictTpl == .err && o.dropTpl == .err && o.strictData == .err && o.keepData == .err && o.dropData == .err
    then (true, "") else (false, "lenient-reject-not-uniform")
  | .tpl _ ies =>
    let hasUnknown := ies.any fun ie => !IE.known ie
    let strictOK :=
      if hasUnknown then o.strictTpl == .err && o.strictData == .err
      else o.strictTpl == o.keepTpl && o.strictData == o.keepData
    if !strictOK then (false, "strict") else
    if o.dropTpl != o.keepTpl then (false, "drop-template") else
    match decodeRecords .keep ies body, o.keepData, o.dropData with
    | .ok expected, .data kr, .data dr =>
      if kr != expected then (false, "keep-values")
      else if dr != kr.map (filterKnown ies) then (false, "drop-filter")
      else if (ies.any IE.known) && o.strippedData != .data dr then (false, "known-fields-depend-on-unknown")
      else (true, "")
    | .ok _, _, _ => (false, "rejected-valid-data")
    | _, .err, .err => (true, "")
    | _, _, _ => (false, "accepted-invalid-data")
  | _ => (false, "keep-template-obs")

end Ipfix.C17
