/-
  C15: executable property predicate evaluated on the implementation's observations
  (definitions only; the theorem that the model's own observations satisfy it is in Props/C15).
-/
import IpfixModel.Model.Collector
import IpfixModel.Model.Builder
namespace Ipfix.C15

/-- canonical form of a value after one trip over the wire: an IP address comes back in its
    4- resp. 16-byte form (`net.IP.To4` / `To16`, the same address); everything else is unchanged. -/
def canon (ie : IE) (v : Value) : Value :=
  match ie.ty, v with
  | .ipv4Address, .bytes b => .bytes ((to4 b).getD b)
  | .ipv6Address, .bytes b => .bytes ((to16 b).getD b)
  | _, v => v

/-- what the `ie rt` operation reports -/
inductive RTObs where
  | ok (bs : Bytes) (len : Nat) (recs : List (List Value))
  | encerr
  | decerr
  | other
  deriving Repr

/-- C15 on one element: for a well-typed value the element is encoded into exactly its reported
    length, and the collector's decoder, fed those bytes (plus `tail`), delivers the same value as
    its first record (and nothing else when there is no tail). Ill-typed values are outside C15. -/
def holdsRT (ie : IE) (v : Value) (tail : Bytes) (o : RTObs) : Bool :=
  if WellTyped ie v then
    match o with
    | .ok bs len recs =>
      bs.length == len && len == elemLength ie v &&
      recs.head? == some [canon ie v] && (!tail.isEmpty || recs.length == 1)
    | _ => false
  else true

/-- what the `ie recbuf` / `ie recbufx` operations report: the record's reported length and its buffer -/
inductive BufObs where
  | buf (len : Nat) (bs : Bytes)
  | other
  deriving Repr

/-- C15 on a whole data record, however it was put together (in one go, or grown element by element after its
    buffer had been taken): the buffer is exactly the reported length, the reported length is the sum of the
    elements' lengths, and - when every value is one the specification encoder accepts - the bytes are the
    concatenation of the elements' encodings. -/
def holdsRecBuf (es : List Elem) (o : BufObs) : Bool :=
  match o with
  | .buf len bs =>
    bs.length == len && len == recordLength es &&
      (match encodeRecord es with
       | some want => bs == want
       | none => true)
  | .other => false

end Ipfix.C15
