/-
  C05: the aggregation arithmetic stated declaratively over the HISTORY of a flow (definitions only).
  A history is the list of events of one flow since it was created: records (with the reporting
  node they count for) and resets. `expected` computes every field the property talks about as a
  fold / sum / max over that history - no incremental state.
-/
import IpfixModel.Model.Agg
import IpfixModel.Model.FlowKey
namespace Ipfix.C05
open Agg

inductive Ev where
  | record (r : InRec)
  | reset
  deriving Repr, Inhabited

/-- does record `r` count for the source (resp. destination) node's fields? -/
def fillsSrc (r : InRec) : Bool := if corrRequired r.flowType r.corr then fromSrc r.corr else true
def fillsDst (r : InRec) : Bool := if corrRequired r.flowType r.corr then !fromSrc r.corr else true

def recordsOf (fills : InRec → Bool) (h : List Ev) : List InRec :=
  h.filterMap fun e => match e with | .record r => if fills r then some r else none | .reset => none

/-- the events after the last reset -/
def sinceReset (h : List Ev) : List Ev :=
  h.foldl (fun acc e => match e with | .reset => [] | e => acc ++ [e]) []

/-- one node's fields -/
structure NodeExp where
  stats : List Nat
  end_ : Nat
  thr : List Nat
  deriving Repr, DecidableEq

def thrOf (tot prevTot end_ prevEnd : Nat) : Nat := ((tot + u64 - prevTot) % u64 * 8 % u64) / (end_ - prevEnd)

def nodeExpected (fills : InRec → Bool) (h : List Ev) : NodeExp :=
  let all := recordsOf fills h
  let recent := recordsOf fills (sinceReset h)
  match all.getLast? with
  | none => { stats := zeros nStats, end_ := 0, thr := [0, 0] }
  | some last =>
    let prev := all.dropLast.getLast?
    let prevEnd := match prev with | some p => p.end_ | none => last.start
    let prevTot (i : Nat) := match prev with | some p => p.stats.getD i 0 | none => 0
    { stats := (List.range nStats).map fun i =>
        if isDelta i then (recent.map (·.stats.getD i 0)).sum % u64 else last.stats.getD i 0,
      end_ := last.end_,
      thr := if recent.isEmpty then [0, 0]
             else [thrOf (last.stats.getD iOctetTotal 0) (prevTot iOctetTotal) last.end_ prevEnd,
                   thrOf (last.stats.getD iRevOctetTotal 0) (prevTot iRevOctetTotal) last.end_ prevEnd] }

def allRecords (h : List Ev) : List InRec := h.filterMap fun e => match e with | .record r => some r | .reset => none

/-- the records that attained the running maximum end time when they arrived (the first record
    of the flow always does) -/
def leaders : List InRec → Nat → List InRec
  | [], _ => []
  | r :: t, m => if r.end_ ≥ m then r :: leaders t r.end_ else leaders t m

structure Expected where
  end_ : Nat
  src : NodeExp
  dst : NodeExp
  /-- common delta counters and throughput: those of the node whose record last attained the
      running maximum end time; common totals: the largest total among the leaders -/
  common : List Nat
  thr : List Nat
  deriving Repr, DecidableEq

def expected (h : List Ev) : Expected :=
  let recs := allRecords h
  let src := nodeExpected fillsSrc h
  let dst := nodeExpected fillsDst h
  let lead := leaders recs 0
  let leaderNode : Option NodeExp := lead.getLast?.map fun l => if fillsDst l then dst else src
  { end_ := recs.foldl (fun m r => max m r.end_) 0,
    src := src, dst := dst,
    common := (List.range nStats).map fun i =>
      if isDelta i then (match leaderNode with | some n => n.stats.getD i 0 | none => 0)
      else lead.foldl (fun m r => max m (r.stats.getD i 0)) 0,
    thr := match leaderNode with
      | some n => n.thr
      | none => [0, 0] }

/-- the exporter contract the code assumes, per reporting node: end times strictly increase,
    totals do not decrease, every record has end > start, and 8 x the octet growth fits 64 bits -/
def contractNode (rs : List InRec) : Bool :=
  rs.all (fun r => r.end_ > r.start && r.stats.length == nStats && r.stats.all (· < u64) && r.end_ < u32) &&
  (rs.zip (rs.drop 1)).all (fun p => p.1.end_ < p.2.end_ &&
    (List.range nStats).all (fun i => isDelta i || p.1.stats.getD i 0 ≤ p.2.stats.getD i 0))

def contract (h : List Ev) : Bool :=
  contractNode (recordsOf fillsSrc h) && contractNode (recordsOf fillsDst h) &&
  -- all records of the flow agree on whether correlation is needed
  (match allRecords h with
   | [] => true
   | r :: t => t.all fun x => corrRequired x.flowType x.corr == corrRequired r.flowType r.corr)


/-- the model's aggregated record after a history of one flow (the first event creates the flow) -/
def modelAfter : List Ev → Option AggRec
  | [] => none
  | .reset :: _ => none
  | .record r :: t =>
    some (t.foldl (fun a e => match e with | .record r => update r a | .reset => resetStats a) (create r))

/-- what a dumped / exported aggregated record shows of the fields C05 talks about -/
structure Shown where
  end_ : Nat
  stats : List Nat
  src : List Nat
  dst : List Nat
  endSrc : Nat
  endDst : Nat
  thr : List Nat
  thrSrc : List Nat
  thrDst : List Nat
  deriving Repr, DecidableEq

def checkShown (h : List Ev) (s : Shown) : Option String :=
  let e := expected h
  if s.end_ != e.end_ then some "end-not-latest"
  else if s.src != e.src.stats then some "source-node-counters"
  else if s.dst != e.dst.stats then some "destination-node-counters"
  else if s.endSrc != e.src.end_ || s.endDst != e.dst.end_ then some "node-end-times"
  else if s.thrSrc != e.src.thr || s.thrDst != e.dst.thr then some "node-throughput"
  else if s.stats != e.common then some "common-counters"
  else if s.thr != e.thr then some "common-throughput"
  else none

/-- what the implementation answered for a record's flow key: `none` = it refused the record; else the key as a
    text (its five components as the harness prints them), the three numeric components, the IPv4 flag -/
structure KeyAnswer where
  text : String
  proto : Nat
  sport : Nat
  dport : Nat
  bothV4 : Bool
  deriving Repr, Inhabited

/-- the flow-key judgement (`agg key`), on the implementation's answers alone: a record is refused exactly when it
    lacks an element the key needs; the numeric components are the record's; the flag says that both IPv4 addresses
    were there; and against EVERY earlier record of the session the answer is the same key exactly when the two
    records denote the same 5-tuple (`FlowKey.sameTuple`) - "one flow record per distinct 5-tuple" -/
def judgeKey (seen : List (FlowKey.KeyRec × String)) (r : FlowKey.KeyRec) (ans : Option KeyAnswer) : Option String :=
  match FlowKey.flowKey r, ans with
  | none, none => none
  | none, some _ => some "key-for-incomplete-record"
  | some _, none => some "complete-record-refused"
  | some _, some a =>
    if some a.proto != r.proto || some a.sport != r.sport || some a.dport != r.dport then some "component"
    else if a.bothV4 != (r.src4.isSome && r.dst4.isSome) then some "ipv4-flag"
    else if seen.any (fun p => (p.2 == a.text) != FlowKey.sameTuple p.1 r) then some "same-key-iff-same-tuple"
    else none

structure Tracker where
  flows : List (Nat × List Ev) := []
  /-- the records whose flow key the session has asked for, with the implementation's answers (`agg key`) -/
  keys : List (FlowKey.KeyRec × String) := []
  /-- the session left the specification's domain (a record whose template lacks elements, `omit=`:
      the aggregation may refuse it half-way): nothing is judged until the next session starts -/
  off : Bool := false
  deriving Repr, Inhabited

def Tracker.hist (t : Tracker) (k : Nat) : List Ev := ((t.flows.find? (·.1 == k)).map (·.2)).getD []
def Tracker.add (t : Tracker) (k : Nat) (e : Ev) : Tracker :=
  if t.flows.any (·.1 == k) then { t with flows := t.flows.map fun p => if p.1 == k then (k, p.2 ++ [e]) else p }
  else { t with flows := t.flows ++ [(k, [e])] }

end Ipfix.C05
