/-
  Facts about the sequential aggregation model (Model/Agg.lean) that the linearizability property
  C13 needs once a concurrent run has been reduced to SOME sequential order:
    * ingesting a record touches only its own key (`keys_independent`), so the per-key state after
      any sequence of ingests is a function of the per-key subsequence (`ingests_per_key`,
      `per_key_filter`): records for other keys can neither lose nor double-count a delta, and any
      two serialisations with the same per-key order give the same per-key state;
    * for a flow that needs no correlation, every record that is newer than the flow's last one
      adds its delta counters to the per-node delta fields modulo 2^64 - exactly once
      (`update_delta`, `delta_sum`), and a reset puts them back to zero (`reset_delta`);
    * within one expiry scan no key is handed to the callback twice (`scan_callbacks_nodup`),
      by a loop invariant of `scanLoop` on top of the scheduling invariant of Lemmas/Sched.lean.
-/
import IpfixModel.Lemmas.Sched
namespace Ipfix.AggLin
open Agg

/-! ## keys are independent -/

def fnd (l : List (Nat × AggRec)) (k : Nat) : Option AggRec := (l.find? (·.1 == k)).map (·.2)

theorem find_eq_fnd (s : State) (k : Nat) : s.find k = fnd s.flows k := rfl

theorem fnd_replace_eq (l : List (Nat × AggRec)) (k : Nat) (a : AggRec) (h : l.any (·.1 == k) = true) :
    fnd (l.map fun p => if p.1 == k then (k, a) else p) k = some a := by
  induction l with
  | nil => simp at h
  | cons p l ih =>
    by_cases e : p.1 = k
    · simp [fnd, e]
    · have h' : l.any (·.1 == k) = true := by simpa [e] using h
      have := ih h'
      simp only [fnd, List.map_cons] at this ⊢
      have e' : (p.1 == k) = false := by simpa using e
      simp only [e', Bool.false_eq_true, if_false, List.find?_cons]
      exact this

theorem fnd_replace_ne (l : List (Nat × AggRec)) (k k' : Nat) (a : AggRec) (hne : k' ≠ k) :
    fnd (l.map fun p => if p.1 == k then (k, a) else p) k' = fnd l k' := by
  induction l with
  | nil => rfl
  | cons p l ih =>
    simp only [fnd, List.map_cons, List.find?_cons] at ih ⊢
    by_cases e : p.1 = k
    · have e1 : (p.1 == k) = true := by simpa using e
      have e2 : (p.1 == k') = false := by simpa [e] using fun h : k = k' => hne h.symm
      have e3 : (k == k') = false := by simpa using fun h : k = k' => hne h.symm
      simp only [e1, if_true, e2, e3]
      exact ih
    · have e1 : (p.1 == k) = false := by simpa using e
      simp only [e1, Bool.false_eq_true, if_false]
      cases (p.1 == k') <;> simp only [ih]

theorem fnd_append_eq (l : List (Nat × AggRec)) (k : Nat) (a : AggRec) (h : ¬ l.any (·.1 == k) = true) :
    fnd (l ++ [(k, a)]) k = some a := by
  induction l with
  | nil => simp [fnd]
  | cons p l ih =>
    have hp : (p.1 == k) = false := by
      cases hh : (p.1 == k)
      · rfl
      · exact absurd (by simp [hh]) h
    have h' : ¬ l.any (·.1 == k) = true := fun hh => h (by simp [hh])
    have := ih h'
    simp only [fnd, List.cons_append, List.find?_cons, hp] at this ⊢
    exact this

theorem fnd_append_ne (l : List (Nat × AggRec)) (k k' : Nat) (a : AggRec) (hne : k' ≠ k) :
    fnd (l ++ [(k, a)]) k' = fnd l k' := by
  induction l with
  | nil =>
    have e3 : (k == k') = false := by simpa using fun h : k = k' => hne h.symm
    simp [fnd, e3]
  | cons p l ih =>
    simp only [fnd, List.cons_append, List.find?_cons] at ih ⊢
    cases (p.1 == k') <;> simp only [ih]

theorem find_set_eq (s : State) (k : Nat) (a : AggRec) : (s.set k a).find k = some a := by
  rw [find_eq_fnd]
  unfold State.set
  by_cases h : s.flows.any (·.1 == k) = true
  · rw [if_pos h]; exact fnd_replace_eq _ _ _ h
  · rw [if_neg h]; exact fnd_append_eq _ _ _ h

theorem find_set_ne (s : State) (k k' : Nat) (a : AggRec) (hne : k' ≠ k) : (s.set k a).find k' = s.find k' := by
  rw [find_eq_fnd, find_eq_fnd]
  unfold State.set
  by_cases h : s.flows.any (·.1 == k) = true
  · rw [if_pos h]; exact fnd_replace_ne _ _ _ _ hne
  · rw [if_neg h]; exact fnd_append_ne _ _ _ _ hne

/-- the flow record after a record has arrived for it -/
def flowAfter (o : Option AggRec) (r : InRec) : AggRec :=
  match o with
  | some a => update r a
  | none => create r

/-- `ingest` changes the flow map only by `set` on the record's own key -/
theorem ingest_flows (s : State) (r : InRec) :
    (ingest s r).flows = (s.set r.key (flowAfter (s.find r.key) r)).flows := by
  cases h : s.find r.key with
  | none => rw [ingest_new_eq s r h]; rfl
  | some a =>
    cases hi : s.pq.toList.findIdx? (·.key == r.key) with
    | none => rw [ingest_upd_none_eq s r a h hi]; rfl
    | some i => rw [ingest_upd_eq s r a i h hi]; rfl

/-- ingesting a record for one key leaves every other key's flow alone -/
theorem keys_independent (s : State) (r : InRec) (k : Nat) (h : r.key ≠ k) : (ingest s r).find k = s.find k := by
  rw [find_eq_fnd, ingest_flows, ← find_eq_fnd]
  exact find_set_ne s r.key k _ (fun e => h e.symm)

theorem ingest_find_same (s : State) (r : InRec) : (ingest s r).find r.key = some (flowAfter (s.find r.key) r) := by
  rw [find_eq_fnd, ingest_flows, ← find_eq_fnd]
  exact find_set_eq s r.key _

/-- the per-key view of a sequence of ingests -/
def perKey (k : Nat) (o : Option AggRec) (rs : List InRec) : Option AggRec :=
  rs.foldl (fun o r => if r.key = k then some (flowAfter o r) else o) o

theorem ingests_per_key (rs : List InRec) (s : State) (k : Nat) :
    (rs.foldl ingest s).find k = perKey k (s.find k) rs := by
  induction rs generalizing s with
  | nil => rfl
  | cons r rs ih =>
    simp only [List.foldl_cons, perKey]
    rw [ih]
    by_cases e : r.key = k
    · rw [if_pos e, ← e, ingest_find_same]; rfl
    · rw [if_neg e, keys_independent s r k e]; rfl

theorem per_key_filter (k : Nat) (o : Option AggRec) (rs : List InRec) :
    perKey k o rs = perKey k o (rs.filter (·.key == k)) := by
  induction rs generalizing o with
  | nil => rfl
  | cons r rs ih =>
    by_cases e : r.key = k
    · have e' : (r.key == k) = true := by simpa using e
      simp only [List.filter_cons, e', if_true]
      simp only [perKey, List.foldl_cons, if_pos e] at ih ⊢
      exact ih _
    · have e' : (r.key == k) = false := by simpa using e
      simp only [List.filter_cons, e', Bool.false_eq_true, if_false]
      simp only [perKey, List.foldl_cons, if_neg e] at ih ⊢
      exact ih _

theorem perKey_some (k : Nat) (rs : List InRec) (a : AggRec) (hk : ∀ r ∈ rs, r.key = k) :
    perKey k (some a) rs = some (rs.foldl (fun a r => update r a) a) := by
  induction rs generalizing a with
  | nil => rfl
  | cons r rs ih =>
    have e := hk r List.mem_cons_self
    simp only [perKey, List.foldl_cons, if_pos e, flowAfter] at ih ⊢
    exact ih _ (fun x hx => hk x (List.mem_cons_of_mem _ hx))

/-! ## delta counters -/

def sumDelta (i : Nat) (rs : List InRec) : Nat := (rs.map (·.stats.getD i 0)).sum

/-- end times strictly increasing, starting above `e` -/
def Increasing : Nat → List InRec → Prop
  | _, [] => True
  | e, r :: l => e < r.end_ ∧ Increasing r.end_ l

theorem updNode_delta (node inc : List Nat) (i : Nat) (hd : isDelta i = true) (hi : i < inc.length) :
    (updNode node inc).getD i 0 = (inc.getD i 0 + node.getD i 0) % u64 := by
  unfold updNode
  rw [List.getD_eq_getElem?_getD, List.getElem?_map, List.getElem?_range hi]
  simp [hd]

/-- a record newer than the flow's last one (no correlation needed): totals replaced, deltas added -/
theorem update_newer (r : InRec) (a : AggRec) (hnc : corrRequired r.flowType r.corr = false)
    (h0 : a.endDst ≠ 0) (hnew : a.endDst < r.end_) :
    (update r a).dstStats = updNode a.dstStats r.stats ∧ (update r a).srcStats = updNode a.srcStats r.stats ∧
      (update r a).endDst = r.end_ ∧ (update r a).endSrc = r.end_ := by
  have h0' : (a.endDst == 0) = false := by simpa using h0
  have hle : ¬ r.end_ ≤ a.endDst := by omega
  unfold update
  simp only [hnc, Bool.false_eq_true, if_false]
  unfold aggregate aggNums
  simp only [AggRec.nums, if_true, h0', Bool.false_eq_true, if_false, hle]
  refine ⟨?_, ?_, ?_, ?_⟩ <;> first | rfl | trivial

theorem update_delta (r : InRec) (a : AggRec) (i : Nat) (hnc : corrRequired r.flowType r.corr = false)
    (h0 : a.endDst ≠ 0) (hnew : a.endDst < r.end_) (hd : isDelta i = true) (hi : i < r.stats.length) :
    (update r a).dstStats.getD i 0 = (a.dstStats.getD i 0 + r.stats.getD i 0) % u64 ∧
    (update r a).srcStats.getD i 0 = (a.srcStats.getD i 0 + r.stats.getD i 0) % u64 := by
  obtain ⟨h1, h2, _, _⟩ := update_newer r a hnc h0 hnew
  rw [h1, h2, updNode_delta _ _ i hd hi, updNode_delta _ _ i hd hi, Nat.add_comm, Nat.add_comm (r.stats.getD i 0)]
  exact ⟨rfl, rfl⟩

theorem sumDelta_cons (i : Nat) (r : InRec) (rs : List InRec) :
    sumDelta i (r :: rs) = r.stats.getD i 0 + sumDelta i rs := by
  simp [sumDelta]

/-- no delta lost, none counted twice: after a run of records with increasing end times, the
    per-node delta field is the old value plus the sum of the records' deltas (mod 2^64) -/
theorem delta_sum (rs : List InRec) (a : AggRec) (i : Nat) (hd : isDelta i = true)
    (hlen : ∀ r ∈ rs, i < r.stats.length) (hnc : ∀ r ∈ rs, corrRequired r.flowType r.corr = false)
    (h0 : a.endDst ≠ 0) (hinc : Increasing a.endDst rs)
    (hb : a.dstStats.getD i 0 < u64 ∧ a.srcStats.getD i 0 < u64) :
    (rs.foldl (fun a r => update r a) a).dstStats.getD i 0 = (a.dstStats.getD i 0 + sumDelta i rs) % u64 ∧
    (rs.foldl (fun a r => update r a) a).srcStats.getD i 0 = (a.srcStats.getD i 0 + sumDelta i rs) % u64 := by
  induction rs generalizing a with
  | nil =>
    simp only [List.foldl_nil, sumDelta, List.map_nil, List.sum_nil, Nat.add_zero]
    exact ⟨(Nat.mod_eq_of_lt hb.1).symm, (Nat.mod_eq_of_lt hb.2).symm⟩
  | cons r rs ih =>
    obtain ⟨hnew, hinc'⟩ := hinc
    have hr_nc := hnc r List.mem_cons_self
    have hr_len := hlen r List.mem_cons_self
    obtain ⟨e1, e2, e3, e4⟩ := update_newer r a hr_nc h0 hnew
    obtain ⟨d1, d2⟩ := update_delta r a i hr_nc h0 hnew hd hr_len
    have hpos : r.end_ ≠ 0 := by omega
    have hu : 0 < u64 := by unfold u64; omega
    have := ih (update r a) (fun x hx => hlen x (List.mem_cons_of_mem _ hx))
      (fun x hx => hnc x (List.mem_cons_of_mem _ hx)) (by rw [e3]; exact hpos)
      (by rw [e3]; exact hinc') (by rw [d1, d2]; exact ⟨Nat.mod_lt _ hu, Nat.mod_lt _ hu⟩)
    simp only [List.foldl_cons]
    rw [this.1, this.2, d1, d2, sumDelta_cons]
    unfold u64
    constructor <;> omega

/-- ResetStatAndThroughputElementsInRecord puts every delta field back to zero and keeps the end times -/
theorem reset_delta (a : AggRec) (i : Nat) (hd : isDelta i = true) :
    (resetStats a).dstStats.getD i 0 = 0 ∧ (resetStats a).srcStats.getD i 0 = 0 ∧
      (resetStats a).endDst = a.endDst ∧ (resetStats a).endSrc = a.endSrc := by
  refine ⟨?_, ?_, rfl, rfl⟩
  · unfold resetStats
    simp only
    rw [List.getD_eq_getElem?_getD, List.getElem?_map]
    by_cases hi : i < a.dstStats.length
    · rw [List.getElem?_range hi]; simp [hd]
    · rw [List.getElem?_eq_none (by simpa using hi)]; rfl
  · unfold resetStats
    simp only
    rw [List.getD_eq_getElem?_getD, List.getElem?_map]
    by_cases hi : i < a.srcStats.length
    · rw [List.getElem?_range hi]; simp [hd]
    · rw [List.getElem?_eq_none (by simpa using hi)]; rfl

/-! ## no key is exported twice within one scan -/

/-- loop invariant: the keys already handed to the callback are distinct and none of them is still
    in the queue (each was deleted or deferred to the push list) -/
def CbInv (s : State) (o : ScanOut) : Prop :=
  (o.callbacks.map (·.1)).Nodup ∧ ∀ k ∈ o.callbacks.map (·.1), k ∉ s.pq.toList.map (·.key)

theorem popped_key_not_queued {s : State} {it : Item} {tp : List Item} (h : Popped s it tp) :
    it.key ∉ s.pq.toList.map (·.key) := by
  obtain ⟨h1, h2, _⟩ := h
  have hnd := h1.nodup_iff.mpr h2
  rw [List.nodup_cons] at hnd
  intro hm
  apply hnd.1
  rw [List.map_append]
  exact List.mem_append_left _ hm

theorem CbInv.shrink {s s' : State} {o : ScanOut} (h : CbInv s o)
    (hsub : ∀ x ∈ s'.pq.toList, x ∈ s.pq.toList) : CbInv s' o := by
  refine ⟨h.1, ?_⟩
  intro k hk hm
  obtain ⟨x, hx, e⟩ := List.mem_map.mp hm
  exact h.2 k hk (List.mem_map.mpr ⟨x, hsub x hx, e⟩)

theorem CbInv.add {s s' : State} {o : ScanOut} {it : Item} (a : AggRec) (f : Bool) (h : CbInv s o)
    (hit : it ∈ s.pq.toList) (hsub : ∀ x ∈ s'.pq.toList, x ∈ s.pq.toList)
    (hnot : it.key ∉ s'.pq.toList.map (·.key)) :
    CbInv s' { o with callbacks := o.callbacks ++ [(it.key, a)], failed := f } := by
  have hfresh : it.key ∉ o.callbacks.map (·.1) :=
    fun hm => h.2 _ hm (List.mem_map.mpr ⟨it, hit, rfl⟩)
  refine ⟨?_, ?_⟩
  · simp only [List.map_append, List.map_cons, List.map_nil]
    rw [List.nodup_append]
    refine ⟨h.1, by simp, ?_⟩
    intro x hx y hy
    rw [List.mem_singleton.mp hy]
    intro e; subst e; exact hfresh hx
  · intro k hk
    simp only [List.map_append, List.map_cons, List.map_nil, List.mem_append, List.mem_singleton] at hk
    rcases hk with hk | hk
    · exact (h.shrink hsub).2 k hk
    · rw [hk]; exact hnot

theorem scanLoop_cb_nodup (fail : Nat → Bool) (ra : Bool) (fuel : Nat) (s : State) (tp : List Item)
    (o : ScanOut) (hinv : LoopInv s tp) (hcb : CbInv s o) :
    ((scanLoop fail ra fuel s tp o).2.2.callbacks.map (·.1)).Nodup := by
  fun_induction scanLoop fail ra fuel s tp o with
  | case1 s tp o => exact hcb.1
  | case2 fuel s tp o h0 => exact hcb.1
  | case3 fuel s tp o h0 top htop => exact hcb.1
  | case4 fuel s tp o h0 top hdue hpop => exact hcb.1
  | case5 fuel s tp o h0 top hdue it pq' hpop s1 hfind ih =>
    exact absurd hfind (hinv.pop hpop).find
  | case6 fuel s tp o h0 top hdue it pq' hpop s1 a hfind hnr a' hret ih =>
    have hP : Popped s1 it tp := hinv.pop hpop
    obtain ⟨hmem, hd, hsub, hsize⟩ := pop_facts hinv hpop hdue
    exact ih hP.del (hcb.shrink hsub)
  | case7 fuel s tp o h0 top hdue it pq' hpop s1 a hfind hnr a' hret ih =>
    have hP : Popped s1 it tp := hinv.pop hpop
    obtain ⟨hmem, hd, hsub, hsize⟩ := pop_facts hinv hpop hdue
    refine ih ((hP.set a').requeue _ rfl) (hcb.shrink ?_)
    rw [set_pq]; exact hsub
  | case8 fuel s tp o h0 top hdue it pq' hpop s1 a hfind hr hfail =>
    have hP : Popped s1 it tp := hinv.pop hpop
    obtain ⟨hmem, hd, hsub, hsize⟩ := pop_facts hinv hpop hdue
    exact (hcb.add (s' := s1) a true hmem hsub (popped_key_not_queued hP)).1
  | case9 fuel s tp o h0 top hdue it pq' hpop s1 a hfind hr hfail o1 s2 hin ih =>
    have hP : Popped s1 it tp := hinv.pop hpop
    obtain ⟨hmem, hd, hsub, hsize⟩ := pop_facts hinv hpop hdue
    have hP2 : Popped s2 it tp := hP.ite_set ra _
    have hpq2 : s2.pq = pq' := ite_set_pq ra _ _ _
    refine ih hP2.del ?_
    have := hcb.add (s' := s1) a o.failed hmem hsub (popped_key_not_queued hP)
    exact this.shrink (by show ∀ x ∈ s2.pq.toList, x ∈ s1.pq.toList; rw [hpq2]; exact fun x hx => hx)
  | case10 fuel s tp o h0 top hdue it pq' hpop s1 a hfind hr hfail o1 s2 hin ih =>
    have hP : Popped s1 it tp := hinv.pop hpop
    obtain ⟨hmem, hd, hsub, hsize⟩ := pop_facts hinv hpop hdue
    have hP2 : Popped s2 it tp := hP.ite_set ra _
    have hpq2 : s2.pq = pq' := ite_set_pq ra _ _ _
    refine ih (hP2.requeue _ rfl) ?_
    have := hcb.add (s' := s1) a o.failed hmem hsub (popped_key_not_queued hP)
    exact this.shrink (by show ∀ x ∈ s2.pq.toList, x ∈ s1.pq.toList; rw [hpq2]; exact fun x hx => hx)

/-- within one expiry scan no key is handed to the callback twice -/
theorem scan_callbacks_nodup (s : State) (fail : Nat → Bool) (ra : Bool) (h : Sched s) :
    ((scan s fail ra).2.callbacks.map (·.1)).Nodup := by
  rw [scan_snd]
  exact scanLoop_cb_nodup fail ra _ s [] {} h.loopInv ⟨List.nodup_nil, fun _ hk => absurd hk List.not_mem_nil⟩

/-- a scan that finds every queued deadline in the future exports nothing -/
theorem scan_all_future (s : State) (fail : Nat → Bool) (ra : Bool)
    (h : ∀ it ∈ s.pq.toList, s.now < it.active ∧ s.now < it.inactive) : (scan s fail ra).2.callbacks = [] := by
  rw [scan_snd]
  unfold scanLoop
  by_cases h0 : s.pq.size = 0
  · rw [if_pos h0]
  · rw [if_neg h0]
    have hlt : 0 < s.pq.size := Nat.pos_of_ne_zero h0
    have hm : s.pq[0]! ∈ s.pq.toList := by
      rw [Heap.get!_of_lt s.pq 0 hlt]
      exact Array.getElem_mem_toList _
    have := h _ hm
    simp only
    rw [if_pos ⟨this.1, this.2⟩]

end Ipfix.AggLin
