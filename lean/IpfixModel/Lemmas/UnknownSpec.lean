/-
  Template field specifiers for elements the registry may or may not know (C17, template level):
  what decodeSpecifier makes of the exporter-side layout `fieldSpec ie` in each mode.
-/
import IpfixModel.Lemmas.E2E
namespace Ipfix
open Outcome

/-- what the collector records for an element it does not find: no name, octet array, and the id,
    enterprise number and length exactly as they were on the wire -/
def unknownIE (ie : IE) : IE := { name := "", id := ie.id, ty := .octetArray, ent := ie.ent, len := ie.len }

/-- the outcome of reading one field specifier, by registry lookup and mode -/
def specResult (lookup : Nat → Nat → Option IE) (mode : Mode) (ie : IE) (rest : Bytes) : Outcome (IE × Bytes) :=
  match lookup ie.ent ie.id with
  | some ie' => zeroValue ie' >>= fun _ => .ok (ie', rest)
  | none =>
    if mode = .strict then .err
    else if ie.len = 0 then .err
    else .ok (unknownIE ie, rest)

/-- the collector's specifier reader on the exporter's layout of ANY element that fits a specifier -/
theorem decodeSpecifier_fieldSpec_gen (lookup : Nat → Nat → Option IE) (mode : Mode) (ie : IE) (h : C02.SpecOK ie)
    (rest : Bytes) : decodeSpecifier lookup mode (fieldSpec ie ++ rest) = specResult lookup mode ie rest := by
  obtain ⟨hid, hlen, hent⟩ := h
  have hl : ie.len / 256 % 256 * 256 + ie.len % 256 = ie.len := C02.hi_lo ie.len hlen
  unfold fieldSpec specResult unknownIE
  by_cases he : ie.ent = 0
  · simp only [he, ne_eq, not_true_eq_false, if_false]
    rw [be_two, be_two]
    simp only [List.cons_append, List.nil_append, decodeSpecifier, C02.u8_mod]
    have h1 : ie.id / 256 % 256 = ie.id / 256 := Nat.mod_eq_of_lt (by omega)
    have hbit : ¬ (ie.id / 256 % 256 / 128 = 1) := by rw [h1]; omega
    rw [if_neg hbit]
    have hid' : ie.id / 256 % 256 * 256 + ie.id % 256 = ie.id := C02.hi_lo ie.id (by omega)
    rw [hid', hl]
    cases lookup 0 ie.id <;> rfl
  · have hmod : ie.id % 65536 = ie.id := Nat.mod_eq_of_lt (by omega)
    simp only [he, ne_eq, not_false_eq_true, if_true, hmod, hid]
    rw [be_two, be_two, be_four]
    simp only [List.cons_append, List.nil_append, decodeSpecifier, C02.u8_mod]
    have h1 : (ie.id + 32768) / 256 % 256 = ie.id / 256 + 128 := by
      have : (ie.id + 32768) / 256 = ie.id / 256 + 128 := by omega
      rw [this]; exact Nat.mod_eq_of_lt (by omega)
    have h2 : (ie.id + 32768) % 256 = ie.id % 256 := by omega
    have hbit : (ie.id + 32768) / 256 % 256 / 128 = 1 := by rw [h1]; omega
    rw [if_pos hbit, h1, h2]
    have hidv : (ie.id / 256 + 128) % 128 * 256 + ie.id % 256 = ie.id := by
      have : (ie.id / 256 + 128) % 128 = ie.id / 256 := by omega
      rw [this]; exact Nat.div_add_mod' ie.id 256
    have hentv : unbe [UInt8.ofNat (ie.ent / 16777216 % 256), UInt8.ofNat (ie.ent / 65536 % 256),
        UInt8.ofNat (ie.ent / 256 % 256), UInt8.ofNat (ie.ent % 256)] = ie.ent := by
      have := unbe_be 4 ie.ent (by simpa using hent)
      rwa [be_four] at this
    simp only [hidv, hentv, hl]
    cases lookup ie.ent ie.id <;> rfl

/-- an element as the collector will hold it after a lenient template: itself when registered,
    the nameless octet array otherwise -/
def asDelivered (lookup : Nat → Nat → Option IE) (ie : IE) : IE :=
  match lookup ie.ent ie.id with
  | some ie' => ie'
  | none => unknownIE ie

/-- acceptable to a lenient collector: registered as described, or unknown with a non-zero length -/
def Lenient (lookup : Nat → Nat → Option IE) (ie : IE) : Prop :=
  Registered lookup ie ∨ (lookup ie.ent ie.id = none ∧ ie.len ≠ 0 ∧ C02.SpecOK ie)

theorem decodeSpecifiers_lenient (lookup : Nat → Nat → Option IE) (mode : Mode) (hm : mode ≠ .strict) (ies : List IE)
    (h : ∀ ie ∈ ies, Lenient lookup ie) (rest : Bytes) :
    decodeSpecifiers lookup mode ies.length ((ies.map fieldSpec).flatten ++ rest) = .ok (ies.map (asDelivered lookup)) := by
  induction ies with
  | nil => simp [decodeSpecifiers]
  | cons ie t ih =>
    simp only [List.map_cons, List.flatten_cons, List.length_cons, List.append_assoc, decodeSpecifiers]
    have iht := ih (fun x hx => h x (by simp [hx]))
    rcases h ie (by simp) with hr | ⟨hn, hl, hs⟩
    · rw [decodeSpecifier_fieldSpec lookup mode ie hr]
      simp [iht, asDelivered, hr.1]
    · rw [decodeSpecifier_fieldSpec_gen lookup mode ie hs]
      simp [specResult, hn, hm, hl, iht, asDelivered]

/-- strict mode: a template one of whose elements the registry lacks cannot be accepted -/
theorem decodeSpecifiers_strict_unknown (lookup : Nat → Nat → Option IE) (ies : List IE)
    (hs : ∀ ie ∈ ies, C02.SpecOK ie) (hunk : ∃ ie ∈ ies, lookup ie.ent ie.id = none) (rest : Bytes) :
    decodeSpecifiers lookup .strict ies.length ((ies.map fieldSpec).flatten ++ rest) = .err := by
  induction ies with
  | nil => obtain ⟨ie, hm, _⟩ := hunk; simp at hm
  | cons ie t ih =>
    simp only [List.map_cons, List.flatten_cons, List.length_cons, List.append_assoc, decodeSpecifiers]
    rw [decodeSpecifier_fieldSpec_gen lookup .strict ie (hs ie (by simp))]
    unfold specResult
    cases hl : lookup ie.ent ie.id with
    | none => simp
    | some ie' =>
      simp only
      rcases zeroValue_ok_or_err ie' with hz | ⟨v, hz⟩
      · simp [hz]
      · simp only [hz, bind_ok]
        obtain ⟨x, hx, hxn⟩ := hunk
        simp at hx
        rcases hx with rfl | hx
        · rw [hl] at hxn; cases hxn
        · rw [ih (fun y hy => hs y (by simp [hy])) ⟨x, hx, hxn⟩]
          rfl

end Ipfix
