import IpfixModel.Lemmas.Wire
import IpfixModel.Props.C02
namespace Ipfix
open Outcome

/-- the collector's header reader applied to a message laid out as CreateIPFIXMsg does -/
theorem parseHeader_wire (len time seq dom sid slen : Nat) (body : Bytes)
    (hlen : len < 65536) (ht : time < 4294967296) (hs : seq < 4294967296) (hd : dom < 4294967296)
    (hsid : sid < 65536) (hsl : slen < 65536) :
    parseHeader (msgHeader len time seq dom ++ (be 2 sid ++ (be 2 slen ++ body))) =
      some ({ version := 10, length := len, exportTime := time, seq := seq, dom := dom, setID := sid, setLen := slen }, body) := by
  have e1 : msgHeader len time seq dom ++ (be 2 sid ++ (be 2 slen ++ body)) =
      be 2 10 ++ (be 2 len ++ (be 4 time ++ (be 4 seq ++ (be 4 dom ++ (be 2 sid ++ (be 2 slen ++ body)))))) := by
    simp [msgHeader, List.append_assoc]
  rw [e1]
  unfold parseHeader
  have hl : ¬ ((be 2 10 ++ (be 2 len ++ (be 4 time ++ (be 4 seq ++ (be 4 dom ++ (be 2 sid ++ (be 2 slen ++ body))))))).length < 20) := by
    simp; omega
  rw [if_neg hl]
  have t2 : ∀ (x : Nat) (r : Bytes), (be 2 x ++ r).take 2 = be 2 x := fun x r => List.take_left' (by simp)
  have t4 : ∀ (x : Nat) (r : Bytes), (be 4 x ++ r).take 4 = be 4 x := fun x r => List.take_left' (by simp)
  have d2 : ∀ (x : Nat) (r : Bytes), (be 2 x ++ r).drop 2 = r := fun x r => List.drop_left' (by simp)
  have d4 : ∀ (x : Nat) (r : Bytes), (be 4 x ++ r).drop 4 = r := fun x r => List.drop_left' (by simp)
  have u2 : ∀ x, x < 65536 → unbe (be 2 x) = x := fun x h => unbe_be 2 x (by simpa using h)
  have u4 : ∀ x, x < 4294967296 → unbe (be 4 x) = x := fun x h => unbe_be 4 x (by simpa using h)
  simp only [t2, u2 10 (by omega)]
  rw [d2, t2, u2 len hlen]
  rw [show (4:Nat) = 2 + 2 from rfl, ← List.drop_drop, d2, d2, t4, u4 time ht]
  rw [show (8:Nat) = 2 + (2 + 4) from rfl, ← List.drop_drop, d2, ← List.drop_drop, d2, d4, t4, u4 seq hs]
  rw [show (12:Nat) = 2 + (2 + (4 + 4)) from rfl, ← List.drop_drop, d2, ← List.drop_drop, d2, ← List.drop_drop, d4, d4, t4, u4 dom hd]
  rw [show (16:Nat) = 2 + (2 + (4 + (4 + 4))) from rfl, ← List.drop_drop, d2, ← List.drop_drop, d2, ← List.drop_drop, d4,
    ← List.drop_drop, d4, d4, t2, u2 sid hsid]
  rw [show (18:Nat) = 2 + (2 + (4 + (4 + (4 + 2)))) from rfl, ← List.drop_drop, d2, ← List.drop_drop, d2, ← List.drop_drop, d4,
    ← List.drop_drop, d4, ← List.drop_drop, d4, d2, t2, u2 slen hsl]
  rw [show (20:Nat) = 2 + (2 + (4 + (4 + (4 + (2 + 2))))) from rfl, ← List.drop_drop, d2, ← List.drop_drop, d2, ← List.drop_drop, d4,
    ← List.drop_drop, d4, ← List.drop_drop, d4, ← List.drop_drop, d2, d2]

/-- an element the collector will find in its registry exactly as the exporter described it -/
def Registered (lookup : Nat → Nat → Option IE) (ie : IE) : Prop :=
  lookup ie.ent ie.id = some ie ∧ zeroValue ie ≠ .err ∧ C02.SpecOK ie

theorem zeroValue_ok_or_err (ie : IE) : zeroValue ie = .err ∨ ∃ v, zeroValue ie = .ok v := by
  unfold zeroValue; split <;> simp

/-- the collector's specifier reader inverts the exporter's field specifier -/
theorem decodeSpecifier_fieldSpec (lookup : Nat → Nat → Option IE) (mode : Mode) (ie : IE) (h : Registered lookup ie)
    (rest : Bytes) : decodeSpecifier lookup mode (fieldSpec ie ++ rest) = .ok (ie, rest) := by
  obtain ⟨hlk, hz, hid, hlen, hent⟩ := h
  obtain ⟨v, hv⟩ : ∃ v, zeroValue ie = .ok v := by
    rcases zeroValue_ok_or_err ie with h | h
    · exact absurd h hz
    · exact h
  unfold fieldSpec
  by_cases he : ie.ent = 0
  · simp only [he, ne_eq, not_true_eq_false, if_false]
    rw [be_two, be_two]
    simp only [List.cons_append, List.nil_append, decodeSpecifier, C02.u8_mod]
    have h1 : ie.id / 256 % 256 = ie.id / 256 := Nat.mod_eq_of_lt (by omega)
    have hbit : ¬ (ie.id / 256 % 256 / 128 = 1) := by rw [h1]; omega
    rw [if_neg hbit]
    have hid' : ie.id / 256 % 256 * 256 + ie.id % 256 = ie.id := C02.hi_lo ie.id (by omega)
    rw [hid']
    rw [he] at hlk
    simp [hlk, hv]
  · have hmod : ie.id % 65536 = ie.id := Nat.mod_eq_of_lt (by omega)
    simp only [he, ne_eq, not_false_eq_true, if_true, hmod, hid]
    rw [be_two, be_two, be_four]
    simp only [List.cons_append, List.nil_append, decodeSpecifier, C02.u8_mod]
    have h1 : (ie.id + 32768) / 256 % 256 = ie.id / 256 + 128 := by
      have : (ie.id + 32768) / 256 = ie.id / 256 + 128 := by omega
      rw [this]; exact Nat.mod_eq_of_lt (by omega)
    have h2 : (ie.id + 32768) % 256 = ie.id % 256 := by omega
    have hbit : (ie.id + 32768) / 256 % 256 / 128 = 1 := by rw [h1]; omega
    rw [if_pos hbit, h1, h2]
    have hidv : (ie.id / 256 + 128) % 128 * 256 + ie.id % 256 = ie.id := by
      have : (ie.id / 256 + 128) % 128 = ie.id / 256 := by omega
      rw [this]; exact Nat.div_add_mod' ie.id 256
    have hentv : unbe [UInt8.ofNat (ie.ent / 16777216 % 256), UInt8.ofNat (ie.ent / 65536 % 256),
        UInt8.ofNat (ie.ent / 256 % 256), UInt8.ofNat (ie.ent % 256)] = ie.ent := by
      have := unbe_be 4 ie.ent (by simpa using hent)
      rwa [be_four] at this
    simp only [hidv, hentv, hlk, hv, bind_ok]

theorem decodeSpecifiers_fieldSpecs (lookup : Nat → Nat → Option IE) (mode : Mode) (ies : List IE)
    (h : ∀ ie ∈ ies, Registered lookup ie) (rest : Bytes) :
    decodeSpecifiers lookup mode ies.length ((ies.map fieldSpec).flatten ++ rest) = .ok ies := by
  induction ies with
  | nil => simp [decodeSpecifiers]
  | cons ie t ih =>
    simp only [List.map_cons, List.flatten_cons, List.length_cons, List.append_assoc, decodeSpecifiers]
    rw [decodeSpecifier_fieldSpec lookup mode ie (h ie (by simp))]
    simp [ih (fun x hx => h x (by simp [hx]))]

end Ipfix
