/-
  Proofs about Model/Atomic.lean (generic, core Lean only):
    * `exec_trace`      - an execution of the atomic machine IS a sequential execution, in step order;
    * `exec_real_time`  - and that order respects real time;
    * `search_sound`    - the linearizability checker only accepts histories that have a
                          real-time-consistent legal sequential order.
-/
import IpfixModel.Model.Atomic
namespace Ipfix.Atomic

universe u v w
variable {σ : Type w} {Op : Type u} {Out : Type v}

/-! ## small list facts -/

theorem lookup_some_mem {α : Type u} {i : Nat} {a : α} :
    ∀ {l : List (Nat × α)}, lookup i l = some a → (i, a) ∈ l
  | [], h => by cases h
  | (j, b) :: l, h => by
    unfold lookup at h
    by_cases e : j = i
    · rw [if_pos e] at h
      cases h
      subst e
      exact List.mem_cons_self
    · rw [if_neg e] at h
      exact List.mem_cons_of_mem _ (lookup_some_mem h)

theorem mem_remove {α : Type u} {i : Nat} {l : List (Nat × α)} {p : Nat × α} (h : p ∈ remove i l) : p ∈ l :=
  (List.mem_filter.mp h).1

theorem stepOrder_append (l1 l2 : List (Event Op Out)) : stepOrder (l1 ++ l2) = stepOrder l1 ++ stepOrder l2 := by
  induction l1 with
  | nil => rfl
  | cons e l ih =>
    cases e with
    | inv i op => simpa [stepOrder] using ih
    | step i => simp [stepOrder, ih]
    | res i o => simpa [stepOrder] using ih

/-! ## the atomic machine -/

section machine
variable [DecidableEq Out] (spec : σ → Op → σ × Out)

theorem exec_cons_some {c c' : Cfg σ Op Out} {e : Event Op Out} {es : List (Event Op Out)}
    (h : exec spec c (e :: es) = some c') :
    ∃ c1, stepEvent spec c e = some c1 ∧ exec spec c1 es = some c' := by
  unfold exec at h
  cases hs : stepEvent spec c e with
  | none => rw [hs] at h; cases h
  | some c1 => rw [hs] at h; exact ⟨c1, rfl, h⟩

theorem exec_append_some {c c' : Cfg σ Op Out} {l1 l2 : List (Event Op Out)}
    (h : exec spec c (l1 ++ l2) = some c') :
    ∃ c1, exec spec c l1 = some c1 ∧ exec spec c1 l2 = some c' := by
  induction l1 generalizing c with
  | nil => exact ⟨c, rfl, h⟩
  | cons e l ih =>
    obtain ⟨c1, h1, h2⟩ := exec_cons_some spec (by simpa using h)
    obtain ⟨c2, h3, h4⟩ := ih h2
    refine ⟨c2, ?_, h4⟩
    unfold exec
    rw [h1]
    exact h3

/-- what an execution from `c` to `c'` did: `new` is the sequential history it appended -/
structure Trace (c c' : Cfg σ Op Out) (evs : List (Event Op Out)) (new : List (Entry Op Out)) : Prop where
  lin : c'.lin = c.lin ++ new
  order : new.map (·.id) = stepOrder evs
  seq : seqRun spec c.state (new.map fun t => (t.id, t.op)) = (c'.state, new)
  ops : ∀ t ∈ new, (t.id, t.op) ∈ c.pending ∨ Event.inv t.id t.op ∈ evs
  resp : ∀ i out, Event.res i out ∈ evs → (i, out) ∈ c.done ∨ ∃ t ∈ new, t.id = i ∧ t.out = out

theorem exec_trace_from {c c' : Cfg σ Op Out} {evs : List (Event Op Out)} (h : exec spec c evs = some c') :
    ∃ new, Trace spec c c' evs new := by
  induction evs generalizing c with
  | nil =>
    cases h
    exact ⟨[], by simp, rfl, rfl, fun _ ht => absurd ht List.not_mem_nil, fun _ _ hr => absurd hr List.not_mem_nil⟩
  | cons e es ih =>
    obtain ⟨c1, h1, h2⟩ := exec_cons_some spec h
    obtain ⟨new, tr⟩ := ih h2
    cases e with
    | inv i op =>
      simp only [stepEvent] at h1
      by_cases hs : i ∈ c.seen
      · rw [if_pos hs] at h1; cases h1
      · rw [if_neg hs] at h1
        cases h1
        refine ⟨new, tr.lin, tr.order, tr.seq, ?_, ?_⟩
        · intro t ht
          rcases tr.ops t ht with hp | hp
          · rcases List.mem_cons.mp hp with e | hp'
            · right
              have e1 : t.id = i := congrArg Prod.fst e
              have e2 : t.op = op := congrArg Prod.snd e
              rw [e1, e2]
              exact List.mem_cons_self
            · exact Or.inl hp'
          · exact Or.inr (List.mem_cons_of_mem _ hp)
        · intro j out hr
          rcases List.mem_cons.mp hr with e | hr'
          · cases e
          · exact tr.resp j out hr'
    | step i =>
      simp only [stepEvent] at h1
      cases hl : lookup i c.pending with
      | none => rw [hl] at h1; cases h1
      | some op =>
        rw [hl] at h1
        cases h1
        refine ⟨{ id := i, op := op, out := (spec c.state op).2 } :: new, ?_, ?_, ?_, ?_, ?_⟩
        · have := tr.lin
          simp only [List.append_assoc, List.singleton_append] at this
          exact this
        · simp only [List.map_cons, stepOrder]
          rw [tr.order]
        · have := tr.seq
          simp only at this
          simp only [List.map_cons, seqRun]
          rw [this]
        · intro t ht
          rcases List.mem_cons.mp ht with e | ht'
          · subst e
            exact Or.inl (lookup_some_mem hl)
          · rcases tr.ops t ht' with hp | hp
            · exact Or.inl (mem_remove hp)
            · exact Or.inr (List.mem_cons_of_mem _ hp)
        · intro j out hr
          rcases List.mem_cons.mp hr with e | hr'
          · cases e
          · rcases tr.resp j out hr' with hd | ⟨t, ht, e1, e2⟩
            · rcases List.mem_cons.mp hd with e | hd'
              · right
                refine ⟨_, List.mem_cons_self, ?_, ?_⟩
                · exact (congrArg Prod.fst e).symm
                · exact (congrArg Prod.snd e).symm
              · exact Or.inl hd'
            · exact Or.inr ⟨t, List.mem_cons_of_mem _ ht, e1, e2⟩
    | res i o =>
      simp only [stepEvent] at h1
      cases hl : lookup i c.done with
      | none => rw [hl] at h1; cases h1
      | some o' =>
        rw [hl] at h1
        simp only at h1
        by_cases ho : o' = o
        · rw [if_pos ho] at h1
          cases h1
          subst ho
          refine ⟨new, tr.lin, tr.order, tr.seq, ?_, ?_⟩
          · intro t ht
            rcases tr.ops t ht with hp | hp
            · exact Or.inl hp
            · exact Or.inr (List.mem_cons_of_mem _ hp)
          · intro j out hr
            rcases List.mem_cons.mp hr with e | hr'
            · cases e
              exact Or.inl (lookup_some_mem hl)
            · rcases tr.resp j out hr' with hd | hd
              · exact Or.inl (mem_remove hd)
              · exact Or.inr hd
        · rw [if_neg ho] at h1; cases h1

/-- invariant relating the bookkeeping lists -/
structure Inv (c : Cfg σ Op Out) : Prop where
  done_lin : ∀ i, i ∈ c.done.map (·.1) → i ∈ c.lin.map (·.id)
  lin_seen : ∀ i, i ∈ c.lin.map (·.id) → i ∈ c.seen
  pending_seen : ∀ i, i ∈ c.pending.map (·.1) → i ∈ c.seen

omit [DecidableEq Out] in
theorem inv_init (s : σ) : Inv (Cfg.init s : Cfg σ Op Out) :=
  ⟨fun _ h => by simp [Cfg.init] at h, fun _ h => by simp [Cfg.init] at h, fun _ h => by simp [Cfg.init] at h⟩

theorem mem_map_fst_remove {α : Type u} {i j : Nat} {l : List (Nat × α)} (h : j ∈ (remove i l).map (·.1)) :
    j ∈ l.map (·.1) := by
  obtain ⟨p, hp, e⟩ := List.mem_map.mp h
  exact List.mem_map.mpr ⟨p, mem_remove hp, e⟩

theorem stepEvent_inv {c c' : Cfg σ Op Out} {e : Event Op Out} (hi : Inv c) (h : stepEvent spec c e = some c') :
    Inv c' := by
  cases e with
  | inv i op =>
    simp only [stepEvent] at h
    by_cases hs : i ∈ c.seen
    · rw [if_pos hs] at h; cases h
    · rw [if_neg hs] at h
      cases h
      refine ⟨hi.done_lin, fun j hj => List.mem_cons_of_mem _ (hi.lin_seen j hj), ?_⟩
      intro j hj
      simp only [List.map_cons, List.mem_cons] at hj
      rcases hj with e | hj
      · rw [e]; exact List.mem_cons_self
      · exact List.mem_cons_of_mem _ (hi.pending_seen j hj)
  | step i =>
    simp only [stepEvent] at h
    cases hl : lookup i c.pending with
    | none => rw [hl] at h; cases h
    | some op =>
      rw [hl] at h
      cases h
      have hip : i ∈ c.pending.map (·.1) := List.mem_map.mpr ⟨_, lookup_some_mem hl, rfl⟩
      refine ⟨?_, ?_, ?_⟩
      · intro j hj
        simp only [List.map_cons, List.mem_cons] at hj
        simp only [List.map_append, List.map_cons, List.map_nil, List.mem_append, List.mem_singleton]
        rcases hj with e | hj
        · exact Or.inr e
        · exact Or.inl (hi.done_lin j hj)
      · intro j hj
        simp only [List.map_append, List.map_cons, List.map_nil, List.mem_append, List.mem_singleton] at hj
        rcases hj with hj | e
        · exact hi.lin_seen j hj
        · rw [e]; exact hi.pending_seen i hip
      · intro j hj
        exact hi.pending_seen j (mem_map_fst_remove hj)
  | res i o =>
    simp only [stepEvent] at h
    cases hl : lookup i c.done with
    | none => rw [hl] at h; cases h
    | some o' =>
      rw [hl] at h
      simp only at h
      by_cases ho : o' = o
      · rw [if_pos ho] at h
        cases h
        exact ⟨fun j hj => hi.done_lin j (mem_map_fst_remove hj), hi.lin_seen, hi.pending_seen⟩
      · rw [if_neg ho] at h; cases h

theorem exec_inv {c c' : Cfg σ Op Out} {evs : List (Event Op Out)} (hi : Inv c) (h : exec spec c evs = some c') :
    Inv c' := by
  induction evs generalizing c with
  | nil => cases h; exact hi
  | cons e es ih =>
    obtain ⟨c1, h1, h2⟩ := exec_cons_some spec h
    exact ih (stepEvent_inv spec hi h1) h2

theorem exec_lin_ids {s : σ} {c : Cfg σ Op Out} {evs : List (Event Op Out)}
    (h : exec spec (Cfg.init s) evs = some c) : c.lin.map (·.id) = stepOrder evs := by
  obtain ⟨new, tr⟩ := exec_trace_from spec h
  have := tr.lin
  simp only [Cfg.init, List.nil_append] at this
  rw [this, tr.order]

/-- real time: if `a` responded before `b` was invoked, `a`'s step precedes `b`'s -/
theorem exec_real_time {s : σ} {c : Cfg σ Op Out} {evs : List (Event Op Out)}
    (h : exec spec (Cfg.init s) evs = some c) (a b : Nat) (hp : Precedes evs a b) (hb : b ∈ stepOrder evs) :
    Before (stepOrder evs) a b := by
  obtain ⟨l1, l2, l3, o, op, rfl⟩ := hp
  obtain ⟨c2, hP, hrest⟩ := exec_append_some spec h
  -- b is fresh when it is invoked
  obtain ⟨c3, hb1, _⟩ := exec_cons_some spec hrest
  have hbfresh : b ∉ c2.seen := by
    simp only [stepEvent] at hb1
    intro hs
    rw [if_pos hs] at hb1
    cases hb1
  have hinv2 : Inv c2 := exec_inv spec (inv_init s) hP
  have hlin2 := exec_lin_ids spec hP
  have hbnot : b ∉ stepOrder (l1 ++ Event.res a o :: l2) := by
    rw [← hlin2]
    exact fun hm => hbfresh (hinv2.lin_seen b hm)
  -- a has taken effect when it responds
  obtain ⟨c1, h1, hres⟩ := exec_append_some spec hP
  obtain ⟨c1', ha1, _⟩ := exec_cons_some spec hres
  have hinv1 : Inv c1 := exec_inv spec (inv_init s) h1
  have hlin1 := exec_lin_ids spec h1
  have hain : a ∈ stepOrder (l1 ++ Event.res a o :: l2) := by
    rw [stepOrder_append]
    apply List.mem_append_left
    rw [← hlin1]
    apply hinv1.done_lin
    simp only [stepEvent] at ha1
    cases hl : lookup a c1.done with
    | none => rw [hl] at ha1; cases ha1
    | some o' => exact List.mem_map.mpr ⟨_, lookup_some_mem hl, rfl⟩
  refine ⟨stepOrder (l1 ++ Event.res a o :: l2), stepOrder (Event.inv b op :: l3), stepOrder_append _ _, hain, hbnot, ?_⟩
  rw [stepOrder_append] at hb
  rcases List.mem_append.mp hb with hb' | hb'
  · exact absurd hb' hbnot
  · exact hb'

end machine

/-! ## the checker -/

theorem picks_perm {α : Type u} : ∀ {l : List α} {y : α} {r : List α}, (y, r) ∈ picks l → l.Perm (y :: r)
  | [], _, _, h => by cases h
  | x :: xs, y, r, h => by
    unfold picks at h
    rcases List.mem_cons.mp h with e | h'
    · cases e
      exact List.Perm.refl _
    · obtain ⟨p, hp, e⟩ := List.mem_map.mp h'
      cases e
      have ih : xs.Perm (p.1 :: p.2) := picks_perm (l := xs) (y := p.1) (r := p.2) hp
      exact (List.Perm.cons x ih).trans (List.Perm.swap _ _ _)

section checker
variable [BEq Out] (spec : σ → Op → σ × Out) (fin : σ → Bool)

theorem search_nil (fuel : Nat) (s : σ) : search spec fin fuel s ([] : List (HEvent Op Out)) = fin s := by
  cases fuel <;> rfl

omit [BEq Out] in
theorem realTime_of_minimal {x : HEvent Op Out} {rest l : List (HEvent Op Out)} (hm : minimal x rest = true)
    (hp : l.Perm rest) (hl : RealTime l) : RealTime (x :: l) := by
  refine ⟨?_, hl⟩
  intro y hy
  have hy' : y ∈ rest := hp.mem_iff.mp hy
  unfold minimal at hm
  have := List.all_eq_true.mp hm y hy'
  simpa using this

/-- soundness of the search: an accepted history has a legal, real-time-consistent order -/
theorem search_sound : ∀ (fuel : Nat) (s : σ) (l : List (HEvent Op Out)), search spec fin fuel s l = true →
    ∃ order s', order.Perm l ∧ RealTime order ∧ Legal spec s order s' ∧ fin s' = true
  | fuel, s, [], h => by
    rw [search_nil] at h
    exact ⟨[], s, List.Perm.refl _, trivial, rfl, h⟩
  | 0, s, x :: xs, h => by
    simp [search] at h
  | fuel + 1, s, x :: xs, h => by
    unfold search at h
    obtain ⟨p, hp, hc⟩ := List.any_eq_true.mp h
    simp only [Bool.and_eq_true] at hc
    obtain ⟨hmin, hout, hrec⟩ := hc
    obtain ⟨order, s', hperm, hrt, hlegal, hfin⟩ := search_sound fuel _ p.2 hrec
    refine ⟨p.1 :: order, s', ?_, realTime_of_minimal hmin hperm hrt, ⟨hout, hlegal⟩, hfin⟩
    exact (List.Perm.cons p.1 hperm).trans (picks_perm (y := p.1) (r := p.2) hp).symm

end checker

end Ipfix.Atomic
