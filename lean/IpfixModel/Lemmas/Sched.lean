/-
  Scheduling invariant of the flow-aggregation process (IpfixModel/Model/Agg.lean): the expiry
  queue holds exactly one item per held flow and is a heap (`Sched`), preserved by ingest, clock
  advance and the expiry scan (including aborted scans, retries and drops); the deadlines an
  arrival sets; what the scan guarantees about the queue (`after_scan_future`) and about the
  callback invocations (`callback_due_ready`); the advertised next expiry (`next_expiry_min`).
  The scan loop is handled with one loop specification (`LoopSpec`) proved by functional
  induction on `scanLoop`.
-/
import IpfixModel.Model.Agg
import IpfixModel.Lemmas.Heap
namespace Ipfix.Agg

theorem any_key_iff (l : List (Nat × AggRec)) (k : Nat) :
    l.any (·.1 == k) = true ↔ k ∈ l.map (·.1) := by
  induction l with
  | nil => simp
  | cons p l ih =>
    simp only [List.any_cons, Bool.or_eq_true, ih, List.map_cons, List.mem_cons, beq_iff_eq]
    constructor
    · rintro (h | h); exact Or.inl h.symm; exact Or.inr h
    · rintro (h | h); exact Or.inl h.symm; exact Or.inr h

@[simp] theorem set_pq (s : State) (k : Nat) (a : AggRec) : (s.set k a).pq = s.pq := by
  unfold State.set; split <;> rfl
@[simp] theorem set_now (s : State) (k : Nat) (a : AggRec) : (s.set k a).now = s.now := by
  unfold State.set; split <;> rfl
@[simp] theorem set_activeT (s : State) (k : Nat) (a : AggRec) : (s.set k a).activeT = s.activeT := by
  unfold State.set; split <;> rfl
@[simp] theorem set_inactiveT (s : State) (k : Nat) (a : AggRec) :
    (s.set k a).inactiveT = s.inactiveT := by
  unfold State.set; split <;> rfl

theorem map_replace_keys (l : List (Nat × AggRec)) (k : Nat) (a : AggRec) :
    (l.map fun p => if p.1 == k then (k, a) else p).map (·.1) = l.map (·.1) := by
  induction l with
  | nil => rfl
  | cons p l ih =>
    simp only [List.map_cons, ih]
    by_cases h : p.1 = k <;> simp [h]

theorem set_keys_of_mem (s : State) (k : Nat) (a : AggRec) (h : k ∈ s.flows.map (·.1)) :
    (s.set k a).flows.map (·.1) = s.flows.map (·.1) := by
  unfold State.set
  rw [if_pos ((any_key_iff _ _).mpr h)]
  exact map_replace_keys _ _ _

theorem set_keys_of_not_mem (s : State) (k : Nat) (a : AggRec) (h : k ∉ s.flows.map (·.1)) :
    (s.set k a).flows.map (·.1) = s.flows.map (·.1) ++ [k] := by
  unfold State.set
  rw [if_neg (fun hh => h ((any_key_iff _ _).mp hh))]
  simp

theorem del_keys (s : State) (k : Nat) :
    (s.del k).flows.map (·.1) = (s.flows.map (·.1)).filter (· != k) := by
  unfold State.del
  simp only [List.filter_map]
  rfl

theorem find_eq_none_iff (s : State) (k : Nat) : s.find k = none ↔ k ∉ s.flows.map (·.1) := by
  unfold State.find
  simp only [Option.map_eq_none_iff, List.find?_eq_none]
  simp
  constructor
  · intro h a hm; exact h k a hm rfl
  · intro h a b hm e; subst e; exact h b hm

theorem find_some_mem {s : State} {k : Nat} {a : AggRec} (h : s.find k = some a) :
    k ∈ s.flows.map (·.1) := by
  apply Classical.byContradiction
  intro hn
  rw [(find_eq_none_iff s k).mpr hn] at h
  cases h

theorem eq_of_nodup_map {α β : Type} (f : α → β) :
    ∀ (l : List α), (l.map f).Nodup → ∀ x ∈ l, ∀ y ∈ l, f x = f y → x = y
  | [], _, x, hx, _, _, _ => by cases hx
  | a :: l, h, x, hx, y, hy, e => by
    simp only [List.map_cons, List.nodup_cons, List.mem_map, not_exists, not_and] at h
    rcases List.mem_cons.mp hx with rfl | hx' <;> rcases List.mem_cons.mp hy with rfl | hy'
    · rfl
    · exact absurd e.symm (h.1 _ hy')
    · exact absurd e (h.1 _ hx')
    · exact eq_of_nodup_map f l h.2 x hx' y hy' e

theorem mem_set_of_ne {α : Type} (l : List α) (i : Nat) (hi : i < l.length) (x y : α)
    (hy : y ∈ l) (hne : y ≠ l[i]) : y ∈ l.set i x := by
  obtain ⟨j, hj, rfl⟩ := List.getElem_of_mem hy
  have hji : i ≠ j := by intro e; subst e; exact hne rfl
  have : (l.set i x)[j]'(by simpa using hj) = l[j] := by
    rw [List.getElem_set]; simp [hji]
  rw [← this]
  exact List.getElem_mem _

/-- "no flow is ever stranded": the queue holds exactly one item per held flow, and is a heap -/
def Sched (s : State) : Prop :=
  (s.pq.toList.map (·.key)).Perm (s.flows.map (·.1)) ∧ (s.flows.map (·.1)).Nodup ∧
    Heap.Ordered Item.deadline s.pq

theorem sched_init (a i : Nat) : Sched { activeT := a, inactiveT := i } := by
  refine ⟨List.Perm.refl _, List.nodup_nil, ?_⟩
  intro j _ hj
  simp at hj

theorem ingest_new_eq (s : State) (r : InRec) (h : s.find r.key = none) :
    ingest s r = { s.set r.key (create r) with
      pq := Heap.push Item.deadline s.pq
        { key := r.key, active := s.now + s.activeT, inactive := s.now + s.inactiveT } } := by
  unfold ingest
  simp only [h, set_pq]

theorem ingest_upd_eq (s : State) (r : InRec) (a : AggRec) (i : Nat) (h : s.find r.key = some a)
    (hi : s.pq.toList.findIdx? (·.key == r.key) = some i) :
    ingest s r = { s.set r.key (update r a) with
      pq := Heap.fix Item.deadline
        (s.pq.setIfInBounds i { s.pq[i]! with inactive := s.now + s.inactiveT }) i } := by
  unfold ingest
  simp only [h, set_pq, hi]

theorem ingest_upd_none_eq (s : State) (r : InRec) (a : AggRec) (h : s.find r.key = some a)
    (hi : s.pq.toList.findIdx? (·.key == r.key) = none) :
    ingest s r = s.set r.key (update r a) := by
  unfold ingest
  simp only [h, set_pq, hi]

/-- what `findIdx?` on the key returns -/
theorem findIdx_key_spec {l : List Item} {k i : Nat}
    (h : l.findIdx? (·.key == k) = some i) : ∃ hi : i < l.length, l[i].key = k := by
  rw [List.findIdx?_eq_some_iff_getElem] at h
  obtain ⟨hi, hp, _⟩ := h
  exact ⟨hi, by simpa using hp⟩

theorem fix_set_ordered {a : Array Item} {i : Nat} (h : Heap.Ordered Item.deadline a)
    (hi : i < a.size) (y : Item) :
    Heap.Ordered Item.deadline (Heap.fix Item.deadline (a.setIfInBounds i y) i) := by
  have := Heap.fix_ordered Item.deadline h hi y
  rwa [Array.set!_eq_setIfInBounds] at this

theorem sched_ingest (s : State) (r : InRec) (h : Sched s) : Sched (ingest s r) := by
  obtain ⟨hp, hn, ho⟩ := h
  cases hf : s.find r.key with
  | none =>
    have hk := (find_eq_none_iff s r.key).mp hf
    rw [ingest_new_eq s r hf]
    refine ⟨?_, ?_, ?_⟩
    · show ((Heap.push Item.deadline s.pq _).toList.map (·.key)).Perm
        ((s.set r.key (create r)).flows.map (·.1))
      rw [set_keys_of_not_mem s _ _ hk]
      refine ((Heap.push_perm Item.deadline s.pq _).map _).trans ?_
      simp only [List.map_cons]
      exact ((List.perm_append_singleton _ _).trans (List.Perm.cons _ hp.symm)).symm
    · show ((s.set r.key (create r)).flows.map (·.1)).Nodup
      rw [set_keys_of_not_mem s _ _ hk]
      rw [List.nodup_append]
      refine ⟨hn, by simp, ?_⟩
      intro a ha b hb
      simp at hb; subst hb
      intro e; subst e; exact hk ha
    · exact Heap.push_ordered Item.deadline ho _
  | some a =>
    have hk := find_some_mem hf
    cases hi : s.pq.toList.findIdx? (·.key == r.key) with
    | none =>
      rw [ingest_upd_none_eq s r a hf hi]
      refine ⟨?_, ?_, ?_⟩
      · rw [set_pq, set_keys_of_mem s _ _ hk]; exact hp
      · rw [set_keys_of_mem s _ _ hk]; exact hn
      · rw [set_pq]; exact ho
    | some i =>
      rw [ingest_upd_eq s r a i hf hi]
      obtain ⟨hil, hik⟩ := findIdx_key_spec hi
      have his : i < s.pq.size := by simpa using hil
      refine ⟨?_, ?_, ?_⟩
      · show ((Heap.fix Item.deadline _ i).toList.map (·.key)).Perm
          ((s.set r.key (update r a)).flows.map (·.1))
        rw [set_keys_of_mem s _ _ hk]
        refine ((Heap.fix_perm Item.deadline _ i).map _).trans ?_
        rw [Array.toList_setIfInBounds, List.map_set]
        have : (s.pq.toList.map (·.key)).set i (s.pq[i]!.key) = s.pq.toList.map (·.key) := by
          rw [Heap.get!_of_lt _ _ his]
          have := List.set_getElem_self (as := s.pq.toList.map (·.key)) (i := i) (by simpa using hil)
          simpa using this
        rw [this]; exact hp
      · show ((s.set r.key (update r a)).flows.map (·.1)).Nodup
        rw [set_keys_of_mem s _ _ hk]; exact hn
      · exact fix_set_ordered ho his _

theorem sched_advance (s : State) (d : Nat) (h : Sched s) : Sched { s with now := s.now + d } := h


/-- deadlines set by an arrival -/
theorem ingest_new_deadlines (s : State) (r : InRec) (h : Sched s) (hnew : s.find r.key = none) :
    ∃ it ∈ (ingest s r).pq.toList, it.key = r.key ∧ it.active = s.now + s.activeT ∧
      it.inactive = s.now + s.inactiveT := by
  have _ := h
  rw [ingest_new_eq s r hnew]
  refine ⟨{ key := r.key, active := s.now + s.activeT, inactive := s.now + s.inactiveT },
    ?_, rfl, rfl, rfl⟩
  exact (Heap.push_perm Item.deadline s.pq _).mem_iff.mpr List.mem_cons_self

theorem ingest_existing_deadlines (s : State) (r : InRec) (h : Sched s) (it : Item)
    (hit : it ∈ s.pq.toList) (hk : it.key = r.key) :
    { it with inactive := s.now + s.inactiveT } ∈ (ingest s r).pq.toList := by
  obtain ⟨hp, hn, _⟩ := h
  have hkm : r.key ∈ s.flows.map (·.1) := by
    rw [← hk]; exact hp.mem_iff.mp (List.mem_map_of_mem hit)
  cases hf : s.find r.key with
  | none => exact absurd hkm ((find_eq_none_iff s r.key).mp hf)
  | some a =>
    cases hi : s.pq.toList.findIdx? (·.key == r.key) with
    | none =>
      rw [List.findIdx?_eq_none_iff] at hi
      have := hi it hit
      simp [hk] at this
    | some i =>
      obtain ⟨hil, hik⟩ := findIdx_key_spec hi
      have his : i < s.pq.size := by simpa using hil
      have heq : s.pq[i]! = it := by
        rw [Heap.get!_of_lt _ _ his]
        have := eq_of_nodup_map (·.key) s.pq.toList (hp.nodup_iff.mpr hn) s.pq.toList[i]
          (List.getElem_mem _) it hit (by rw [hik, hk])
        simpa using this
      rw [ingest_upd_eq s r a i hf hi, heq]
      show _ ∈ (Heap.fix Item.deadline _ i).toList
      refine (Heap.fix_perm Item.deadline _ i).mem_iff.mpr ?_
      rw [Array.toList_setIfInBounds]
      exact List.mem_set hil _

theorem ingest_other_items (s : State) (r : InRec) (h : Sched s) (it : Item)
    (hit : it ∈ s.pq.toList) (hk : it.key ≠ r.key) : it ∈ (ingest s r).pq.toList := by
  have _ := h
  cases hf : s.find r.key with
  | none =>
    rw [ingest_new_eq s r hf]
    exact (Heap.push_perm Item.deadline s.pq _).mem_iff.mpr (List.mem_cons_of_mem _ hit)
  | some a =>
    cases hi : s.pq.toList.findIdx? (·.key == r.key) with
    | none =>
      rw [ingest_upd_none_eq s r a hf hi, set_pq]; exact hit
    | some i =>
      obtain ⟨hil, hik⟩ := findIdx_key_spec hi
      rw [ingest_upd_eq s r a i hf hi]
      show _ ∈ (Heap.fix Item.deadline _ i).toList
      refine (Heap.fix_perm Item.deadline _ i).mem_iff.mpr ?_
      rw [Array.toList_setIfInBounds]
      apply mem_set_of_ne _ _ hil _ _ hit
      intro e; rw [e] at hk; exact hk hik

/-- the advertised next expiry is MinExpiryTime + (earliest deadline − now), never below
MinExpiryTime -/
theorem next_expiry_min (s : State) (h : Sched s) (hne : s.pq.size ≠ 0) :
    (∀ it ∈ s.pq.toList, s.pq[0]!.deadline ≤ it.deadline) ∧
    nextExpiry s = (if Generated.cMinExpiryTime / 1000000 + s.pq[0]!.deadline < s.now
                    then Generated.cMinExpiryTime / 1000000
                    else Generated.cMinExpiryTime / 1000000 + s.pq[0]!.deadline - s.now) := by
  refine ⟨Heap.ordered_root_min Item.deadline h.2.2, ?_⟩
  unfold nextExpiry
  simp only []
  rw [if_pos (by omega)]


/-! ## the expiry scan -/

def Fut (now : Nat) (it : Item) : Prop := now < it.active ∧ now < it.inactive
def Due (now : Nat) (it : Item) : Prop := it.active ≤ now ∨ it.inactive ≤ now

/-- loop invariant of `scanLoop`: queue items plus deferred pushes cover the held flows -/
def LoopInv (s : State) (tp : List Item) : Prop :=
  ((s.pq.toList ++ tp).map (·.key)).Perm (s.flows.map (·.1)) ∧ (s.flows.map (·.1)).Nodup ∧
    Heap.Ordered Item.deadline s.pq

/-- the situation right after `it` has been popped -/
def Popped (s : State) (it : Item) (tp : List Item) : Prop :=
  (it.key :: (s.pq.toList ++ tp).map (·.key)).Perm (s.flows.map (·.1)) ∧
    (s.flows.map (·.1)).Nodup ∧ Heap.Ordered Item.deadline s.pq

theorem LoopInv.pop {s : State} {tp : List Item} {it : Item} {pq' : Array Item}
    (h : LoopInv s tp) (hp : Heap.pop Item.deadline s.pq = some (it, pq')) :
    Popped { s with pq := pq' } it tp := by
  obtain ⟨h1, h2, h3⟩ := h
  refine ⟨?_, h2, (Heap.pop_ordered Item.deadline h3 hp).1⟩
  refine List.Perm.trans ?_ h1
  have := ((Heap.pop_perm Item.deadline hp).append_right tp).map (·.key)
  simpa using this.symm

theorem Popped.key_mem {s : State} {it : Item} {tp : List Item} (h : Popped s it tp) :
    it.key ∈ s.flows.map (·.1) := h.1.mem_iff.mp List.mem_cons_self

theorem Popped.find {s : State} {it : Item} {tp : List Item} (h : Popped s it tp) :
    s.find it.key ≠ none := fun e => (find_eq_none_iff _ _).mp e h.key_mem

theorem Popped.set {s : State} {it : Item} {tp : List Item} (h : Popped s it tp) (a : AggRec) :
    Popped (s.set it.key a) it tp := by
  unfold Popped
  rw [set_pq, set_keys_of_mem _ _ _ h.key_mem]
  exact h

theorem Popped.del {s : State} {it : Item} {tp : List Item} (h : Popped s it tp) :
    LoopInv (s.del it.key) tp := by
  obtain ⟨h1, h2, h3⟩ := h
  refine ⟨?_, ?_, h3⟩
  · rw [del_keys]
    have hnd := h1.nodup_iff.mpr h2
    rw [List.nodup_cons] at hnd
    have := h1.filter (· != it.key)
    rw [List.filter_cons] at this
    simp only [bne_self_eq_false, Bool.false_eq_true, if_false] at this
    rw [List.filter_eq_self.mpr] at this
    · exact this
    · intro a ha
      simp only [bne_iff_ne, ne_eq]
      intro e; subst e; exact hnd.1 ha
  · rw [del_keys]; exact List.Pairwise.filter _ h2

theorem Popped.requeue {s : State} {it : Item} {tp : List Item} (h : Popped s it tp)
    (it' : Item) (hk : it'.key = it.key) : LoopInv s (tp ++ [it']) := by
  obtain ⟨h1, h2, h3⟩ := h
  refine ⟨?_, h2, h3⟩
  refine List.Perm.trans ?_ h1
  rw [← List.append_assoc, List.map_append, List.map_cons, List.map_nil, hk]
  exact List.perm_append_singleton _ _

/-- what the loop guarantees about its result, relative to its arguments -/
structure LoopSpec (s : State) (tp : List Item) (o : ScanOut)
    (r : State × List Item × ScanOut) : Prop where
  inv : LoopInv r.1 r.2.1
  now : r.1.now = s.now
  activeT : r.1.activeT = s.activeT
  inactiveT : r.1.inactiveT = s.inactiveT
  cb : ∀ p ∈ r.2.2.callbacks, p ∈ o.callbacks ∨
    (p.2.ready = true ∧ ∃ it ∈ s.pq.toList, it.key = p.1 ∧ Due s.now it)
  fut : 0 < s.activeT → 0 < s.inactiveT → (∀ it ∈ tp, Fut s.now it) → r.2.2.failed = false →
    (∀ it ∈ r.2.1, Fut s.now it) ∧ (∀ it ∈ r.1.pq.toList, Fut s.now it)

theorem fut_iff_deadline (now : Nat) (it : Item) : Fut now it ↔ now < it.deadline := by
  unfold Fut Item.deadline
  split <;> omega

theorem LoopSpec.stop {s : State} {tp : List Item} {o : ScanOut} (hinv : LoopInv s tp)
    (hq : ∀ it ∈ s.pq.toList, Fut s.now it) : LoopSpec s tp o (s, tp, o) where
  inv := hinv
  now := rfl
  activeT := rfl
  inactiveT := rfl
  cb := fun _ hp => Or.inl hp
  fut := fun _ _ htp _ => ⟨htp, hq⟩

theorem LoopSpec.step {s s' : State} {tp tp' : List Item} {o o' : ScanOut}
    {r : State × List Item × ScanOut} (h : LoopSpec s' tp' o' r)
    (hnow : s'.now = s.now) (hA : s'.activeT = s.activeT) (hI : s'.inactiveT = s.inactiveT)
    (hpq : ∀ it ∈ s'.pq.toList, it ∈ s.pq.toList)
    (hcb : ∀ p ∈ o'.callbacks, p ∈ o.callbacks ∨
      (p.2.ready = true ∧ ∃ it ∈ s.pq.toList, it.key = p.1 ∧ Due s.now it))
    (htp : 0 < s.activeT → 0 < s.inactiveT → (∀ it ∈ tp, Fut s.now it) →
      ∀ it ∈ tp', Fut s.now it) :
    LoopSpec s tp o r where
  inv := h.inv
  now := h.now.trans hnow
  activeT := h.activeT.trans hA
  inactiveT := h.inactiveT.trans hI
  cb := by
    intro p hp
    rcases h.cb p hp with h1 | ⟨h1, it, hit, hk, hd⟩
    · exact hcb p h1
    · exact Or.inr ⟨h1, it, hpq it hit, hk, hnow ▸ hd⟩
  fut := by
    intro h1 h2 h3 h4
    have := h.fut (hA ▸ h1) (hI ▸ h2) (hnow ▸ htp h1 h2 h3) h4
    rw [hnow] at this
    exact this

theorem pop_facts {s : State} {tp : List Item} {it : Item} {pq' : Array Item}
    (hinv : LoopInv s tp) (hp : Heap.pop Item.deadline s.pq = some (it, pq'))
    (hdue : ¬(s.pq[0]!.active > s.now ∧ s.pq[0]!.inactive > s.now)) :
    it ∈ s.pq.toList ∧ Due s.now it ∧ (∀ x ∈ pq'.toList, x ∈ s.pq.toList) ∧
      pq'.size + 1 = s.pq.size := by
  have hperm := Heap.pop_perm Item.deadline hp
  have htop := (Heap.pop_ordered Item.deadline hinv.2.2 hp).2.2
  refine ⟨hperm.mem_iff.mpr List.mem_cons_self, ?_,
    fun x hx => hperm.mem_iff.mpr (List.mem_cons_of_mem _ hx), Heap.pop_size Item.deadline hp⟩
  rw [← htop] at hdue
  unfold Due; omega

theorem ite_set_pq (c : Bool) (s : State) (k : Nat) (a : AggRec) :
    (if c = true then s.set k a else s).pq = s.pq := by split <;> simp
theorem ite_set_now (c : Bool) (s : State) (k : Nat) (a : AggRec) :
    (if c = true then s.set k a else s).now = s.now := by split <;> simp
theorem ite_set_activeT (c : Bool) (s : State) (k : Nat) (a : AggRec) :
    (if c = true then s.set k a else s).activeT = s.activeT := by split <;> simp
theorem ite_set_inactiveT (c : Bool) (s : State) (k : Nat) (a : AggRec) :
    (if c = true then s.set k a else s).inactiveT = s.inactiveT := by split <;> simp
theorem Popped.ite_set {s : State} {it : Item} {tp : List Item} (h : Popped s it tp) (c : Bool)
    (a : AggRec) : Popped (if c = true then s.set it.key a else s) it tp := by
  split
  · exact h.set a
  · exact h

theorem mem_append_singleton_imp {α : Type} {P : α → Prop} {l : List α} {x : α}
    (hl : ∀ y ∈ l, P y) (hx : P x) : ∀ y ∈ l ++ [x], P y := by
  intro y hy
  rcases List.mem_append.mp hy with h | h
  · exact hl y h
  · rw [List.mem_singleton.mp h]; exact hx

theorem scanLoop_spec (fail : Nat → Bool) (ra : Bool) (fuel : Nat) (s : State) (tp : List Item)
    (o : ScanOut) (hinv : LoopInv s tp) (hsz : s.pq.size < fuel) :
    LoopSpec s tp o (scanLoop fail ra fuel s tp o) := by
  fun_induction scanLoop fail ra fuel s tp o with
  | case1 s tp o => exact absurd hsz (Nat.not_lt_zero _)
  | case2 fuel s tp o h0 =>
    apply LoopSpec.stop hinv
    intro it hit
    have := List.length_pos_of_mem hit
    rw [Array.length_toList] at this
    omega
  | case3 fuel s tp o h0 top htop =>
    apply LoopSpec.stop hinv
    intro it hit
    have hmin := Heap.ordered_root_min Item.deadline hinv.2.2 it hit
    have : Fut s.now s.pq[0]! := htop
    rw [fut_iff_deadline] at this ⊢
    omega
  | case4 fuel s tp o h0 top hdue hpop =>
    exact absurd ((Heap.pop_none_iff Item.deadline _).mp hpop) h0
  | case5 fuel s tp o h0 top hdue it pq' hpop s1 hfind ih =>
    exact absurd hfind (hinv.pop hpop).find
  | case6 fuel s tp o h0 top hdue it pq' hpop s1 a hfind hnr a' hret ih =>
    have hP : Popped s1 it tp := hinv.pop hpop
    obtain ⟨hmem, hd, hsub, hsize⟩ := pop_facts hinv hpop hdue
    exact (ih hP.del (show pq'.size < fuel by omega)).step rfl rfl rfl hsub
      (fun p hp => Or.inl hp) (fun _ _ h => h)
  | case7 fuel s tp o h0 top hdue it pq' hpop s1 a hfind hnr a' hret ih =>
    have hP : Popped s1 it tp := hinv.pop hpop
    obtain ⟨hmem, hd, hsub, hsize⟩ := pop_facts hinv hpop hdue
    refine (ih ((hP.set a').requeue _ rfl) ?_).step (set_now _ _ _) (set_activeT _ _ _)
      (set_inactiveT _ _ _) ?_ (fun p hp => Or.inl hp) ?_
    · rw [set_pq]; show pq'.size < fuel; omega
    · rw [set_pq]; exact hsub
    · intro hA hI h
      apply mem_append_singleton_imp h
      show s.now < s.now + s.activeT ∧ s.now < s.now + s.inactiveT
      omega
  | case8 fuel s tp o h0 top hdue it pq' hpop s1 a hfind hr hfail =>
    have hP : Popped s1 it tp := hinv.pop hpop
    obtain ⟨hmem, hd, hsub, hsize⟩ := pop_facts hinv hpop hdue
    refine ⟨hP.requeue it rfl, rfl, rfl, rfl, ?_, ?_⟩
    · intro p hp
      rcases List.mem_append.mp hp with h | h
      · exact Or.inl h
      · rw [List.mem_singleton.mp h]
        exact Or.inr ⟨by simpa using hr, it, hmem, rfl, hd⟩
    · intro _ _ _ hf
      cases hf
  | case9 fuel s tp o h0 top hdue it pq' hpop s1 a hfind hr hfail o1 s2 hin ih =>
    have hP : Popped s1 it tp := hinv.pop hpop
    obtain ⟨hmem, hd, hsub, hsize⟩ := pop_facts hinv hpop hdue
    have hP2 : Popped s2 it tp := hP.ite_set ra _
    have hpq2 : s2.pq = pq' := ite_set_pq ra _ _ _
    refine (ih hP2.del ?_).step (ite_set_now ra _ _ _) (ite_set_activeT ra _ _ _)
      (ite_set_inactiveT ra _ _ _) ?_ ?_ (fun _ _ h => h)
    · show s2.pq.size < fuel; rw [hpq2]; omega
    · show ∀ x ∈ s2.pq.toList, _; rw [hpq2]; exact hsub
    · intro p hp
      rcases List.mem_append.mp hp with h | h
      · exact Or.inl h
      · rw [List.mem_singleton.mp h]
        exact Or.inr ⟨by simpa using hr, it, hmem, rfl, hd⟩
  | case10 fuel s tp o h0 top hdue it pq' hpop s1 a hfind hr hfail o1 s2 hin ih =>
    have hP : Popped s1 it tp := hinv.pop hpop
    obtain ⟨hmem, hd, hsub, hsize⟩ := pop_facts hinv hpop hdue
    have hP2 : Popped s2 it tp := hP.ite_set ra _
    have hpq2 : s2.pq = pq' := ite_set_pq ra _ _ _
    have hnow2 : s2.now = s.now := ite_set_now ra _ _ _
    have hA2 : s2.activeT = s.activeT := ite_set_activeT ra _ _ _
    refine (ih (hP2.requeue _ rfl) ?_).step hnow2 hA2
      (ite_set_inactiveT ra _ _ _) ?_ ?_ ?_
    · rw [hpq2]; omega
    · rw [hpq2]; exact hsub
    · intro p hp
      rcases List.mem_append.mp hp with h | h
      · exact Or.inl h
      · rw [List.mem_singleton.mp h]
        exact Or.inr ⟨by simpa using hr, it, hmem, rfl, hd⟩
    · intro hA hI h
      apply mem_append_singleton_imp h
      show s.now < s2.now + s2.activeT ∧ s.now < it.inactive
      rw [hnow2, hA2]
      rw [hnow2] at hin
      omega

theorem foldl_push_spec (tp : List Item) (q : Array Item) (ho : Heap.Ordered Item.deadline q) :
    (tp.foldl (fun q it => Heap.push Item.deadline q it) q).toList.Perm (q.toList ++ tp) ∧
      Heap.Ordered Item.deadline (tp.foldl (fun q it => Heap.push Item.deadline q it) q) := by
  induction tp generalizing q with
  | nil => simpa using ho
  | cons x tp ih =>
    obtain ⟨h1, h2⟩ := ih (Heap.push Item.deadline q x) (Heap.push_ordered Item.deadline ho x)
    refine ⟨?_, h2⟩
    refine h1.trans ?_
    refine ((Heap.push_perm Item.deadline q x).append_right tp).trans ?_
    exact List.perm_middle.symm

theorem scan_fst (s : State) (fail : Nat → Bool) (ra : Bool) :
    (scan s fail ra).1 =
      { (scanLoop fail ra (s.pq.size + 1) s [] {}).1 with
        pq := (scanLoop fail ra (s.pq.size + 1) s [] {}).2.1.foldl
          (fun q it => Heap.push Item.deadline q it) (scanLoop fail ra (s.pq.size + 1) s [] {}).1.pq } :=
  rfl

theorem scan_snd (s : State) (fail : Nat → Bool) (ra : Bool) :
    (scan s fail ra).2 = (scanLoop fail ra (s.pq.size + 1) s [] {}).2.2 := rfl

theorem Sched.loopInv {s : State} (h : Sched s) : LoopInv s [] := by
  unfold LoopInv; rw [List.append_nil]; exact h

theorem scan_spec (s : State) (fail : Nat → Bool) (ra : Bool) (h : Sched s) :
    LoopSpec s [] {} (scanLoop fail ra (s.pq.size + 1) s [] {}) :=
  scanLoop_spec fail ra _ s [] {} h.loopInv (Nat.lt_succ_self _)

theorem sched_scan (s : State) (fail : Nat → Bool) (resetAfter : Bool) (h : Sched s) :
    Sched (scan s fail resetAfter).1 := by
  have hs := scan_spec s fail resetAfter h
  rw [scan_fst]
  generalize scanLoop fail resetAfter (s.pq.size + 1) s [] {} = r at hs
  obtain ⟨h1, h2, h3⟩ := hs.inv
  obtain ⟨f1, f2⟩ := foldl_push_spec r.2.1 r.1.pq h3
  exact ⟨(f1.map _).trans h1, h2, f2⟩

/-- one operation on the aggregation process (`record` is the arrival of a record; a constructor
cannot be called `rec`, that name is taken by the recursor `Op.rec`) -/
inductive Op
  | record (r : InRec)
  | adv (d : Nat)
  | scan (fail : List Nat) (resetAfter : Bool)

def step (s : State) : Op → State
  | .record r => ingest s r
  | .adv d => { s with now := s.now + d }
  | .scan f ra => (scan s (fun k => f.contains k) ra).1

theorem sched_step (s : State) (op : Op) (h : Sched s) : Sched (step s op) := by
  cases op with
  | record r => exact sched_ingest s r h
  | adv d => exact sched_advance s d h
  | scan f ra => exact sched_scan s _ ra h

theorem sched_foldl (ops : List Op) (s : State) (h : Sched s) : Sched (ops.foldl step s) := by
  induction ops generalizing s with
  | nil => exact h
  | cons op ops ih => exact ih _ (sched_step s op h)

theorem sched_reachable (a i : Nat) (ops : List Op) :
    Sched (ops.foldl step { activeT := a, inactiveT := i }) :=
  sched_foldl ops _ (sched_init a i)

/-- after a scan that was not aborted, with positive timeouts, every queued deadline is in the
future -/
theorem after_scan_future (s : State) (fail : Nat → Bool) (ra : Bool) (h : Sched s)
    (hA : 0 < s.activeT) (hI : 0 < s.inactiveT) (hok : (scan s fail ra).2.failed = false) :
    ∀ it ∈ (scan s fail ra).1.pq.toList, s.now < it.active ∧ s.now < it.inactive := by
  have hs := scan_spec s fail ra h
  rw [scan_snd] at hok
  rw [scan_fst]
  generalize scanLoop fail ra (s.pq.size + 1) s [] {} = r at hs hok
  obtain ⟨g1, g2⟩ := hs.fut hA hI (fun _ hx => absurd hx List.not_mem_nil) hok
  obtain ⟨f1, _⟩ := foldl_push_spec r.2.1 r.1.pq hs.inv.2.2
  intro it hit
  rcases List.mem_append.mp (f1.mem_iff.mp hit) with hm | hm
  · exact g2 it hm
  · exact g1 it hm

/-- the callback is only ever invoked on a queued item that is due and whose flow is ready -/
theorem callback_due_ready (s : State) (fail : Nat → Bool) (ra : Bool) (h : Sched s) :
    ∀ p ∈ (scan s fail ra).2.callbacks, p.2.ready = true ∧
      ∃ it ∈ s.pq.toList, it.key = p.1 ∧ (it.active ≤ s.now ∨ it.inactive ≤ s.now) := by
  have hs := scan_spec s fail ra h
  rw [scan_snd]
  intro p hp
  rcases hs.cb p hp with h1 | h1
  · exact absurd h1 List.not_mem_nil
  · exact h1

end Ipfix.Agg
